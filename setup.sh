#!/bin/sh
# Build the framework from files on disk only (offline).  Run once after a fresh restore.
set -e
cd "$(dirname "$0")"
mkdir -p work evidence replays
cp -f /repo/Cargo.lock harness/Cargo.lock
cd harness
CARGO_NET_OFFLINE=true cargo build --release --offline --bins 2>&1 | tail -3
