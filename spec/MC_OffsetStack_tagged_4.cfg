SPECIFICATION Spec
CONSTANTS
  P = 4
  Tagged = TRUE
  BumpHook = TRUE
  NB = 5
  InitFree <- MCInitFree
  Threads <- MCThreads
  Prog <- MCProg
VIEW view
INVARIANT ExclusiveOwnership ListWellFormed NoLoss
CHECK_DEADLOCK FALSE
