SPECIFICATION Spec
CONSTANTS
  Vals = {"a","b","c"}
  L = 6
CONSTRAINT Bound
INVARIANT Emit
CHECK_DEADLOCK FALSE
