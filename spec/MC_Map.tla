------------------------------- MODULE MC_Map -------------------------------
(* Bounded model of the Map contract: all operations over Keys x Vals.          *)
(* Checks the algebraic laws a user of a map relies on, on every reachable      *)
(* state, and (MC_MapGen) generates every operation history up to length L      *)
(* with the result TLC computed for every operation (binding B2).               *)
EXTENDS Map, TLC

CONSTANTS Keys, Vals

Next ==
    \/ \E k \in Keys, v \in Vals : Insert(k, v, Lookup(k))
    \/ \E k \in Keys : Remove(k, Lookup(k))
    \/ \E k \in Keys, v \in Vals : GetMut(k, v, Lookup(k))
    \/ \E k \in Keys, v \in Vals : Put(k, v)
    \/ Clear

Spec == MapInit /\ [][Next]_m

TypeInv == TypeOK(Keys, Vals)
(* laws, as action properties *)
InsertThenGet == [][\A k \in Keys : (k \in DOMAIN m' /\ k \notin DOMAIN m) => Cardinality(DOMAIN m') = Cardinality(DOMAIN m) + 1]_m
LenBound == Cardinality(DOMAIN m) <= Cardinality(Keys)
OnlyOneKeyChanges == [][\/ m' = Empty
                         \/ Cardinality({k \in Keys : Lookup(k) /= (IF k \in DOMAIN m' THEN Some(m'[k]) ELSE None)}) <= 1]_m
=============================================================================
