------------------------------- MODULE MC_Map -------------------------------
(* Bounded model of the Map contract: all operations over Keys x Vals.          *)
(* Checks the algebraic laws a user of a map relies on, on every reachable      *)
(* state, and (MC_MapGen) generates every operation history up to length L      *)
(* with the result TLC computed for every operation (binding B2).               *)
EXTENDS Map, TLC

CONSTANTS Keys, Vals

Next ==
    \/ \E k \in Keys, v \in Vals : Insert(k, v, Lookup(k))
    \/ \E k \in Keys : Remove(k, Lookup(k))
    \/ \E k \in Keys, v \in Vals : GetMut(k, v, Lookup(k))
    \/ \E k \in Keys, v \in Vals : Put(k, v)
    \/ Clear

Spec == MapInit /\ [][Next]_m

TypeInv == TypeOK(Keys, Vals)
(* laws, as action properties *)
InsertThenGet == [][\A k \in Keys : (k \in DOMAIN m' /\ k \notin DOMAIN m) => Cardinality(DOMAIN m') = Cardinality(DOMAIN m) + 1]_m
LenBound == Cardinality(DOMAIN m) <= Cardinality(Keys)
OnlyOneKeyChanges == [][\/ m' = Empty
                         \/ Cardinality({k \in Keys : Lookup(k) /= (IF k \in DOMAIN m' THEN Some(m'[k]) ELSE None)}) <= 1]_m

(* ---- the operations outside the property's list (MC_MapX.cfg): batches, retain,      *)
(* get_or_insert.  Laws: a batch equals its single insertions in order; retain only      *)
(* removes; a batch only adds.                                                            *)
Batches == UNION { [1..n -> Keys \X Vals] : n \in 0..2 }
NextX ==
    \/ Next
    \/ \E kv \in Batches : Extend(kv)
    \/ \E S \in SUBSET Keys : RetainCore(LAMBDA k, v : k \in S, LAMBDA v : v)
    \/ \E v \in Vals : RetainCore(LAMBDA k, x : x = v, LAMBDA x : x)
    \/ \E k \in Keys, v \in Vals, w \in Vals : GetOrInsert(k, v, w, IF k \in DOMAIN m THEN m[k] ELSE v)
SpecX == MapInit /\ [][NextX]_m
ApplySeq(f, kv) == IF Len(kv) = 0 THEN f
                   ELSE IF Len(kv) = 1 THEN [x \in DOMAIN f \cup {kv[1][1]} |-> IF x = kv[1][1] THEN kv[1][2] ELSE f[x]]
                   ELSE LET g == [x \in DOMAIN f \cup {kv[1][1]} |-> IF x = kv[1][1] THEN kv[1][2] ELSE f[x]]
                        IN [x \in DOMAIN g \cup {kv[2][1]} |-> IF x = kv[2][1] THEN kv[2][2] ELSE g[x]]
BatchIsSequence == \A kv \in Batches : UpdAll(kv) = ApplySeq(m, kv)
RetainOnlyRemoves == \A S \in SUBSET Keys :
    LET r == [k \in { x \in DOMAIN m : x \in S } |-> m[k]] IN DOMAIN r \subseteq DOMAIN m /\ \A k \in DOMAIN r : r[k] = m[k]
ValuesOfEnumeration == \A r \in [1..Cardinality(DOMAIN m) -> Pairs] :
    IsEnumeration(r) => /\ Len(r) = Cardinality(DOMAIN m)
                        /\ \A x \in Vals : CountIn([i \in 1..Len(r) |-> r[i][2]], x) = Cardinality({ k \in DOMAIN m : m[k] = x })
=============================================================================
