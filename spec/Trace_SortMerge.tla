-------------------------- MODULE Trace_SortMerge --------------------------
(* Trace specification of property C11: replays the recorded calls of the real    *)
(* zipora sorts, merges and set operations through the contract predicates of     *)
(* SortMerge.tla / SetOps.tla, one batch event = one step, dispatching on e.op.   *)
(*                                                                                *)
(* reset     {subject, fam, variant, ...configuration of the subject...}          *)
(* sort      {kt, ord, ok, in, out}             in-place or returning sort          *)
(* sort_kv   {kt, ord, ok, stable, in, out}     elements are [key, value]           *)
(* merge     {kt, ord, ok, runs, out}           merge of sorted runs                *)
(* merge_kv  {kt, ord, ok, stable, runs, out}   runs of [key, value]                *)
(* setop     {name, kt, a, b, out}              two sorted sequences (SetOps!SetOp2)*)
(* unique    {kt, a, n, out}                    set_unique: new length, prefix      *)
(* ksetop    {name, kt, ok, runs, out, m, r}    k sorted sequences (SetOperations)  *)
(* peekpop   {kt, ord, ok, runs, peeks, last_peek, out}   loser tree: peek before every pop *)
(* compare   {a, b, ok, out}    element-wise three-way comparison of two i32 slices            *)
(* argmin    {a, r}             first minimum of an i32 slice as an option [[index, value]]     *)
(* sort_big  {ok, len_in, len_out, bag_in, bag_out, inv}       large regime:        *)
(* merge_big {ok, runs_inv, len_in, len_out, bag_in, bag_out, inv}  projections     *)
(* panic {in, msg, ...}  crash {in, sig, ...}   no action: rejected                 *)
EXTENDS SetOps, TraceIO, Known_SortMerge

VARIABLES l, subj, kf

vars == <<l, subj, kf>>

TraceInit == l = 1 /\ subj = [subject |-> "none"] /\ kf = {}

Step(e) ==
    \/ e.op = "sort"      /\ SortOK(e.kt, e.ord, e.ok, e.in, e.out)
    \/ e.op = "sort_kv"   /\ SortKvOK(e.kt, e.ord, e.ok, e.stable, e.in, e.out)
    \/ e.op = "merge"     /\ MergeOK(e.kt, e.ord, e.ok, e.runs, e.out)
    \/ e.op = "merge_kv"  /\ MergeKvOK(e.kt, e.ord, e.ok, e.stable, e.runs, e.out)
    \/ e.op = "setop"     /\ SetOp2OK(e.name, e.kt, e.a, e.b, e.out)
    \/ e.op = "unique"    /\ UniqueOK(e.kt, e.a, e.n, e.out)
    \/ e.op = "ksetop"    /\ KSetOpOK(e.name, e.kt, e.ok, e.runs, e.out, e.m, e.r)
    \/ e.op = "peekpop"   /\ PeekPopOK(e.kt, e.ord, e.ok, e.runs, e.peeks, e.last_peek, e.out)
    \/ e.op = "compare"   /\ CompareOK(e.a, e.b, e.ok, e.out)
    \/ e.op = "argmin"    /\ ArgMinOK(e.a, e.r)
    \/ e.op = "sort_big"  /\ BigOK(e.ok, e.len_in, e.len_out, e.bag_in, e.bag_out, e.inv)
    \/ e.op = "merge_big" /\ BigMergeOK(e.ok, e.runs_inv, e.len_in, e.len_out, e.bag_in, e.bag_out, e.inv)

TraceNext ==
    /\ l <= Len(Rec)
    /\ l' = l + 1
    /\ LET e == Rec[l] IN
       IF e.op = "reset"
       THEN subj' = e /\ kf' = kf
       ELSE /\ subj' = subj
            /\ IF UseKF /\ \E id \in KnownIds : DevApplies(id, e, subj)
               THEN \E id \in KnownIds : KnownDeviation(id, e, subj) /\ kf' = kf \cup {id}
               ELSE Step(e) /\ kf' = kf

TraceSpec == TraceInit /\ [][TraceNext]_vars

(* reported only on a path that consumed the whole trace *)
Done == l = Len(Rec) + 1 => PrintT(<<"KFSET", kf>>)
=============================================================================
