--------------------------- MODULE Trace_LruLin ---------------------------
(* Trace specification for LRU maps driven by SEVERAL caller threads at once (multi-threaded    *)
(* stress, no schedule control): every call is logged by its thread with an invocation stamp   *)
(* and a response stamp taken from one global atomic counter.  The history is accepted iff it  *)
(* is LINEARIZABLE with respect to Lru.tla: the calls can be put in a total order that respects *)
(* real time (a call that returned before another was invoked comes first) such that every     *)
(* call, with the result and the eviction-callback log it really had, is a step of the         *)
(* contract.  TLC searches the orders; one record is consumed per step, so the depth of the    *)
(* search reaches Len(Rec) + 1 exactly when every run of the file has a linearization.         *)
(* A run = reset record (carrying nops) followed by its nops call records in any order.        *)
(* The shard of a call is not observable under concurrency: it is existentially chosen,        *)
(* consistent with the one-shard-per-key knowledge gathered so far (hash sharding).            *)
EXTENDS Lru, TraceIO

VARIABLES base,    \* index of the reset record of the current run (0 before the first)
          done,    \* indices of the call records of the current run already linearized
          lost,    \* KF mode only: the abstract state of this run is no longer known (see C17-KF7)
          subj, kf

vars == <<lru, loc, last, base, done, lost, subj, kf>>

LinInit == /\ LruInit(1, 1) /\ base = 0 /\ done = {} /\ lost = FALSE /\ subj = [subject |-> "none", nops |-> 0] /\ kf = {}

Pending == ((base + 1)..(base + subj.nops)) \ done

(* i may be linearized now: no other pending call had already returned when i was invoked *)
CanLin(i) == \A j \in Pending \ {i} : ~(Rec[j].res < Rec[i].inv)

Call(e) ==
    \/ e.op = "put" /\ e.ok /\ \E s \in Shards : Put(s, e.k, e.v, e.r, e.ev)
    \/ e.op = "put" /\ ~e.ok /\ PutRefused(e.k, e.v, e.ev)
    \/ e.op = "get" /\ e.ev = <<>> /\ \E s \in Shards : Get(s, e.k, e.r)
    \/ e.op = "remove" /\ \E s \in Shards : Remove(s, e.k, e.r, e.ev)
    \/ e.op = "contains" /\ e.ev = <<>> /\ \E s \in Shards : Contains(s, e.k, e.r)
    \* len() reads a counter that put updates twice (eviction, then insertion): while other calls are in flight it is
    \* a snapshot, judged against the capacity bound only (the property promises "at most the configured number")
    \/ e.op = "len" /\ e.ev = <<>> /\ e.r <= Cardinality(Shards) * lru[1].cap /\ UNCHANGED <<lru, loc, last>>

(* a call that had not returned when the run was cut (its thread hangs): it may have taken effect, *)
(* with whatever result, at any time after its invocation - or not at all                         *)
PendingCall(e) ==
    \/ UNCHANGED <<lru, loc, last>>
    \/ e.op = "put" /\ \E s \in Shards : Put(s, e.k, e.v, LPut(lru[s], e.k, e.v).r, LPut(lru[s], e.k, e.v).ev)
    \/ e.op = "get" /\ \E s \in Shards : Get(s, e.k, LGet(lru[s], e.k).r)
    \/ e.op = "remove" /\ \E s \in Shards : Remove(s, e.k, LRemove(lru[s], e.k).r, <<>>)

(* C17-KF6 (known finding, consulted in KF mode only): callers of one LruMap block each other for  *)
(* good.  put over an existing key takes the index lock and then the node lock; evict_lru (put of  *)
(* a new key into a full map) takes the node lock and then the index lock.  The record "hang" says *)
(* that no call completed for 60 s while the listed calls were in flight.  Trigger: at least two   *)
(* calls are stuck and one of them is a put.  The strict contract has no action for "hang".        *)
\* both findings are FIXED in /repo (39242c4): their deviations are disabled, a recurrence is a VIOLATION
LinKnownIds == {}
G6(e) == "C17-KF6" \in LinKnownIds /\ subj.domain = "lrulin" /\ e.op = "hang" /\ Len(e.stuck) >= 2 /\ "put" \in SeqRange(e.stuck)
KF6(e) == G6(e) /\ UNCHANGED <<lru, loc, last>>

(* C17-KF7 (known finding, consulted in KF mode only): the calls of LruMap are not atomic - get,  *)
(* put and remove look the key up, release the index lock and act later - so callers that really *)
(* overlap in time can see results no linearization explains (a put over a key that another put   *)
(* inserts meanwhile answers "new key" and evicts that very entry, ...).  Deviation: a completed   *)
(* call that OVERLAPS IN REAL TIME with a put/remove/hung call of another thread may be           *)
(* unexplained; from there on the abstract state of the run is unknown and the rest of the run is *)
(* consumed unjudged.  A call that overlaps no mutating call of another thread is never excused.  *)
RunRecs == (base + 1)..(base + subj.nops)
Mutating(j) == Rec[j].op \in {"put", "remove", "hang"}
Overlap(i, j) == Rec[i].t /= Rec[j].t /\ ~(Rec[j].res < Rec[i].inv) /\ ~(Rec[i].res < Rec[j].inv)
G7(i) == /\ "C17-KF7" \in LinKnownIds /\ subj.domain = "lrulin" /\ subj.threads > 1 /\ Rec[i].op /= "hang" /\ ~Rec[i].pending
         /\ \E j \in RunRecs \ {i} : Rec[j].op /= "hang" /\ Mutating(j) /\ Overlap(i, j)

LinNext ==
    \/ /\ Pending /= {} /\ ~lost
       /\ \E i \in Pending :
            /\ CanLin(i) /\ done' = done \cup {i}
            /\ IF Rec[i].op = "hang"
               THEN UseKF /\ KF6(Rec[i]) /\ kf' = kf \cup {"C17-KF6"} /\ lost' = lost
               ELSE \/ (IF Rec[i].pending THEN PendingCall(Rec[i]) ELSE Call(Rec[i])) /\ kf' = kf /\ lost' = lost
                    \/ UseKF /\ G7(i) /\ kf' = kf \cup {"C17-KF7"} /\ lost' = TRUE /\ UNCHANGED <<lru, loc, last>>
       /\ UNCHANGED <<base, subj>>
    \/ /\ Pending /= {} /\ lost         \* after an unexplained concurrent call: the rest of the run, in file order, unjudged
       /\ LET i == CHOOSE x \in Pending : \A y \in Pending : x <= y IN
          /\ done' = done \cup {i}
          /\ kf' = IF Rec[i].op = "hang" THEN kf \cup {"C17-KF6"} ELSE kf
       /\ UNCHANGED <<lru, loc, last, base, subj, lost>>
    \/ /\ Pending = {}
       /\ base + subj.nops + 1 <= Len(Rec)
       /\ LET e == Rec[base + subj.nops + 1] IN
          /\ e.op = "reset"
          /\ lru' = [s \in 1..e.shards |-> LNew(e.cap)] /\ loc' = EmptyFn /\ last' = NoCall
          /\ base' = base + subj.nops + 1 /\ done' = {} /\ lost' = FALSE /\ subj' = e /\ kf' = kf

TraceSpec == LinInit /\ [][LinNext]_vars

Done == (Pending = {} /\ base + subj.nops = Len(Rec)) => PrintT(<<"KFSET", kf>>)
=============================================================================
