SPECIFICATION TraceSpec
INVARIANT Done CapacityInv CallbackExactlyOnce NeverCallbackForRetrievable
POSTCONDITION Accepted
CHECK_DEADLOCK FALSE
