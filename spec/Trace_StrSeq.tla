--------------------------- MODULE Trace_StrSeq ---------------------------
(* Trace specification: replays a recorded execution of a real zipora string vector  *)
(* through the actions of StrSeq.tla, one event = one action.                        *)
EXTENDS StrSeq, TraceIO, Known_StrSeq

VARIABLES l, subj, kf

vars == <<strs, mode, l, subj, kf>>

TraceInit == StrInit /\ l = 1 /\ subj = [subject |-> "none"] /\ kf = {}

(* a construction that was refused leaves no object to observe *)
Step(e) == IF e.op = "build" /\ ~e.ok THEN BuildRefused(e.o) ELSE TransS(e) /\ PostS(e)

TraceNext ==
    /\ l <= Len(Rec)
    /\ l' = l + 1
    /\ LET e == Rec[l] IN
       IF e.op = "reset"
       THEN strs' = (1 :> <<>>) /\ mode' = (1 :> "none") /\ subj' = e /\ kf' = kf
       ELSE /\ subj' = subj
            /\ IF UseKF /\ \E id \in KnownIds : DevApplies(id, e, subj)
               THEN \E id \in KnownIds : KnownDeviation(id, e, subj) /\ kf' = kf \cup {id}
               ELSE Step(e) /\ kf' = kf

TraceSpec == TraceInit /\ [][TraceNext]_vars

(* reported only on a path that consumed the whole trace *)
Done == l = Len(Rec) + 1 => PrintT(<<"KFSET", kf>>)
=============================================================================
