--------------------------- MODULE Trace_Kernels ---------------------------
(* Trace specification of property C14: replays the recorded answers of the real *)
(* accelerated kernels of zipora through the contract of Kernels.tla, one batch  *)
(* event = one step.  The contract is stateless (every kernel is a function of   *)
(* its arguments); TLC recomputes the DEFINITION for the logged inputs and       *)
(* compares it with the logged result.                                           *)
(*                                                                               *)
(* reset {subject, fam, variant, tier}  starts the run of one subject            *)
(* <op>  {…inputs…, r, np, pl}           np / pl: at how many / which placements  *)
(*                                      (alignment of source / destination,      *)
(*                                      "g" = ending at a PROT_NONE guard page)  *)
(*                                      this very answer was obtained            *)
(* signal {in, sig, …}                  the call crashed its process: no action  *)
(* panic  {in, msg}                     no action                                *)
EXTENDS Kernels, TraceIO, Known_Kernels

VARIABLES l, subj, kf

vars == <<l, subj, kf>>

TraceInit == l = 1 /\ subj = [subject |-> "none"] /\ kf = {}

Step(e) == EventOK(e)

TraceNext ==
    /\ l <= Len(Rec)
    /\ l' = l + 1
    /\ LET e == Rec[l] IN
       IF e.op = "reset"
       THEN subj' = e /\ kf' = kf
       ELSE /\ subj' = subj
            /\ IF UseKF /\ \E id \in KnownIds : DevApplies(id, e, subj)
               THEN \E id \in KnownIds : KnownDeviation(id, e, subj) /\ kf' = kf \cup {id}
               ELSE Step(e) /\ kf' = kf

TraceSpec == TraceInit /\ [][TraceNext]_vars

(* reported only on a path that consumed the whole trace *)
Done == l = Len(Rec) + 1 => PrintT(<<"KFSET", kf>>)
=============================================================================
