SPECIFICATION Spec
CONSTANTS
  Alphabet = {0, 127, 128, 255}
  MaxLen = 5
INVARIANT CompareLaws CompareMutLaw SearchLaws HistogramLaws CopyFillLaws CrcLaws
INVARIANT ContractAcceptsDefined ContractRejectsCorrupted
CHECK_DEADLOCK FALSE
