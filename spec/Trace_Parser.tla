---------------------------- MODULE Trace_Parser ----------------------------
(* Trace specification of C15: replays the batches recorded by harness bin c15        *)
(* (every descriptor of one kind applied to one valid encoding of one parser, each    *)
(* case executed in a child process) through the contract of Parser.tla.              *)
(* A run = one parser (reset.parser); the validation subject (reset.subject) is the   *)
(* family of the parser, so that a family with known findings is re-validated once.   *)
EXTENDS Parser, TraceIO, Known_Parser

VARIABLES l, subj, kf

vars == <<tally, l, subj, kf>>

TraceInit == TallyInit /\ l = 1 /\ subj = [subject |-> "none"] /\ kf = {}

ParOfEvent(e) == [win |-> subj.win, combo |-> e.combo, raw |-> subj.raw]

Step(e) ==
    /\ e.op = "parse"
    /\ e.parser = subj.parser
    /\ ParseBatch(e, ParOfEvent(e))

TraceNext ==
    /\ l <= Len(Rec)
    /\ l' = l + 1
    /\ LET e == Rec[l] IN
       IF e.op = "reset"
       THEN tally' = [ok |-> 0, err |-> 0, batches |-> 0] /\ subj' = e /\ kf' = kf
       ELSE /\ subj' = subj
            /\ IF UseKF /\ DevApplies(e, subj)
               THEN KnownBatch(e, subj, ParOfEvent(e)) /\ e.parser = subj.parser /\ kf' = kf \cup DevIds(e, subj)
               ELSE Step(e) /\ kf' = kf

TraceSpec == TraceInit /\ [][TraceNext]_vars

(* reported only on a path that consumed the whole trace *)
Done == l = Len(Rec) + 1 => PrintT(<<"KFSET", kf>>)
=============================================================================
