----------------------------- MODULE Trace_Lru -----------------------------
(* Trace specification: replays a recorded execution of a real zipora LruMap /          *)
(* ConcurrentLruMap / FsaCache through the actions of Lru.tla, one event = one action.  *)
EXTENDS Lru, TraceIO, Known_Lru

VARIABLES l, subj, kf,
          bst,     \* FsaCache as a bounded store: id -> <<child_base, parent, terminal>>
          zp       \* FsaCache zero-path data: id -> path bytes

vars == <<lru, loc, last, bst, zp, l, subj, kf>>

TraceInit == /\ LruInit(1, 1) /\ bst = EmptyFn /\ zp = EmptyFn
             /\ l = 1 /\ subj = [subject |-> "none"] /\ kf = {}

N == Cardinality(Shards)

(* the shard of an event: observed, else the known location of the key, else the known   *)
(* location of the entry it evicted; {} = unknown                                         *)
ShardFor(e) ==
    IF N = 1 THEN {1}
    ELSE IF Cand(e) /= {} THEN Cand(e)
    ELSE IF e.k \in DOMAIN loc THEN {loc[e.k]}
    ELSE IF e.op = "put" /\ e.ev /= <<>> /\ e.ev[1][1] \in DOMAIN loc THEN {loc[e.ev[1][1]]}
    ELSE {}
One(e) == Cardinality(ShardFor(e)) = 1
Sh(e) == CHOOSE s \in ShardFor(e) : TRUE

(* callback log of a put: observed when the subject has a recording callback *)
EvPut(e, s) == IF subj.has_cb THEN e.ev ELSE LPut(lru[s], e.k, e.v).ev
EvSeen(e) == IF subj.has_cb THEN e.ev ELSE <<>>

SizesAfter(e) == HasF(e, "sz1") => (Len(e.sz1) = N /\ \A s \in Shards : e.sz1[s] = Len(lru'[s].order))
SizesSame(e) == HasF(e, "sz1") => e.sz0 = e.sz1

LruStep(e) ==
    \/ /\ e.op = "put" /\ e.ok /\ One(e)
       /\ Put(Sh(e), e.k, e.v, e.r, EvPut(e, Sh(e)))
       /\ SizesAfter(e)
    \/ e.op = "put" /\ ~e.ok /\ PutRefused(e.k, e.v, EvSeen(e)) /\ SizesSame(e)
    \/ e.op = "get" /\ One(e) /\ Get(Sh(e), e.k, e.r) /\ EvSeen(e) = <<>> /\ SizesSame(e)
    \/ /\ e.op = "get" /\ ShardFor(e) = {}
       /\ e.r = None /\ AbsentEverywhere(e.k) /\ EvSeen(e) = <<>> /\ UNCHANGED <<lru, loc, last>>
    \/ e.op = "remove" /\ One(e) /\ Remove(Sh(e), e.k, e.r, EvSeen(e)) /\ SizesAfter(e)
    \/ /\ e.op = "remove" /\ ShardFor(e) = {}
       /\ e.r = None /\ AbsentEverywhere(e.k) /\ EvSeen(e) = <<>> /\ UNCHANGED <<lru, loc, last>>
    \/ e.op = "contains" /\ One(e) /\ Contains(Sh(e), e.k, e.r) /\ SizesSame(e)
    \/ /\ e.op = "contains" /\ ShardFor(e) = {}
       /\ e.r = FALSE /\ AbsentEverywhere(e.k) /\ UNCHANGED <<lru, loc, last>>
    \/ e.op = "len" /\ Len_(e.r)
    \/ /\ e.op = "probe"     \* contains_key of every key of the universe, and len: no recency change
       /\ \A i \in 1..Len(e.c) : e.c[i][2] = (\E s \in Shards : LHas(lru[s], e.c[i][1]))
       /\ Len_(e.len)
    \/ e.op = "capacity" /\ e.r = N * lru[1].cap /\ UNCHANGED <<lru, loc, last>>
    \/ e.op = "is_empty" /\ IsEmpty_(e.r)
    \/ e.op = "keys" /\ Keys_(e.r)
    \/ e.op = "for_each_shard" /\ e.ok /\ ForEachShard(e.k, e.hits, e.lens)
    \/ e.op = "for_each_shard" /\ ~e.ok /\ Maintenance
    \/ e.op = "rebalance" /\ Maintenance
    \/ e.op = "clear" /\ e.ok /\ Clear(EvSeen(e))
    \/ e.op = "clear" /\ ~e.ok /\ UNCHANGED <<lru, loc, last>>

(* ---- FsaCache: bounded id-keyed store ---- *)
Rec3(x) == <<x[2], x[3], x[4]>>
LiveIds(live) == { live[i][1] : i \in 1..Len(live) }
FsaStep(e) ==
    \/ /\ e.op = "cache_state" /\ e.ok
       /\ BCacheState(bst, subj.max, <<e.cb, e.p, e.t>>, e.id, LiveIds(e.live))
       /\ NoDup([i \in 1..Len(e.live) |-> e.live[i][1]])
       /\ bst' = BAfter(bst, <<e.cb, e.p, e.t>>, e.id, LiveIds(e.live))
       /\ \A i \in 1..Len(e.live) : Rec3(e.live[i]) = bst'[e.live[i][1]]
       /\ zp' = ZpKeep(zp, LiveIds(e.live) \ {e.id})       \* the new state starts without a zero path
    \/ e.op = "cache_state" /\ ~e.ok /\ UNCHANGED <<bst, zp>>
    \/ e.op = "get_state" /\ BGet(bst, e.id, e.r) /\ UNCHANGED <<bst, zp>>
    \/ /\ e.op = "remove_state"
       /\ e.r = (e.id \in DOMAIN bst)
       /\ bst' = [i \in DOMAIN bst \ {e.id} |-> bst[i]]
       /\ zp' = ZpKeep(zp, DOMAIN bst \ {e.id})
    \/ e.op = "fsa_clear" /\ bst' = EmptyFn /\ zp' = EmptyFn
    \/ e.op = "is_full" /\ (e.r => Cardinality(DOMAIN bst) >= subj.max) /\ UNCHANGED <<bst, zp>>
    \/ /\ e.op = "fsa_probe"     \* every id ever issued: get_state / get_zero_path answer exactly the store
       /\ \A i \in 1..Len(e.g) : BGet(bst, e.g[i][1], e.g[i][2]) /\ BGet(zp, e.g[i][1], e.g[i][3])
       /\ UNCHANGED <<bst, zp>>
    \* add_zero_path(id, segments) -> Ok only for a live state; get_zero_path returns the concatenation
    \/ /\ e.op = "add_zero_path" /\ e.ok
       /\ e.id \in DOMAIN bst
       /\ zp' = ZpSet(zp, e.id, Concat(e.segs)) /\ UNCHANGED bst
    \/ e.op = "add_zero_path" /\ ~e.ok /\ UNCHANGED <<bst, zp>>
    \/ /\ e.op = "get_zero_path" /\ BGet(zp, e.id, e.r)
       /\ (e.r /= None => e.total = Len(e.r[1]))
       /\ UNCHANGED <<bst, zp>>
    \* CachedState value helpers: new / parent / is_terminal / is_free / mark_free / mark_used
    \/ /\ e.op = "cstate"
       /\ e.got = <<e.cb, e.p, e.t, e.f>>
       /\ e.marked = <<e.cb, e.p, e.t, TRUE>> /\ e.unmarked = <<e.cb, e.p, e.t, FALSE>>
       /\ UNCHANGED <<bst, zp>>

Step(e) ==
    IF subj.domain = "fsa"
    THEN FsaStep(e) /\ UNCHANGED <<lru, loc, last>>
    ELSE LruStep(e) /\ UNCHANGED <<bst, zp>>

(* a call the contract accepts (refusal rule) but that is the visible effect of a recorded defect:  *)
(* C17-KF4 - put is refused (Err, nothing changed) although some shard has room: LruMap::clear  *)
(* rebuilds the free-node list from the nodes that were in use only, so every node that was     *)
(* free at the time of a clear() is lost and the usable capacity shrinks for good.              *)
Notes(e) ==
    IF subj.domain = "lru" /\ e.op = "put" /\ ~e.ok /\ FALSE \in { LFull(lru[s]) : s \in Shards }
    THEN {"C17-KF4"} ELSE {}

ResetTo(e) ==
    /\ IF e.domain = "lru" /\ e.constructed
       THEN lru' = [s \in 1..e.shards |-> LNew(e.cap)]
       ELSE lru' = [s \in 1..1 |-> LNew(1)]
    /\ loc' = EmptyFn /\ last' = NoCall /\ bst' = EmptyFn /\ zp' = EmptyFn

TraceNext ==
    /\ l <= Len(Rec)
    /\ l' = l + 1
    /\ LET e == Rec[l] IN
       IF e.op = "reset"
       THEN ResetTo(e) /\ subj' = e /\ kf' = kf
       ELSE /\ subj' = subj
            /\ IF UseKF /\ \E id \in KnownIds : DevApplies(id, e, subj)
               THEN \E id \in KnownIds : KnownDeviation(id, e, subj) /\ kf' = kf \cup {id} /\ UNCHANGED <<bst, zp>>
               ELSE Step(e) /\ kf' = kf \cup Notes(e)

TraceSpec == TraceInit /\ [][TraceNext]_vars

(* reported only on a path that consumed the whole trace *)
Done == l = Len(Rec) + 1 => PrintT(<<"KFSET", kf>>)
=============================================================================
