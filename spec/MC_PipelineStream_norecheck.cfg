SPECIFICATION Spec
CONSTANTS
  N = 4
  Max = 2
  Variant = "no_recheck"
  Mode = "seq"
INVARIANT NoDup NoLoss OrderKept SizeBound Conforms EndOk
CHECK_DEADLOCK FALSE
