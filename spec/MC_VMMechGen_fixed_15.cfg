SPECIFICATION Spec
CONSTANTS
  P = 15
  Fixed = TRUE
  OneWriterMode = TRUE
  Threads <- MCThreads
  Prog <- MCProg
INVARIANT Emit
CHECK_DEADLOCK FALSE
