-------------------------- MODULE Known_PackedSeq --------------------------
(* Named deviation actions for the recorded known findings of property C09       *)
(* (see /verif/known_findings.json).  A deviation is enabled only for the listed *)
(* subject family and only under its semantic trigger, stated over               *)
(*   - the input class recorded in the reset event (subj.d: length n, bit length *)
(*     bw of max-min, ubw of the range of the 64-bit patterns, maxbits of the     *)
(*     largest pattern, element size, block/sample widths, and for IntVec the     *)
(*     order-compressed ranks urk of the 64-bit patterns), and                    *)
(*   - the shape of the wrong result.                                             *)
(* The trace specification records the ids taken in the variable kf.              *)
(* All of them are written like the code they describe (sampling stride etc.).    *)
EXTENDS PackedSeq, TLC

(* All eleven findings C09-KF1 .. C09-KF11 have been repaired in /repo (status "fixed" in               *)
(* known_findings.json): KnownIds is empty, no deviation is ever consulted, and the guards below are    *)
(* kept only as the record of what each finding looked like.  A new finding gets a NEW id and guard.    *)
KnownIds == {}

HasD(subj) == "d" \in DOMAIN subj
Fam(subj, F) == subj.fam \in F

(* ---- "reads deliver values of the right shape but wrong content; out-of-range reads are still refused" ---- *)
WrongReadback(e) ==
    /\ e.op = "readback" /\ built
    /\ e.n = Len(seq) /\ Len(e.out) = Len(seq) /\ e.out # seq
WrongReadback2(e) ==
    /\ e.op = "readback2" /\ built
    /\ Len(e.out) = (IF Len(seq) = 0 THEN 0 ELSE Len(seq) - 1)
    /\ \E i \in 1..Len(e.out) : e.out[i] # <<seq[i], seq[i + 1]>>
WrongBlocks(e) ==
    /\ e.op = "readblocks" /\ built /\ e.bs > 0
    /\ e.nb = NBlocks(e.bs) /\ Len(e.out) = e.nb * e.bs
    /\ SubSeq(e.out, 1, Len(seq)) # seq
(* an in-range single read that delivered a value (possibly a wrong one) *)
InsideValue(p) ==
    \/ p.k \in {"get", "fast_get"} /\ InRange(p.i, Len(seq)) /\ p.how = "value" /\ Len(p.r) = 1
    \/ p.k = "get2" /\ InRange2(p.i, Len(seq)) /\ p.how = "value" /\ Len(p.r) = 1
    \/ p.k = "get_block" /\ InRange(p.i, NBlocks(p.bs)) /\ p.ok /\ Len(p.out) >= p.bs
WrongProbes(e, panicOK) ==
    /\ e.op = "probes" /\ built
    /\ \A k \in 1..Len(e.g) : ProbeOK(e.g[k], panicOK) \/ InsideValue(e.g[k])
    /\ \E k \in 1..Len(e.g) : ~ProbeOK(e.g[k], panicOK)
WrongValues(e, panicOK) == WrongReadback(e) \/ WrongReadback2(e) \/ WrongBlocks(e) \/ WrongProbes(e, panicOK)

(* ======================= IntVec<T> (src/containers/specialized/int_vec.rs) ======================= *)
N(subj) == subj.d.n
(* from_slice: the "small dataset" analysis is used for <= 10000 elements or <= 16 KiB of input *)
SmallPath(subj) == N(subj) <= 10000 \/ (N(subj) * subj.d.tbytes) \div 1024 <= 16
(* fast_sorted_check / analyze_delta_bulk look at every Stride-th element only *)
Stride(subj) == IF N(subj) \div 16 > 1 THEN N(subj) \div 16 ELSE 1
USorted(subj) == \A i \in 1..(N(subj) - 1) : subj.d.urk[i] <= subj.d.urk[i + 1]
SSorted(subj) == \A k \in 1..((N(subj) - 1) \div Stride(subj)) :
                     subj.d.urk[(k - 1) * Stride(subj) + 1] <= subj.d.urk[k * Stride(subj) + 1]
LastSample(subj) == ((N(subj) - 1) \div Stride(subj)) * Stride(subj)        \* 0-based index
IsIntVec(subj) == HasD(subj) /\ Fam(subj, {"intvec"}) /\ N(subj) >= 4

(* C09-KF1: fast_sorted_check samples every (len/16)-th element; an input that is sorted on the    *)
(* samples but not sorted is delta-encoded with wrapped differences: wrong values.                  *)
G1(e, subj) == IsIntVec(subj) /\ SmallPath(subj) /\ SSorted(subj) /\ ~USorted(subj) /\ WrongValues(e, FALSE)
(* C09-KF2: analyze_delta_bulk derives the delta width from the sampled strides only; the elements  *)
(* after the last sample are not covered: a large step there is truncated.  Everything up to the    *)
(* last sampled element is still right.                                                             *)
G2(e, subj) == /\ IsIntVec(subj) /\ SmallPath(subj) /\ USorted(subj)
               /\ LastSample(subj) < N(subj) - 1
               /\ WrongValues(e, FALSE)
               /\ e.op = "readback" => \A i \in 1..(LastSample(subj) + 1) : e.out[i] = seq[i]
(* C09-KF3: for > 1000 unsorted elements with a range wider than 16 bits the small-dataset analysis *)
(* picks BlockBased with offset_width = min(width, 8) and sample_width = 4: values are truncated.   *)
G3(e, subj) == /\ IsIntVec(subj) /\ SmallPath(subj) /\ ~SSorted(subj)
               /\ N(subj) > 1000 /\ subj.d.ubw > 16
               /\ WrongValues(e, FALSE)
(* C09-KF4: read_bits loads 8 bytes only: a field of 58..63 bits that starts inside a byte loses    *)
(* its top bits (MinMax strategy: <= 1000 elements on the small path, or the large path).            *)
G4(e, subj) == /\ IsIntVec(subj) /\ subj.d.ubw \in 58..63
               /\ \/ SmallPath(subj) /\ ~SSorted(subj) /\ N(subj) <= 1000
                  \/ ~SmallPath(subj)
               /\ WrongValues(e, FALSE)

(* ======================= UintVecMin0 / ZipIntVec ======================= *)
IsMin0(subj) == HasD(subj) /\ Fam(subj, {"uvm0", "zipint"})
(* bits per element the container needs for this input *)
NeedBits(subj) == IF subj.variant = "push" THEN subj.d.maxbits ELSE subj.d.bw
(* C09-KF5: resize_with_uintbits computes mask = (1 << bits) - 1, which is 0 for bits = 64; every   *)
(* set() then panics "Value .. exceeds max 0".  build_from_i32 reaches 64 bits by computing          *)
(* max - min in i32 (overflow) for ranges of 2^31 or more.  Construction panics: no container.       *)
G5(e, subj) == /\ IsMin0(subj)
               /\ e.op = "panic" /\ e.in \in {"build", "push"}
               /\ e.msgk = "Value N exceeds max N"
               /\ \/ NeedBits(subj) = 64
                  \/ subj.fam = "uvm0" /\ subj.variant = "i32" /\ subj.d.bw = 32
(* C09-KF6: get / get2 assert bits <= 58 ("Use BigUintVecMin0", a type that does not exist): a      *)
(* vector whose values need 59..63 bits can be built but not read.                                   *)
G6(e, subj) == /\ IsMin0(subj)
               /\ e.op = "panic" /\ e.in \in {"readback", "readback2"}
               /\ e.msgk = "Use BigUintVecMinN for >N bits"
               /\ NeedBits(subj) \in 59..64
(* C09-KF7: ZipIntVec::build_from_* panics for a constant input at the type's maximum              *)
(* (min_val + 1 wraps) and for inputs reaching usize::MAX (min_val + uintmask wraps in set()).       *)
G7(e, subj) == /\ HasD(subj) /\ Fam(subj, {"zipint"})
               /\ e.op = "panic" /\ e.in = "build"
               /\ \/ e.msgk = "min_val must be less than max_val" /\ subj.d.bw = 0 /\ subj.d.n > 0
                     /\ subj.d.maxbits = (IF subj.variant = "u32" THEN 32 ELSE 64)
                  \/ e.msgk = "Value N exceeds maximum N" /\ subj.d.maxbits = 64
(* C09-KF8: fast_get computes bits * idx without overflow check: a huge index wraps into the        *)
(* buffer and a value comes back.  All other probes of the event are as the contract says.          *)
FarValue(p) == p.k = "fast_get" /\ FarIdx(p.i) /\ p.bits > 0 /\ p.how = "value"
G8(e, subj) == /\ IsMin0(subj)
               /\ e.op = "probes" /\ built
               /\ \A k \in 1..Len(e.g) : ProbeOK(e.g[k], TRUE) \/ FarValue(e.g[k])
               /\ \E k \in 1..Len(e.g) : FarValue(e.g[k])
(* C09-KF9: get2(usize::MAX): the bounds check idx + 1 < size wraps, the read is far outside the    *)
(* buffer: the process dies (witness executed in a child process).                                   *)
G9(e, subj) == /\ IsMin0(subj)
               /\ e.op = "get2" /\ e.how = "crash" /\ e.i = <<65535, 65535, 65535, 65535>>

(* ======================= SortedUintVec (src/blob_store/sorted_uint_vec.rs) ======================= *)
IsSorted(subj) == HasD(subj) /\ Fam(subj, {"sorted"})
(* C09-KF10: the block base value is masked to sample_width bits without a check: every value of a  *)
(* block whose first value needs more bits comes back truncated.                                     *)
G10(e, subj) == IsSorted(subj) /\ subj.d.maxbits > subj.d.sw /\ WrongValues(e, FALSE)
(* C09-KF11: store_bits / extract_bits work in one 64-bit window: a sample_width of 58..63 bits      *)
(* (accepted by validate()) loses bits and overwrites the neighbouring sample.                       *)
G11(e, subj) == IsSorted(subj) /\ subj.d.sw \in 58..63 /\ WrongValues(e, FALSE)

(* guard (state predicate) of each deviation.  In KF mode a deviation whose guard holds REPLACES    *)
(* the contract action for that event.                                                               *)
DevApplies(id, e, subj) ==
    \/ id = "C09-KF1" /\ G1(e, subj)
    \/ id = "C09-KF2" /\ G2(e, subj)
    \/ id = "C09-KF3" /\ G3(e, subj)
    \/ id = "C09-KF4" /\ G4(e, subj)
    \/ id = "C09-KF5" /\ G5(e, subj)
    \/ id = "C09-KF6" /\ G6(e, subj)
    \/ id = "C09-KF7" /\ G7(e, subj)
    \/ id = "C09-KF8" /\ G8(e, subj)
    \/ id = "C09-KF9" /\ G9(e, subj)
    \/ id = "C09-KF10" /\ G10(e, subj)
    \/ id = "C09-KF11" /\ G11(e, subj)
(* effect: a panic during construction leaves no container; everything else changes nothing *)
KnownDeviation(id, e, subj) ==
    /\ DevApplies(id, e, subj)
    /\ IF e.op = "panic" /\ e.in = "build"
       THEN seq' = <<>> /\ built' = FALSE
       ELSE UNCHANGED pvars
=============================================================================
