SPECIFICATION Spec
CONSTANTS
  Alphabet = {0, 65, 127, 128, 143, 144, 159, 160, 191, 192, 194, 224, 237, 240, 244, 245}
  MaxLen = 4
INVARIANT Utf8Laws
CHECK_DEADLOCK FALSE
