SPECIFICATION Spec
CONSTANTS
  P = 11
  Fixed = TRUE
  OneWriterMode = FALSE
  Threads <- MCThreads
  Prog <- MCProg
VIEW view
INVARIANT MinNotAboveLive CountsMatch
CHECK_DEADLOCK FALSE
