--------------------------- MODULE MC_PackedSeqGen ---------------------------
(* Behaviour generator (binding B2): every history of L successful push / set     *)
(* operations over the abstract values Vals (a < b < c, concretised per subject by *)
(* the harness), starting from an empty container; each step is annotated with the *)
(* content AFTER the step as computed by this specification.  The harness executes *)
(* every history on the incrementally built subjects and compares the complete     *)
(* read-back after every step with `st` for equality.                              *)
EXTENDS PackedSeq, TLC, Json

CONSTANTS Vals, L
VARIABLE hist

Log(op, i, v) == hist' = Append(hist, [op |-> op, i |-> i, v |-> v, st |-> seq'])

Next ==
    \/ \E v \in Vals : Push(v, TRUE) /\ Log("push", Len(seq), v)
    \/ \E i \in 0..(Len(seq) - 1), v \in Vals : Set(Limbs(i), v, TRUE) /\ seq[i + 1] # v /\ Log("set", i, v)

Init == seq = <<>> /\ built = TRUE /\ hist = <<>>
Spec == Init /\ [][Next]_<<seq, built, hist>>

Bound == Len(hist) <= L
Emit == Len(hist) = L => PrintT(<<"REPLAY", ToJson(hist)>>)
=============================================================================
