----------------------------- MODULE Trace_Map -----------------------------
(* Trace specification: replays a recorded execution of a real zipora map        *)
(* through the actions of Map.tla, one event = one action.                       *)
EXTENDS Map, TraceIO, Known_Map

VARIABLES l, subj, kf,
          dels,      \* ghost: successful removes since the last clear / compaction (bound for IterFast)
          big        \* ghost: the map has held more than 8 entries since its last clear (guard of C06-KF2)

vars == <<m, l, subj, kf, dels, big>>
Ghost == [dels |-> dels, big |-> big]

TraceInit == m = Empty /\ l = 1 /\ subj = [subject |-> "none"] /\ kf = {} /\ dels = 0 /\ big = FALSE

(* the predicate of a retain event, named in the event: kmod = keep k unless k % a = b;   *)
(* vlt = keep values below a; all / none                                                   *)
Keep(e, k, v) == CASE e.pk = "kmod" -> (k % e.a) /= e.b
                   [] e.pk = "vlt"  -> v < e.a
                   [] e.pk = "all"  -> TRUE
                   [] e.pk = "none" -> FALSE
DelsNext(e) == IF e.op = "clear" \/ (e.op = "maintenance" /\ Has(e, "what") /\ e.what = "revoke_deleted") THEN 0
               ELSE IF e.op = "remove" /\ e.ok /\ e.r /= None THEN dels + 1
               ELSE dels

Step(e) ==
    \/ e.op = "insert"   /\ e.ok  /\ Insert(e.k, e.v, e.r)
    \/ e.op = "insert"   /\ ~e.ok /\ InsertRefused(e.k, e.v)
    \/ e.op = "get"      /\ Get(e.k, e.r)
    \/ e.op = "get_mut"  /\ GetMut(e.k, e.v, e.r)
    \/ e.op = "remove"   /\ e.ok  /\ Remove(e.k, e.r)
    \/ e.op = "remove"   /\ ~e.ok /\ UNCHANGED m
    \/ e.op = "contains" /\ Contains(e.k, e.r)
    \/ e.op = "len"      /\ Len_(e.r)
    \/ e.op = "iter"     /\ Iter(e.r)
    \/ e.op = "clear"    /\ Clear
    \/ e.op = "put"      /\ Put(e.k, e.v)
    \/ e.op = "maintenance" /\ Maintenance
    \/ e.op = "probe"    /\ Probe(e.get, e.len, e.has_iter, e.iter)
                         /\ (Has(e, "empty") => e.empty = (DOMAIN m = {}))
    \/ e.op = "is_empty" /\ IsEmpty(e.r)
    \/ e.op = "iter_fast" /\ IterFast(e.r, dels)
    \/ e.op = "insert_batch" /\ e.ok  /\ InsertBatch(e.kv)
    \/ e.op = "insert_batch" /\ ~e.ok /\ InsertBatchRefused(e.kv)
    \/ e.op = "get_batch" /\ GetBatch(e.ks, e.r)
    \/ e.op = "extend"   /\ Extend(e.kv)
    \/ e.op = "get_or_default" /\ GetOrDefault(e.k, e.d, e.r)
    \/ e.op = "get_or_insert" /\ e.ok /\ e.called = None /\ GetOrInsert(e.k, e.v, e.w, e.r)
    \/ e.op = "get_or_insert" /\ e.ok /\ e.called /= None /\ GetOrInsertWith(e.k, e.v, e.w, e.r, e.called[1])
    \/ e.op = "get_or_insert" /\ ~e.ok /\ GetOrInsertRefused
    \/ e.op = "retain"   /\ Retain(LAMBDA k, v : Keep(e, k, v), LAMBDA v : IF e.mut THEN v + 1 ELSE v, e.seen)
    \/ e.op = "keys"     /\ KeysOf(e.r)
    \/ e.op = "values"   /\ ValuesOf(e.r)
    \/ e.op = "clone"    /\ CloneSwap(e.eq)

TraceNext ==
    /\ l <= Len(Rec)
    /\ l' = l + 1
    /\ LET e == Rec[l] IN
       IF e.op = "reset"
       THEN m' = Empty /\ subj' = e /\ kf' = kf /\ dels' = 0 /\ big' = FALSE
       ELSE /\ subj' = subj
            /\ dels' = DelsNext(e)
            /\ IF UseKF /\ \E id \in KnownIds : DevApplies(id, e, subj, Ghost)
               THEN \E id \in KnownIds : KnownDeviation(id, e, subj, Ghost) /\ kf' = kf \cup {id}
               ELSE Step(e) /\ kf' = kf
            /\ big' = ((e.op /= "clear" /\ big) \/ Cardinality(DOMAIN m') > 8)

TraceSpec == TraceInit /\ [][TraceNext]_vars

(* reported only on a path that consumed the whole trace *)
Done == l = Len(Rec) + 1 => PrintT(<<"KFSET", kf>>)
=============================================================================
