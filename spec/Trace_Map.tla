----------------------------- MODULE Trace_Map -----------------------------
(* Trace specification: replays a recorded execution of a real zipora map        *)
(* through the actions of Map.tla, one event = one action.                       *)
EXTENDS Map, TraceIO, Known_Map

VARIABLES l, subj, kf

vars == <<m, l, subj, kf>>

TraceInit == m = Empty /\ l = 1 /\ subj = [subject |-> "none"] /\ kf = {}

Step(e) ==
    \/ e.op = "insert"   /\ e.ok  /\ Insert(e.k, e.v, e.r)
    \/ e.op = "insert"   /\ ~e.ok /\ InsertRefused(e.k, e.v)
    \/ e.op = "get"      /\ Get(e.k, e.r)
    \/ e.op = "get_mut"  /\ GetMut(e.k, e.v, e.r)
    \/ e.op = "remove"   /\ e.ok  /\ Remove(e.k, e.r)
    \/ e.op = "remove"   /\ ~e.ok /\ UNCHANGED m
    \/ e.op = "contains" /\ Contains(e.k, e.r)
    \/ e.op = "len"      /\ Len_(e.r)
    \/ e.op = "iter"     /\ Iter(e.r)
    \/ e.op = "clear"    /\ Clear
    \/ e.op = "put"      /\ Put(e.k, e.v)
    \/ e.op = "maintenance" /\ Maintenance
    \/ e.op = "probe"    /\ Probe(e.get, e.len, e.has_iter, e.iter)

TraceNext ==
    /\ l <= Len(Rec)
    /\ l' = l + 1
    /\ LET e == Rec[l] IN
       IF e.op = "reset"
       THEN m' = Empty /\ subj' = e /\ kf' = kf
       ELSE /\ subj' = subj
            /\ IF UseKF /\ \E id \in KnownIds : DevApplies(id, e, subj)
               THEN \E id \in KnownIds : KnownDeviation(id, e, subj) /\ kf' = kf \cup {id}
               ELSE Step(e) /\ kf' = kf

TraceSpec == TraceInit /\ [][TraceNext]_vars

(* reported only on a path that consumed the whole trace *)
Done == l = Len(Rec) + 1 => PrintT(<<"KFSET", kf>>)
=============================================================================
