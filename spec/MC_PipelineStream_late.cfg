SPECIFICATION Spec
CONSTANTS
  N = 4
  Max = 2
  Variant = "late_flush"
  Mode = "seq"
INVARIANT NoDup NoLoss OrderKept SizeBound Conforms EndOk
CHECK_DEADLOCK FALSE
