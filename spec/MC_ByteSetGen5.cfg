SPECIFICATION Spec
CONSTANTS
  NK = 5
  L = 5
CONSTRAINT Bound
INVARIANT Emit TableAgrees
CHECK_DEADLOCK FALSE
