SPECIFICATION TraceSpec
INVARIANT Done CapacityInv
POSTCONDITION Accepted
CHECK_DEADLOCK FALSE
