------------------------- MODULE Known_Compressor -------------------------
(* Named deviation actions for the recorded known findings of property C02          *)
(* (see /verif/known_findings.json).  A deviation is enabled only for the listed    *)
(* subject family / variant and only under its semantic trigger; in KF mode a       *)
(* deviation whose guard holds REPLACES the contract action for that event; the     *)
(* trace specification records the ids taken in the variable kf.                    *)
(* All deviations are read-only: the wrong behaviour is a wrong or missing answer.  *)
EXTENDS CompressorFraming, PaZipStream, TLC

KnownIds == {"C02-KF3", "C02-KF7", "C02-KF8"}

HasF(e, f) == f \in DOMAIN e

(* a decompress event of a frame that exists, fed back unchanged, whose answer the contract does not allow *)
BadDecompress(e) ==
    /\ e.op = "decompress"
    /\ created
    /\ e.id \in DOMAIN frames
    /\ e.frame = frames[e.id].f
    /\ ~DecompressAllowed(e.id, e.ok, e.y)
Current(e) == frames[e.id].ep = epoch

(* C02-KF1: RansCompressor stores the NORMALISED frequency table in the frame and decompress normalises *)
(* it again (Rans64Encoder::new is not idempotent on its own output): the decoder works with another table. *)
(* Also reached through HybridCompressor when rANS wins (tag byte 1).                                        *)
IsHybrid(e, subj) == \/ subj.fam \in {"factory", "direct"} /\ subj.variant = "hybrid"
                     \/ subj.fam = "selector" /\ frames[e.id].note.algo = "Hybrid"    \* select_best named Hybrid
G1(e, subj) == /\ BadDecompress(e) /\ Current(e)
               /\ \/ subj.fam \in {"factory", "direct"} /\ subj.variant = "rans"
                  \/ IsHybrid(e, subj) /\ frames[e.id].note.tag = <<1>>

(* C02-KF2: HybridCompressor marks "no algorithm shrank the data" with tag 0, the tag of its first         *)
(* algorithm (Huffman): the raw fallback frame (1 + len(x) bytes) is handed to the Huffman decoder.          *)
G2(e, subj) == /\ BadDecompress(e) /\ Current(e)
               /\ IsHybrid(e, subj)
               /\ frames[e.id].note.tag = <<0>>
               /\ frames[e.id].f.len = frames[e.id].x.len + 1

(* C02-KF3: AdaptiveCompressor / RealtimeCompressor frames carry no algorithm tag; after set_algorithm /   *)
(* set_mode to an identity decoder (NoCompressor) an earlier frame "decompresses" to the frame itself       *)
(* (or to the frame behind a one-byte marker).                                                               *)
G3(e, subj) == /\ BadDecompress(e) /\ ~Current(e)
               /\ e.ok
               /\ \/ subj.fam = "adaptive" /\ e.y = frames[e.id].f                 \* the frame itself
                  \/ subj.fam = "realtime" /\ e.y.len + 1 = frames[e.id].f.len     \* the frame behind its marker byte

(* C02-KF4: AdaptiveCompressor::compress(b"") panics in calculate_hash (data[0] of an empty slice).        *)
G4(e, subj) == /\ subj.fam = "adaptive"
               /\ e.op = "panic" /\ e.in = "compress" /\ e.cls = "empty"
               /\ e.msg = "index out of bounds: the len is 0 but the index is 0"

(* C02-KF5: RealtimeCompressor falls back to NoCompressor when the deadline has passed, without marking    *)
(* the frame: decompress hands the raw bytes to the mode's decoder.                                          *)
G5(e, subj) == /\ BadDecompress(e) /\ Current(e)
               /\ subj.fam = "realtime"
               /\ frames[e.id].note.fellback

(* C02-KF6: RealtimeCompressor created in UltraLowLatency mode keeps returning payloads below 64 bytes     *)
(* uncompressed after set_mode (compress_internal tests config.mode, set_mode does not update it).          *)
G6(e, subj) == /\ BadDecompress(e) /\ Current(e)
               /\ subj.fam = "realtime" /\ subj.mode = "ultra"
               /\ frames[e.id].ep > 0
               /\ frames[e.id].x.len < 64
               /\ frames[e.id].f = frames[e.id].x

(* C02-KF7: the inherent SimdLz77Compressor::compress / decompress (and X1..X8, the global functions) do   *)
(* not store literal bytes: decompress fabricates placeholder text.  Broken for every payload with a literal. *)
G7(e, subj) == /\ BadDecompress(e) /\ Current(e)
               /\ subj.fam = "simdlz77"
               /\ frames[e.id].x.len >= 1          \* the empty payload has no literal: it must round-trip
               /\ e.ok                             \* placeholder bytes come back, not an error

(* C02-KF8: PaZipCompressor with use_reference_encoding writes the reference byte encoding                  *)
(* (compress_record_reference) but decompress parses the legacy type-byte layout.                            *)
G8(e, subj) == /\ BadDecompress(e) /\ Current(e)
               /\ subj.fam = "pazip" /\ subj.preset \in {"reference", "reference_hash"}
               /\ frames[e.id].x.len >= 1

(* C02-KF9: decode_matches loops while 3 bits are available: 3..7 zero padding bits of the last byte are   *)
(* parsed as the start of a Literal match and the call fails.                                                *)
G9(e, subj) == /\ subj.fam = "pazipstream"
               /\ e.op = "codec" /\ e.api = "matches" /\ e.enc_ok /\ ~e.dec_ok
               /\ (8 - (e.bits_out % 8)) % 8 >= 3
               /\ e.err = "Invalid data: Not enough bits available in stream"

(* C02-KF10: Far3Long lengths of 34 + 32768 + 2^30 and more pass validate() but the long form holds 30     *)
(* bits: the length is silently reduced modulo 2^30.                                                         *)
Overlong(m) == m.k = "far3l" /\ m.len - 34 - 32768 >= 1073741824
G10(e, subj) == /\ subj.fam = "pazipstream"
                /\ e.op = "codec" /\ e.enc_ok
                /\ \E i \in 1..Len(e.ms) : Overlong(e.ms[i])
                /\ IF e.dec_ok
                   THEN /\ Len(e.dec) = Len(e.ms) /\ e.bits_in = e.bits_out
                        /\ \A i \in 1..Len(e.ms) :
                              IF Overlong(e.ms[i])
                              THEN e.dec[i] = [e.ms[i] EXCEPT !.len = 34 + 32768 + ((e.ms[i].len - 34 - 32768) % 1073741824)]
                              ELSE e.dec[i] = e.ms[i]
                   ELSE G9(e, subj)

(* C02-KF11: the legacy PA-Zip frame stores the dictionary position of a global match in 16 bits:           *)
(* with a dictionary larger than 64 KiB positions are truncated and other dictionary bytes come back.        *)
G11(e, subj) == /\ BadDecompress(e) /\ Current(e)
                /\ subj.fam = "pazip" /\ subj.preset \notin {"reference", "reference_hash"}
                /\ subj.train = "bigtext"
                /\ frames[e.id].note.globals > 0
                /\ e.ok /\ e.y.len = frames[e.id].x.len

(* C02-KF12: PaZipCompressor::decompress_match reads Far1Short with a 1-byte and Far2Short with a 2-byte    *)
(* distance, apply_compression_strategy writes 2 and 4 bytes (latent: the pinned compressor never emits      *)
(* local matches).                                                                                            *)
G12(e, subj) == /\ subj.fam = "pazipstream"
                /\ e.op = "apply" /\ e.impl = "pazip_legacy"
                /\ \E i \in 1..Len(e.ms) : e.ms[i].k \in {"far1s", "far2s"}
                /\ ~(e.ok => e.out = Proj(Apply(e.ms, e.lits, e.dict)))

(* C02-KF13: FseCompressor (PA-Zip FSE layer) returns other data for some payloads; with adaptive = false   *)
(* a reused object keeps the table of its first payload.  The defect is in entropy::fse (property C01).      *)
G13(e, subj) == /\ BadDecompress(e) /\ Current(e)
                /\ subj.fam = "fse"
                /\ e.ok /\ e.y.len = frames[e.id].x.len

LegacyPaZip(subj) == subj.fam = "pazip" /\ subj.preset \notin {"reference", "reference_hash"}

(* C02-KF14: PaZipCompressor::compress_parallel (enable_multithreading, inputs of 1 MiB and more) does not   *)
(* clear the internal output buffer between its 64 KiB blocks: block i is written together with all earlier    *)
(* blocks, the payload decompresses to a longer byte string.                                                   *)
G14(e, subj) == /\ BadDecompress(e) /\ Current(e)
                /\ LegacyPaZip(subj) /\ subj.preset # "realtime"
                /\ frames[e.id].x.len >= 1048576
                /\ e.ok /\ e.y.len > frames[e.id].x.len

(* C02-KF15: a global match is not cut to the 256-byte pattern limit (find_longest_match ignores max_length)  *)
(* and its length is stored as u16: a match of 65536 bytes or more loses 65536 * k bytes.                      *)
G15(e, subj) == /\ BadDecompress(e) /\ Current(e)
                /\ LegacyPaZip(subj)
                /\ frames[e.id].note.globals > 0
                /\ e.ok /\ e.y.len < frames[e.id].x.len
                /\ (frames[e.id].x.len - e.y.len) % 65536 = 0

(* C02-KF16: AdaptiveCompressor with AdaptiveConfig::evaluation_interval = 0 panics in maybe_adapt          *)
(* (count % evaluation_interval) on the first compress once min_operations is reached.                        *)
G16(e, subj) == /\ subj.fam = "adaptive" /\ subj.variant = "extremes-eval0"
                /\ e.op = "panic" /\ e.in = "compress"
                /\ e.msg = "attempt to calculate the remainder with a divisor of zero"

(* C02-KF17: ReferenceEncoder::encode_* check their operand ranges with debug_assert only: in a release      *)
(* build an operand outside the range of its kind is written truncated / wrapped and reads back as another    *)
(* match.  Only operands OUTSIDE the documented ranges; inside them the encoder must be exact.                *)
RefInRange(e) ==
    CASE e.kind = "rle"   -> e.len \in 2..33
      [] e.kind = "near"  -> e.d \in 2..9 /\ e.len \in 2..5
      [] e.kind = "far1s" -> e.d \in 2..257 /\ e.len \in 2..33
      [] e.kind = "far2s" -> e.d \in 258..65793 /\ e.len \in 2..33
      [] e.kind = "far2l" -> e.d \in 0..65535 /\ e.len >= 34
      [] e.kind = "far3l" -> e.d \in 0..16777215 /\ e.len >= 5
      [] e.kind = "glob"  -> e.pos \in 0..16777215 /\ e.len >= 6
      [] OTHER -> TRUE
G17(e, subj) == /\ subj.fam = "pazipmech" /\ subj.variant = "refenc"
                /\ e.op = "refenc" /\ e.ok /\ e.kind # "lit"
                /\ ~RefInRange(e)

DevApplies(id, e, subj) ==
    \/ id = "C02-KF1" /\ G1(e, subj)
    \/ id = "C02-KF2" /\ G2(e, subj)
    \/ id = "C02-KF3" /\ G3(e, subj)
    \/ id = "C02-KF4" /\ G4(e, subj)
    \/ id = "C02-KF5" /\ G5(e, subj)
    \/ id = "C02-KF6" /\ G6(e, subj)
    \/ id = "C02-KF7" /\ G7(e, subj)
    \/ id = "C02-KF8" /\ G8(e, subj)
    \/ id = "C02-KF9" /\ G9(e, subj) /\ ~G10(e, subj)
    \/ id = "C02-KF10" /\ G10(e, subj)
    \/ id = "C02-KF11" /\ G11(e, subj)
    \/ id = "C02-KF12" /\ G12(e, subj)
    \/ id = "C02-KF13" /\ G13(e, subj)
    \/ id = "C02-KF14" /\ G14(e, subj)
    \/ id = "C02-KF15" /\ G15(e, subj)
    \/ id = "C02-KF16" /\ G16(e, subj)
    \/ id = "C02-KF17" /\ G17(e, subj)

(* every deviation is a wrong or missing answer that leaves the abstract state alone *)
KnownDeviation(id, e, subj) == DevApplies(id, e, subj) /\ UNCHANGED fvars
=============================================================================
