---------------------------- MODULE Known_Codec ----------------------------
(* Named deviation actions for the recorded known findings of property C01        *)
(* (see /verif/known_findings.json).  A deviation is enabled only for the listed  *)
(* codec family / variant and only under its semantic trigger; the trace          *)
(* specification records the ids taken on an accepted path in the variable kf.    *)
(* In KF mode a deviation whose guard holds REPLACES the contract action.         *)
EXTENDS CodecSession, TLC

(* the two mechanism modules, instantiated for reading REAL tables: only their     *)
(* part-1 operators (pure functions of the logged sequences) are used here; the    *)
(* constants and variables of their bounded builders are irrelevant                *)
FN == INSTANCE FreqNorm WITH TOT <- 4096, MaxSyms <- 256, MaxCount <- 0, Variant <- "reserve",
                             f <- <<>>, nrm <- <<>>, rem <- 0, pc <- "done", i <- 0
PC == INSTANCE PrefixCode WITH HMaxSyms <- 256, HMaxCount <- 0, Strategy <- "any",
                               hf <- <<>>, forest <- {}, code <- <<>>, hpc <- "done"

(* C01-KF1 .. KF5 are recorded as FIXED in known_findings.json (their repairs are in /repo): their    *)
(* deviation actions stay below as documentation but are not consulted - a fixed finding that shows   *)
(* again is a violation.                                                                              *)
KnownIds == {}

Wrong(e) == e.ok /\ (e.y.len # enc[e.b].x.len \/ e.y.h # enc[e.b].x.h)

(* symbols of a logged table that own slots / that are present in its counts without a slot *)
SlotSyms(e) == { e.sym[i] : i \in { j \in 1..Len(e.sym) : e.norm[j] > 0 } }
StarvedSyms(e) == { e.sym[i] : i \in FN!Starved(e.freq, e.norm) }
OneSlotSyms(e) == { e.sym[i] : i \in { j \in 1..Len(e.sym) : e.norm[j] = 1 } }
(* byte values of the payload behind blob b, when the harness logged them *)
PayloadSyms(mech, b) == IF b \in DOMAIN mech.px THEN mech.px[b] ELSE {}

FseLike(subj) == subj.fam \in {"fse", "paradapt"}

(* C01-KF1: the FSE normalisers (fse.rs EntropyNormalizer::normalize_frequencies_entropy_     *)
(* preserving and FseTable::normalize_frequencies_simple) clamp every share to what remains of  *)
(* the table without reserving a slot for the symbols still to come: a present symbol late in   *)
(* the alphabet ends with 0 slots (MC_FreqNorm_clamp.cfg is the model).  The encoder then        *)
(* writes an escape byte pair the decoder knows nothing about: decoding "succeeds" with other    *)
(* bytes.  Three events carry the finding: (a) the starved table of the coder, (a') a starved    *)
(* result of the public normaliser, (b) the wrong payload of a decode whose payload CONTAINS a   *)
(* symbol TLC has seen starved in the coder's table - any other wrong decode is not explained.   *)
G1a(e, subj, mech) == /\ FseLike(subj) /\ e.op \in {"table", "norm"} /\ e.kind = "fse"
                      /\ Len(e.freq) = Len(e.norm)
                      /\ FN!Starved(e.freq, e.norm) # {}
                      /\ FN!SlotsFit(e.norm, e.total)
                      /\ (e.op = "table" => FN!StartsCumulative(e.start, e.norm))
G1b(e, subj, mech) == /\ FseLike(subj)
                      /\ e.op = "decode" /\ Matching(e.c, e.b, e.n) /\ Wrong(e)
                      /\ PayloadSyms(mech, e.b) \cap mech.starved # {}
KF1(e, subj, mech, mech2) ==
    /\ UNCHANGED csvars
    /\ mech2 = IF e.op = "table"
               THEN [mech EXCEPT !.slots = SlotSyms(e), !.starved = StarvedSyms(e), !.oneslot = OneSlotSyms(e), !.tables = @ + 1]
               ELSE IF e.op = "norm" THEN [mech EXCEPT !.tables = @ + 1] ELSE mech

(* C01-KF2: FseConfig::realtime() cannot decode what it encodes once the payload reaches 100     *)
(* bytes (shorter payloads are stored raw): the table is always built with 2^12 slots and the    *)
(* blob says so, the decoder copies that table_log into its config, and validate() refuses       *)
(* 4096 > max_table_size = 1024.                                                                 *)
G2(e, subj, mech) == /\ subj.fam = "fse" /\ subj.variant = "realtime"
                     /\ e.op = "decode" /\ Matching(e.c, e.b, e.n) /\ ~e.ok
                     /\ e.err = "Invalid parameter: Table size 4096 exceeds max 1024"
                     /\ enc[e.b].x.len >= 100
KF2(e, subj, mech, mech2) == UNCHANGED csvars /\ mech2 = mech

(* C01-KF3: OptimizedDictionaryCompressor finds its matches in the TRAINING text but emits them  *)
(* as back-references into the OUTPUT: unless the payload is (a prefix of) the training text the *)
(* decoder copies other bytes.  Trigger: the model was trained on data other than the payload.   *)
OtherModel(e) == enc[e.b].m.len # enc[e.b].x.len \/ enc[e.b].m.h # enc[e.b].x.h
G3(e, subj, mech) == /\ subj.fam = "odict"
                     /\ e.op = "decode" /\ Matching(e.c, e.b, e.n) /\ Wrong(e)
                     /\ OtherModel(e)
                     /\ e.y.len = enc[e.b].x.len
KF3(e, subj, mech, mech2) == UNCHANGED csvars /\ mech2 = mech

(* C01-KF4: the same compressor trained on the payload itself: when the rolling-hash lookup finds  *)
(* nothing it takes every entry of the range SuffixArray::search returns as an occurrence of the   *)
(* 3-byte pattern WITHOUT comparing it; SuffixArray::new builds wrong arrays for many texts        *)
(* (C12-KF1 / C12-KF2), the range then holds non-occurrences and the emitted back-reference copies *)
(* other bytes.  Trigger: model = payload, right length, other bytes.                              *)
(* Recorded as FIXED in known_findings.json: the SA-IS repair (/repo 1c07b24) removed the trigger; *)
(* a fixed entry suppresses nothing - if this deviation explains a run again, it is a violation.   *)
G4(e, subj, mech) == /\ subj.fam = "odict"
                     /\ e.op = "decode" /\ Matching(e.c, e.b, e.n) /\ Wrong(e)
                     /\ ~OtherModel(e)
                     /\ e.y.len = enc[e.b].x.len
KF4(e, subj, mech, mech2) == UNCHANGED csvars /\ mech2 = mech

(* C01-KF5: a NON-ADAPTIVE FSE encoder (FseConfig::realtime) keeps the table of its first compress *)
(* call; a later payload containing a byte without a slot in that table is not refused: the        *)
(* encoder writes 0xFF + literal into the rANS stream and returns Ok, the decoder returns other     *)
(* bytes.  Trigger: preset with adaptive = false, model trained on data other than the payload, a   *)
(* byte of the payload owns no slot in the table TLC saw after the training.                        *)
(* (On the pinned tree C01-KF2 hides it: the realtime decoder refuses every blob >= 100 bytes.)     *)
G5(e, subj, mech) == /\ subj.fam = "fse" /\ subj.variant = "realtime"
                     /\ e.op = "decode" /\ Matching(e.c, e.b, e.n) /\ Wrong(e)
                     /\ PayloadSyms(mech, e.b) \cap mech.starved = {}
                     /\ enc[e.b].m.trained /\ OtherModel(e)
                     /\ (PayloadSyms(mech, e.b) \ mech.slots) # {}        \* a payload byte without a slot in the kept table
KF5(e, subj, mech, mech2) == UNCHANGED csvars /\ mech2 = mech

(* C01-KF6: FseTable::mul_hi (the portable 64x64 -> high 64 multiplication used by encode_symbol)   *)
(* adds b_lo*a_hi + b_hi*a_lo + carry in a u64.  For a symbol with exactly ONE slot (reciprocal !0) *)
(* and a state >= 2^32 with a large low word the sum wraps: encode_symbol returns a state that      *)
(* decode_symbol does not map back; a payload that meets such a state decodes to other bytes.       *)
(* (a) the symbol-step law fails only for items with one slot and a state >= 2^32 (xh = state>>32); *)
(* (b) a wrong decode of a payload that contains a symbol with exactly one slot in the coder's      *)
(*     table (and no starved one).                                                                  *)
BadSteps(items) == { i \in 1..Len(items) : items[i].ok /\ (items[i].ds # items[i].s \/ items[i].dx # items[i].x) }
G6a(e, subj, mech) == /\ FseLike(subj) /\ e.op = "symsteps" /\ e.kind = "fse"
                      /\ BadSteps(e.items) # {}
                      /\ \A i \in BadSteps(e.items) : e.items[i].f = 1 /\ e.items[i].xh >= 1
G6b(e, subj, mech) == /\ FseLike(subj)
                      /\ e.op = "decode" /\ Matching(e.c, e.b, e.n) /\ Wrong(e)
                      /\ e.y.len = enc[e.b].x.len
                      /\ PayloadSyms(mech, e.b) \cap mech.oneslot # {}
                      /\ PayloadSyms(mech, e.b) \cap mech.starved = {}
                      /\ PayloadSyms(mech, e.b) \subseteq mech.slots
KF6(e, subj, mech, mech2) == UNCHANGED csvars /\ mech2 = mech

(* C01-KF7: FseEncoder::compress_parallel cuts the payload into len / block_size blocks without a  *)
(* limit; FseDecoder::decompress recognises a block container only for 2..64 blocks and otherwise    *)
(* parses the container as one stream: an error or other bytes.  Trigger: block-parallel subject,    *)
(* payload longer than 64 blocks (fse_par: 16 KiB blocks, fse_par1k: 1 KiB blocks).                  *)
BlockOf(subj) == IF subj.variant = "par" THEN 16384 ELSE 1024
G7(e, subj, mech) == /\ subj.fam = "fse" /\ subj.variant \in {"par", "par1k"}
                     /\ e.op = "decode" /\ Matching(e.c, e.b, e.n)
                     /\ (~e.ok \/ Wrong(e))
                     /\ enc[e.b].x.len > 64 * BlockOf(subj)
KF7(e, subj, mech, mech2) == UNCHANGED csvars /\ mech2 = mech

(* guard (state predicate) and action of each deviation; mech2 is the next value of the trace   *)
(* specification's mech variable                                                                 *)
DevApplies(id, e, subj, mech) ==
    \/ id = "C01-KF1" /\ (G1a(e, subj, mech) \/ G1b(e, subj, mech))
    \/ id = "C01-KF2" /\ G2(e, subj, mech)
    \/ id = "C01-KF3" /\ G3(e, subj, mech)
    \/ id = "C01-KF4" /\ G4(e, subj, mech)
    \/ id = "C01-KF5" /\ G5(e, subj, mech)
    \/ id = "C01-KF6" /\ (G6a(e, subj, mech) \/ G6b(e, subj, mech))
    \/ id = "C01-KF7" /\ G7(e, subj, mech)
KnownDeviation(id, e, subj, mech, mech2) ==
    \/ id = "C01-KF1" /\ KF1(e, subj, mech, mech2)
    \/ id = "C01-KF2" /\ KF2(e, subj, mech, mech2)
    \/ id = "C01-KF3" /\ KF3(e, subj, mech, mech2)
    \/ id = "C01-KF4" /\ KF4(e, subj, mech, mech2)
    \/ id = "C01-KF5" /\ KF5(e, subj, mech, mech2)
    \/ id = "C01-KF6" /\ KF6(e, subj, mech, mech2)
    \/ id = "C01-KF7" /\ KF7(e, subj, mech, mech2)
=============================================================================
