---------------------------- MODULE Known_Codec ----------------------------
(* Named deviation actions for the recorded known findings of property C01        *)
(* (see /verif/known_findings.json).  A deviation is enabled only for the listed  *)
(* codec family / variant and only under its semantic trigger; the trace          *)
(* specification records the ids taken on an accepted path in the variable kf.    *)
(* In KF mode a deviation whose guard holds REPLACES the contract action.         *)
EXTENDS CodecSession, TLC

(* the two mechanism modules, instantiated for reading REAL tables: only their     *)
(* part-1 operators (pure functions of the logged sequences) are used here; the    *)
(* constants and variables of their bounded builders are irrelevant                *)
FN == INSTANCE FreqNorm WITH TOT <- 4096, MaxSyms <- 256, MaxCount <- 0, Variant <- "reserve",
                             f <- <<>>, nrm <- <<>>, rem <- 0, pc <- "done", i <- 0
PC == INSTANCE PrefixCode WITH HMaxSyms <- 256, HMaxCount <- 0, Strategy <- "any",
                               hf <- <<>>, forest <- {}, code <- <<>>, hpc <- "done"

KnownIds == {}

DevApplies(id, e, subj, mech) == FALSE
KnownDeviation(id, e, subj, mech) == FALSE
=============================================================================
