---------------------------- MODULE Known_Codec ----------------------------
(* Named deviation actions for the recorded known findings of property C01        *)
(* (see /verif/known_findings.json).  A deviation is enabled only for the listed  *)
(* codec family / variant and only under its semantic trigger; the trace          *)
(* specification records the ids taken on an accepted path in the variable kf.    *)
(* In KF mode a deviation whose guard holds REPLACES the contract action.         *)
EXTENDS CodecSession, TLC

(* the two mechanism modules, instantiated for reading REAL tables: only their     *)
(* part-1 operators (pure functions of the logged sequences) are used here; the    *)
(* constants and variables of their bounded builders are irrelevant                *)
FN == INSTANCE FreqNorm WITH TOT <- 4096, MaxSyms <- 256, MaxCount <- 0, Variant <- "reserve",
                             f <- <<>>, nrm <- <<>>, rem <- 0, pc <- "done", i <- 0
PC == INSTANCE PrefixCode WITH HMaxSyms <- 256, HMaxCount <- 0, Strategy <- "any",
                               hf <- <<>>, forest <- {}, code <- <<>>, hpc <- "done"

KnownIds == {}

Wrong(e) == e.ok /\ (e.y.len # enc[e.b].x.len \/ e.y.h # enc[e.b].x.h)

(* C01-KF1: the FSE normalisers (fse.rs EntropyNormalizer::normalize_frequencies_entropy_     *)
(* preserving and FseTable::normalize_frequencies_simple) clamp every share to what remains of  *)
(* the table without reserving a slot for the symbols still to come: a present symbol late in   *)
(* the alphabet ends with 0 slots (MC_FreqNorm_clamp.cfg is the model).  The encoder then        *)
(* writes an escape byte pair the decoder knows nothing about: decoding "succeeds" with other    *)
(* bytes.  Two events carry the finding: (a) the starved table itself, (b) the wrong payload of  *)
(* a decode under a table TLC has seen to be starved.                                            *)
G1a(e, subj, mech) == /\ subj.fam = "fse" /\ e.op = "table" /\ e.kind = "fse"
                      /\ Len(e.freq) = Len(e.norm)
                      /\ FN!Starved(e.freq, e.norm) # {}
                      /\ FN!SlotsFit(e.norm, e.total) /\ FN!StartsCumulative(e.start, e.norm)
G1b(e, subj, mech) == /\ subj.fam = "fse" /\ mech.starved
                      /\ e.op = "decode" /\ Matching(e.c, e.b, e.n) /\ Wrong(e)
KF1(e, subj, mech, mech2) ==
    /\ UNCHANGED csvars
    /\ mech2 = IF e.op = "table" THEN [mech EXCEPT !.starved = TRUE, !.tables = @ + 1] ELSE mech

(* C01-KF2: FseConfig::realtime() cannot decode what it encodes once the payload reaches 100     *)
(* bytes (shorter payloads are stored raw): the table is always built with 2^12 slots and the    *)
(* blob says so, the decoder copies that table_log into its config, and validate() refuses       *)
(* 4096 > max_table_size = 1024.                                                                 *)
G2(e, subj, mech) == /\ subj.fam = "fse" /\ subj.variant = "realtime"
                     /\ e.op = "decode" /\ Matching(e.c, e.b, e.n) /\ ~e.ok
                     /\ e.err = "Invalid parameter: Table size 4096 exceeds max 1024"
                     /\ enc[e.b].x.len >= 100
KF2(e, subj, mech, mech2) == UNCHANGED csvars /\ mech2 = mech

(* C01-KF3: OptimizedDictionaryCompressor finds its matches in the TRAINING text but emits them  *)
(* as back-references into the OUTPUT: unless the payload is (a prefix of) the training text the *)
(* decoder copies other bytes.  Trigger: the model was trained on data other than the payload.   *)
OtherModel(e) == enc[e.b].m.len # enc[e.b].x.len \/ enc[e.b].m.h # enc[e.b].x.h
G3(e, subj, mech) == /\ subj.fam = "odict"
                     /\ e.op = "decode" /\ Matching(e.c, e.b, e.n) /\ Wrong(e)
                     /\ OtherModel(e)
                     /\ e.y.len = enc[e.b].x.len
KF3(e, subj, mech, mech2) == UNCHANGED csvars /\ mech2 = mech

(* C01-KF4: the same compressor trained on the payload itself: when the rolling-hash lookup finds  *)
(* nothing it takes every entry of the range SuffixArray::search returns as an occurrence of the   *)
(* 3-byte pattern WITHOUT comparing it; SuffixArray::new builds wrong arrays for many texts        *)
(* (C12-KF1 / C12-KF2), the range then holds non-occurrences and the emitted back-reference copies *)
(* other bytes.  Trigger: model = payload, right length, other bytes.                              *)
(* Recorded as FIXED in known_findings.json: the SA-IS repair (/repo 1c07b24) removed the trigger; *)
(* a fixed entry suppresses nothing - if this deviation explains a run again, it is a violation.   *)
G4(e, subj, mech) == /\ subj.fam = "odict"
                     /\ e.op = "decode" /\ Matching(e.c, e.b, e.n) /\ Wrong(e)
                     /\ ~OtherModel(e)
                     /\ e.y.len = enc[e.b].x.len
KF4(e, subj, mech, mech2) == UNCHANGED csvars /\ mech2 = mech

(* C01-KF5: a NON-ADAPTIVE FSE encoder (FseConfig::realtime) keeps the table of its first compress *)
(* call; a later payload containing a byte without a slot in that table is not refused: the        *)
(* encoder writes 0xFF + literal into the rANS stream and returns Ok, the decoder returns other     *)
(* bytes.  Trigger: preset with adaptive = false, model trained on data other than the payload.     *)
(* (On the pinned tree C01-KF2 hides it: the realtime decoder refuses every blob >= 100 bytes.)     *)
G5(e, subj, mech) == /\ subj.fam = "fse" /\ subj.variant = "realtime"
                     /\ e.op = "decode" /\ Matching(e.c, e.b, e.n) /\ Wrong(e)
                     /\ ~mech.starved
                     /\ enc[e.b].m.trained /\ OtherModel(e)
KF5(e, subj, mech, mech2) == UNCHANGED csvars /\ mech2 = mech

(* guard (state predicate) and action of each deviation; mech2 is the next value of the trace   *)
(* specification's mech variable                                                                 *)
DevApplies(id, e, subj, mech) ==
    \/ id = "C01-KF1" /\ (G1a(e, subj, mech) \/ G1b(e, subj, mech))
    \/ id = "C01-KF2" /\ G2(e, subj, mech)
    \/ id = "C01-KF3" /\ G3(e, subj, mech)
    \/ id = "C01-KF4" /\ G4(e, subj, mech)
    \/ id = "C01-KF5" /\ G5(e, subj, mech)
KnownDeviation(id, e, subj, mech, mech2) ==
    \/ id = "C01-KF1" /\ KF1(e, subj, mech, mech2)
    \/ id = "C01-KF2" /\ KF2(e, subj, mech, mech2)
    \/ id = "C01-KF3" /\ KF3(e, subj, mech, mech2)
    \/ id = "C01-KF4" /\ KF4(e, subj, mech, mech2)
    \/ id = "C01-KF5" /\ KF5(e, subj, mech, mech2)
=============================================================================
