---------------------------- MODULE Trace_Tokens ----------------------------
(* Trace specification for C16: replays a recorded execution of the real         *)
(* VersionManager / TokenManager / TokenCache / LazyFreeList through the actions  *)
(* of Tokens.tla.                                                                 *)
EXTENDS Tokens, TraceIO, Known_Tokens

VARIABLES l, subj, kf

vars == <<live, mgrs, freed, lfl, pend, l, subj, kf>>

TraceInit == TokInit /\ l = 1 /\ subj = [subject |-> "none"] /\ kf = {}

Step(e) ==
    \/ e.op = "mgr_new"   /\ NewManager(e.m, e.level, e.addr, e.facts)
    \/ e.op = "mgr_drop"  /\ DropManager(e.m)
    \* direct acquisitions and the acquisitions made by with_reader_token / with_writer_token
    \* (logged by the closure when it starts): one action
    \/ e.op = "acq" /\ e.ok  /\ AcquireOk(e.id, e.m, e.kind, e.ver, e.tracked, e.tk)
    \/ e.op = "acq" /\ ~e.ok /\ ~Has(e, "must") /\ AcquireRefused(e.m, e.kind)
    \/ e.op = "acq" /\ ~e.ok /\ Has(e, "must")  /\ AcquireRefusedAtQuiescence(e.m, e.kind)
    \/ e.op = "neutral"  /\ Neutral
    \/ e.op = "unwind"   /\ Unwind(e.ids)
    \/ e.op = "obs_quiescent" /\ ObserveQuiescent(e.m, e.min, e.cur, e.ar, e.aw)
    \/ e.op = "acq_cached" /\ HandOutCached(e.id, e.m, e.kind, e.ver, e.tracked, e.tk)
    \/ e.op = "cache_put" /\ CachePut(e.id)
    \/ e.op = "cache_get" /\ e.hit  /\ CacheGet(e.id, e.kind, e.ver, e.valid)
    \/ e.op = "cache_get" /\ ~e.hit /\ UNCHANGED <<live, mgrs, freed, lfl, pend>>
    \/ e.op = "use"       /\ UseToken(e.id)
    \/ e.op = "rel_start" /\ ReleaseStart(e.id)
    \/ e.op = "release_cb" /\ ReleaseCallback(e.addr, e.expect)
    \/ e.op = "obs"       /\ Observe(e.m, e.min, e.ar, e.aw, e.quiet)
    \* stress runs: an observation of min made by the holder of token e.id while it holds it
    \/ e.op = "obs_own"   /\ (\E t \in live : t.id = e.id /\ (t.tracked /\ Sync(mgrs[t.mgr].level) => e.min <= t.ver))
                          /\ UNCHANGED <<live, mgrs, freed, lfl, pend>>
    \/ e.op = "obs_counts" /\ CountsMatch(e.m, e.ar, e.aw) /\ UNCHANGED <<live, mgrs, freed, lfl, pend>>
    \/ e.op = "validate"  /\ Validate(e.m, e.ver, e.res, e.min, e.cur)
    \/ e.op = "lf_new"    /\ NewLazyList(e.l, e.thr)
    \/ e.op = "retire"    /\ Retire(e.l, e.off, e.age, e.len, e.bulk)
    \/ e.op = "reclaim"   /\ Reclaim(e.m, e.l, e.min, e.items, e.ret, e.len, e.bulk, e.page, e.pcan)
    \* harness bookkeeping without meaning for the contract (a second TokenManager front-end was
    \* created over an existing VersionManager, ...)
    \/ e.op = "note"      /\ UNCHANGED <<live, mgrs, freed, lfl, pend>>
    \* the scheduler could not finish the run (a thread never reached its next schedule point)
    \/ e.op \in {"stuck", "steplimit"} /\ FALSE

TraceNext ==
    /\ l <= Len(Rec)
    /\ l' = l + 1
    /\ LET e == Rec[l] IN
       IF e.op = "reset"
       THEN /\ live' = {} /\ mgrs' = [x \in {} |-> 0] /\ freed' = {}
            /\ lfl' = [x \in {} |-> 0] /\ pend' = {} /\ subj' = e /\ kf' = kf
       ELSE /\ subj' = subj
            /\ IF UseKF /\ \E id \in KnownIds : DevApplies(id, e, subj)
               THEN \E id \in KnownIds : KnownDeviation(id, e, subj) /\ kf' = kf \cup {id}
               ELSE Step(e) /\ kf' = kf

TraceSpec == TraceInit /\ [][TraceNext]_vars

Done == l = Len(Rec) + 1 => PrintT(<<"KFSET", kf>>)
=============================================================================
