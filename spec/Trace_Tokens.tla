---------------------------- MODULE Trace_Tokens ----------------------------
(* Trace specification for C16: replays a recorded execution of the real         *)
(* VersionManager / TokenManager through the actions of Tokens.tla.              *)
EXTENDS Tokens, TraceIO, Known_Tokens

VARIABLES l, subj, kf

vars == <<live, mgrs, freed, l, subj, kf>>

TraceInit == TokInit /\ l = 1 /\ subj = [subject |-> "none"] /\ kf = {}

TokOf(id) == CHOOSE t \in live : t.id = id

Step(e) ==
    \/ e.op = "mgr_new"   /\ NewManager(e.m, e.level, e.addr)
    \/ e.op = "mgr_drop"  /\ DropManager(e.m)
    \/ e.op = "acq" /\ e.ok  /\ AcquireOk(e.id, e.m, e.kind, e.ver, e.tracked)
    \/ e.op = "acq" /\ ~e.ok /\ AcquireRefused(e.m, e.kind)
    \* a token handed out of the per-thread cache: it was live all the time (it sat in the cache);
    \* from now on its holder treats it as a token of manager e.m
    \/ e.op = "acq_cached" /\ /\ \E t \in live : t.id = e.id
                              /\ live' = (live \ {TokOf(e.id)}) \cup
                                         {[id |-> e.id, kind |-> e.kind, ver |-> e.ver, mgr |-> e.m, tracked |-> e.tracked]}
                              /\ UNCHANGED <<mgrs, freed>>
                              /\ OneWriter'
    \/ e.op = "cache_put" /\ (\E t \in live : t.id = e.id) /\ UNCHANGED <<live, mgrs, freed>>
    \/ e.op = "rel_start" /\ ReleaseStart(e.id)
    \/ e.op = "release_cb" /\ ReleaseCallback(e.addr, e.expect)
    \/ e.op = "obs"       /\ Observe(e.m, e.min, e.ar, e.aw, e.quiet)
    \* stress runs: an observation of min made by the holder of token e.id while it holds it
    \/ e.op = "obs_own"   /\ (\E t \in live : t.id = e.id /\ (t.tracked /\ Sync(mgrs[t.mgr].level) => e.min <= t.ver))
                          /\ UNCHANGED <<live, mgrs, freed>>
    \/ e.op = "obs_counts" /\ CountsMatch(e.m, e.ar, e.aw) /\ UNCHANGED <<live, mgrs, freed>>
    \/ e.op = "reclaim"   /\ Reclaim(e.m, e.ages)
    \* the scheduler could not finish the run (a thread never reached its next schedule point)
    \/ e.op \in {"stuck", "steplimit"} /\ FALSE

TraceNext ==
    /\ l <= Len(Rec)
    /\ l' = l + 1
    /\ LET e == Rec[l] IN
       IF e.op = "reset"
       THEN live' = {} /\ mgrs' = [x \in {} |-> 0] /\ freed' = {} /\ subj' = e /\ kf' = kf
       ELSE /\ subj' = subj
            /\ IF UseKF /\ \E id \in KnownIds : DevApplies(id, e, subj)
               THEN \E id \in KnownIds : KnownDeviation(id, e, subj) /\ kf' = kf \cup {id}
               ELSE Step(e) /\ kf' = kf

TraceSpec == TraceInit /\ [][TraceNext]_vars

Done == l = Len(Rec) + 1 => PrintT(<<"KFSET", kf>>)
=============================================================================
