SPECIFICATION GenSpec
CONSTANTS
  MaxLen = 4
  MaxId = 100
  L = 4
  Ops = {"push","pop","insert","remove","clear","clone"}
CONSTRAINT GenBound
INVARIANT Emit
CHECK_DEADLOCK FALSE
