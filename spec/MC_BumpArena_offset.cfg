SPECIFICATION Spec
CONSTANTS
  Base = 8
  Cap = 40
  AlignAddress = FALSE
  Sizes = {1, 8, 9}
  Aligns = {1, 8, 16}
  MaxBlocks = 3
INVARIANT AlignOk
CHECK_DEADLOCK FALSE
