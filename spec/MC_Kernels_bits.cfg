SPECIFICATION Spec
CONSTANTS
  Alphabet = {0, 32769, 65535, 23130}
  MaxLen = 4
INVARIANT BitLaws
CHECK_DEADLOCK FALSE
