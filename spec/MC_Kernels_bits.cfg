SPECIFICATION Spec
CONSTANTS
  Alphabet = {0, 1, 32768, 65535, 23130, 384}
  MaxLen = 4
INVARIANT BitLaws
CHECK_DEADLOCK FALSE
