SPECIFICATION Spec
CONSTANTS
  Alphabet = {0, 32769, 23130}
  MaxLen = 4
INVARIANT BitLaws FieldLaws
CHECK_DEADLOCK FALSE
