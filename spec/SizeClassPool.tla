---------------------------- MODULE SizeClassPool ----------------------------
(* Mechanism specification, written like the code, of a size-class pool:          *)
(*   src/memory/lockfree_pool.rs   FAST_BIN_SIZES / size_to_bin_index /            *)
(*                                 allocate_from_fast_bin / allocate_new_block      *)
(*   src/memory/threadlocal_pool.rs ThreadLocalCache (free_lists per class,        *)
(*                                 HotArea::try_allocate)                           *)
(*   src/memory/fixed_capacity_pool.rs find_size_class                             *)
(*                                                                                 *)
(* A request of s units is rounded to a class on allocation AND on free            *)
(* (ClassOf); every class has a LIFO free list threaded through freed blocks; an    *)
(* empty list falls back to a bump pointer (next).  WHAT the bump pointer carves   *)
(* is the parameter bound from the code:                                           *)
(*   CarveClass = TRUE   the class size (what a size-class pool must do)           *)
(*   CarveClass = FALSE  the (aligned) request size - lockfree_pool.rs             *)
(*                       allocate_new_block(aligned_size), threadlocal_pool.rs     *)
(*                       HotArea::try_allocate(size)                                *)
(* AdvanceOnFail / Wrap model `next_offset.fetch_add(size as u32)` of              *)
(* lockfree_pool.rs: the counter advances even when the request is refused and     *)
(* wraps modulo Wrap.                                                              *)
(*                                                                                 *)
(* The module EXTENDS the contract: the mechanism updates the contract variable    *)
(* `live` with what it hands out, TLC checks the contract invariants (NoOverlap,    *)
(* SizesOk, InArena) on the mechanism's state graph and that every mechanism step  *)
(* is a step of the contract (Refines).                                            *)
EXTENDS Allocator, TLC

CONSTANTS Classes,        \* strictly increasing sequence of class sizes (units of the alignment)
          Arena,          \* size of the arena in units
          CarveClass,     \* BOOLEAN, see above
          AdvanceOnFail,  \* BOOLEAN, see above
          Wrap,           \* modulus of the offset counter (> Arena)
          Sizes,          \* request sizes explored
          MaxLive         \* bound on simultaneously live blocks

VARIABLES next,           \* bump pointer
          bins,           \* bins[c] = sequence of offsets of free blocks of class c (head = top)
          nb              \* number of blocks handed out so far (next block id)

mvars == <<live, pend, next, bins, nb>>

NC == Len(Classes)
Fits(s) == s <= Classes[NC]
ClassOf(s) == CHOOSE i \in 1..NC : s <= Classes[i] /\ \A j \in 1..(i - 1) : s > Classes[j]

Init == /\ AllocInit
        /\ next = 0
        /\ bins = [c \in 1..NC |-> <<>>]
        /\ nb = 0

Hand(lo, s) == /\ live' = With(nb + 1, Blk(lo, lo + s, s, s, 1))
               /\ nb' = nb + 1
               /\ pend' = FALSE

(* allocate(s): size_to_bin_index, pop the bin, else allocate_new_block *)
Alloc(s) ==
    /\ Cardinality(DOMAIN live) < MaxLive
    /\ IF ~Fits(s)
       THEN UNCHANGED mvars                                     \* Err("Size too large")
       ELSE LET c == ClassOf(s) IN
            IF bins[c] # <<>>
            THEN /\ Hand(Head(bins[c]), s)                         \* recycle: the caller gets s units at the old offset
                 /\ bins' = [bins EXCEPT ![c] = Tail(@)]
                 /\ UNCHANGED next
            ELSE LET w == IF CarveClass THEN Classes[c] ELSE s IN
                 IF next + w <= Arena
                 THEN /\ Hand(next, s)
                      /\ next' = (next + w) % Wrap
                      /\ UNCHANGED bins
                 ELSE /\ next' = IF AdvanceOnFail THEN (next + w) % Wrap ELSE next   \* Err(out of memory)
                      /\ UNCHANGED <<live, pend, bins, nb>>

(* deallocate(ptr, size): the class is recomputed from the size the caller states *)
Dealloc(b) ==
    /\ b \in DOMAIN live
    /\ LET c == ClassOf(live[b].req) IN bins' = [bins EXCEPT ![c] = <<live[b].lo>> \o @]
    /\ live' = Without({b})
    /\ UNCHANGED <<pend, next, nb>>

Next == (\E s \in Sizes : Alloc(s)) \/ (\E b \in DOMAIN live : Dealloc(b))

Spec == Init /\ [][Next]_mvars

(* ---- the contract, checked on the mechanism ---- *)
InArena == \A b \in DOMAIN live : 0 <= live[b].lo /\ live[b].hi <= Arena
Bound == nb <= 5
(* every step of the mechanism is a step the contract allows *)
ContractStep ==
    \/ \E b \in DOMAIN live' \ DOMAIN live :
          LET r == live'[b] IN AllocOk(b, r.req, r.len, r.align, 0, r.lo, r.hi, Some(<<0, Arena>>), Some(Arena), Some(Arena))
    \/ \E b \in DOMAIN live : Free(b, TRUE)
    \/ AllocErr
Refines == [][ContractStep]_<<live, pend>>
=============================================================================
