SPECIFICATION TraceSpec
INVARIANT Done
POSTCONDITION Accepted
CHECK_DEADLOCK FALSE
