------------------------------ MODULE MC_MapGen ------------------------------
(* Behaviour generator (binding B2): every history of mutating operations of    *)
(* length L over Keys x Vals, each step annotated with the result and the       *)
(* abstract state AFTER the step as computed by this specification.             *)
EXTENDS Map, TLC, Json

CONSTANTS Keys, Vals, L
VARIABLE hist

StateAfter == { <<k, m'[k]>> : k \in DOMAIN m' }
Log(op, k, v, r) == hist' = Append(hist, [op |-> op, k |-> k, v |-> v, r |-> r, st |-> StateAfter])

AnyK == CHOOSE k \in Keys : TRUE
AnyV == CHOOSE v \in Vals : TRUE

Next ==
    \/ \E k \in Keys, v \in Vals : Insert(k, v, Lookup(k)) /\ Log("insert", k, v, Lookup(k))
    \/ \E k \in Keys : Remove(k, Lookup(k)) /\ Log("remove", k, AnyV, Lookup(k))
    \/ \E k \in Keys, v \in Vals : GetMut(k, v, Lookup(k)) /\ Log("get_mut", k, v, Lookup(k))
    \/ Clear /\ Log("clear", AnyK, AnyV, None)

Spec == MapInit /\ hist = <<>> /\ [][Next]_<<m, hist>>

Bound == Len(hist) <= L
Emit == Len(hist) = L => PrintT(<<"REPLAY", ToJson(hist)>>)
=============================================================================
