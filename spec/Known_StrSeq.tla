--------------------------- MODULE Known_StrSeq ---------------------------
(* Event binding of the string vector contract and the named deviation actions for  *)
(* the recorded known findings of property C10 on the string vector subjects.        *)
EXTENDS StrSeq, Integers

TransS(e) ==
    \/ e.op = "push" /\ e.ok /\ e.has_r  /\ PushStr(e.o, e.s, e.r)
    \/ e.op = "push" /\ e.ok /\ ~e.has_r /\ PushStrNoIdx(e.o, e.s)
    \/ e.op = "push" /\ ~e.ok /\ PushStrRefused(e.o, e.s)
    \/ e.op = "extend" /\ e.ok  /\ ExtendStr(e.o, e.xs, e.r)
    \/ e.op = "extend" /\ ~e.ok /\ MaintenanceStr(e.o)
    \/ e.op = "count_prefix" /\ CountPrefix(e.o, e.s, e.r)
    \/ e.op = "range" /\ RangeStr(e.o, e.a, e.b, e.r)
    \/ e.op = "sort" /\ e.ok  /\ SortStr(e.o, e.kind)
    \/ e.op = "sort" /\ ~e.ok /\ SortRefused(e.o)
    \/ e.op = "clear" /\ ClearStr(e.o)
    \/ e.op = "clone" /\ CloneStr(e.o, e.o2)
    \/ e.op = "maintenance" /\ MaintenanceStr(e.o)
    \/ e.op = "build" /\ e.ok  /\ Build(e.o, e.kind, e.input, e.post.c)
    \/ e.op = "find" /\ Find(e.o, e.s, e.r)
    \/ e.op = "bsearch" /\ BinarySearch(e.o, e.s, e.ok, e.pos, e.sv)

PostS(e) ==
    LET w == IF e.op = "clone" THEN e.o2 ELSE e.o IN
    ObsStr(strs'[w], mode'[w], e.post)

KnownIds == {"C10-KF4", "C10-KF6"}

MinOf(S) == CHOOSE i \in S : \A j \in S : i <= j

(* C10-KF4: AdvancedStringVec (compression levels 1-3) de-duplicates: push of a string that is   *)
(* already stored appends nothing and returns the index of the stored copy, so len() and the     *)
(* indices differ from those of a Vec after the same pushes.  Trigger: a successful push whose   *)
(* returned index points at an equal string that was already there.  Nothing changes.            *)
IsDedup(e) == /\ e.op = "push" /\ e.ok /\ e.has_r
              /\ e.r < Len(strs[e.o]) /\ strs[e.o][e.r + 1] = e.s
G4(e, subj) ==
    /\ subj.fam = "advanced" /\ subj.dedup         \* every configuration with compression level >= 1
    /\ IsDedup(e)
KF4(e, subj) == G4(e, subj) /\ UNCHANGED strvars /\ ObsStr(strs[e.o], mode[e.o], e.post)

(* C10-KF5: AdvancedStringVec at compression level 3 (memory_optimized): when the new string     *)
(* starts with >= 3 bytes that end an already stored string (partial overlap), push records the   *)
(* entry (offset of the overlap, length of the new string) but never appends the rest of the new  *)
(* string: the entry covers whatever bytes follow in the arena, or runs past its end.  The vector  *)
(* then reports a wrong string w at the new index (same length, same first 3 bytes), or None       *)
(* (shown by the harness as the impossible byte string <<-1>>, here Poison), and iteration stops   *)
(* at the first None.  The deviation records the garbled entry as Poison (what it reads as can     *)
(* change when the arena grows); while an object holds a Poison entry its observations are read    *)
(* accordingly: every other entry must still be right.                                             *)
Poison == <<-1>>
HasPoison(s) == \E i \in 1..Len(s) : s[i] = Poison
UpToPoison(s) == LET P == { i \in 1..Len(s) : s[i] = Poison } IN
                 IF P = {} THEN s ELSE SubSeq(s, 1, MinOf(P) - 1)
ObsStrP(s, p) ==
    /\ p.len = Len(s) /\ Len(p.c) = Len(s)
    /\ \A i \in 1..Len(s) : s[i] # Poison => p.c[i] = s[i]      \* a garbled entry may read as anything, later
    /\ p.get_ok = ~HasPoison(p.c) /\ p.oob = None
    /\ p.has_it => p.it = UpToPoison(p.c)
    /\ ~p.has_sorted
Garbled(e) ==
    /\ e.op = "push" /\ e.ok /\ e.has_r /\ e.r = Len(strs[e.o]) /\ e.post.len = e.r + 1
    /\ Len(e.s) >= 3
    /\ LET w == e.post.c[e.r + 1] IN
       /\ w # e.s
       /\ w = Poison \/ (Len(w) = Len(e.s) /\ SubSeq(w, 1, 3) = SubSeq(e.s, 1, 3))
G5(e, subj) ==
    /\ subj.fam = "advanced" /\ subj.variant = "level_3"
    /\ e.op \in {"push", "clone"}
    /\ Garbled(e) \/ HasPoison(strs[e.o])
KF5(e, subj) ==
    /\ G5(e, subj)
    /\ \/ Garbled(e) /\ strs' = WithS(e.o, Append(strs[e.o], Poison)) /\ mode' = WithM(e.o, "none")
       \/ ~Garbled(e) /\ IsDedup(e) /\ UNCHANGED strvars
       \/ ~Garbled(e) /\ ~IsDedup(e) /\ TransS(e)
    /\ LET w == IF e.op = "clone" THEN e.o2 ELSE e.o IN ObsStrP(strs'[w], e.post)

(* C10-KF6: ZoSortedStrVec stores its strings NUL-terminated: get()/iter() cut every string at   *)
(* its first NUL character (a string starting with NUL reads as "").  Trigger: construction from  *)
(* a list in which some string contains byte 0.  The deviation records the cut strings as the     *)
(* content (one per input string; from_strings: one per distinct input string); their order is    *)
(* not judged, and the driver performs no searches on such an object.                             *)
HasNul(x) == \E i \in 1..Len(x) : x[i] = 0
CutNul(x) == LET Z == { i \in 1..Len(x) : x[i] = 0 } IN
             IF Z = {} THEN x ELSE SubSeq(x, 1, MinOf(Z) - 1)
G6(e, subj) ==
    /\ subj.fam = "zo"
    /\ e.op = "build" /\ e.ok /\ \E i \in 1..Len(e.input) : HasNul(e.input[i])
KF6(e, subj) ==
    /\ G6(e, subj)
    /\ LET c == e.post.c
           inp == e.input
           D == SElems(inp) IN
       /\ e.post.len = Len(c) /\ e.post.get_ok /\ e.post.oob = None /\ (e.post.has_it => e.post.it = c)
       /\ IF e.kind = "from_strings"
          THEN /\ Len(c) = Cardinality(D)
               /\ \A i \in 1..Len(c) : Count(c, c[i]) = Cardinality({ x \in D : CutNul(x) = c[i] })
          ELSE /\ Len(c) = Len(inp)
               /\ \A i \in 1..Len(c) : Count(c, c[i]) = Cardinality({ j \in 1..Len(inp) : CutNul(inp[j]) = c[i] })
       /\ strs' = WithS(e.o, c) /\ mode' = WithM(e.o, "none")

(* C10-KF7: SortableStrVec packs the length of a string into 20 bits without checking it:        *)
(* push_str of a string of 2^20 bytes or more succeeds, but the entry keeps length mod 2^20 (and   *)
(* the overflow spills into the sequence-id bits), so get() returns a truncated string.  Seen in   *)
(* the runs of profile "big", where strings are shown as digests [len, h].  The deviation records  *)
(* the truncated string the vector reports (its length must be the original length mod 2^20).      *)
G7(e, subj) ==
    /\ subj.fam = "sortable" /\ subj.profile = "big"
    /\ e.op = "push" /\ e.ok /\ e.has_r /\ e.r = Len(strs[e.o])
    /\ e.s.len >= 1048576
KF7(e, subj) ==
    /\ G7(e, subj)
    /\ e.post.len = e.r + 1
    /\ LET w == e.post.c[e.r + 1] IN
       /\ w.len = e.s.len % 1048576
       /\ strs' = WithS(e.o, Append(strs[e.o], w)) /\ mode' = WithM(e.o, "none")
    /\ ObsStr(strs'[e.o], mode'[e.o], e.post)

DevApplies(id, e, subj) ==
    \/ id = "C10-KF7" /\ G7(e, subj)
    \/ id = "C10-KF4" /\ G4(e, subj)
    \/ id = "C10-KF5" /\ G5(e, subj)
    \/ id = "C10-KF6" /\ G6(e, subj)
KnownDeviation(id, e, subj) ==
    \/ id = "C10-KF7" /\ KF7(e, subj)
    \/ id = "C10-KF4" /\ KF4(e, subj)
    \/ id = "C10-KF5" /\ KF5(e, subj)
    \/ id = "C10-KF6" /\ KF6(e, subj)
=============================================================================
