SPECIFICATION PCSpec
CONSTANTS
  HMaxSyms = 5
  HMaxCount = 4
  Strategy = "min"
INVARIANT NodeCodesPrefixFree WeightConserved DoneCodesOK DoneComplete DoneKraftFormsAgree
CHECK_DEADLOCK FALSE
