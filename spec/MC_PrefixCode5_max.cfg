SPECIFICATION PCSpec
CONSTANTS
  HMaxSyms = 5
  HMaxCount = 4
  Strategy = "max"
INVARIANT NodeCodesPrefixFree WeightConserved DoneCodesOK DoneComplete DoneKraftFormsAgree
CHECK_DEADLOCK FALSE
