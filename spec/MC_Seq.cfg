SPECIFICATION Spec
CONSTANTS
  MaxLen = 3
  MaxId = 6
  Ops = {"push","pop","insert","remove","set","resize","resize_with","extend_move","extend_clone","clear","truncate","shrink","clone","drop"}
CONSTRAINT Bound
INVARIANT TypeInv OwnershipInv
PROPERTY NoResurrection OneObjectPerCall OrderKept
CHECK_DEADLOCK FALSE
