--------------------------- MODULE Known_ByteSet ---------------------------
(* Named deviation actions for the recorded known findings of property C05       *)
(* (see /verif/known_findings.json).  A deviation is enabled only for the listed *)
(* subject family (= the storage strategy behind the type, from the reset event) *)
(* and only under its semantic trigger: the answer is the recorded wrong one AND *)
(* the contract would have rejected it.  Everything else the event carries must  *)
(* still agree with the contract.  The trace specification records the ids taken *)
(* on an accepted path in the variable kf.                                       *)
EXTENDS ByteSet, TLC

KnownIds == {"C05-KF1", "C05-KF3", "C05-KF4", "C05-KF7"}

AllFalse(s) == \A i \in 1..Len(s) : s[i] = FALSE
U_(subj) == subj.universe
(* every event of the harness except a panic carries the harness's own call counters ctr =     *)
(* [ins_ok: keys passed to successful inserts since the last build, built: a build_from_keys   *)
(* succeeded in this run, iab: keys inserted since that build]                                 *)
HasCtr(e) == "ctr" \in DOMAIN e

(* C05-KF1: ZiporaTrie::remove is implemented for the Patricia strategy only; for every    *)
(* other strategy it is a stub that returns Ok(false) and removes nothing.                  *)
NoRemove == {"darray", "louds", "sparse", "critbit"}
G1(e, subj) == /\ subj.fam \in NoRemove
               /\ e.op = "remove" /\ e.ok /\ e.r = FALSE /\ e.k \in S
KF1(e, subj) == IF G1(e, subj) THEN UNCHANGED S ELSE FALSE

(* C05-KF2: keys() / keys_with_prefix() of the LOUDS strategy split the label store at 0x00   *)
(* bytes although insert writes length-prefixed records: the listing is raw label bytes.      *)
(* Only the listing is unconstrained, only for this family, only when it is in fact wrong.    *)
G2(e, subj) == /\ subj.fam = "louds"
               /\ \/ e.op = "probe_keys" /\ ~ProbeKeysOK(e.keys, e.prefix)
                  \/ e.op = "keys" /\ ~Lists(e.r, S)
                  \/ e.op = "keys_with_prefix" /\ ~Lists(e.r, WithPrefix(e.p))
KF2(e, subj) == IF G2(e, subj) THEN UNCHANGED S ELSE FALSE

(* C05-KF3: the automaton view of the LOUDS strategy is unimplemented (is_final = false,      *)
(* transition = None): accepts() is false and longest_prefix() is None for every input, the   *)
(* trait's default lookup() is None.  (The wrapper type overrides lookup() with contains().)  *)
LookupOKorDead(U, lk) == (\A i \in 1..Len(U) : lk[i] = (U[i] \in S)) \/ AllFalse(lk)
G3(e, subj) ==
    /\ subj.fam = "louds"
    /\ \/ /\ e.op = "probe_fsa"
          /\ ~ProbeFsaOK(U_(subj), e.accepts, e.lookup, e.absent, e.longest)
          /\ AllFalse(e.accepts)
          /\ Len(e.lookup) = Len(U_(subj)) /\ LookupOKorDead(U_(subj), e.lookup)
          /\ \A i \in 1..Len(e.absent) : e.absent[i][2] = FALSE /\ e.absent[i][3] = FALSE
          /\ \A i \in 1..Len(e.longest) : e.longest[i][2] = None
       \/ e.op \in {"accepts", "lookup"} /\ e.r = FALSE /\ e.k \in S
       \/ e.op = "longest_prefix" /\ e.r = None /\ LongestPrefixOf(e.q) /= None
KF3(e, subj) == IF G3(e, subj) THEN UNCHANGED S ELSE FALSE

(* C05-KF4: the CriticalBit strategy (string_specialized preset) is an unimplemented stub:     *)
(* insert returns Ok and stores nothing, yet len() counts the call.                            *)
G4(e, subj) ==
    /\ subj.fam = "critbit"
    /\ \/ e.op = "insert" /\ e.ok /\ ~e.after        \* Ok, yet contains(k) is false right after the call
       \/ /\ e.op = "probe" /\ e.len = e.ctr.ins_ok /\ e.len > Cardinality(S)
          /\ ProbeSetOK(U_(subj), Cardinality(S), e.contains, e.absent)
          /\ \A i \in 1..Len(e.len_twins) : e.len_twins[i] = e.len
          /\ \A i \in 1..Len(e.is_empty) : e.is_empty[i] = FALSE
       \/ e.op = "len" /\ e.r = e.ctr.ins_ok /\ e.r > Cardinality(S)
KF4(e, subj) == IF G4(e, subj) THEN UNCHANGED S ELSE FALSE

(* C05-KF5: len() counts insert calls, not distinct keys: ZiporaTrie::insert_and_get_node_id   *)
(* (used by ParallelLoudsTrie::insert / bulk_insert), NestedTrieDawg::insert_key and           *)
(* SimpleDawg::insert increment the key counter also when the key is already present.          *)
CountsCalls == {"par", "dawg", "sdawg"}
(* a NestedTrieDawg::new() on which no build_from_keys has succeeded yet has no root (C05-KF6) *)
Unrooted(e, subj) == subj.fam = "dawg" /\ subj.variant = "nested_new" /\ HasCtr(e) /\ ~e.ctr.built
G5(e, subj) ==
    /\ subj.fam \in CountsCalls /\ ~Unrooted(e, subj)
    /\ \/ /\ e.op = "probe" /\ e.len = e.ctr.ins_ok /\ e.len > Cardinality(S)
          /\ ProbeSetOK(U_(subj), Cardinality(S), e.contains, e.absent)
       \/ e.op = "len" /\ e.r = e.ctr.ins_ok /\ e.r > Cardinality(S)
KF5(e, subj) == IF G5(e, subj) THEN UNCHANGED S ELSE FALSE

(* C05-KF6: NestedTrieDawg::new() has no root state; the first Trie::insert creates state 0    *)
(* as the *child* of root 0, i.e. a self loop: afterwards contains / accepts / longest_prefix  *)
(* answer for a different language (e.g. insert("a") makes "" and "aa" members).  The reads of *)
(* this one variant are unconstrained where they are wrong, until a build_from_keys creates    *)
(* the root; its mutators stay under contract.                                                 *)
G6(e, subj) ==
    /\ Unrooted(e, subj)
    /\ \/ e.op = "probe" /\ ~ProbeSetOK(U_(subj), e.len, e.contains, e.absent)
       \/ e.op = "probe_fsa" /\ ~ProbeFsaOK(U_(subj), e.accepts, e.lookup, e.absent, e.longest)
       \/ e.op \in {"contains", "accepts"} /\ e.r /= (e.k \in S)
       \/ e.op = "longest_prefix" /\ e.r /= LongestPrefixOf(e.q)
       \/ e.op = "len" /\ e.r /= Cardinality(S)
KF6(e, subj) == IF G6(e, subj) THEN UNCHANGED S ELSE FALSE

(* C05-KF7: Trie::insert into a NestedTrieDawg that build_from_keys has minimised extends     *)
(* states shared by several keys: the inserted suffix becomes a suffix of every key through    *)
(* the shared state.  The language of the automaton becomes a superset of S in which every     *)
(* extra word is a splice (a prefix of a member followed by a suffix of a member); no member   *)
(* is lost.  When such an extra word is inserted later it is not counted (its state is already *)
(* terminal), so len() may be smaller than |S| by at most the number of inserts since the      *)
(* build (the seed-2 trace: build {.., [0], [255], ..}; insert [255,255] makes [0,255] a word; *)
(* insert [0,255] -> len() = |S| - 1).  Trigger: a build succeeded earlier in the run and an   *)
(* insert succeeded after it (counters logged by the harness), and the contract rejects.       *)
IsSuffix(t, k) == Len(t) <= Len(k) /\ \A i \in 1..Len(t) : t[i] = k[Len(k) - Len(t) + i]
Drop(k, n) == SubSeq(k, n + 1, Len(k))
InSplice(k) == \E i \in 0..Len(k) : /\ \E m \in S : IsPrefix(Take(k, i), m)
                                    /\ \E m \in S : IsSuffix(Drop(k, i), m)
SupOK(k, b) == IF k \in S THEN b ELSE (b => InSplice(k))
Extra(k, b) == b /\ k \notin S
LpSupOK(q, r) ==
    LET c == LongestPrefixOf(q) IN
    /\ c /= None => (r /= None /\ r[1] >= c[1])
    /\ r /= None => (r[1] \in 0..Len(q) /\ (Take(q, r[1]) \in S \/ InSplice(Take(q, r[1]))))
AfterBuildInsert(e) == HasCtr(e) /\ e.ctr.built /\ e.ctr.iab > 0
G7(e, subj) ==
    LET U == U_(subj)
        \* a key that was already an extra word is not counted when it is inserted later (its state is
        \* terminal already), so len() may fall short of |S| by at most the inserts made since the build
        LenOK(n) == n <= Cardinality(S) /\ n + e.ctr.iab >= Cardinality(S)
    IN
    /\ subj.fam = "dawg"
    /\ AfterBuildInsert(e)
    /\ \/ /\ e.op = "probe"
          /\ ~(ProbeSetOK(U, e.len, e.contains, e.absent) /\ TwinsOK(e.len_twins, e.is_empty))
          /\ LenOK(e.len)
          /\ \A i \in 1..Len(e.len_twins) : e.len_twins[i] = e.len
          /\ \A i \in 1..Len(e.is_empty) : e.is_empty[i] = (e.len = 0)
          /\ Len(e.contains) = Len(U)
          /\ \A i \in 1..Len(U) : SupOK(U[i], e.contains[i])
          /\ \A i \in 1..Len(e.absent) : SupOK(e.absent[i][1], e.absent[i][2])
       \/ /\ e.op = "probe_fsa"
          /\ ~ProbeFsaOK(U, e.accepts, e.lookup, e.absent, e.longest)
          /\ Len(e.accepts) = Len(U) /\ Len(e.lookup) = Len(U)
          /\ \A i \in 1..Len(U) : SupOK(U[i], e.accepts[i]) /\ SupOK(U[i], e.lookup[i])
          /\ \A i \in 1..Len(e.absent) : SupOK(e.absent[i][1], e.absent[i][2]) /\ SupOK(e.absent[i][1], e.absent[i][3])
          /\ \A i \in 1..Len(e.longest) : LpSupOK(e.longest[i][1], e.longest[i][2])
       \/ e.op \in {"contains", "accepts"} /\ Extra(e.k, e.r) /\ InSplice(e.k)
       \/ e.op = "longest_prefix" /\ e.r /= LongestPrefixOf(e.q) /\ LpSupOK(e.q, e.r)
       \/ e.op = "len" /\ e.r /= Cardinality(S) /\ LenOK(e.r)
KF7(e, subj) == IF G7(e, subj) THEN UNCHANGED S ELSE FALSE

(* C05-KF8: ZiporaTrie::restore_string of the LOUDS strategy still reads the label store as     *)
(* NUL-terminated strings although insert_louds writes [len][bytes] records: the restored       *)
(* string starts with the length byte, stops at the first 0x00 byte (so it may be cut inside    *)
(* the key or run on into later records) and is None for the empty key.  lookup_node_id itself  *)
(* is right.  Only the restored column is relaxed, and only to that shape.                      *)
RawRestore(k, r) == /\ Len(r) >= 1 /\ r[1] = Len(k)
                    /\ \A j \in 2..Len(r) : (j - 1 <= Len(k)) => r[j] = k[j - 1]
G8(e, subj) ==
    /\ subj.fam = "louds"
    /\ e.op = "probe_ids" /\ ~ProbeIdsOK(e.ids)
    /\ \A i \in 1..Len(e.ids) :
          /\ e.ids[i][2] = (e.ids[i][1] \in S)
          /\ ~e.ids[i][2] => e.ids[i][3] = None
          /\ e.ids[i][3] /= None => (e.ids[i][3][1] = e.ids[i][1] \/ RawRestore(e.ids[i][1], e.ids[i][3][1]))
KF8(e, subj) == IF G8(e, subj) THEN UNCHANGED S ELSE FALSE

(* C05-KF9: the node-id API of ZiporaTrie is implemented for the Patricia and LOUDS strategies   *)
(* only: for every other strategy insert_and_get_node_id returns Ok(0), stores nothing and       *)
(* counts the call; lookup_node_id is None (consistent with the empty trie).                     *)
G9(e, subj) ==
    /\ subj.fam \in {"darray", "sparse", "critbit"} /\ subj.variant = "node_id_api"
    /\ \/ e.op = "insert" /\ e.ok /\ ~e.after        \* Ok, yet contains(k) is false right after the call
       \/ /\ e.op = "probe" /\ e.len = e.ctr.ins_ok /\ e.len > Cardinality(S)
          /\ ProbeSetOK(U_(subj), Cardinality(S), e.contains, e.absent)
          /\ \A i \in 1..Len(e.len_twins) : e.len_twins[i] = e.len
          /\ \A i \in 1..Len(e.is_empty) : e.is_empty[i] = FALSE
       \/ e.op = "len" /\ e.r = e.ctr.ins_ok /\ e.r > Cardinality(S)
KF9(e, subj) == IF G9(e, subj) THEN UNCHANGED S ELSE FALSE

(* guard (state predicate) and action of each deviation.  In KF mode a deviation whose   *)
(* guard holds REPLACES the contract action for that event.  The actions test their guard *)
(* in an IF so that TLC evaluates it as a value: a bounded quantifier in an action would   *)
(* otherwise produce one (identical) successor state per witness.                          *)
DevApplies(id, e, subj) ==
    \/ id = "C05-KF1" /\ G1(e, subj)
    \/ id = "C05-KF2" /\ G2(e, subj)
    \/ id = "C05-KF3" /\ G3(e, subj)
    \/ id = "C05-KF4" /\ G4(e, subj)
    \/ id = "C05-KF5" /\ G5(e, subj)
    \/ id = "C05-KF6" /\ G6(e, subj)
    \/ id = "C05-KF7" /\ G7(e, subj)
    \/ id = "C05-KF8" /\ G8(e, subj)
    \/ id = "C05-KF9" /\ G9(e, subj)
KnownDeviation(id, e, subj) ==
    \/ id = "C05-KF1" /\ KF1(e, subj)
    \/ id = "C05-KF2" /\ KF2(e, subj)
    \/ id = "C05-KF3" /\ KF3(e, subj)
    \/ id = "C05-KF4" /\ KF4(e, subj)
    \/ id = "C05-KF5" /\ KF5(e, subj)
    \/ id = "C05-KF6" /\ KF6(e, subj)
    \/ id = "C05-KF7" /\ KF7(e, subj)
    \/ id = "C05-KF8" /\ KF8(e, subj)
    \/ id = "C05-KF9" /\ KF9(e, subj)
=============================================================================
