--------------------------- MODULE MC_DurableFile ---------------------------
(* Bounded model of the crash model and of the contract of DurableFile.tla.       *)
(*                                                                                *)
(* A self-describing file: block 0 is the header (vouches for n data bytes and    *)
(* carries a checksum of them), blocks 1..ND are data.  The application performs  *)
(* small write histories (<= MaxSyncs syncs, <= ND+1 blocks): per transaction each *)
(* block is written at most once, the header last, at most one SetLen; Sync only   *)
(* in a self-consistent state.  At any point a fault produces an image:            *)
(*   Protocol = "inplace": any subset of the pending block writes with the old or  *)
(*                         the new length, or a truncation of either snapshot;     *)
(*   Protocol = "replace": (write a new file, fsync, rename) the last synced file  *)
(*                         or a truncation of it.                                  *)
(* A reader model opens the image; invariant Conforms says its answer is allowed   *)
(* by the contract (ReopenOK of DurableFile.tla):                                  *)
(*   Reader = "checked"   validates magic, length and checksum   -> conforms       *)
(*   Reader = "lencheck"  validates magic and length only        -> conforms under *)
(*                        truncation and under "replace", NOT under in-place       *)
(*                        mixtures (MmapVec with the open() length check only)     *)
(*   Reader = "naive"     validates magic only, reads zeros beyond the end of the  *)
(*                        file (the pinned MmapVec::open)        -> violated       *)
(* The violated configurations are kept: they pin the model to the defects.        *)
(* DescriptorsSound / PrefixComplete: the fault descriptors of DurableFile.tla     *)
(* denote exactly images the crash model can produce.                              *)
EXTENDS DurableFile, TLC

CONSTANTS ND,        \* data blocks
          BSZ,       \* bytes per block (2: lengths inside a block exist)
          MaxSyncs,
          Reader, Protocol, Faults

VARIABLES disk, cache, order, setlen, nsync

vars == <<sp, img, disk, cache, order, setlen, nsync>>

HB == BSZ                       \* header bytes = block 0
MaxLen == BSZ * (ND + 1)
MaxN == BSZ * ND

Written == { order[i] : i \in 1..Len(order) }
Gen == nsync + 1

(* checksum of the data the header vouches for: blocks holding bytes < n *)
RECURSIVE SumUpTo(_, _, _)
SumUpTo(x, n, b) == IF b > ND THEN 0
                    ELSE (IF (b - 1) * BSZ < n THEN BlkOf(x, b) ELSE 0) + 4 * SumUpTo(x, n, b + 1)
SumCode(x, n) == SumUpTo(x, n, 1)
Enc(n, s) == 1 + n + (MaxN + 1) * s
HdrN(h) == (h - 1) % (MaxN + 1)
HdrSum(h) == (h - 1) \div (MaxN + 1)

Logical(x) == [n |-> HdrN(BlkOf(x, 0)), d |-> HdrSum(BlkOf(x, 0))]
Consistent(x) ==
    /\ x.len >= HB
    /\ BlkOf(x, 0) >= 1
    /\ HdrN(BlkOf(x, 0)) = x.len - HB
    /\ HdrSum(BlkOf(x, 0)) = SumCode(x, x.len - HB)

Empty == MkImage(0, BSZ, LAMBDA b : 0)

Init ==
    /\ DInit
    /\ disk = Empty /\ cache = Empty /\ order = <<>> /\ setlen = FALSE /\ nsync = 0

Running == img = NoImg /\ nsync < MaxSyncs

WriteData(b) ==
    /\ Running
    /\ b \in DOMAIN cache.blk /\ b >= 1 /\ b \notin Written /\ 0 \notin Written
    /\ cache' = [cache EXCEPT !.blk[b] = Gen]
    /\ order' = Append(order, b)
    /\ UNCHANGED <<sp, img, disk, setlen, nsync>>

WriteHdr ==
    /\ Running
    /\ cache.len >= HB /\ 0 \notin Written
    /\ cache' = [cache EXCEPT !.blk[0] = Enc(cache.len - HB, SumCode(cache, cache.len - HB))]
    /\ order' = Append(order, 0)
    /\ UNCHANGED <<sp, img, disk, setlen, nsync>>

SetLen(n) ==
    /\ Running
    /\ ~setlen /\ 0 \notin Written /\ n /= cache.len
    /\ cache' = MkImage(n, BSZ, LAMBDA b : BlkOf(cache, b))
    /\ setlen' = TRUE
    /\ UNCHANGED <<sp, img, disk, order, nsync>>

Sync ==
    /\ Running
    /\ Consistent(cache)
    /\ (order /= <<>> \/ setlen)
    /\ disk' = cache /\ order' = <<>> /\ setlen' = FALSE /\ nsync' = nsync + 1
    /\ sp' = Append(sp, [c |-> Logical(cache), sync |-> TRUE, valid |-> TRUE])
    /\ UNCHANGED <<img, cache>>

FaultImages ==
    IF Protocol = "replace" THEN {disk} \cup TruncImages(disk, BSZ)
    ELSE IF Faults = "truncate"      \* truncation faults only: cuts of self-consistent snapshots
    THEN {disk} \cup TruncImages(disk, BSZ)
         \cup (IF Consistent(cache) THEN {cache} \cup TruncImages(cache, BSZ) ELSE {})
    ELSE SubsetImages(disk, cache, BSZ) \cup TruncImages(disk, BSZ) \cup TruncImages(cache, BSZ)

(* A crash / fault at the current point: the history as the harness records it (the  *)
(* finished state - what the next sync would make durable - is an allowed answer)    *)
(* and the descriptor of image x.  The crash states are enumerated inside invariant  *)
(* Conforms (every image of FaultImages in every reachable application state), the   *)
(* action Crash only ends a behaviour with one of them.                              *)
SpAtCrash == Append(sp, [c |-> Logical(cache), sync |-> FALSE,
                         valid |-> Consistent(cache) /\ Protocol /= "replace"])
CrashDesc(x) == [kind |-> "crash", k |-> Len(sp) + 1, upto |-> Len(sp) + 1, len |-> x.len, file |-> x]

Crash ==
    /\ img = NoImg
    /\ sp' = SpAtCrash
    /\ img' = CrashDesc(IF Protocol = "replace" \/ Faults = "truncate" THEN disk ELSE cache)
    /\ UNCHANGED <<disk, cache, order, setlen, nsync>>

(* the cross-process round trip: nothing pending, the synced file is opened again *)
CleanReopen ==
    /\ img = NoImg /\ Len(sp) >= 1 /\ order = <<>> /\ ~setlen
    /\ img' = [kind |-> "intact", k |-> Len(sp), upto |-> Len(sp), len |-> disk.len, file |-> disk]
    /\ UNCHANGED <<sp, disk, cache, order, setlen, nsync>>

Next ==
    \/ \E b \in 1..ND : WriteData(b)
    \/ WriteHdr
    \/ \E n \in 0..MaxLen : SetLen(n)
    \/ Sync
    \/ Crash
    \/ CleanReopen

Spec == Init /\ [][Next]_vars

(* ---- reader models ---- *)
Err == [outcome |-> "err", content |-> [n |-> 0, d |-> 0], extent |-> <<>>]
Ok(n, s) == [outcome |-> "ok", content |-> [n |-> n, d |-> s], extent |-> <<HB + n>>]
Read(x) ==
    LET h == BlkOf(x, 0) IN
    IF x.len < HB \/ h = 0 THEN Err                        \* header cut or no magic
    ELSE CASE Reader = "checked" ->
                IF x.len < HB + HdrN(h) THEN Err
                ELSE IF SumCode(x, HdrN(h)) /= HdrSum(h) THEN Err
                ELSE Ok(HdrN(h), HdrSum(h))
           [] Reader = "lencheck" ->
                IF x.len < HB + HdrN(h) THEN Err ELSE Ok(HdrN(h), SumCode(x, HdrN(h)))
           [] Reader = "naive" -> Ok(HdrN(h), SumCode(x, HdrN(h)))   \* zeros beyond the end

(* ---- properties ---- *)
Conforms ==
    /\ img /= NoImg => LET r == Read(img.file) IN ReopenOK(r.outcome, r.content, r.extent)
    /\ img = NoImg => \A x \in FaultImages :
                         LET r == Read(x) IN ReopenAllowed(SpAtCrash, CrashDesc(x), r.outcome, r.content, r.extent)

Shape == [run |-> 0, k |-> 1, f |-> "f", has_new |-> TRUE, intact |-> TRUE, trunc |-> TRUE, dense |-> TRUE, inplace |-> TRUE, resume |-> FALSE,
          old_len |-> disk.len, new_len |-> cache.len, nch |-> Cardinality(ChangedSet(disk, cache)),
          hdr_changed |-> 0 \in ChangedSet(disk, cache), bounds |-> {HB}]

(* every descriptor denotes an image of the fault model *)
DescriptorsSound ==
    \A d \in Descriptors(Shape) :
        Materialise(d, disk, cache, BSZ) \in SubsetImages(disk, cache, BSZ) \cup TruncImages(cache, BSZ)
(* every prefix-consistent image (ascending write order) has a descriptor *)
PrefixComplete ==
    (PrefixImages(disk, cache, Asc(ChangedSet(disk, cache)), BSZ) \ {disk})
        \subseteq { Materialise(d, disk, cache, BSZ) : d \in Descriptors(Shape) }
(* the application's own write order (blocks that were cut away again by a later   *)
(* SetLen are not observable in the snapshots) yields subset images too            *)
PrefixInSubset ==
    PrefixImages(disk, cache, SelectSeq(order, LAMBDA b : b \in ChangedSet(disk, cache)), BSZ)
        \subseteq SubsetImages(disk, cache, BSZ)
(* every byte length below the file length is a truncation descriptor (dense) *)
TruncComplete ==
    { d.j : d \in { x \in Descriptors(Shape) : x.kind = "truncate" } } = 0..(cache.len - 1)

TypeOK == /\ cache.len \in 0..MaxLen /\ disk.len \in 0..MaxLen
          /\ Len(order) <= ND + 1 /\ Len(sp) <= MaxSyncs + 1
=============================================================================
