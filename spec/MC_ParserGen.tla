----------------------------- MODULE MC_ParserGen -----------------------------
(* Generator (binding B4): TLC enumerates the mutation descriptors of Parser.tla     *)
(* exhaustively for every length class the harness asks for and prints one REPLAY    *)
(* line per class:  {"cls":"len","len":L,"combo":mode,"b":[..],"t":[..],"s":[..],    *)
(* "m":[..],"a":[..],"c":[..]}  and one line {"cls":"raw","r":[..]} with every byte   *)
(* string up to length min(raw, 2).  The harness only applies these descriptors.     *)
(* Parameters: the JSON file named by the environment variable C15_PARAMS            *)
(*   {"win": 64, "raw": 2, "classes": [{"len": 17, "combo": "class"}, ...]}           *)
EXTENDS Parser, TLC, Json, IOUtils

Params == JsonDeserialize(IOEnv.C15_PARAMS)
Classes == Params.classes
N == Len(Classes)

VARIABLE cls

ParOf(c) == [win |-> Params.win, combo |-> c.combo, raw |-> Params.raw]

ClassRec(c) ==
    LET P == ParOf(c) IN
    [cls |-> "len", len |-> c.len, combo |-> c.combo, win |-> Params.win,
     b |-> DescSeq("b", c.len, P), t |-> DescSeq("t", c.len, P), s |-> DescSeq("s", c.len, P),
     m |-> DescSeq("m", c.len, P), a |-> DescSeq("a", c.len, P), c |-> DescSeq("c", c.len, P),
     o |-> DescSeq("o", c.len, P), p |-> DescSeq("p", c.len, P), u |-> DescSeq("u", c.len, P)]
RawRec == [cls |-> "raw", raw |-> Params.raw, r |-> RawSeq(Params.raw)]
(* the overflow value tables: the harness takes the bytes from here *)
OvalRec == [cls |-> "ovals", v4 |-> OVals4, v8 |-> OVals8]

(* binding of the harness' apply(): the results of Apply computed HERE for one test      *)
(* encoding (70 bytes: beyond the window limit) under every descriptor of its class;     *)
(* harness mode applycheck compares its own results with these for equality.             *)
TestEnc == [i \in 1..70 |-> (i * 37 + 11) % 256]
ApplyPar == [win |-> Params.win, combo |-> "class", raw |-> 1]
ApplyDescs ==
    DescSeq("b", 70, ApplyPar) \o DescSeq("t", 70, ApplyPar) \o DescSeq("s", 70, ApplyPar) \o
    DescSeq("m", 70, ApplyPar) \o DescSeq("a", 70, ApplyPar) \o DescSeq("c", 70, ApplyPar) \o
    DescSeq("o", 70, ApplyPar) \o DescSeq("p", 70, ApplyPar) \o DescSeq("u", 70, ApplyPar) \o
    << <<"r">>, <<"r", 0>>, <<"r", 255, 1>>, <<"r", 1, 2, 3>> >>
ApplyRec == [cls |-> "apply", enc |-> TestEnc,
             cases |-> [j \in 1..Len(ApplyDescs) |-> [d |-> ApplyDescs[j], out |-> Apply(TestEnc, ApplyDescs[j])]]]

Init == cls = 0 /\ TallyInit
Next == cls <= N + 2 /\ cls' = cls + 1 /\ UNCHANGED tally
Spec == Init /\ [][Next]_<<cls, tally>>

(* the counts the trace specification will demand are the counts emitted here *)
Consistent(c) ==
    \A kind \in {"b", "t", "s", "m", "a", "c", "o", "p", "u"} :
        Len(DescSeq(kind, c.len, ParOf(c))) = NumDesc(kind, c.len, ParOf(c))

Emit ==
    /\ cls \in 1..N => /\ Consistent(Classes[cls])
                       /\ PrintT(<<"REPLAY", ToJson(ClassRec(Classes[cls]))>>)
    /\ cls = N + 1 => PrintT(<<"REPLAY", ToJson(RawRec)>>)
    /\ cls = N + 2 => PrintT(<<"REPLAY", ToJson(ApplyRec)>>)
    /\ cls = N + 3 => PrintT(<<"REPLAY", ToJson(OvalRec)>>)
=============================================================================
