SPECIFICATION Spec
CONSTANTS
  MaxId = 2
  NKeys = 2
INVARIANT TypeInv GetReturnsPut AbsentIsAbsent LenAgrees KeyLaws BatchLaws IterLaws KeyListLaws IterBlobLaws
PROPERTY NoLiveIdReissued IssuedMonotone FewIdsChange
CHECK_DEADLOCK FALSE
