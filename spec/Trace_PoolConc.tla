--------------------------- MODULE Trace_PoolConc ---------------------------
(* Trace specification for C08: runs of real threads on a real pool (scheduled by *)
(* the cooperative scheduler, or free-running with stamped ownership intervals)   *)
(* judged by PoolOwnership.tla.                                                   *)
EXTENDS PoolOwnership, TraceIO, Known_PoolConc

VARIABLES l, subj, kf
vars == <<owner, seen, nodes, l, subj, kf>>

TraceInit == PoInit /\ l = 1 /\ subj = [subject |-> "none"] /\ kf = {}

Step(e) ==
    \/ e.op = "alloc" /\ e.ok  /\ AllocOk(e.t, e.addr)
    \/ e.op = "alloc" /\ ~e.ok /\ AllocRefused(e.t)
    \/ e.op = "free_start" /\ FreeStart(e.t, e.addr)
    \/ e.op = "free_done"  /\ FreeDone(e.t, e.ok)
    \* a scheduler step: the site the thread reached tells what its last code segment did
    \/ e.op = "step" /\ e.to = "tb.push.alloc" /\ NodeAlloc(e.a)
    \/ e.op = "step" /\ e.to = "tb.pop.freed"  /\ NodeFree(e.a)
    \/ e.op = "step" /\ e.to = "tb.pop.next"   /\ NodeDeref(e.a)
    \/ e.op = "step" /\ e.to \notin {"tb.push.alloc", "tb.pop.freed", "tb.pop.next"} /\ UNCHANGED <<owner, seen, nodes>>
    \/ e.op = "drain"    /\ Drain(e.drained, e.recycles)
    \/ e.op = "counters" /\ Counters(e.allocs, e.deallocs)
    \/ e.op = "note"     /\ UNCHANGED <<owner, seen, nodes>>
    \/ e.op \in {"stuck", "steplimit", "panic"} /\ FALSE

TraceNext ==
    /\ l <= Len(Rec)
    /\ l' = l + 1
    /\ LET e == Rec[l] IN
       IF e.op = "reset"
       THEN owner' = [x \in {} |-> 0] /\ seen' = {} /\ nodes' = {} /\ subj' = e /\ kf' = kf
       ELSE /\ subj' = subj
            /\ IF UseKF /\ \E id \in KnownIds : DevApplies(id, e, subj)
               THEN \E id \in KnownIds : KnownDeviation(id, e, subj) /\ kf' = kf \cup {id}
               ELSE Step(e) /\ kf' = kf

TraceSpec == TraceInit /\ [][TraceNext]_vars
Done == l = Len(Rec) + 1 => PrintT(<<"KFSET", kf>>)
=============================================================================
