--------------------------- MODULE Trace_PoolConc ---------------------------
(* Trace specification for C08: runs of real threads on a real pool (scheduled by *)
(* the cooperative scheduler, or free-running with stamped ownership intervals)   *)
(* judged by PoolOwnership.tla.                                                   *)
EXTENDS PoolOwnership, TraceIO, Known_PoolConc

VARIABLES l, subj, kf
vars == <<owner, seen, nodes, big, ext, cnt, shared, l, subj, kf>>

TraceInit == PoInit /\ shared = {} /\ l = 1 /\ subj = [subject |-> "none"] /\ kf = {}

(* configuration of the run (reset event): capacity in blocks of a fixed-capacity pool, 0 = none *)
Cap == IF Has(subj, "cap") THEN subj.cap ELSE 0
(* the largest block size the pool recycles through its free lists (0 = every size): larger blocks  *)
(* are carved from the arena and never handed out again (skip list / huge list not implemented)    *)
FastMax == IF Has(subj, "fastmax") THEN subj.fastmax ELSE 0
Rc(sz) == FastMax = 0 \/ sz <= FastMax

(* the bytes of a block: e.pos = <<start div 2^24, start mod 2^24>> (address, or offset of the offset pools), e.len *)
R(pos, len) == <<pos[1], pos[2], len>>
Intact(e) == IF Has(e, "intact") THEN e.intact ELSE TRUE

Step(e) ==
    \* every way to obtain one block: allocate / alloc / allocate_with_hint / PooledBuffer::new ... (e.via names it)
    \/ e.op = "alloc" /\ e.ok  /\ (Has(e, "valid") => e.valid) /\ AllocOk(e.t, e.addr, Rc(e.sz), Cap, R(e.pos, e.len))
    \/ e.op = "alloc" /\ ~e.ok /\ AllocRefused(e.t)
    \* bulk twins (allocate_bulk_simd / allocate_bulk_with_prefetch): several blocks from one call
    \/ e.op = "allocs" /\ e.ok  /\ (Has(e, "valid") => e.valid) /\ Len(e.addrs) = Len(e.szs)
                        /\ AllocBulkOk(e.t, e.addrs, [i \in 1..Len(e.szs) |-> Rc(e.szs[i])], Cap, [i \in 1..Len(e.szs) |-> R(e.poss[i], e.szs[i])])
    \/ e.op = "allocs" /\ ~e.ok /\ AllocRefused(e.t)
    \* every way to give one back: deallocate / free / deallocate_with_zero / drop of the RAII guard
    \/ e.op = "free_start" /\ FreeStart(e.t, e.addr, Intact(e))
    \/ e.op = "free_done"  /\ FreeDone(e.t, e.ok)
    \/ e.op = "clear"      /\ ClearDone(e.ok)
    \/ e.op = "validate"   /\ Validate(e.ok)
    \* a scheduler step: the site the thread reached tells what its last code segment did
    \/ e.op = "step" /\ e.to = "tb.push.alloc" /\ NodeAlloc(e.a)
    \/ e.op = "step" /\ e.to = "tb.pop.freed"  /\ NodeFree(e.a)
    \/ e.op = "step" /\ e.to = "tb.pop.next"   /\ NodeDeref(e.a)
    \/ e.op = "step" /\ e.to \notin {"tb.push.alloc", "tb.pop.freed", "tb.pop.next"} /\ UNCHANGED pvars
    \/ e.op = "drain"    /\ shared = {} /\ Drain(e.drained, e.recycles, Cap)
    \/ e.op = "counters" /\ Counters(e.c, Cap)
    \/ e.op = "note"     /\ UNCHANGED pvars
    \* the code under test hung, span for ever, panicked or killed the process: no action
    \/ e.op \in {"stuck", "steplimit", "panic", "crash"} /\ FALSE

TraceNext ==
    /\ l <= Len(Rec)
    /\ l' = l + 1
    /\ LET e == Rec[l] IN
       IF e.op = "reset"
       THEN PoResetNext /\ shared' = {} /\ subj' = e /\ kf' = kf
       ELSE /\ subj' = subj
            /\ IF UseKF /\ \E id \in KnownIds : DevApplies(id, e, subj)
               THEN \E id \in KnownIds : KnownDeviation(id, e, subj) /\ kf' = kf \cup {id}
               ELSE Step(e) /\ shared' = shared /\ kf' = kf

TraceSpec == TraceInit /\ [][TraceNext]_vars
Done == l = Len(Rec) + 1 => PrintT(<<"KFSET", kf>>)
=============================================================================
