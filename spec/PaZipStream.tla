--------------------------- MODULE PaZipStream ---------------------------
(* Executable semantics of the PA-Zip match stream (property C02).                  *)
(*                                                                                  *)
(* A match is a record [k, d, len, b, pos] (unused operands are 0):                 *)
(*   lit   copy len bytes from the literal side stream                              *)
(*   glob  copy len bytes from the global dictionary at position pos                *)
(*   rle   len copies of byte b                                                     *)
(*   near / far1s / far2s / far2l / far3l   copy len bytes from distance d behind   *)
(*         the end of the output, BYTE BY BYTE: the source may overlap the bytes    *)
(*         being written (d < len repeats the last d bytes)                         *)
(*                                                                                  *)
(* Apply(ms, lits, dict) is the decoded output.  Valid(m) are the operand ranges of *)
(* each kind (src/compression/dict_zip/compression_types.rs constants / supports /  *)
(* get_encoding_meta).  The second half transcribes the two serialisations that the *)
(* code has, written like the code (mechanism layer):                               *)
(*   EncodeM / DecodeOne / DecodeAll   the bit-packed layout of encode_match,       *)
(*         decode_match, encode_matches, decode_matches (3 type bits + per-type     *)
(*         field widths, variable-length length of the long kinds);                 *)
(*   WriteLegacy   the byte layout written by PaZipCompressor::                     *)
(*         apply_compression_strategy (type byte + per-type operands).              *)
EXTENDS Naturals, Sequences, FiniteSets, SequencesExt

Kinds == <<"lit", "glob", "rle", "near", "far1s", "far2s", "far2l", "far3l">>
KindSet == {Kinds[i] : i \in 1..8}
Code(k) == (CHOOSE i \in 1..8 : Kinds[i] = k) - 1

M(k, d, len, b, pos) == [k |-> k, d |-> d, len |-> len, b |-> b, pos |-> pos]

IsCopy(m) == m.k \in {"near", "far1s", "far2s", "far2l", "far3l"}

Min2(a, b) == IF a < b THEN a ELSE b

(* ------------------------------------------------------------------ operand ranges *)
Valid(m) ==
    CASE m.k = "lit"   -> m.len \in 1..32
      [] m.k = "glob"  -> m.len >= 6
      [] m.k = "rle"   -> m.len \in 2..33
      [] m.k = "near"  -> m.d \in 2..9 /\ m.len \in 2..5
      [] m.k = "far1s" -> m.d \in 2..257 /\ m.len \in 2..33
      [] m.k = "far2s" -> m.d \in 258..65793 /\ m.len \in 2..33
      [] m.k = "far2l" -> m.d \in 0..65535 /\ m.len >= 34
      [] m.k = "far3l" -> m.d \in 0..16777215 /\ m.len >= 34
      [] OTHER -> FALSE

(* ------------------------------------------------------------------ Apply *)
(* byte-by-byte copy: the definition *)
RECURSIVE CopyBB(_, _, _)
CopyBB(out, d, n) == IF n = 0 THEN out ELSE CopyBB(Append(out, out[Len(out) - d + 1]), d, n - 1)
(* its closed form (equal for 1 <= d <= Len(out); checked by MC_PaZipStream), used for long outputs *)
CopyCF(out, d, n) == LET L == Len(out) IN out \o [i \in 1..n |-> out[L - d + 1 + ((i - 1) % d)]]

(* state of the interpreter: output so far, literals consumed, still well-formed *)
ApplyStep(lits, dict, st, m) ==
      IF ~st.ok THEN st
      ELSE CASE m.k = "lit" ->
                  IF st.lp + m.len > Len(lits) THEN [st EXCEPT !.ok = FALSE]
                  ELSE [out |-> st.out \o SubSeq(lits, st.lp + 1, st.lp + m.len), lp |-> st.lp + m.len, ok |-> TRUE]
             [] m.k = "glob" ->
                  IF m.pos + m.len > Len(dict) THEN [st EXCEPT !.ok = FALSE]
                  ELSE [st EXCEPT !.out = st.out \o SubSeq(dict, m.pos + 1, m.pos + m.len)]
             [] m.k = "rle" -> [st EXCEPT !.out = st.out \o [i \in 1..m.len |-> m.b]]
             [] OTHER ->
                  IF m.d < 1 \/ m.d > Len(st.out) THEN [st EXCEPT !.ok = FALSE]
                  ELSE [st EXCEPT !.out = CopyCF(st.out, m.d, m.len)]

ApplyState(ms, lits, dict) == LET step(st, m) == ApplyStep(lits, dict, st, m)
                              IN FoldLeft(step, [out |-> <<>>, lp |-> 0, ok |-> TRUE], ms)
(* the stream is well-formed: every copy has its source, every literal / dictionary reference its bytes *)
Applicable(ms, lits, dict) == ApplyState(ms, lits, dict).ok
Apply(ms, lits, dict) == ApplyState(ms, lits, dict).out

(* projection of an output that the harness computes of the real output as well *)
Proj(o) == LET n == Len(o) k == Min2(48, n) IN [len |-> n, head |-> SubSeq(o, 1, k), tail |-> SubSeq(o, n - k + 1, n)]

(* ------------------------------------------------------------------ bit-packed layout *)
Pow2(n) == 2 ^ n
(* low n bits of v, least significant first (values below 2^31) *)
BitsOf(v, n) == [i \in 1..n |-> IF i > 31 THEN 0 ELSE (v \div Pow2(i - 1)) % 2]
FromBits(bits, p, n) == LET f[i \in 0..n] == IF i = 0 THEN 0 ELSE IF i > 31 THEN f[i - 1] ELSE f[i - 1] + bits[p + i] * Pow2(i - 1) IN f[n]

VarLen(v) == IF v < 128 THEN <<0>> \o BitsOf(v, 7)
             ELSE IF v < 32768 THEN <<1, 0>> \o BitsOf(v - 128, 15)
             ELSE <<1, 1>> \o BitsOf(v - 32768, 30)          \* write_bits masks to 30 bits

EncodeM(m) ==
    BitsOf(Code(m.k), 3) \o
    CASE m.k = "lit"   -> BitsOf(m.len - 1, 5)
      [] m.k = "glob"  -> BitsOf(m.pos, 32) \o BitsOf(m.len, 16)
      [] m.k = "rle"   -> BitsOf(m.b, 8) \o BitsOf(m.len - 2, 5)
      [] m.k = "near"  -> BitsOf(m.d - 2, 3) \o BitsOf(m.len - 2, 2)
      [] m.k = "far1s" -> BitsOf(m.d - 2, 8) \o BitsOf(m.len - 2, 5)
      [] m.k = "far2s" -> BitsOf(m.d - 258, 16) \o BitsOf(m.len - 2, 5)
      [] m.k = "far2l" -> BitsOf(m.d, 16) \o VarLen(m.len - 34)
      [] m.k = "far3l" -> BitsOf(m.d, 24) \o VarLen(m.len - 34)

(* field-width table; BitsTableOK (checked by MC_PaZipStream) says it is the length of EncodeM *)
VarBits(v) == IF v < 128 THEN 8 ELSE IF v < 32768 THEN 17 ELSE 32
Bits(m) == 3 + CASE m.k = "lit" -> 5 [] m.k = "glob" -> 48 [] m.k = "rle" -> 13 [] m.k = "near" -> 5
                 [] m.k = "far1s" -> 13 [] m.k = "far2s" -> 21
                 [] m.k = "far2l" -> 16 + VarBits(m.len - 34) [] m.k = "far3l" -> 24 + VarBits(m.len - 34)
SeqBits(ms) == FoldLeft(LAMBDA a, m : a + Bits(m), 0, ms)

EncodeAll(ms) == FoldLeft(LAMBDA a, m : a \o EncodeM(m), <<>>, ms)
(* BitWriter::finish pads the last byte with zero bits *)
Pad(bits) == bits \o [i \in 1..((8 - (Len(bits) % 8)) % 8) |-> 0]

Fail(p) == [ok |-> FALSE, m |-> M("lit", 0, 0, 0, 0), p |-> p]
Got(m, p) == IF Valid(m) THEN [ok |-> TRUE, m |-> m, p |-> p] ELSE Fail(p)     \* decode_match validates

DecodeVar(bits, q) ==          \* [ok, v, p]
    IF q + 1 > Len(bits) THEN [ok |-> FALSE, v |-> 0, p |-> q]
    ELSE IF bits[q + 1] = 0
         THEN IF q + 8 > Len(bits) THEN [ok |-> FALSE, v |-> 0, p |-> q] ELSE [ok |-> TRUE, v |-> FromBits(bits, q + 1, 7), p |-> q + 8]
         ELSE IF q + 2 > Len(bits) THEN [ok |-> FALSE, v |-> 0, p |-> q]
         ELSE IF bits[q + 2] = 0
              THEN IF q + 17 > Len(bits) THEN [ok |-> FALSE, v |-> 0, p |-> q] ELSE [ok |-> TRUE, v |-> FromBits(bits, q + 2, 15) + 128, p |-> q + 17]
              ELSE IF q + 32 > Len(bits) THEN [ok |-> FALSE, v |-> 0, p |-> q] ELSE [ok |-> TRUE, v |-> FromBits(bits, q + 2, 30) + 32768, p |-> q + 32]

DecodeOne(bits, p) ==
    IF p + 3 > Len(bits) THEN Fail(p)
    ELSE LET t == FromBits(bits, p, 3)
             has(n) == p + n <= Len(bits)
             R(off, n) == FromBits(bits, p + off, n)
         IN CASE t = 0 -> IF has(8)  THEN Got(M("lit", 0, R(3, 5) + 1, 0, 0), p + 8) ELSE Fail(p)
              [] t = 1 -> IF has(51) THEN Got(M("glob", 0, R(35, 16), 0, R(3, 32)), p + 51) ELSE Fail(p)
              [] t = 2 -> IF has(16) THEN Got(M("rle", 0, R(11, 5) + 2, R(3, 8), 0), p + 16) ELSE Fail(p)
              [] t = 3 -> IF has(8)  THEN Got(M("near", R(3, 3) + 2, R(6, 2) + 2, 0, 0), p + 8) ELSE Fail(p)
              [] t = 4 -> IF has(16) THEN Got(M("far1s", R(3, 8) + 2, R(11, 5) + 2, 0, 0), p + 16) ELSE Fail(p)
              [] t = 5 -> IF has(24) THEN Got(M("far2s", R(3, 16) + 258, R(19, 5) + 2, 0, 0), p + 24) ELSE Fail(p)
              [] t = 6 -> IF has(19) THEN LET v == DecodeVar(bits, p + 19) IN
                                          IF v.ok THEN Got(M("far2l", R(3, 16), v.v + 34, 0, 0), v.p) ELSE Fail(p)
                          ELSE Fail(p)
              [] t = 7 -> IF has(27) THEN LET v == DecodeVar(bits, p + 27) IN
                                          IF v.ok THEN Got(M("far3l", R(3, 24), v.v + 34, 0, 0), v.p) ELSE Fail(p)
                          ELSE Fail(p)

(* decode_matches: "while reader.has_bits(LoopBits) { decode_match }"; the code has LoopBits = 3 *)
RECURSIVE DecodeFrom(_, _, _, _)
DecodeFrom(bits, p, acc, loopBits) ==
    IF Len(bits) - p < loopBits THEN [ok |-> TRUE, ms |-> acc, p |-> p]
    ELSE LET r == DecodeOne(bits, p) IN
         IF ~r.ok THEN [ok |-> FALSE, ms |-> acc, p |-> p]
         ELSE DecodeFrom(bits, r.p, Append(acc, r.m), loopBits)
DecodeAll(bits, loopBits) == DecodeFrom(bits, 0, <<>>, loopBits)

(* what the property asks of the match codec: the sequence comes back, bit for bit accounted *)
CodecRoundTrip(ms, loopBits) ==
    LET r == DecodeAll(Pad(EncodeAll(ms)), loopBits) IN r.ok /\ r.ms = ms /\ r.p = Len(EncodeAll(ms))

(* ------------------------------------------------------------------ byte layout of apply_compression_strategy *)
LE(v, n) == [i \in 1..n |-> (v \div (256 ^ (i - 1))) % 256]
LegacyStep(lits, gpb, st, m) ==
      CASE m.k = "lit"   -> [bytes |-> st.bytes \o <<0, m.len % 256>> \o SubSeq(lits, st.lp + 1, Min2(st.lp + m.len, Len(lits))),
                             lp |-> st.lp + m.len]
        [] m.k = "glob"  -> [st EXCEPT !.bytes = st.bytes \o <<1>> \o (IF gpb = 2 THEN LE(m.pos % 65536, 2) ELSE LE(m.pos, 4)) \o LE(m.len % 65536, 2)]
        [] m.k = "rle"   -> [st EXCEPT !.bytes = st.bytes \o <<2, m.b, m.len % 256>>]
        [] m.k = "near"  -> [st EXCEPT !.bytes = st.bytes \o <<3, m.d % 256, m.len % 256>>]
        [] m.k = "far1s" -> [st EXCEPT !.bytes = st.bytes \o <<4>> \o LE(m.d % 65536, 2) \o <<m.len % 256>>]
        [] m.k = "far2s" -> [st EXCEPT !.bytes = st.bytes \o <<5>> \o LE(m.d, 4) \o <<m.len % 256>>]
        [] m.k = "far2l" -> [st EXCEPT !.bytes = st.bytes \o <<6>> \o LE(m.d % 65536, 2) \o LE(m.len % 65536, 2)]
        [] m.k = "far3l" -> [st EXCEPT !.bytes = st.bytes \o <<7>> \o LE(m.d, 4) \o LE(m.len, 4)]
(* gpb: bytes of the dictionary position of a global match (2 on the pinned tree, 4 with fix C02-5) *)
WriteLegacy(ms, lits, gpb) == LET step(st, m) == LegacyStep(lits, gpb, st, m)
                         IN FoldLeft(step, [bytes |-> <<>>, lp |-> 0], ms).bytes

(* ------------------------------------------------------------------ reference byte encoding *)
(* The encoding written by reference_encoding.rs (ReferenceEncoder::encode_* and                 *)
(* compress_record_reference), read back HERE: the crate has no decoder for it, so this          *)
(* definition is the only reader.  First byte: type in the low 3 bits, a 5-bit field f above.    *)
(* Global matches as written with g_offset_bits = 24, g_max_short_len = 32 (what PaZipCompressor  *)
(* passes).  A decoded literal carries its bytes; RLE is a copy from distance 1.                  *)
LEU(bytes, q, n) == LET f[i \in 0..n] == IF i = 0 THEN 0 ELSE f[i - 1] + bytes[q + i] * (256 ^ (i - 1)) IN f[n]
RECURSIVE RefVarAt(_, _, _, _)
RefVarAt(bytes, q, mul, acc) ==                   \* var_size_t: 7 bits per byte, low group first
    IF q + 1 > Len(bytes) \/ mul > 2097152 THEN [ok |-> FALSE, v |-> 0, p |-> q]
    ELSE LET b == bytes[q + 1] IN
         IF b >= 128 THEN RefVarAt(bytes, q + 1, mul * 128, acc + (b - 128) * mul)
         ELSE [ok |-> TRUE, v |-> acc + b * mul, p |-> q + 1]
RefVar(bytes, q) == RefVarAt(bytes, q, 1, 0)

RM(k, d, len, pos, data) == [k |-> k, d |-> d, len |-> len, pos |-> pos, data |-> data]
RefFail(p) == [ok |-> FALSE, m |-> RM("lit", 0, 0, 0, <<>>), p |-> p]
RefGot(m, p) == [ok |-> TRUE, m |-> m, p |-> p]

RefDecodeOne(bytes, p) ==
    IF p + 1 > Len(bytes) THEN RefFail(p)
    ELSE LET t == bytes[p + 1] % 8
             f == bytes[p + 1] \div 8
             has(n) == p + n <= Len(bytes)
         IN CASE t = 0 -> IF has(2 + f) THEN RefGot(RM("lit", 0, f + 1, 0, SubSeq(bytes, p + 2, p + 2 + f)), p + 2 + f) ELSE RefFail(p)
              [] t = 1 -> IF ~has(4) THEN RefFail(p)
                          ELSE IF f < 31 THEN RefGot(RM("glob", 0, f + 6, LEU(bytes, p + 1, 3), <<>>), p + 4)
                          ELSE LET v == RefVar(bytes, p + 4) IN
                               IF v.ok THEN RefGot(RM("glob", 0, v.v + 33, LEU(bytes, p + 1, 3), <<>>), v.p) ELSE RefFail(p)
              [] t = 2 -> RefGot(RM("rle", 1, f + 2, 0, <<>>), p + 1)
              [] t = 3 -> RefGot(RM("near", (f \div 4) + 2, (f % 4) + 2, 0, <<>>), p + 1)
              [] t = 4 -> IF has(2) THEN RefGot(RM("far1s", bytes[p + 2] + 2, f + 2, 0, <<>>), p + 2) ELSE RefFail(p)
              [] t = 5 -> IF has(3) THEN RefGot(RM("far2s", LEU(bytes, p + 1, 2) + 258, f + 2, 0, <<>>), p + 3) ELSE RefFail(p)
              [] t = 6 -> IF f < 31
                          THEN IF has(3) THEN RefGot(RM("far2l", LEU(bytes, p + 1, 2), f + 34, 0, <<>>), p + 3) ELSE RefFail(p)
                          ELSE LET v == RefVar(bytes, p + 1) IN
                               IF v.ok /\ v.p + 2 <= Len(bytes) THEN RefGot(RM("far2l", LEU(bytes, v.p, 2), v.v + 65, 0, <<>>), v.p + 2) ELSE RefFail(p)
              [] t = 7 -> IF f < 31
                          THEN IF has(4) THEN RefGot(RM("far3l", LEU(bytes, p + 1, 3), f + 5, 0, <<>>), p + 4) ELSE RefFail(p)
                          ELSE LET v == RefVar(bytes, p + 1) IN
                               IF v.ok /\ v.p + 3 <= Len(bytes) THEN RefGot(RM("far3l", LEU(bytes, v.p, 3), v.v + 36, 0, <<>>), v.p + 3) ELSE RefFail(p)

(* the whole record: decode and apply, one match after the other *)
RECURSIVE RefApplyFrom(_, _, _, _)
RefApplyFrom(bytes, p, out, dict) ==
    IF p >= Len(bytes) THEN [ok |-> TRUE, out |-> out]
    ELSE LET r == RefDecodeOne(bytes, p) IN
         IF ~r.ok THEN [ok |-> FALSE, out |-> out]
         ELSE CASE r.m.k = "lit"  -> RefApplyFrom(bytes, r.p, out \o r.m.data, dict)
                [] r.m.k = "glob" -> IF r.m.pos + r.m.len > Len(dict) THEN [ok |-> FALSE, out |-> out]
                                     ELSE RefApplyFrom(bytes, r.p, out \o SubSeq(dict, r.m.pos + 1, r.m.pos + r.m.len), dict)
                [] OTHER          -> IF r.m.d < 1 \/ r.m.d > Len(out) THEN [ok |-> FALSE, out |-> out]
                                     ELSE RefApplyFrom(bytes, r.p, CopyCF(out, r.m.d, r.m.len), dict)
RefApply(bytes, dict) == RefApplyFrom(bytes, 0, <<>>, dict)
=============================================================================
