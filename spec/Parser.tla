------------------------------- MODULE Parser -------------------------------
(* C15 - decoders and loaders reject malformed bytes with an error, never a crash.   *)
(*                                                                                    *)
(* This module is (1) a FAULT MODEL: the set of malformed inputs derived from a valid *)
(* encoding E (a byte string produced by the real encoder of the library) and the set *)
(* of raw byte strings, written as mutation DESCRIPTORS that depend only on the       *)
(* length class |E| - TLC enumerates them (MC_ParserGen), the harness only applies    *)
(* them - and (2) the CONTRACT of a parser call: its outcome is "ok" or "err".        *)
(*                                                                                    *)
(* Bytes are 0..255, byte strings are sequences (1-based here); descriptor offsets    *)
(* are 0-based (the way the harness indexes a slice).                                 *)
(*                                                                                    *)
(* Descriptors (tuples; the first component names the mutation kind):                 *)
(*   <<"b">>                 the unmodified encoding (base case)                      *)
(*   <<"t", n>>              Truncate(n): keep the first n bytes, 0 <= n < |E|        *)
(*   <<"s", i, k>>           Substitute(i, k): byte i replaced by SubstVal(k, E[i]),  *)
(*                           k in 1..7 = 0x00 0x01 0x7F 0x80 0xFF E[i]+1 E[i]-1       *)
(*   <<"m", off, w, p>>      MaxLen: the w-byte window at off overwritten with        *)
(*                           Pattern(p) (length-field maximisation), every aligned    *)
(*                           and unaligned window inside the first WinLimit bytes     *)
(*   <<"a", g>>              Append(Garbage(g, E))                                    *)
(*   <<"c", off, w, p, n>>   Combo: MaxLen(off, w, p) followed by Truncate(n),        *)
(*                           off + w <= n < |E| (the maximised field survives)        *)
(*   <<"o", off, w, v>>      Overflow value: the w-byte window at a 4-aligned off     *)
(*                           overwritten with OVal(w, v) - a count that makes         *)
(*                           count * elem_size (+ header) wrap: 2^64/es, 2^63/es,     *)
(*                           2^32/es (es = 1..16) and their neighbours, MAX - small   *)
(*   <<"p", off, 8, v>>      the same value in TWO adjacent 8-byte fields (a length   *)
(*                           and a capacity that agree with each other)               *)
(*   <<"u", off, w, v>>      as "o" at the offsets that are not multiples of 4        *)
(*   <<"r", b1, .., bk>>     the raw byte string <<b1..bk>> (E is not used)           *)
(*   <<"R", k>>              compact class: every byte string of length exactly k     *)
(*                           (expanded by the harness in lexicographic order; used    *)
(*                           only where 256^k descriptors are too many to print)      *)
EXTENDS Naturals, Sequences, FiniteSets, SequencesExt

Byte == 0..255

Min2(a, b) == IF a < b THEN a ELSE b

-----------------------------------------------------------------------------
(* substitution values *)
SubstKinds == 1..7
SubstVal(k, old) ==
    CASE k = 1 -> 0
      [] k = 2 -> 1
      [] k = 3 -> 127
      [] k = 4 -> 128
      [] k = 5 -> 255
      [] k = 6 -> (old + 1) % 256
      [] k = 7 -> (old + 255) % 256

(* length-field patterns (little endian as the library writes them, and big endian) *)
Patterns == 1..6
Pattern(p) ==
    CASE p = 1 -> <<255, 255, 255, 255>>                          \* 0xFFFFFFFF
      [] p = 2 -> <<255, 255, 255, 127>>                          \* 0x7FFFFFFF LE
      [] p = 3 -> <<127, 255, 255, 255>>                          \* 0x7FFFFFFF BE
      [] p = 4 -> <<255, 255, 255, 255, 255, 255, 255, 255>>      \* 0xFFFFFFFFFFFFFFFF
      [] p = 5 -> <<0, 0, 0, 0, 0, 0, 0, 128>>                    \* 2^63 LE
      [] p = 6 -> <<128, 0, 0, 0, 0, 0, 0, 0>>                    \* 2^63 BE
Width(p) == Len(Pattern(p))

(* appended garbage *)
GarbageKinds == 1..6
Rep(b, n) == [j \in 1..n |-> b]
Garbage(g, E) ==
    CASE g = 1 -> <<0>>
      [] g = 2 -> <<255>>
      [] g = 3 -> Rep(255, 8)
      [] g = 4 -> Rep(0, 64)
      [] g = 5 -> IF E = <<>> THEN <<170>> ELSE E            \* the encoding once more
      [] g = 6 -> Rep(170, 1024)

-----------------------------------------------------------------------------
(* parameters of an enumeration: P.win = WinLimit, P.combo \in {"class","all"},      *)
(* P.raw = largest k whose raw strings are enumerated explicitly                     *)

(* number of w-byte windows inside the first lim bytes of a string of length L *)
WinCount(L, w, lim) == IF Min2(L, lim) >= w THEN Min2(L, lim) - w + 1 ELSE 0

(* truncation points combined with a maximised window that ends at a (exclusive) *)
TruncPoints(a, L, mode) ==
    IF mode = "all" THEN a..(L - 1)
    ELSE {a, a + 1, a + 8, L - 1} \cap (a..(L - 1))

(* the descriptor sequences, per kind, of the length class L *)
BaseSeq == << <<"b">> >>
TruncSeq(L) == [j \in 1..L |-> <<"t", j - 1>>]
SubstSeq(L) == [j \in 1..(7 * L) |-> <<"s", (j - 1) \div 7, ((j - 1) % 7) + 1>>]
MaxLenFor(L, p, lim) == [j \in 1..WinCount(L, Width(p), lim) |-> <<"m", j - 1, Width(p), p>>]
MaxLenSeq(L, lim) ==
    MaxLenFor(L, 1, lim) \o MaxLenFor(L, 2, lim) \o MaxLenFor(L, 3, lim) \o
    MaxLenFor(L, 4, lim) \o MaxLenFor(L, 5, lim) \o MaxLenFor(L, 6, lim)
AppendSeq == [g \in 1..6 |-> <<"a", g>>]
(* combinations: a uniform grid (window x candidate truncation point) filtered with    *)
(* SelectSeq - no recursion, TLC evaluates it iteratively even for 10^6 candidates     *)
ComboCand(a, L, mode, c) ==
    IF mode = "all" THEN c - 1
    ELSE CASE c = 1 -> a [] c = 2 -> a + 1 [] c = 3 -> a + 8 [] c = 4 -> L - 1
ComboKeep(g, L, mode) ==       \* g = <<"c", off, w, p, n, c>>
    LET a == g[2] + g[3] IN
    /\ g[5] >= a /\ g[5] <= L - 1
    /\ (mode # "all" /\ g[6] = 4) => g[5] \notin {a, a + 1, a + 8}
ComboSeq(L, lim, mode) ==
    LET ms == MaxLenSeq(L, lim)
        C  == IF mode = "all" THEN L ELSE 4
        grid == [k \in 1..(Len(ms) * C) |->
                    LET m == ms[((k - 1) \div C) + 1]
                        c == ((k - 1) % C) + 1
                    IN  <<"c", m[2], m[3], m[4], ComboCand(m[2] + m[3], L, mode, c), c>>]
        keep(g) == ComboKeep(g, L, mode)
        sel == SelectSeq(grid, keep)
    IN  [j \in 1..Len(sel) |-> SubSeq(sel[j], 1, 5)]
RawSeqK(k) ==
    CASE k = 0 -> << <<"r">> >>
      [] k = 1 -> [j \in 1..256 |-> <<"r", j - 1>>]
      [] k = 2 -> [j \in 1..65536 |-> <<"r", (j - 1) \div 256, (j - 1) % 256>>]
RawSeq(kmax) == FlattenSeq([j \in 1..(Min2(kmax, 2) + 1) |-> RawSeqK(j - 1)])

(* ---- multiplication-overflow values of a count / length field (little endian).        *)
(* TLC integers are 32 bit: the values are built as byte strings.                           *)
PowPlus(w, e, d) ==      \* 2^e + d   (0 <= d < 256, e >= 8)
    [j \in 1..w |-> IF j = 1 THEN d ELSE IF j = (e \div 8) + 1 THEN 2 ^ (e % 8) ELSE 0]
PowMinus1(w, e) ==       \* 2^e - 1
    [j \in 1..w |-> IF j < (e \div 8) + 1 THEN 255 ELSE IF j = (e \div 8) + 1 THEN 2 ^ (e % 8) - 1 ELSE 0]
MaxMinus(w, d) ==        \* 2^(8w) - 1 - d   (0 <= d < 256)
    [j \in 1..w |-> IF j = 1 THEN 255 - d ELSE 255]
Around(w, e) == << PowMinus1(w, e), PowPlus(w, e, 0), PowPlus(w, e, 1) >>
Around100(w, e) == Around(w, e) \o << PowPlus(w, e, 100) >>
NearMax(w) == << MaxMinus(w, 0), MaxMinus(w, 1), MaxMinus(w, 79), MaxMinus(w, 80) >>
(* 8-byte fields: 2^64/es and 2^63/es for es = 2..16 (2^60..2^63, 2^59), 2^32/es (2^28..2^32),   *)
(* each with -1 / +1 (and +100: wraps to a plausible small size), and the top of the range       *)
OVals8 == Around100(8, 63) \o Around100(8, 62) \o Around100(8, 61) \o Around100(8, 60) \o Around(8, 59) \o
          Around(8, 32) \o Around(8, 31) \o Around(8, 30) \o Around(8, 29) \o Around(8, 28) \o NearMax(8)
(* 4-byte fields: the 2^32 analogues *)
OVals4 == Around100(4, 31) \o Around100(4, 30) \o Around100(4, 29) \o Around100(4, 28) \o NearMax(4)
OVals(w) == IF w = 8 THEN OVals8 ELSE OVals4
OVal(w, v) == OVals(w)[v]
NV(w) == Len(OVals(w))

(* 4-aligned window offsets 0, 4, 8 .. with off + span <= min(L, lim) *)
AlignedCount(L, span, lim) == IF Min2(L, lim) >= span THEN ((Min2(L, lim) - span) \div 4) + 1 ELSE 0
OverFor(L, w, lim) ==
    [j \in 1..(AlignedCount(L, w, lim) * NV(w)) |-> <<"o", 4 * ((j - 1) \div NV(w)), w, ((j - 1) % NV(w)) + 1>>]
OverSeq(L, lim) == OverFor(L, 4, lim) \o OverFor(L, 8, lim)
PairSeq(L, lim) ==
    [j \in 1..(AlignedCount(L, 16, lim) * NV(8)) |-> <<"p", 4 * ((j - 1) \div NV(8)), 8, ((j - 1) % NV(8)) + 1>>]
UnalFor(L, w, lim) ==
    LET grid == [j \in 1..(WinCount(L, w, lim) * NV(w)) |-> <<"u", (j - 1) \div NV(w), w, ((j - 1) % NV(w)) + 1>>]
        keep(g) == g[2] % 4 # 0
    IN  SelectSeq(grid, keep)
UnalSeq(L, lim) == UnalFor(L, 4, lim) \o UnalFor(L, 8, lim)

Kinds == {"b", "t", "s", "m", "a", "c", "o", "p", "u", "r", "R"}

DescSeq(kind, L, P) ==
    CASE kind = "b" -> BaseSeq
      [] kind = "t" -> TruncSeq(L)
      [] kind = "s" -> SubstSeq(L)
      [] kind = "m" -> MaxLenSeq(L, P.win)
      [] kind = "a" -> AppendSeq
      [] kind = "c" -> ComboSeq(L, P.win, P.combo)
      [] kind = "o" -> OverSeq(L, P.win)
      [] kind = "p" -> PairSeq(L, P.win)
      [] kind = "u" -> UnalSeq(L, P.win)
      [] kind = "r" -> RawSeq(P.raw)

(* closed forms of the numbers of descriptors (checked against the sequences above  *)
(* by MC_Parser); the trace specification binds n_cases of every batch to them      *)
Pow256(k) == IF k = 0 THEN 1 ELSE IF k = 1 THEN 256 ELSE IF k = 2 THEN 65536 ELSE 16777216
SumTo(n, F(_)) == LET S[i \in 0..n] == IF i = 0 THEN 0 ELSE S[i - 1] + F(i) IN S[n]
ComboCountW(L, w, lim, mode) ==
    LET F(j) == Cardinality(TruncPoints((j - 1) + w, L, mode)) IN SumTo(WinCount(L, w, lim), F)
NumDesc(kind, L, P) ==
    CASE kind = "b" -> 1
      [] kind = "t" -> L
      [] kind = "s" -> 7 * L
      [] kind = "m" -> 3 * WinCount(L, 4, P.win) + 3 * WinCount(L, 8, P.win)
      [] kind = "a" -> 6
      [] kind = "c" -> 3 * ComboCountW(L, 4, P.win, P.combo) + 3 * ComboCountW(L, 8, P.win, P.combo)
      [] kind = "r" -> IF P.raw = 0 THEN 1 ELSE IF P.raw = 1 THEN 257 ELSE 65793
      [] kind = "o" -> AlignedCount(L, 4, P.win) * NV(4) + AlignedCount(L, 8, P.win) * NV(8)
      [] kind = "p" -> AlignedCount(L, 16, P.win) * NV(8)
      [] kind = "u" -> (WinCount(L, 4, P.win) - AlignedCount(L, 4, P.win)) * NV(4)
                       + (WinCount(L, 8, P.win) - AlignedCount(L, 8, P.win)) * NV(8)
      [] kind = "R" -> Pow256(L)              \* for the compact class, L is the string length k

(* a descriptor is well formed for the length class L *)
WellFormed(d, L, P) ==
    CASE d[1] = "b" -> Len(d) = 1
      [] d[1] = "t" -> Len(d) = 2 /\ d[2] \in 0..(L - 1)
      [] d[1] = "s" -> Len(d) = 3 /\ d[2] \in 0..(L - 1) /\ d[3] \in SubstKinds
      [] d[1] = "m" -> /\ Len(d) = 4 /\ d[4] \in Patterns /\ d[3] = Width(d[4])
                       /\ d[2] \in Nat /\ d[2] + d[3] <= Min2(L, P.win)
      [] d[1] = "a" -> Len(d) = 2 /\ d[2] \in GarbageKinds
      [] d[1] = "c" -> /\ Len(d) = 5 /\ d[4] \in Patterns /\ d[3] = Width(d[4])
                       /\ d[2] \in Nat /\ d[2] + d[3] <= Min2(L, P.win)
                       /\ d[5] \in TruncPoints(d[2] + d[3], L, P.combo)
      [] d[1] = "r" -> Len(d) <= 4 /\ \A j \in 2..Len(d) : d[j] \in Byte
      [] d[1] = "o" -> /\ Len(d) = 4 /\ d[3] \in {4, 8} /\ d[4] \in 1..NV(d[3])
                       /\ d[2] \in Nat /\ d[2] % 4 = 0 /\ d[2] + d[3] <= Min2(L, P.win)
      [] d[1] = "u" -> /\ Len(d) = 4 /\ d[3] \in {4, 8} /\ d[4] \in 1..NV(d[3])
                       /\ d[2] \in Nat /\ d[2] % 4 # 0 /\ d[2] + d[3] <= Min2(L, P.win)
      [] d[1] = "p" -> /\ Len(d) = 4 /\ d[3] = 8 /\ d[4] \in 1..NV(8)
                       /\ d[2] \in Nat /\ d[2] % 4 = 0 /\ d[2] + 16 <= Min2(L, P.win)
      [] d[1] = "R" -> Len(d) = 2 /\ d[2] \in 0..3
      [] OTHER -> FALSE

-----------------------------------------------------------------------------
(* applying a descriptor to an encoding *)
SetWindow(E, off, pat) ==
    [j \in 1..Len(E) |-> IF j > off /\ j <= off + Len(pat) THEN pat[j - off] ELSE E[j]]

Apply(E, d) ==
    CASE d[1] = "b" -> E
      [] d[1] = "t" -> SubSeq(E, 1, d[2])
      [] d[1] = "s" -> [E EXCEPT ![d[2] + 1] = SubstVal(d[3], E[d[2] + 1])]
      [] d[1] = "m" -> SetWindow(E, d[2], Pattern(d[4]))
      [] d[1] = "a" -> E \o Garbage(d[2], E)
      [] d[1] = "c" -> SubSeq(SetWindow(E, d[2], Pattern(d[4])), 1, d[5])
      [] d[1] = "o" -> SetWindow(E, d[2], OVal(d[3], d[4]))
      [] d[1] = "u" -> SetWindow(E, d[2], OVal(d[3], d[4]))
      [] d[1] = "p" -> SetWindow(SetWindow(E, d[2], OVal(8, d[4])), d[2] + 8, OVal(8, d[4]))
      [] d[1] = "r" -> Tail(d)

(* laws of the fault model (checked by MC_Parser for every descriptor of every test   *)
(* encoding)                                                                          *)
IsProperPrefix(a, b) == Len(a) < Len(b) /\ \A j \in 1..Len(a) : a[j] = b[j]
DiffPositions(a, b) == {j \in 1..Len(a) : a[j] # b[j]}

Law(E, d) ==
    LET R == Apply(E, d) IN
    CASE d[1] = "b" -> R = E
      [] d[1] = "t" -> IsProperPrefix(R, E) /\ Len(R) = d[2]
      [] d[1] = "s" -> /\ Len(R) = Len(E)
                       /\ DiffPositions(R, E) \subseteq {d[2] + 1}
                       /\ R[d[2] + 1] = SubstVal(d[3], E[d[2] + 1])
                       /\ (SubstVal(d[3], E[d[2] + 1]) # E[d[2] + 1] => Cardinality(DiffPositions(R, E)) = 1)
      [] d[1] = "m" -> /\ Len(R) = Len(E)
                       /\ DiffPositions(R, E) \subseteq (d[2] + 1)..(d[2] + d[3])
                       /\ SubSeq(R, d[2] + 1, d[2] + d[3]) = Pattern(d[4])
      [] d[1] = "a" -> IsProperPrefix(E, R)
      [] d[1] = "c" -> /\ Len(R) = d[5] /\ d[5] < Len(E)
                       /\ SubSeq(R, d[2] + 1, d[2] + d[3]) = Pattern(d[4])   \* the field survives
                       /\ \A j \in 1..Len(R) : (j <= d[2] \/ j > d[2] + d[3]) => R[j] = E[j]
      [] d[1] \in {"o", "u"} ->
                       /\ Len(R) = Len(E)
                       /\ DiffPositions(R, E) \subseteq (d[2] + 1)..(d[2] + d[3])
                       /\ SubSeq(R, d[2] + 1, d[2] + d[3]) = OVal(d[3], d[4])
      [] d[1] = "p" -> /\ Len(R) = Len(E)
                       /\ DiffPositions(R, E) \subseteq (d[2] + 1)..(d[2] + 16)
                       /\ SubSeq(R, d[2] + 1, d[2] + 8) = OVal(8, d[4])
                       /\ SubSeq(R, d[2] + 9, d[2] + 16) = OVal(8, d[4])      \* both fields agree
      [] d[1] = "r" -> Len(R) = Len(d) - 1 /\ \A j \in 1..Len(R) : R[j] = d[j + 1]

-----------------------------------------------------------------------------
(* the contract *)
Outcomes == {"ok", "err", "panic", "abort", "signal", "timeout", "oom"}
Allowed  == {"ok", "err"}

(* a single parser call: whatever the bytes, the parser returns a value or an error *)
Parse(parser, d, outcome) == outcome \in Allowed

VARIABLE tally          \* [ok |-> n, err |-> n, batches |-> n] of the current parser (abstract state)

TallyInit == tally = [ok |-> 0, err |-> 0, batches |-> 0]

OutcomeSum(o) == o.ok + o.err + o.panic + o.abort + o.signal + o.timeout + o.oom

(* a batch = all descriptors of one kind applied to one encoding of one parser.       *)
(* e.len is |E| (for kind "R": the string length k), e.kind the descriptor kind.      *)
BatchShape(e, P) ==
    /\ e.kind \in Kinds
    /\ e.n_cases = NumDesc(e.kind, e.len, P)                 \* every descriptor of the class was run
    /\ OutcomeSum(e.outcomes) + e.skipped = e.n_cases        \* and every case has exactly one outcome
    /\ Len(e.bad) + e.bad_unlisted = e.n_cases - e.outcomes.ok - e.outcomes.err - e.skipped
    /\ \A j \in 1..Len(e.bad) : e.bad[j].o \in Outcomes \ Allowed
    /\ \A j \in 1..Len(e.bad) : e.kind = "R" \/ WellFormed(e.bad[j].d, e.len, P)

ParseBatch(e, P) ==
    /\ BatchShape(e, P)
    /\ \A o \in Outcomes \ Allowed : e.outcomes[o] = 0      \* = Parse(..) holds for every case
    /\ e.skipped = 0
    /\ e.bad = <<>> /\ e.bad_unlisted = 0
    /\ tally' = [ok |-> tally.ok + e.outcomes.ok, err |-> tally.err + e.outcomes.err,
                 batches |-> tally.batches + 1]
=============================================================================
