SPECIFICATION Spec
INVARIANT Classification RowLaws AgreesWithArithmetic SameValueForms
CHECK_DEADLOCK FALSE
