SPECIFICATION Spec
CONSTANTS
  Alphabet = {45, 48, 49, 57, 46}
  MaxLen = 4
INVARIANT Classification RowLaws AgreesWithArithmetic SameValueForms
CHECK_DEADLOCK FALSE
