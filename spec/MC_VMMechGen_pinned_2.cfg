SPECIFICATION Spec
CONSTANTS
  P = 2
  Fixed = FALSE
  OneWriterMode = TRUE
  Threads <- MCThreads
  Prog <- MCProg
INVARIANT Emit
CHECK_DEADLOCK FALSE
