SPECIFICATION Spec
CONSTANTS
  Keys = {"k1","k2","k3"}
  Vals = {"v1","v2"}
  Cap = 2
  ClearAsInCode = TRUE
INVARIANT ListOK Refines CapacityInv CallbackExactlyOnce NeverCallbackForRetrievable
CHECK_DEADLOCK FALSE
