SPECIFICATION GenSpec
CONSTANTS
  Caps = {0}
  MaxLenQ = 100
  MaxId = 1000
  L = 6
  Ops = {"push_back","pop_front","push_bulk","pop_bulk","reserve","clear","clone"}
CONSTRAINT GenBound
INVARIANT Emit
CHECK_DEADLOCK FALSE
