SPECIFICATION Spec
INVARIANT TypeInv Visit Ascending Bounds
CHECK_DEADLOCK FALSE
