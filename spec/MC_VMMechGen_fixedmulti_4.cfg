SPECIFICATION Spec
CONSTANTS
  P = 4
  Fixed = TRUE
  OneWriterMode = FALSE
  Threads <- MCThreads
  Prog <- MCProg
INVARIANT Emit
CHECK_DEADLOCK FALSE
