----------------------------- MODULE MC_LexIter -----------------------------
(* Bounded model of the cursor contract LexIter.tla: every sorted sequence (duplicates     *)
(* and empty strings included) of up to MaxN strings drawn from Strs, slice cursors and     *)
(* stream cursors, every positioning operation with every probe target, then a scan.        *)
(* A history variable records the indices the cursor delivered since the last positioning:  *)
(*   Visit       a forward scan delivers consecutive indices, each exactly once, and when    *)
(*               it reports the end it has delivered everything from its start to the last   *)
(*               element; a backward scan symmetrically down to the first element            *)
(*   Ascending   the strings delivered are in ascending (descending for prev) order          *)
(*   Bounds      LowerBound(t) / UpperBound(t) split S into < t, = t, > t; scanning from      *)
(*               the lower bound to the upper bound delivers exactly the copies of t          *)
EXTENDS LexIter, TLC

Strs == { <<>>, <<97>>, <<97, 97>>, <<97, 255>>, <<255>> }
Probes == Strs \cup { <<0>>, <<97, 98>>, <<255, 255>> }
MaxN == 4
AllSorted == { s \in UNION { [1..n -> Strs] : n \in 0..MaxN } : LexSorted(s) }

VARIABLES stream, dir, vis
vars == <<S, pos, stream, dir, vis>>

Start(p) == IF p \in 1..Len(S) THEN <<p>> ELSE <<>>

Init == /\ S \in AllSorted /\ stream \in BOOLEAN
        /\ pos = (IF stream THEN 0 ELSE 1)
        /\ dir = "fwd"
        /\ vis = (IF stream THEN <<>> ELSE IF Len(S) > 0 THEN <<1>> ELSE <<>>)

DoNext == /\ dir = "fwd"
          /\ \E r \in BOOLEAN : Next(r) /\ vis' = (IF r THEN Append(vis, pos') ELSE vis)
          /\ UNCHANGED <<stream, dir>>
DoPrev == /\ dir = "bwd" /\ ~stream
          /\ \E r \in BOOLEAN : Prev(r) /\ vis' = (IF r THEN Append(vis, pos') ELSE vis)
          /\ UNCHANGED <<stream, dir>>
DoSeek == /\ ~stream
          /\ \/ \E r \in BOOLEAN : SeekStart(r) /\ dir' = "fwd"
             \/ \E r \in BOOLEAN : SeekEnd(r) /\ dir' = "bwd"
             \/ \E t \in Probes : \E r \in BOOLEAN : SeekLowerBound(t, r) /\ dir' = "fwd"
             \/ \E t \in Probes : \E r \in BOOLEAN : SeekUpperBound(t, r) /\ dir' = "fwd"
          /\ vis' = (IF pos' \in 1..Len(S') THEN <<pos'>> ELSE <<>>)
          /\ UNCHANGED stream
MCNext == DoNext \/ DoPrev \/ DoSeek
Spec == Init /\ [][MCNext]_vars

TypeInv == pos \in 0..(Len(S) + 1) /\ (pos = 0 => stream)
Visit ==
    /\ dir = "fwd" => \A k \in 1..Len(vis) : vis[k] = vis[1] + k - 1
    /\ dir = "bwd" => \A k \in 1..Len(vis) : vis[k] = vis[1] - k + 1
    /\ Len(vis) > 0 => pos = vis[Len(vis)] \/ pos = End
    /\ (dir = "fwd" /\ pos = End /\ Len(vis) > 0) => vis[Len(vis)] = Len(S)
    /\ (stream /\ pos = End) => vis = [k \in 1..Len(S) |-> k]          \* a stream delivers everything
Ascending ==
    \A k \in 1..(Len(vis) - 1) :
        IF dir = "fwd" THEN Cmp(S[vis[k]], S[vis[k + 1]]) <= 0 ELSE Cmp(S[vis[k]], S[vis[k + 1]]) >= 0
Bounds ==
    \A t \in Probes :
        LET lo == LowerBound(t)  hi == UpperBound(t) IN
        /\ lo <= hi /\ hi <= End
        /\ \A k \in 1..Len(S) : /\ k < lo => Cmp(S[k], t) < 0
                                /\ (lo <= k /\ k < hi) => S[k] = t
                                /\ k >= hi => Cmp(S[k], t) > 0
        /\ hi - lo = Cardinality({ k \in 1..Len(S) : S[k] = t })
=============================================================================
