SPECIFICATION GenSpec
CONSTANTS
  MaxLen = 8
  MaxId = 100
  L = 8
  Ops = {"push","pop","clear"}
CONSTRAINT GenBound
INVARIANT Emit
CHECK_DEADLOCK FALSE
