---------------------------- MODULE OpenAddrMech ----------------------------
(* Mechanism-level model of the standard storage of ZiporaHashMap               *)
(* (hash_map/zipora_hash_map.rs insert_standard / get_standard / remove_standard / *)
(* resize_storage / iterator): open addressing with linear probing in which the    *)
(* `hash` field of a slot doubles as its occupancy marker - 0 = empty,             *)
(* MAXH = tombstone.                                                                *)
(*                                                                                  *)
(* Pinned = TRUE is the code of the pinned tree:                                    *)
(*   - the caller's hash is used as is (a key hashing to 0 or MAXH collides with    *)
(*     the markers),                                                                *)
(*   - insert writes into the first empty-or-tombstone slot of the probe sequence   *)
(*     without looking further for the key,                                         *)
(*   - iteration yields every slot whose hash is not 0 (tombstones included).       *)
(* Pinned = FALSE is the repaired code (fixes b7b7e6f, 5f372e4, 222dea6).           *)
(* TLC checks that the abstract map the user observes refines Map.tla.              *)
EXTENDS Naturals, Sequences, FiniteSets, TLC

CONSTANTS Keys, Vals, N, H, MAXH, Pinned     \* N slots (power of two not required here), H: key -> raw hash

VARIABLES slots,      \* 0..N-1 -> [hash, key, val]
          m           \* the abstract map the contract expects (history variable)
vars == <<slots, m>>

Empty == [x \in {} |-> 0]
Blank == [hash |-> 0, key |-> 0, val |-> 0]
Init == slots = [i \in 0..(N-1) |-> Blank] /\ m = Empty

Norm(h) == IF Pinned THEN h ELSE (IF h = 0 THEN 1 ELSE IF h = MAXH THEN MAXH - 1 ELSE h)
Hh(k) == Norm(H[k])
Idx(k, i) == (Hh(k) + i) % N

(* ---- get: probe until an empty slot ---- *)
RECURSIVE Find(_, _)
Find(k, i) == IF i = N THEN N                                   \* not found
              ELSE LET s == slots[Idx(k, i)] IN
                   IF s.hash = 0 THEN N
                   ELSE IF s.hash = MAXH THEN Find(k, i + 1)
                   ELSE IF s.hash = Hh(k) /\ s.key = k THEN Idx(k, i)
                   ELSE Find(k, i + 1)
GetImpl(k) == LET p == Find(k, 0) IN IF p = N THEN <<>> ELSE <<slots[p].val>>

(* ---- insert ---- *)
RECURSIVE PinnedSlot(_, _)
\* pinned: first empty-or-tombstone slot, or the slot holding the key, whichever comes first
PinnedSlot(k, i) == IF i = N THEN N
                    ELSE LET s == slots[Idx(k, i)] IN
                         IF s.hash = 0 \/ s.hash = MAXH THEN Idx(k, i)
                         ELSE IF s.hash = Hh(k) /\ s.key = k THEN Idx(k, i)
                         ELSE PinnedSlot(k, i + 1)
RECURSIVE FirstFree(_, _)
FirstFree(k, i) == IF i = N THEN N
                   ELSE LET s == slots[Idx(k, i)] IN
                        IF s.hash = 0 \/ s.hash = MAXH THEN Idx(k, i) ELSE FirstFree(k, i + 1)
InsertSlot(k) == IF Pinned THEN PinnedSlot(k, 0)
                 ELSE LET p == Find(k, 0) IN IF p /= N THEN p ELSE FirstFree(k, 0)
Lookup(k) == IF k \in DOMAIN m THEN <<m[k]>> ELSE <<>>
Upd(k, v) == [x \in DOMAIN m \cup {k} |-> IF x = k THEN v ELSE m[x]]

Insert(k, v) ==
    LET p == InsertSlot(k) IN
    /\ p /= N                                   \* table full: the code resizes; not modelled (N is large enough)
    /\ slots' = [slots EXCEPT ![p] = [hash |-> Hh(k), key |-> k, val |-> v]]
    /\ m' = Upd(k, v)
(* what insert returns *)
InsertResult(k) == LET p == InsertSlot(k) IN
                   IF p /= N /\ slots[p].hash = Hh(k) /\ slots[p].key = k /\ slots[p].hash \notin {0, MAXH}
                   THEN <<slots[p].val>> ELSE <<>>

Remove(k) ==
    LET p == Find(k, 0) IN
    /\ IF p = N THEN UNCHANGED slots
       ELSE slots' = [slots EXCEPT ![p].hash = MAXH]          \* tombstone keeps key and value
    /\ m' = [x \in DOMAIN m \ {k} |-> m[x]]

Next == (\E k \in Keys, v \in Vals : Insert(k, v)) \/ (\E k \in Keys : Remove(k))
Spec == Init /\ [][Next]_vars

(* ---- what the user observes must be the abstract map ---- *)
GetAgrees == \A k \in Keys : GetImpl(k) = Lookup(k)
InsertReturnAgrees == \A k \in Keys : InsertSlot(k) /= N => InsertResult(k) = Lookup(k)
LenImpl == Cardinality({ i \in 0..(N-1) : slots[i].hash /= 0 /\ slots[i].hash /= MAXH })
LenAgrees == LenImpl = Cardinality(DOMAIN m)
IterImpl == IF Pinned THEN { i \in 0..(N-1) : slots[i].hash /= 0 }
            ELSE { i \in 0..(N-1) : slots[i].hash /= 0 /\ slots[i].hash /= MAXH }
IterAgrees == /\ Cardinality(IterImpl) = Cardinality(DOMAIN m)
              /\ { <<slots[i].key, slots[i].val>> : i \in IterImpl } = { <<k, m[k]>> : k \in DOMAIN m }
=============================================================================
