SPECIFICATION GenSpec
CONSTANTS
  MaxLen = 4
  MaxId = 100
  L = 4
  Ops = {"push","pop","insert","remove","set","resize","extend_move","extend_clone","clear","truncate","shrink","clone"}
CONSTRAINT GenBound
INVARIANT Emit
CHECK_DEADLOCK FALSE
