------------------------------- MODULE Kernels -------------------------------
(* Property C14: the DEFINITIONS of the byte / bit kernels that zipora          *)
(* accelerates with SIMD, BMI2, POPCNT and CRC32 instructions, written over     *)
(* sequences of bytes (0..255) and over 64-bit words given as four 16-bit limbs *)
(* (most significant limb first, zv::limbs in the harness).  TLC integers are   *)
(* 32 bit signed: nothing here exceeds 2^31.                                    *)
(*                                                                              *)
(* Positions are 0-based as in the Rust API; "not found" / None is -1.          *)
(* The module has no state: every accelerated operation is a FUNCTION of its    *)
(* arguments, and that it is the same function at every alignment, length and   *)
(* CPU tier is exactly the property.  The contract predicates at the end        *)
(* (…OK(e)) say which logged results of one event are allowed.                  *)
EXTENDS Naturals, Integers, Sequences, FiniteSets, Bitwise, TLC

Min2(a, b) == IF a < b THEN a ELSE b
Sign(x)    == IF x < 0 THEN -1 ELSE IF x > 0 THEN 1 ELSE 0
IsBytes(s) == \A i \in 1..Len(s) : s[i] \in 0..255
RangeOf(s) == { s[i] : i \in 1..Len(s) }
NotFound   == -1
OptOf(x)   == IF x < 0 THEN <<>> ELSE <<x>>       \* JSON [] / [v]

(* ------------------------------------------------------------------------- *)
(* copy, fill                                                                 *)
Copy(src)  == src
Fill(n, v) == [i \in 1..n |-> v]

(* ------------------------------------------------------------------------- *)
(* compare: the sign of the first differing byte, bytes taken as UNSIGNED     *)
(* 0..255; when one sequence is a prefix of the other the shorter is less.    *)
RECURSIVE FirstDiffFrom(_, _, _, _)
FirstDiffFrom(a, b, i, m) ==
    IF i > m THEN 0 ELSE IF a[i] # b[i] THEN i ELSE FirstDiffFrom(a, b, i + 1, m)
(* 1-based index of the first difference inside the common length, 0 if none *)
FirstDiff(a, b) == FirstDiffFrom(a, b, 1, Min2(Len(a), Len(b)))
Compare(a, b) ==
    LET d == FirstDiff(a, b)
    IN  IF d # 0 THEN Sign(a[d] - b[d]) ELSE Sign(Len(a) - Len(b))
Equal(a, b) == Len(a) = Len(b) /\ FirstDiff(a, b) = 0

(* ------------------------------------------------------------------------- *)
(* searches                                                                   *)
RECURSIVE FindByteFrom(_, _, _)
FindByteFrom(h, c, i) ==
    IF i > Len(h) THEN NotFound ELSE IF h[i] = c THEN i - 1 ELSE FindByteFrom(h, c, i + 1)
FindByte(h, c) == FindByteFrom(h, c, 1)

RECURSIVE MatchFrom(_, _, _, _)
(* n[j..] = h[i+j..] for j from the given one on; i is 0-based *)
MatchFrom(h, n, i, j) ==
    IF j > Len(n) THEN TRUE ELSE IF h[i + j] # n[j] THEN FALSE ELSE MatchFrom(h, n, i, j + 1)
MatchAt(h, n, i) == i + Len(n) <= Len(h) /\ MatchFrom(h, n, i, 1)
RECURSIVE FindSubFrom(_, _, _)
FindSubFrom(h, n, i) ==
    IF i + Len(n) > Len(h) THEN NotFound
    ELSE IF MatchFrom(h, n, i, 1) THEN i ELSE FindSubFrom(h, n, i + 1)
(* first occurrence; the empty needle occurs at 0 *)
FindSub(h, n) == FindSubFrom(h, n, 0)

RECURSIVE FindInSetFrom(_, _, _)
FindInSetFrom(h, S, i) ==
    IF i > Len(h) THEN NotFound ELSE IF h[i] \in S THEN i - 1 ELSE FindInSetFrom(h, S, i + 1)
(* first position holding any byte of cs *)
FindAnyOf(h, cs) == FindInSetFrom(h, RangeOf(cs), 1)
(* all positions holding a byte of cs, ascending *)
AllAnyOf(h, cs) ==
    LET S == RangeOf(cs) IN SelectSeq([i \in 1..Len(h) |-> i - 1], LAMBDA p : h[p + 1] \in S)

(* ------------------------------------------------------------------------- *)
(* UTF-8 (RFC 3629, Unicode table 3-7) as a state machine over bytes.         *)
(*  0 between characters (the only accepting state)                           *)
(*  1 one continuation byte 80..BF missing                                    *)
(*  2 two continuation bytes missing (after E1..EC, EE, EF, or inside F…)     *)
(*  3 after E0: next byte A0..BF (80..9F would be overlong)                   *)
(*  4 after ED: next byte 80..9F (A0..BF would be a surrogate D800..DFFF)     *)
(*  5 after F0: next byte 90..BF (80..8F would be overlong)                   *)
(*  6 after F1..F3: next byte 80..BF                                          *)
(*  7 after F4: next byte 80..8F (90..BF would exceed U+10FFFF)               *)
(*  9 rejected                                                                *)
Utf8Reject == 9
Utf8Step(st, b) ==
    CASE st = 0 -> (IF b <= 127 THEN 0
                    ELSE IF b >= 194 /\ b <= 223 THEN 1          \* C2..DF (C0, C1 overlong)
                    ELSE IF b = 224 THEN 3                        \* E0
                    ELSE IF b = 237 THEN 4                        \* ED
                    ELSE IF b >= 225 /\ b <= 239 THEN 2           \* E1..EC, EE, EF
                    ELSE IF b = 240 THEN 5                        \* F0
                    ELSE IF b >= 241 /\ b <= 243 THEN 6           \* F1..F3
                    ELSE IF b = 244 THEN 7                        \* F4
                    ELSE Utf8Reject)                              \* 80..C1, F5..FF
      [] st = 1 -> (IF b >= 128 /\ b <= 191 THEN 0 ELSE Utf8Reject)
      [] st = 2 -> (IF b >= 128 /\ b <= 191 THEN 1 ELSE Utf8Reject)
      [] st = 3 -> (IF b >= 160 /\ b <= 191 THEN 1 ELSE Utf8Reject)
      [] st = 4 -> (IF b >= 128 /\ b <= 159 THEN 1 ELSE Utf8Reject)
      [] st = 5 -> (IF b >= 144 /\ b <= 191 THEN 2 ELSE Utf8Reject)
      [] st = 6 -> (IF b >= 128 /\ b <= 191 THEN 2 ELSE Utf8Reject)
      [] st = 7 -> (IF b >= 128 /\ b <= 143 THEN 2 ELSE Utf8Reject)
      [] OTHER  -> Utf8Reject
RECURSIVE Utf8Run(_, _, _)
Utf8Run(s, i, st) ==
    IF st = Utf8Reject THEN Utf8Reject
    ELSE IF i > Len(s) THEN st ELSE Utf8Run(s, i + 1, Utf8Step(st, s[i]))
(* a truncated last sequence ends in a state # 0 *)
Utf8Valid(s) == Utf8Run(s, 1, 0) = 0
IsCont(b) == b >= 128 /\ b <= 191
(* number of characters of a valid string = number of non-continuation bytes *)
Utf8CharCount(s) == Cardinality({i \in 1..Len(s) : ~IsCont(s[i])})

(* decoding a VALID string: the sequence of its code points, and their UTF-16 code units *)
SeqLenOf(b) == IF b <= 127 THEN 1 ELSE IF b <= 223 THEN 2 ELSE IF b <= 239 THEN 3 ELSE 4
Utf8CpAt(s, i) ==       \* code point of the sequence starting at 1-based index i
    LET k == SeqLenOf(s[i])
    IN  CASE k = 1 -> s[i]
          [] k = 2 -> (s[i] - 192) * 64 + (s[i + 1] - 128)
          [] k = 3 -> (s[i] - 224) * 4096 + (s[i + 1] - 128) * 64 + (s[i + 2] - 128)
          [] k = 4 -> (s[i] - 240) * 262144 + (s[i + 1] - 128) * 4096 + (s[i + 2] - 128) * 64 + (s[i + 3] - 128)
RECURSIVE Utf8DecodeFrom(_, _)
Utf8DecodeFrom(s, i) ==
    IF i > Len(s) THEN <<>> ELSE <<Utf8CpAt(s, i)>> \o Utf8DecodeFrom(s, i + SeqLenOf(s[i]))
Utf8Decode(s) == Utf8DecodeFrom(s, 1)
Utf16Units(cp) == IF cp <= 65535 THEN <<cp>>
                  ELSE <<55296 + ((cp - 65536) \div 1024), 56320 + ((cp - 65536) % 1024)>>
RECURSIVE Utf16EncFrom(_, _)
Utf16EncFrom(cps, i) == IF i > Len(cps) THEN <<>> ELSE Utf16Units(cps[i]) \o Utf16EncFrom(cps, i + 1)
Utf16Enc(cps) == Utf16EncFrom(cps, 1)

(* The same language defined through CODE POINTS (RFC 3629 section 3): a string is valid *)
(* iff it splits into sequences of 1..4 bytes each of which is the SHORTEST encoding of   *)
(* a scalar value (not a surrogate, <= U+10FFFF).  MC_Kernels checks Utf8Valid against    *)
(* it on every string of length <= 4 over the class representatives.                      *)
CodePoint(q) ==
    CASE Len(q) = 1 -> q[1]
      [] Len(q) = 2 -> (q[1] - 192) * 64 + (q[2] - 128)
      [] Len(q) = 3 -> (q[1] - 224) * 4096 + (q[2] - 128) * 64 + (q[3] - 128)
      [] Len(q) = 4 -> (q[1] - 240) * 262144 + (q[2] - 128) * 4096 + (q[3] - 128) * 64 + (q[4] - 128)
WellFormedSeq(q) ==
    /\ \A j \in 2..Len(q) : IsCont(q[j])
    /\ CASE Len(q) = 1 -> q[1] <= 127
         [] Len(q) = 2 -> q[1] >= 192 /\ q[1] <= 223 /\ CodePoint(q) >= 128
         [] Len(q) = 3 -> /\ q[1] >= 224 /\ q[1] <= 239 /\ CodePoint(q) >= 2048
                          /\ ~(CodePoint(q) >= 55296 /\ CodePoint(q) <= 57343)
         [] Len(q) = 4 -> /\ q[1] >= 240 /\ q[1] <= 247
                          /\ CodePoint(q) >= 65536 /\ CodePoint(q) <= 1114111
         [] OTHER -> FALSE
RECURSIVE Utf8ValidDeclFrom(_, _)
Utf8ValidDeclFrom(s, i) ==
    \/ i > Len(s)
    \/ \E k \in 1..4 : /\ i + k - 1 <= Len(s)
                       /\ WellFormedSeq(SubSeq(s, i, i + k - 1))
                       /\ Utf8ValidDeclFrom(s, i + k)
Utf8ValidDecl(s) == Utf8ValidDeclFrom(s, 1)

(* ------------------------------------------------------------------------- *)
(* CRC-32C (Castagnoli), reflected polynomial 0x82F63B78, bit by bit.         *)
(* A 32-bit value is <<hi16, lo16>>.                                          *)
W32(hi, lo) == <<hi, lo>>
CrcPolyHi == 33526      \* 0x82F6
CrcPolyLo == 15224      \* 0x3B78
Not32(c)  == <<65535 - c[1], 65535 - c[2]>>
Crc1(c) ==      \* one bit: shift right, xor the polynomial when a 1 fell out
    LET hi == c[1] \div 2
        lo == (c[2] \div 2) + (c[1] % 2) * 32768
    IN  IF c[2] % 2 = 1 THEN <<hi ^^ CrcPolyHi, lo ^^ CrcPolyLo>> ELSE <<hi, lo>>
CrcByte(c, b) == Crc1(Crc1(Crc1(Crc1(Crc1(Crc1(Crc1(Crc1(<<c[1], c[2] ^^ b>>))))))))
RECURSIVE CrcRun(_, _, _)
CrcRun(c, s, i) == IF i > Len(s) THEN c ELSE CrcRun(CrcByte(c, s[i]), s, i + 1)
(* the raw register after feeding s into register value init (no final complement) *)
CrcUpdate(init, s) == CrcRun(init, s, 1)
CrcInit == <<65535, 65535>>
Crc32c(s) == Not32(CrcUpdate(CrcInit, s))

(* ------------------------------------------------------------------------- *)
(* Base64 (RFC 4648).  Text is a sequence of character codes.  url selects    *)
(* the "-_" alphabet of section 5, pad whether "=" padding is written and     *)
(* required.  Decoding is canonical: exactly the strings Base64Enc produces.  *)
B64Char(v, url) ==
    IF v < 26 THEN 65 + v
    ELSE IF v < 52 THEN 97 + (v - 26)
    ELSE IF v < 62 THEN 48 + (v - 52)
    ELSE IF v = 62 THEN (IF url THEN 45 ELSE 43)
    ELSE (IF url THEN 95 ELSE 47)
(* value of a character, -1 when it is not in the alphabet *)
B64Val(c, url) ==
    IF c >= 65 /\ c <= 90 THEN c - 65
    ELSE IF c >= 97 /\ c <= 122 THEN c - 97 + 26
    ELSE IF c >= 48 /\ c <= 57 THEN c - 48 + 52
    ELSE IF c = (IF url THEN 45 ELSE 43) THEN 62
    ELSE IF c = (IF url THEN 95 ELSE 47) THEN 63
    ELSE -1
B64Pad == 61
Base64Enc(d, url, pad) ==
    LET n      == Len(d)
        B(i)   == IF i <= n THEN d[i] ELSE 0
        nchars == (4 * n + 2) \div 3                 \* ceil(8n / 6)
        total  == IF pad THEN 4 * ((n + 2) \div 3) ELSE nchars
        Sextet(g, j) ==                               \* group g (0-based), character j \in 0..3
            CASE j = 0 -> B(3 * g + 1) \div 4
              [] j = 1 -> (B(3 * g + 1) % 4) * 16 + B(3 * g + 2) \div 16
              [] j = 2 -> (B(3 * g + 2) % 16) * 4 + B(3 * g + 3) \div 64
              [] j = 3 -> B(3 * g + 3) % 64
    IN  [k \in 1..total |-> IF k <= nchars
                            THEN B64Char(Sextet((k - 1) \div 4, (k - 1) % 4), url)
                            ELSE B64Pad]
(* number of trailing "=" *)
RECURSIVE TrailingPads(_, _)
TrailingPads(s, i) == IF i >= 1 /\ s[i] = B64Pad THEN 1 + TrailingPads(s, i - 1) ELSE 0
B64Body(s, pad) == IF pad THEN SubSeq(s, 1, Len(s) - TrailingPads(s, Len(s))) ELSE s
Base64Valid(s, url, pad) ==
    LET p    == IF pad THEN TrailingPads(s, Len(s)) ELSE 0
        body == B64Body(s, pad)
        m    == Len(body)
    IN  /\ \A i \in 1..m : B64Val(body[i], url) >= 0
        /\ m % 4 # 1
        /\ pad => (Len(s) % 4 = 0 /\ p = (4 - (m % 4)) % 4)
        /\ m % 4 = 2 => B64Val(body[m], url) % 16 = 0      \* unused low bits are zero
        /\ m % 4 = 3 => B64Val(body[m], url) % 4 = 0
(* meaningful when Base64Valid *)
Base64Dec(s, url, pad) ==
    LET body == B64Body(s, pad)
        m    == Len(body)
        V(i) == B64Val(body[i], url)
        n    == (m * 6) \div 8
    IN  [k \in 1..n |->
            LET q == (k - 1) \div 3  r == (k - 1) % 3
            IN  CASE r = 0 -> V(4 * q + 1) * 4 + V(4 * q + 2) \div 16
                  [] r = 1 -> (V(4 * q + 2) % 16) * 16 + V(4 * q + 3) \div 4
                  [] r = 2 -> (V(4 * q + 3) % 4) * 64 + V(4 * q + 4)]

(* ------------------------------------------------------------------------- *)
(* hexadecimal                                                                *)
HexDigit(v, upper) == IF v < 10 THEN 48 + v ELSE (IF upper THEN 65 ELSE 97) + (v - 10)
HexVal(c) ==
    IF c >= 48 /\ c <= 57 THEN c - 48
    ELSE IF c >= 97 /\ c <= 102 THEN c - 97 + 10
    ELSE IF c >= 65 /\ c <= 70 THEN c - 65 + 10
    ELSE -1
HexEnc(d, upper) ==
    [k \in 1..(2 * Len(d)) |-> IF k % 2 = 1 THEN HexDigit(d[(k + 1) \div 2] \div 16, upper)
                                            ELSE HexDigit(d[k \div 2] % 16, upper)]
HexValid(s) == Len(s) % 2 = 0 /\ \A i \in 1..Len(s) : HexVal(s[i]) >= 0
HexDec(s) == [k \in 1..(Len(s) \div 2) |-> HexVal(s[2 * k - 1]) * 16 + HexVal(s[2 * k])]

(* ------------------------------------------------------------------------- *)
(* bit manipulation on words of w <= 64 bits, given as four 16-bit limbs,     *)
(* most significant first.  A word is expanded into its bits, least           *)
(* significant first: bits[i + 1] = bit i.                                    *)
Pow2 == <<1, 2, 4, 8, 16, 32, 64, 128, 256, 512, 1024, 2048, 4096, 8192, 16384, 32768>>
BitOf(x, i) == (x[4 - (i \div 16)] \div Pow2[(i % 16) + 1]) % 2
ToBits(x, w) == [i \in 1..w |-> BitOf(x, i - 1)]
LimbOf(bits, j) ==      \* limb j \in 0..3 (0 = least significant) of a bit sequence, zero extended
    LET B(i) == IF i + 1 <= Len(bits) THEN bits[i + 1] ELSE 0
        RECURSIVE Acc(_)
        Acc(k) == IF k = 16 THEN 0 ELSE B(16 * j + k) * Pow2[k + 1] + Acc(k + 1)
    IN  Acc(0)
FromBits(bits) == <<LimbOf(bits, 3), LimbOf(bits, 2), LimbOf(bits, 1), LimbOf(bits, 0)>>
(* positions of the one bits, ascending *)
OnesOf(bits) == SelectSeq([i \in 1..Len(bits) |-> i - 1], LAMBDA p : bits[p + 1] = 1)

PopCount(x, w) == Len(OnesOf(ToBits(x, w)))
(* position of the k-th one bit (k from 0); -1 exactly when k >= PopCount *)
SelectInWord(x, w, k) ==
    LET o == OnesOf(ToBits(x, w)) IN IF k < Len(o) THEN o[k + 1] ELSE NotFound
TrailingZeros(x, w) == LET o == OnesOf(ToBits(x, w)) IN IF Len(o) = 0 THEN w ELSE o[1]
(* parallel deposit: bit j of src goes to the position of the j-th one of mask *)
Pdep(src, mask, w) ==
    LET s == ToBits(src, w)
        o == OnesOf(ToBits(mask, w))
        Rank(p) == Cardinality({j \in 1..Len(o) : o[j] < p})
        m == ToBits(mask, w)
    IN  FromBits([i \in 1..w |-> IF m[i] = 1 THEN s[Rank(i - 1) + 1] ELSE 0])
(* parallel extract: bit j of the result is the bit of src at the position of the j-th one of mask *)
Pext(src, mask, w) ==
    LET s == ToBits(src, w)
        o == OnesOf(ToBits(mask, w))
    IN  FromBits([j \in 1..Len(o) |-> s[o[j] + 1]])
BitReverse(x, w) == LET b == ToBits(x, w) IN FromBits([i \in 1..w |-> b[w + 1 - i]])
(* keep the low n bits (BZHI); n >= w keeps everything *)
ZeroHighBits(x, w, n) == LET b == ToBits(x, w) IN FromBits([i \in 1..w |-> IF i <= n THEN b[i] ELSE 0])

(* ------------------------------------------------------------------------- *)
(* histogram: 256 counts, hist[v + 1] = number of bytes equal to v            *)
Histogram(s) == [v \in 1..256 |-> Cardinality({i \in 1..Len(s) : s[i] = v - 1})]
CountByte(s, c) == Cardinality({i \in 1..Len(s) : s[i] = c})
(* all positions holding byte c, ascending; the last one; total number of one bits *)
PositionsOf(h, c) == SelectSeq([i \in 1..Len(h) |-> i - 1], LAMBDA p : h[p + 1] = c)
FindLastByte(h, c) == LET ps == PositionsOf(h, c) IN IF Len(ps) = 0 THEN NotFound ELSE ps[Len(ps)]
BitsOfByte(x) == (x % 2) + ((x \div 2) % 2) + ((x \div 4) % 2) + ((x \div 8) % 2)
                 + ((x \div 16) % 2) + ((x \div 32) % 2) + ((x \div 64) % 2) + (x \div 128)
RECURSIVE PopCountBytesFrom(_, _)
PopCountBytesFrom(s, i) == IF i > Len(s) THEN 0 ELSE BitsOfByte(s[i]) + PopCountBytesFrom(s, i + 1)
PopCountBytes(s) == PopCountBytesFrom(s, 1)

(* ------------------------------------------------------------------------- *)
(* 64-bit modular arithmetic on limbs, for the portable string hash            *)
(* h <- rotl(h, 5) + v  over little-endian 8-byte words, then single bytes.   *)
Rotl5(x) ==     \* limbs most significant first
    <<((x[1] * 32) % 65536) + (x[2] \div 2048),
      ((x[2] * 32) % 65536) + (x[3] \div 2048),
      ((x[3] * 32) % 65536) + (x[4] \div 2048),
      ((x[4] * 32) % 65536) + (x[1] \div 2048)>>
Add64(x, y) ==
    LET s4 == x[4] + y[4]
        s3 == x[3] + y[3] + s4 \div 65536
        s2 == x[2] + y[2] + s3 \div 65536
        s1 == x[1] + y[1] + s2 \div 65536
    IN  <<s1 % 65536, s2 % 65536, s3 % 65536, s4 % 65536>>
(* the 8 bytes s[i..i+7] as a little-endian word *)
LeWord(s, i) == <<s[i + 6] + 256 * s[i + 7], s[i + 4] + 256 * s[i + 5],
                  s[i + 2] + 256 * s[i + 3], s[i] + 256 * s[i + 1]>>
RECURSIVE HashWords(_, _, _), HashBytes(_, _, _)
HashBytes(h, s, i) == IF i > Len(s) THEN h ELSE HashBytes(Add64(Rotl5(h), <<0, 0, 0, s[i]>>), s, i + 1)
HashWords(h, s, i) ==
    IF i + 7 > Len(s) THEN HashBytes(h, s, i) ELSE HashWords(Add64(Rotl5(h), LeWord(s, i)), s, i + 8)
StrHash(s, base) == HashWords(base, s, 1)
(* the first (up to) 8 bytes as a little-endian word, zero padded *)
Prefix8(s) ==
    LET B(i) == IF i <= Len(s) THEN s[i] ELSE 0
    IN  <<B(7) + 256 * B(8), B(5) + 256 * B(6), B(3) + 256 * B(4), B(1) + 256 * B(2)>>

(* ------------------------------------------------------------------------- *)
(* ASCII text kernels of string::bmi2_string_ops (8-byte chunks vs scalar).   *)
AsciiLower(s) == [i \in 1..Len(s) |-> IF s[i] >= 65 /\ s[i] <= 90 THEN s[i] + 32 ELSE s[i]]
AsciiUpper(s) == [i \in 1..Len(s) |-> IF s[i] >= 97 /\ s[i] <= 122 THEN s[i] - 32 ELSE s[i]]
(* glob matching: '*' (42) any run of bytes, '?' (63) exactly one byte, else literally; the  *)
(* WHOLE text must be consumed                                                               *)
RECURSIVE WildFrom(_, _, _, _)
WildFrom(t, p, i, j) ==
    IF j > Len(p) THEN i > Len(t)
    ELSE IF p[j] = 42 THEN WildFrom(t, p, i, j + 1) \/ (i <= Len(t) /\ WildFrom(t, p, i + 1, j))
    ELSE i <= Len(t) /\ (p[j] = 63 \/ p[j] = t[i]) /\ WildFrom(t, p, i + 1, j + 1)
WildMatch(t, p) == WildFrom(t, p, 1, 1)
IsAlpha(b) == (b >= 65 /\ b <= 90) \/ (b >= 97 /\ b <= 122)
IsDigit(b) == b >= 48 /\ b <= 57
IsSpace(b) == b \in {32, 9, 10, 12, 13}                 \* u8::is_ascii_whitespace
IsPunct(b) == (b >= 33 /\ b <= 47) \/ (b >= 58 /\ b <= 64) \/ (b >= 91 /\ b <= 96) \/ (b >= 123 /\ b <= 126)
(* a class / filter is a record [kind, set, lo, hi] *)
ClassMatch(c, b) ==
    CASE c.kind = "alpha"  -> IsAlpha(b)
      [] c.kind = "digit"  -> IsDigit(b)
      [] c.kind = "alnum"  -> IsAlpha(b) \/ IsDigit(b)
      [] c.kind = "space"  -> IsSpace(b)
      [] c.kind = "punct"  -> IsPunct(b)
      [] c.kind = "custom" -> b \in RangeOf(c.set)
      [] c.kind = "range"  -> b >= c.lo /\ b <= c.hi
FilterKeeps(f, b) ==
    CASE f.kind = "alpha"  -> IsAlpha(b)
      [] f.kind = "digit"  -> IsDigit(b)
      [] f.kind = "alnum"  -> IsAlpha(b) \/ IsDigit(b)
      [] f.kind = "nows"   -> ~IsSpace(b)
      [] f.kind = "keep"   -> b \in RangeOf(f.set)
      [] f.kind = "remove" -> b \notin RangeOf(f.set)
FilterBytes(s, f) == SelectSeq(s, LAMBDA b : FilterKeeps(f, b))
(* maximal runs of equal bytes: <<byte, start (0-based), length>> *)
RECURSIVE RunsFrom(_, _, _)
RunsFrom(s, start, i) ==        \* the run that began at 1-based index start is open, i is the next index
    IF i > Len(s) THEN <<<<s[start], start - 1, i - start>>>>
    ELSE IF s[i] = s[start] THEN RunsFrom(s, start, i + 1)
    ELSE <<<<s[start], start - 1, i - start>>>> \o RunsFrom(s, i, i + 1)
Runs(s) == IF Len(s) = 0 THEN <<>> ELSE RunsFrom(s, 1, 2)
(* dictionary scan: for every position, every entry (in order) that occurs there: <<pos, len, index>> *)
DictMatches(h, entries) ==
    LET pairs == [k \in 1..(Len(h) * Len(entries)) |->
                     <<(k - 1) \div Len(entries), ((k - 1) % Len(entries)) + 1>>]
        hits  == SelectSeq(pairs, LAMBDA q : MatchAt(h, entries[q[2]], q[1]))
    IN  [k \in 1..Len(hits) |-> <<hits[k][1], Len(entries[hits[k][2]]), hits[k][2] - 1>>]
(* the byte-wise string hash h <- rotl(h, 5) + byte *)
StrHashBytes(s, base) == HashBytes(base, s, 1)

(* ------------------------------------------------------------------------- *)
(* string::unicode                                                             *)
(* length of the sequence a lead byte announces; 0 for continuation / invalid bytes *)
Utf8LeadLen(b) == IF b < 128 THEN 1 ELSE IF b < 192 THEN 0 ELSE IF b < 224 THEN 2
                  ELSE IF b < 240 THEN 3 ELSE IF b < 248 THEN 4 ELSE 0
IsControlCp(cp) == cp <= 31 \/ (cp >= 127 /\ cp <= 159)            \* general category Cc
CountIf(d, P(_)) == Cardinality({j \in 1..Len(d) : P(d[j])})
Reverse(d) == [j \in 1..Len(d) |-> d[Len(d) + 1 - j]]
(* byte offsets at which the characters of a valid string start, then the total length *)
RECURSIVE CharStartsFrom(_, _)
CharStartsFrom(s, i) == IF i > Len(s) THEN <<Len(s)>> ELSE <<i - 1>> \o CharStartsFrom(s, i + SeqLenOf(s[i]))
CharStarts(s) == CharStartsFrom(s, 1)

(* ------------------------------------------------------------------------- *)
(* bit fields                                                                 *)
(* n bits of x starting at bit start (bits beyond 63 read as zero), as a word *)
Field(x, start, n) ==
    LET b == ToBits(x, 64)
    IN  FromBits([i \in 1..n |-> IF start + i <= 64 THEN b[start + i] ELSE 0])
Low32(x) == <<0, 0, x[3], x[4]>>
(* bit 2i of the result = bit i of lo, bit 2i+1 = bit i of hi (lo, hi 32-bit) *)
Interleave(lo, hi) ==
    LET a == ToBits(lo, 32)  b == ToBits(hi, 32)
    IN  FromBits([i \in 1..64 |-> IF i % 2 = 1 THEN a[(i + 1) \div 2] ELSE b[i \div 2]])
LeadingZeros(x, w) == LET o == OnesOf(ToBits(x, w)) IN IF Len(o) = 0 THEN w ELSE w - 1 - o[Len(o)]

(* ========================================================================= *)
(* CONTRACT: which logged results of one event e are allowed.  The events    *)
(* are fully logged (inputs and results), the module has no state, so an     *)
(* event is accepted iff its predicate holds.  Refusals (Err / None where    *)
(* the API has one) are accepted only where the property allows them: a      *)
(* refused copy must leave the destination untouched, a decoder must refuse  *)
(* exactly the invalid texts, select must refuse exactly k >= popcount.      *)
(* ========================================================================= *)
AllEq(s, v) == \A i \in 1..Len(s) : s[i] = v
(* the bytes the harness put around the destination are still there *)
GuardsIntact(e) == AllEq(e.pre, e.can) /\ AllEq(e.post, e.can)

CopyOK(e) ==
    /\ GuardsIntact(e)
    /\ IF e.ok THEN e.dlen = Len(e.src) /\ e.out = Copy(e.src)
       ELSE AllEq(e.out, e.init)                 \* refused: destination untouched
FillOK(e) == GuardsIntact(e) /\ e.out = Fill(e.n, e.v)

Mut(a, p, x) == [a EXCEPT ![p] = (a[p] + x) % 256]      \* p is 1-based
CompareOK(e) == e.r = Compare(e.a, e.b)
(* r[p] answers compare(a, a with byte p changed by +x mod 256), or the reverse order *)
CompareMutOK(e) ==
    /\ Len(e.r) = Len(e.a)
    /\ \A p \in 1..Len(e.a) :
          e.r[p] = IF e.rev THEN Compare(Mut(e.a, p, e.x), e.a) ELSE Compare(e.a, Mut(e.a, p, e.x))
EqualOK(e) == e.r = Equal(e.a, e.b)
EqualMutOK(e) ==
    /\ Len(e.r) = Len(e.a)
    /\ \A p \in 1..Len(e.a) : e.r[p] = Equal(e.a, Mut(e.a, p, e.x))

FindByteOK(e) == e.r = OptOf(FindByte(e.h, e.c))
(* r[p+1], p < n: the answer on h with byte p set to c;  r[n+1]: the answer on h itself *)
FindByteMutOK(e) ==
    /\ Len(e.r) = Len(e.h) + 1
    /\ \A p \in 1..Len(e.h) : e.r[p] = FindByte([e.h EXCEPT ![p] = e.c], e.c)
    /\ e.r[Len(e.h) + 1] = FindByte(e.h, e.c)
Plant(h, n, p) == [i \in 1..Len(h) |-> IF i > p /\ i <= p + Len(n) THEN n[i - p] ELSE h[i]]   \* p 0-based
(* the empty needle: zipora::string::simd_search documents None for empty arguments, the io  *)
(* layer Some(0); the property does not fix the convention, both are accepted               *)
FindSubOK(e) ==
    IF Len(e.n) = 0 THEN e.r \in {<<>>, <<0>>} ELSE e.r = OptOf(FindSub(e.h, e.n))
(* r[p+1], p \in 0..Len(h)-Len(n): the answer on h with the needle planted at p; last: h itself *)
FindSubMutOK(e) ==
    LET last == Len(e.h) - Len(e.n)
    IN  /\ Len(e.n) >= 1 /\ last >= 0 /\ Len(e.r) = last + 2
        /\ \A p \in 0..last : e.r[p + 1] = FindSub(Plant(e.h, e.n, p), e.n)
        /\ e.r[last + 2] = FindSub(e.h, e.n)
FindAnyOK(e) == e.r = OptOf(FindAnyOf(e.h, e.cs))
(* r[p+1], p < n: the answer on h with byte p set to cs[p mod |cs|]; last: h itself *)
FindAnyMutOK(e) ==
    /\ Len(e.cs) >= 1 /\ Len(e.r) = Len(e.h) + 1
    /\ \A p \in 1..Len(e.h) :
          e.r[p] = FindAnyOf([e.h EXCEPT ![p] = e.cs[((p - 1) % Len(e.cs)) + 1]], e.cs)
    /\ e.r[Len(e.h) + 1] = FindAnyOf(e.h, e.cs)
FindAllOK(e) ==
    LET pos == AllAnyOf(e.h, e.cs)
    IN  e.pos = pos /\ e.chars = [j \in 1..Len(pos) |-> e.h[pos[j] + 1]]

(* the idx-th (0-based) string of length k over the alphabet, most significant digit first *)
RECURSIVE Pow(_, _)
Pow(b, k) == IF k = 0 THEN 1 ELSE b * Pow(b, k - 1)
NthString(alpha, k, idx) ==
    [j \in 1..k |-> alpha[((idx \div Pow(Len(alpha), k - j)) % Len(alpha)) + 1]]
(* the frame with the bytes off+1..off+k overwritten *)
Embed(frame, off, q) ==
    [i \in 1..Len(frame) |-> IF i > off /\ i <= off + Len(q) THEN q[i - off] ELSE frame[i]]
Utf8OK(e) == e.r = Utf8Valid(e.s)
Utf8BatchOK(e) ==
    LET cnt == Pow(Len(e.alpha), e.k)
    IN  /\ e.k \in 0..4 /\ e.off + e.k <= Len(e.frame) /\ Len(e.r) = cnt
        /\ \A idx \in 0..(cnt - 1) :
              e.r[idx + 1] = Utf8Valid(Embed(e.frame, e.off, NthString(e.alpha, e.k, idx)))
(* count: Err (-1) exactly on invalid input, else the number of characters *)
Utf8CountOf(s) == IF Utf8Valid(s) THEN Utf8CharCount(s) ELSE -1
Utf8CountOK(e) == e.r = Utf8CountOf(e.s)
Utf8CountBatchOK(e) ==
    LET cnt == Pow(Len(e.alpha), e.k)
    IN  /\ e.k \in 0..4 /\ e.off + e.k <= Len(e.frame) /\ Len(e.r) = cnt
        /\ \A idx \in 0..(cnt - 1) :
              e.r[idx + 1] = Utf8CountOf(Embed(e.frame, e.off, NthString(e.alpha, e.k, idx)))

(* a decoder succeeds exactly on the valid strings (its Ok / Err is a validity verdict) *)
Utf8DecodeOK(e) == IF e.ok THEN Utf8Valid(e.s) /\ e.r = Utf8Decode(e.s) ELSE ~Utf8Valid(e.s)
Utf16OK(e)      == IF e.ok THEN Utf8Valid(e.s) /\ e.r = Utf16Enc(Utf8Decode(e.s)) ELSE ~Utf8Valid(e.s)

CrcOK(e)     == e.r = CrcUpdate(e.init, e.data)
CrcHashOK(e) == e.r = Crc32c(e.data)
RECURSIVE Concat(_, _)
Concat(parts, i) == IF i > Len(parts) THEN <<>> ELSE parts[i] \o Concat(parts, i + 1)
(* the streaming interface as a FOLD from an ARBITRARY register value: regs[k] is the register  *)
(* returned by the k-th update; each step continues from the previous register (0 is a         *)
(* legitimate register value), and the fold equals one update over the concatenation           *)
RECURSIVE ConcatTo(_, _, _)
ConcatTo(parts, i, k) == IF i > k THEN <<>> ELSE parts[i] \o ConcatTo(parts, i + 1, k)
CrcFoldOK(e) ==
    /\ Len(e.regs) = Len(e.parts)
    /\ \A k \in 1..Len(e.parts) :
          /\ e.regs[k] = CrcUpdate(IF k = 1 THEN e.init ELSE e.regs[k - 1], e.parts[k])
          /\ e.regs[k] = CrcUpdate(e.init, ConcatTo(e.parts, 1, k))
    /\ e.fin = Not32(IF Len(e.parts) = 0 THEN e.init ELSE e.regs[Len(e.parts)])
(* feeding the parts one after the other = one shot over their concatenation *)
CrcIncOK(e)  == e.r = Crc32c(Concat(e.parts, 1))

B64EncOK(e) == e.r = Base64Enc(e.data, e.url, e.pad)
B64DecOK(e) ==
    IF e.ok THEN Base64Valid(e.s, e.url, e.pad) /\ e.r = Base64Dec(e.s, e.url, e.pad)
    ELSE ~Base64Valid(e.s, e.url, e.pad)
(* encoded length of n bytes (padded); upper bound of the decoded length of m characters *)
B64LenOK(e) == /\ e.enc = Len(Base64Enc(Fill(e.n, 0), FALSE, TRUE))
               /\ e.dec >= e.n
HexEncOK(e) == e.r = HexEnc(e.data, e.upper)
HexDecOK(e) == IF e.ok THEN HexValid(e.s) /\ e.r = HexDec(e.s) ELSE ~HexValid(e.s)
HexValidOK(e) == e.r = HexValid(e.s)

PopCountOK(e) ==
    /\ Len(e.r) = Len(e.xs)
    /\ \A j \in 1..Len(e.xs) : e.r[j] = PopCount(e.xs[j], e.w)
(* r[k+1] for k \in 0..popcount: the position, and the refusal -1 exactly for k = popcount *)
SelectAllOK(e) ==
    LET o == OnesOf(ToBits(e.x, e.w))
    IN  /\ Len(e.r) = Len(o) + 1
        /\ \A k \in 1..Len(o) : e.r[k] = o[k]
        /\ e.r[Len(o) + 1] = NotFound
PdepOK(e)   == e.r = Pdep(e.x, e.m, e.w)
PextOK(e)   == e.r = Pext(e.x, e.m, e.w)
BitRevOK(e) == e.r = BitReverse(e.x, e.w)
TzOK(e)     == e.r = TrailingZeros(e.x, e.w)
BzhiOK(e)   == e.r = ZeroHighBits(e.x, e.w, e.n)
StrHashOK(e) == e.r = StrHash(e.s, e.base)
Prefix8OK(e) == e.r = Prefix8(e.s)
CountByteOK(e) == e.r = CountByte(e.h, e.c)
HistogramOK(e) == e.r = Histogram(e.h)
PositionsOK(e) == e.r = PositionsOf(e.h, e.c)
FindLastOK(e) == e.r = OptOf(FindLastByte(e.h, e.c))
PopCountBytesOK(e) == e.r = PopCountBytes(e.h)

LowerOK(e) == e.r = AsciiLower(e.s)
UpperOK(e) == e.r = AsciiUpper(e.s)
WildcardOK(e) == e.r = WildMatch(e.t, e.p)
CharClassOK(e) ==
    e.r = [i \in 1..Len(e.s) |-> \E k \in 1..Len(e.classes) : ClassMatch(e.classes[k], e.s[i])]
FilterOK(e) == e.r = FilterBytes(e.s, e.f)
RunsOK(e) == e.r = Runs(e.s)
DictOK(e) == e.r = DictMatches(e.h, e.entries)
(* ranges <<start, len>>; refused exactly when a range leaves the text *)
SubstringsOK(e) ==
    LET inside == \A k \in 1..Len(e.ranges) : e.ranges[k][1] + e.ranges[k][2] <= Len(e.s)
    IN  IF e.ok THEN /\ inside
                     /\ e.r = [k \in 1..Len(e.ranges) |-> SubSeq(e.s, e.ranges[k][1] + 1, e.ranges[k][1] + e.ranges[k][2])]
        ELSE ~inside
ValidBulkOK(e) == e.r = [k \in 1..Len(e.ss) |-> Utf8Valid(e.ss[k])]
EqualBulkOK(e) == e.r = [k \in 1..Len(e.pairs) |-> Equal(e.pairs[k][1], e.pairs[k][2])]
ByteHashOK(e) == e.r = StrHashBytes(e.s, e.base)
ByteHashBulkOK(e) == e.r = [k \in 1..Len(e.ss) |-> StrHashBytes(e.ss[k], e.base)]
LeadLenOK(e) == e.r = [b \in 1..256 |-> Utf8LeadLen(b - 1)]
(* iterator over a byte string: construction succeeds exactly on valid strings; forward gives *)
(* the code points and the byte position after each, backward the same in reverse             *)
Utf8IterOK(e) ==
    IF e.ok
    THEN /\ Utf8Valid(e.s)
         /\ e.fwd = Utf8Decode(e.s)
         /\ e.cur = e.fwd                      \* current() after every step
         /\ e.pos = Tail(CharStarts(e.s))
         /\ e.bwd = Reverse(Utf8Decode(e.s))
         /\ e.bpos = Reverse(SubSeq(CharStarts(e.s), 1, Len(CharStarts(e.s)) - 1))
    ELSE ~Utf8Valid(e.s)
(* the counts of UnicodeProcessor::analyze that have a definition without Unicode tables *)
Utf8AnalyzeOK(e) ==
    LET d == Utf8Decode(e.s)
        Ascii(c) == c <= 127
        Lat1(c) == c >= 128 /\ c <= 255
        Ext(c) == c >= 256 /\ c <= 6143
        Other(c) == c >= 6144
    IN  /\ Utf8Valid(e.s)
        /\ e.bytes = Len(e.s) /\ e.chars = Len(d)
        /\ e.ascii = CountIf(d, Ascii) /\ e.basic = CountIf(d, Ascii)
        /\ e.lat1 = CountIf(d, Lat1) /\ e.ext = CountIf(d, Ext) /\ e.other = CountIf(d, Other)
        /\ e.control = CountIf(d, IsControlCp)
        /\ e.isascii = (CountIf(d, Ascii) = Len(d))
PrintableOK(e) ==
    LET d == Utf8Decode(e.s)
    IN  Utf8Valid(e.s) /\ e.r = (\A j \in 1..Len(d) : ~IsControlCp(d[j]) \/ d[j] \in {9, 10, 13})
HexNibbleOK(e) == e.r = [b \in 1..256 |-> HexVal(b - 1)]
HexDigitOK(e)  == e.r = [v \in 1..16 |-> HexDigit(v - 1, e.upper)]
(* r[(i-1)*|los| + j] answers parse_hex_byte(his[i], los[j]); -1 = None *)
HexByteOK(e) ==
    /\ Len(e.r) = Len(e.his) * Len(e.los)
    /\ \A i \in 1..Len(e.his) : \A j \in 1..Len(e.los) :
          e.r[(i - 1) * Len(e.los) + j] =
              (IF HexVal(e.his[i]) >= 0 /\ HexVal(e.los[j]) >= 0 THEN HexVal(e.his[i]) * 16 + HexVal(e.los[j]) ELSE -1)
(* a field of 1..32 bits; refusing is allowed only when the field leaves the 64-bit word *)
BitFieldOK(e) ==
    IF e.ok THEN e.n >= 1 /\ e.n <= 32 /\ e.r = Field(e.x, e.start, e.n)
    ELSE e.n = 0 \/ e.n > 32 \/ e.start + e.n > 64
EncFieldOK(e) ==
    IF e.ok THEN e.n >= 1 /\ e.n <= 32 /\ e.r = ZeroHighBits(e.x, 64, e.n) ELSE e.n = 0 \/ e.n > 32
InterleaveOK(e) == e.r = Interleave(e.lo, e.hi)
(* one parallel extract per mask; w32: the result is cut to 32 bits and add is added modulo 2^32 *)
PextListOK(e) ==
    /\ Len(e.r) = Len(e.ms)
    /\ \A k \in 1..Len(e.ms) :
          e.r[k] = IF e.w32 THEN Low32(Add64(Low32(Pext(e.x, e.ms[k], 64)), e.add))
                   ELSE Pext(e.x, e.ms[k], 64)
WordMapOK(e) ==
    /\ Len(e.r) = Len(e.xs)
    /\ \A k \in 1..Len(e.xs) :
          e.r[k] = CASE e.kind = "popcount" -> PopCount(e.xs[k], 64)
                     [] e.kind = "lz"       -> LeadingZeros(e.xs[k], 64)
                     [] e.kind = "tz"       -> TrailingZeros(e.xs[k], 64)
                     [] e.kind = "reverse"  -> BitReverse(e.xs[k], 64)

(* dispatch; an op without a predicate (signal, panic) is never accepted *)
EventOK(e) ==
    CASE e.op = "copy"          -> CopyOK(e)
      [] e.op = "fill"          -> FillOK(e)
      [] e.op = "compare"       -> CompareOK(e)
      [] e.op = "compare_mut"   -> CompareMutOK(e)
      [] e.op = "equal"         -> EqualOK(e)
      [] e.op = "equal_mut"     -> EqualMutOK(e)
      [] e.op = "find_byte"     -> FindByteOK(e)
      [] e.op = "findbyte_mut"  -> FindByteMutOK(e)
      [] e.op = "find_sub"      -> FindSubOK(e)
      [] e.op = "findsub_mut"   -> FindSubMutOK(e)
      [] e.op = "find_any"      -> FindAnyOK(e)
      [] e.op = "findany_mut"   -> FindAnyMutOK(e)
      [] e.op = "find_all"      -> FindAllOK(e)
      [] e.op = "utf8"          -> Utf8OK(e)
      [] e.op = "utf8_batch"    -> Utf8BatchOK(e)
      [] e.op = "utf8_count"    -> Utf8CountOK(e)
      [] e.op = "utf8count_batch" -> Utf8CountBatchOK(e)
      [] e.op = "utf8_decode"   -> Utf8DecodeOK(e)
      [] e.op = "utf16"         -> Utf16OK(e)
      [] e.op = "crc"           -> CrcOK(e)
      [] e.op = "crc_hash"      -> CrcHashOK(e)
      [] e.op = "crc_inc"       -> CrcIncOK(e)
      [] e.op = "crc_fold"      -> CrcFoldOK(e)
      [] e.op = "b64enc"        -> B64EncOK(e)
      [] e.op = "b64dec"        -> B64DecOK(e)
      [] e.op = "b64len"        -> B64LenOK(e)
      [] e.op = "hexenc"        -> HexEncOK(e)
      [] e.op = "hexdec"        -> HexDecOK(e)
      [] e.op = "hexvalid"      -> HexValidOK(e)
      [] e.op = "popcount"      -> PopCountOK(e)
      [] e.op = "select_all"    -> SelectAllOK(e)
      [] e.op = "pdep"          -> PdepOK(e)
      [] e.op = "pext"          -> PextOK(e)
      [] e.op = "bitrev"        -> BitRevOK(e)
      [] e.op = "tz"            -> TzOK(e)
      [] e.op = "bzhi"          -> BzhiOK(e)
      [] e.op = "strhash"       -> StrHashOK(e)
      [] e.op = "prefix8"       -> Prefix8OK(e)
      [] e.op = "count_byte"    -> CountByteOK(e)
      [] e.op = "histogram"     -> HistogramOK(e)
      [] e.op = "positions"     -> PositionsOK(e)
      [] e.op = "find_last"     -> FindLastOK(e)
      [] e.op = "popcount_bytes" -> PopCountBytesOK(e)
      [] e.op = "lower"         -> LowerOK(e)
      [] e.op = "upper"         -> UpperOK(e)
      [] e.op = "wildcard"      -> WildcardOK(e)
      [] e.op = "charclass"     -> CharClassOK(e)
      [] e.op = "filter"        -> FilterOK(e)
      [] e.op = "runs"          -> RunsOK(e)
      [] e.op = "dict"          -> DictOK(e)
      [] e.op = "substrings"    -> SubstringsOK(e)
      [] e.op = "valid_bulk"    -> ValidBulkOK(e)
      [] e.op = "equal_bulk"    -> EqualBulkOK(e)
      [] e.op = "bytehash"      -> ByteHashOK(e)
      [] e.op = "bytehash_bulk" -> ByteHashBulkOK(e)
      [] e.op = "lead_len"      -> LeadLenOK(e)
      [] e.op = "utf8_iter"     -> Utf8IterOK(e)
      [] e.op = "utf8_analyze"  -> Utf8AnalyzeOK(e)
      [] e.op = "printable"     -> PrintableOK(e)
      [] e.op = "hexnibble"     -> HexNibbleOK(e)
      [] e.op = "hexdigit"      -> HexDigitOK(e)
      [] e.op = "hexbyte"       -> HexByteOK(e)
      [] e.op = "bitfield"      -> BitFieldOK(e)
      [] e.op = "encfield"      -> EncFieldOK(e)
      [] e.op = "interleave"    -> InterleaveOK(e)
      [] e.op = "pext_list"     -> PextListOK(e)
      [] e.op = "wordmap"       -> WordMapOK(e)
      [] OTHER                  -> FALSE
=============================================================================
