---------------------------- MODULE MC_BlobStore ----------------------------
(* Bounded model of the BlobStore contract (property C03): every operation over  *)
(* Ids x Recs (x Keys for the keyed extension).  Checks, on every reachable       *)
(* state, the laws the property names: GetReturnsPut, NoLiveIdReissued,           *)
(* AbsentIsAbsent, LenAgrees, and that every observer has exactly one accepted    *)
(* answer (the contract is neither contradictory nor loose about reads).          *)
EXTENDS BlobStore, TLC

CONSTANTS MaxId, NKeys

Ids == 0..MaxId
Recs == { [len |-> 0, h |-> <<1, 1>>], [len |-> 1, h |-> <<2, 2>>] }
Keys == { [i \in 1..n |-> 7] : n \in 0..(NKeys - 1) }     \* <<>>, <<7>>, <<7,7>> ... (prefix chain)

(* ghost: the record most recently stored under each id (what "put associated with that id") *)
VARIABLE lastput
vars == <<live, issued, keyof, bykey, lastput>>

Init == BSInit /\ lastput = Empty

GhostPut(id, d) == lastput' = Ext(lastput, id, d)

Next ==
    \/ \E d \in Recs, id \in Ids : Put(d, id) /\ GhostPut(id, d)
    \/ \E d \in Recs : PutRefused(d) /\ UNCHANGED lastput
    \/ \E d1, d2 \in Recs, i1, i2 \in Ids :
          /\ PutBatch(<<d1, d2>>, <<i1, i2>>)
          /\ lastput' = [x \in DOMAIN lastput \cup {i1, i2} |-> IF x = i1 THEN d1 ELSE IF x = i2 THEN d2 ELSE lastput[x]]
    \/ \E id \in Ids : Remove(id) /\ UNCHANGED lastput
    \/ \E a, b \in Ids, n \in 0..2 : RemoveBatch(<<a, b>>, n) /\ UNCHANGED lastput
    \/ \E id \in Ids : RemoveRefused(id) /\ UNCHANGED lastput
    \/ Clear /\ UNCHANGED lastput
    \/ /\ issued = {}
       /\ \E n \in 0..2 : \E ds \in [1..n -> Recs] :
             BuildFrom(ds) /\ lastput' = [i \in 0..(n - 1) |-> ds[i + 1]]
    \/ /\ issued = {}
       /\ \E n \in 0..2 : \E ds \in [1..n -> Recs], ks \in [1..n -> Keys] :
             BuildKeyed(ks, ds) /\ lastput' = [i \in 0..(n - 1) |-> ds[i + 1]]
    \/ /\ issued = {}
       /\ \E i1, i2 \in Ids, d1, d2 \in Recs : i1 /= i2 /\ BuildAt(<<i1, i2>>, <<d1, d2>>)
             /\ lastput' = [x \in {i1, i2} |-> IF x = i1 THEN d1 ELSE d2]
    \/ \E k1, k2 \in Keys, d1, d2 \in Recs, i1, i2 \in Ids :
          /\ PutBatchWithKeys(<<k1, k2>>, <<d1, d2>>, <<i1, i2>>)
          /\ lastput' = [x \in DOMAIN lastput \cup {i1, i2} |-> IF x = i1 THEN d1 ELSE IF x = i2 THEN d2 ELSE lastput[x]]
    \/ Maintenance /\ UNCHANGED lastput
    \/ SaveLoad /\ UNCHANGED lastput
    \/ \E k \in Keys, d \in Recs, id \in Ids : PutWithKey(k, d, id) /\ GhostPut(id, d)

Spec == Init /\ [][Next]_vars

TypeInv == TypeOK(Ids, Recs)

(* get(id) of a live id has exactly one accepted answer: Ok(the record last put under id) *)
GetReturnsPut ==
    \A id \in Live : /\ GetOk(id, TRUE, lastput[id])
                     /\ \A d \in Recs : ~GetOk(id, FALSE, d)
                     /\ \A d \in Recs \ {lastput[id]} : ~GetOk(id, TRUE, d)
(* removed / never issued ids are reported absent by get, contains and size *)
AbsentIsAbsent ==
    \A id \in Ids \ Live : /\ \A d \in Recs : ~GetOk(id, TRUE, d) /\ GetOk(id, FALSE, d)
                           /\ ContainsOk(id, FALSE) /\ ~ContainsOk(id, TRUE)
                           /\ SizeOk(id, TRUE, <<>>) /\ \A n \in 0..1 : ~SizeOk(id, TRUE, <<n>>)
(* len / contains / size agree with the set of live records *)
LenAgrees ==
    /\ \A n \in 0..(MaxId + 2) : LenOk(n) <=> n = Cardinality(Live)
    /\ \A id \in Live : /\ ContainsOk(id, TRUE) /\ ~ContainsOk(id, FALSE)
                        /\ \A n \in 0..1 : SizeOk(id, TRUE, <<n>>) <=> n = lastput[id].len
                        /\ ~SizeOk(id, TRUE, <<>>)
(* batch forms = the sequence of single operations; iter_ids = the live ids *)
OptOf(id) == IF IsLive(id) THEN [some |-> TRUE, d |-> lastput[id]] ELSE [some |-> FALSE, d |-> [len |-> 0, h |-> <<0, 0>>]]
BatchLaws ==
    \A a, b \in Ids :
        /\ GetBatchOk(<<a, b>>, TRUE, <<OptOf(a), OptOf(b)>>)
        /\ \A d \in Recs : /\ IsLive(a) /\ d /= lastput[a] => ~GetBatchOk(<<a, b>>, TRUE, <<[some |-> TRUE, d |-> d], OptOf(b)>>)
                           /\ ~IsLive(a) => ~GetBatchOk(<<a, b>>, TRUE, <<[some |-> TRUE, d |-> d], OptOf(b)>>)
        /\ IsLive(a) => ~GetBatchOk(<<a, b>>, TRUE, <<[some |-> FALSE, d |-> lastput[a]], OptOf(b)>>)
        /\ GetBatchOk(<<a, b>>, FALSE, <<>>) <=> (~IsLive(a) \/ ~IsLive(b))
        /\ RemoveBatchMax(<<a, b>>) = (IF IsLive(a) THEN 1 ELSE 0) + (IF IsLive(b) /\ b /= a THEN 1 ELSE 0)
        /\ \A n \in 0..3 : RemoveBatchOkN(<<a, b>>, n) <=> n <= RemoveBatchMax(<<a, b>>)
IterLaws ==
    /\ \A a, b \in Ids : IterIdsOk(<<a, b>>) <=> (a /= b /\ Live = {a, b})
    /\ IterIdsOk(<<>>) <=> Live = {}
(* the keyed extension: the latest live record under a key is the only accepted answer *)
KeyLaws ==
    \A k \in Keys :
        /\ k \notin DOMAIN bykey => /\ \A d \in Recs : ~GetByKeyOk(k, TRUE, d)
                                    /\ ContainsKeyOk(k, FALSE) /\ ~ContainsKeyOk(k, TRUE)
        /\ (k \in DOMAIN bykey /\ IsLive(bykey[k])) =>
              /\ GetByKeyOk(k, TRUE, lastput[bykey[k]])
              /\ \A d \in Recs \ {lastput[bykey[k]]} : ~GetByKeyOk(k, TRUE, d)
              /\ \A d \in Recs : ~GetByKeyOk(k, FALSE, d)
(* keys() lists exactly the keys whose latest record is live; a batch of keyed puts equals the sequence *)
KeyListLaws ==
    LET want == { k \in DOMAIN bykey : IsLive(bykey[k]) } IN
    /\ \A r \in UNION { [1..n -> Keys] : n \in 0..NKeys } :
          KeysOk(<<>>, TRUE, r) <=> (Len(r) = Cardinality(want) /\ RangeOf(r) = want)
    /\ \A k \in DOMAIN bykey : bykey[k] \in DOMAIN keyof => keyof[bykey[k]] = k
(* iter_blobs: the only accepted answer is every live record once with the bytes last put under its id *)
IterBlobLaws ==
    \A a \in Ids, d \in Recs :
        IterBlobsOk(TRUE, <<[ok |-> TRUE, id |-> a, d |-> d]>>) <=> (Live = {a} /\ d = lastput[a])

(* an id is never handed to a different record while a record is live under it *)
NoLiveIdReissued == [][\A id \in (DOMAIN live) \cap (DOMAIN live') : live'[id] = live[id]]_vars
(* ids handed out stay handed out (a builder starts a new store) *)
IssuedMonotone == [][issued \subseteq issued']_vars
(* a record changes only through an operation on its id: put / remove touch one id, a batch two *)
FewIdsChange ==
    [][\/ live' = Empty
       \/ issued = {}
       \/ Cardinality({id \in Ids : (id \in DOMAIN live) /= (id \in DOMAIN live')}) <= 2]_vars
=============================================================================
