------------------------------ MODULE MC_SeqGen ------------------------------
(* Behaviour generator (binding B2) for the vector contract: every history of L   *)
(* operations of MC_Seq from the empty vector, each step annotated with what the  *)
(* specification computed: success flag, returned value, the values held by every *)
(* object after the step (st) and the number of live elements (na).  The harness  *)
(* executes each history on every subject that offers all of its operations and   *)
(* compares for equality.  xv = values of the argument elements of the step.      *)
EXTENDS MC_Seq, Json

CONSTANT L
VARIABLE hist

genvars == <<seqs, alive, ever, acct, nv, hist>>

ValsOf(s) == [i \in 1..Len(s) |-> s[i][1]]
StAfter == [o \in 1..2 |-> IF o \in DOMAIN seqs' THEN ValsOf(seqs'[o]) ELSE <<>>]
OptVal(r) == IF r = None THEN <<>> ELSE <<r[1][1]>>
Log(op, o, i, n, xv, ok, r) ==
    hist' = Append(hist, [op |-> op, o |-> o, i |-> i, n |-> n, xv |-> xv, ok |-> ok, r |-> r,
                          st |-> StAfter, na |-> Cardinality(alive')])

GenNext ==
    \/ \E o \in DOMAIN seqs :
        \/ DoPush(o) /\ Log("push", o, 0, 0, <<nv>>, TRUE, <<>>)
        \/ DoPop(o) /\ Log("pop", o, 0, 0, <<>>, TRUE, OptVal(LastOpt(S(o))))
        \/ DoClear(o) /\ Log("clear", o, 0, 0, <<>>, TRUE, <<>>)
        \/ DoShrink(o) /\ Log("shrink", o, 0, 0, <<>>, TRUE, <<>>)
        \/ DoExtendMove(o) /\ Log("extend_move", o, 0, 0, <<nv, nv + 1>>, TRUE, <<>>)
        \/ DoExtendClone(o) /\ Log("extend_clone", o, 0, 0, <<nv, nv + 1>>, TRUE, <<>>)
        \/ \E i \in 0..(MaxLen + 1) :
            \/ DoInsert(o, i) /\ Log("insert", o, i, 0, <<nv>>, i <= LenOf(o), <<>>)
            \/ DoRemove(o, i) /\ Log("remove", o, i, 0, <<>>, i < LenOf(o), IF i < LenOf(o) THEN <<S(o)[i + 1][1]>> ELSE <<>>)
            \/ DoSet(o, i) /\ Log("set", o, i, 0, <<nv>>, i < LenOf(o), <<>>)
            \/ DoTruncate(o, i) /\ Log("truncate", o, 0, i, <<>>, TRUE, <<>>)
            \/ DoResize(o, i) /\ Log("resize", o, 0, i, <<nv>>, TRUE, <<>>)
    \/ DoClone /\ Log("clone", 1, 0, 0, <<>>, TRUE, <<>>)

GenSpec == Init /\ hist = <<>> /\ [][GenNext]_genvars

GenBound == Len(hist) <= L
Emit == Len(hist) = L => PrintT(<<"REPLAY", ToJson(hist)>>)
=============================================================================
