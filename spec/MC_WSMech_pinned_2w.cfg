SPECIFICATION Spec
CONSTANTS
  NW = 2
  NT = 4
  Cap = 2
  PollOwnSteal = FALSE
  Workers <- MCWorkers
  Tasks <- MCTasks
  Prio <- MCPrio
  Stealable <- MCStealable
INVARIANT Conservation
PROPERTY EventuallyDone
CHECK_DEADLOCK FALSE
