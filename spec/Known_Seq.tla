----------------------------- MODULE Known_Seq -----------------------------
(* Event binding of the vector contract (TransV, PostV: shared by the trace          *)
(* specification and the deviations) and the                                        *)
(* named deviation actions for the recorded known findings of property C10 on the   *)
(* vector subjects (see /verif/known_findings.json).  A deviation is enabled only  *)
(* for the listed subject and only under its semantic trigger; in KF mode a        *)
(* deviation whose guard holds REPLACES the contract action for that event.        *)
EXTENDS Seq

KnownIds == {}

(* the state change an event claims *)
TransV(e, subj, first) ==
    LET D == e.dropped
        B == Elems(e.born) IN
    \/ e.op = "push"   /\ e.ok  /\ Push(e.o, e.x, D, B)
    \/ e.op = "push"   /\ ~e.ok /\ PushRefused(e.o, e.x, D, B)
    \/ e.op = "pop"    /\ Pop(e.o, e.r, D, B)
    (* a vector opened read-only refuses every mutation, pop included (documented) *)
    \/ e.op = "pop"    /\ subj.readonly /\ e.r = None /\ Maintenance(e.o, D, B)
    \/ e.op = "insert" /\ e.ok  /\ Insert(e.o, e.i, e.x, D, B)
    \/ e.op = "insert" /\ ~e.ok /\ InsertRefused(e.o, e.i, e.x, D, B)
    \/ e.op = "remove" /\ e.ok  /\ Len(e.r) = 1 /\ Remove(e.o, e.i, e.r[1], D, B)
    \/ e.op = "remove" /\ ~e.ok /\ RemoveRefused(e.o, e.i, D, B)
    \/ e.op = "set"    /\ e.ok  /\ Set(e.o, e.i, e.x, D, B)
    \/ e.op = "set"    /\ ~e.ok /\ SetRefused(e.o, e.i, e.x, D, B)
    \/ e.op = "resize" /\ e.ok  /\ Resize(e.o, e.n, e.x, e.post.c, D, B)
    \/ e.op = "resize" /\ ~e.ok /\ ResizeRefused(e.o, e.n, e.x, D, B)
    \/ e.op = "extend_move"  /\ e.ok  /\ ExtendMove(e.o, e.xs, D, B)
    \/ e.op = "extend_move"  /\ ~e.ok /\ ExtendRefused(e.o, e.xs, TRUE, D, B)
    \/ e.op = "extend_clone" /\ e.ok  /\ ExtendClone(e.o, e.xs, e.post.c, D, B)
    \/ e.op = "extend_clone" /\ ~e.ok /\ ExtendRefused(e.o, e.xs, FALSE, D, B)
    \/ e.op = "fill"     /\ e.ok  /\ Fill(e.o, e.a, e.b, e.x)
    \/ e.op = "fill"     /\ ~e.ok /\ Maintenance(e.o, D, B)
    \/ e.op = "clear"    /\ e.ok  /\ Clear(e.o, D, B)
    \/ e.op = "clear"    /\ ~e.ok /\ Maintenance(e.o, D, B)
    \/ e.op = "truncate" /\ e.ok  /\ Truncate(e.o, e.n, D, B)
    \/ e.op = "truncate" /\ ~e.ok /\ Maintenance(e.o, D, B)
    \/ e.op = "pop_tail" /\ e.ok  /\ PopTail(e.o, e.n, e.r, D, B)
    \/ e.op = "pop_tail" /\ ~e.ok /\ Maintenance(e.o, D, B)
    \/ e.op = "maintenance" /\ Maintenance(e.o, D, B)
    \/ e.op = "resize_with" /\ e.ok  /\ ResizeWith(e.o, e.n, e.xs, D, B)
    \/ e.op = "resize_with" /\ ~e.ok /\ ResizeWithRefused(e.o, e.xs, D, B)
    \/ e.op = "copy_from" /\ e.ok  /\ CopyFrom(e.o, e.xs)
    \/ e.op = "copy_from" /\ ~e.ok /\ Maintenance(e.o, D, B)
    \/ e.op = "new_sized" /\ e.ok  /\ NewSized(e.o2, e.n, e.x, e.post.c, D, B)
    \/ e.op = "new_sized" /\ ~e.ok /\ NewSizedRefused(e.x, D, B)
    \/ e.op = "new_empty" /\ e.ok  /\ NewEmpty(e.o2, D, B)
    \/ e.op = "new_empty" /\ ~e.ok /\ Maintenance(e.o, D, B)
    \/ e.op = "adopt" /\ first /\ Adopt(e.o, e.post.c)    \* only as the first event of a run
    \/ e.op = "compare" /\ e.ok  /\ Compare(e.o, e.o2, e.a, e.b, e.r)
    \/ e.op = "compare" /\ ~e.ok /\ Maintenance(e.o, D, B)
    \/ e.op = "clone" /\ e.ok /\ Clone(e.o, e.o2, e.post.c, D, B)
    \/ e.op = "clone" /\ ~e.ok /\ Maintenance(e.o, D, B)
    \/ e.op = "drop"  /\ DropContainer(e.o, D, B)

(* what the object shows after the call must be the new abstract state *)
PostV(e) ==
    \/ e.op = "drop"
    \/ e.op \in {"clone", "new_sized", "new_empty"} /\ e.ok /\ ObsSeq(seqs'[e.o2], e.post) /\ ObsSeq(seqs'[e.o], e.src)
    \/ e.op \in {"clone", "new_sized", "new_empty"} /\ ~e.ok /\ ObsSeq(seqs'[e.o], e.post)
    \/ e.op = "compare" /\ ObsSeq(seqs'[e.o], e.post) /\ ObsSeq(seqs'[e.o2], e.src)
    \/ e.op \notin {"drop", "clone", "new_sized", "new_empty", "compare"} /\ ObsSeq(seqs'[e.o], e.post)

Zs(n) == [i \in 1..n |-> <<0, 0>>]

(* C10-KF9: FastVec::copy_from_slice_fast(src) returns Ok at once for an empty source and      *)
(* leaves the old content in place, while every non-empty source replaces the content (len :=   *)
(* src.len()).  Trigger: a successful copy_from with an empty source on a non-empty vector that *)
(* still shows its old content.  Nothing changes.                                               *)
G9(e, subj) == /\ subj.fam \in {"fastvec_u64", "fastvec_u8", "fastvec_zst"}
               /\ e.op = "copy_from" /\ e.ok /\ e.xs = <<>>
               /\ seqs[e.o] # <<>> /\ e.post.c = seqs[e.o]
KF9(e, subj) == G9(e, subj) /\ Maintenance(e.o, e.dropped, Elems(e.born)) /\ ObsSeq(seqs'[e.o], e.post)

(* C10-KF10: ValVec32<T> for a zero-sized T: as_slice() / as_mut_slice() / iter() return an     *)
(* empty slice whatever the length is (`if self.len == 0 || size_of::<T>() == 0 { return &[] }`);*)
(* len(), get(i), indexing are right.  Trigger: the subject is ValVec32 of a zero-sized type,    *)
(* the vector is not empty after the call and its slice views are empty.  The deviation reads    *)
(* the content from the length (all elements of a zero-sized type are equal) and still checks    *)
(* len, every get(i), the out-of-range get and the length twins.  clone() of such a vector is    *)
(* empty (second trigger).                                                                        *)
EmptyClone(e) == e.op = "clone" /\ e.ok /\ seqs[e.o] # <<>> /\ e.post.len = 0
G10(e, subj) == /\ subj.fam = "valvec32_zst"
                /\ \/ /\ e.op \in {"push", "pop", "set", "extend_clone", "resize", "clear", "maintenance"}
                      /\ e.post.len > 0 /\ e.post.c = <<>> /\ e.post.it = <<>>
                   (* clone() of a non-empty vector of a zero-sized type is empty: with_capacity() gives capacity 0 *)
                   (* for such a type and clone() copies min(capacity, len) elements                                  *)
                   \/ EmptyClone(e)
ObsZst(s, p) ==
    /\ p.len = Len(s) /\ p.c = <<>> /\ p.it = <<>>
    /\ p.has_get /\ Len(p.gets) = Len(s) + 1
    /\ \A i \in 1..Len(p.gets) : p.gets[i] = (IF i <= Len(s) THEN Some(s[i]) ELSE None)
    /\ p.cap >= Len(s)
    /\ \A i \in 1..Len(p.alt_len) : p.alt_len[i] = Len(s)
    /\ \A i \in 1..Len(p.view_names) : p.view_names[i] \in {"as_mut_slice", "iter_mut", "into_iter"} => p.views[i] = <<>>
    /\ \A i \in 1..Len(p.view_names) : p.view_names[i] \notin {"as_mut_slice", "iter_mut", "into_iter"} => p.views[i] = s

KF10(e, subj) ==
    /\ G10(e, subj)
    /\ IF EmptyClone(e)
       THEN /\ e.o2 \notin DOMAIN seqs /\ Flow(With(e.o2, <<>>), {}, {}, {}, e.dropped)
            /\ ObsSeq(seqs'[e.o2], e.post) /\ ObsZst(seqs'[e.o], e.src)
       ELSE /\ LET e2 == [e EXCEPT !.post = [e.post EXCEPT !.c = Zs(e.post.len)]] IN TransV(e2, subj, FALSE)
            /\ ObsZst(seqs'[e.o], e.post)

(* C10-KF11: CacheAlignedVec<T> for a zero-sized T: the first reserve / push divides by          *)
(* size_of::<T>() = 0 and panics.  Trigger: that very panic message from push / reserve on the   *)
(* zero-sized subject.  Nothing changes (the run ends there).                                    *)
G11(e, subj) == /\ subj.fam = "cachevec_zst"
                /\ e.op = "panic" /\ e.in \in {"push", "reserve"} /\ e.msg = "attempt to divide by zero"
KF11(e, subj) == G11(e, subj) /\ UNCHANGED ownvars

(* C10-KF1: ValVec32::set(i, x) overwrites slot i with ptr::write and never runs the       *)
(* destructor of the element that was there: the old element is leaked.  Trigger: a         *)
(* successful set on an in-range index that dropped nothing.  The deviation takes the       *)
(* overwritten element out of the owned set (it is gone for good), everything else - the    *)
(* new content, the observation after the call - is still checked.                          *)
G1(e, subj) == /\ subj.fam = "valvec32"
               /\ e.op = "set" /\ e.ok /\ e.dropped = <<>>
               /\ e.i < Len(seqs[e.o])
KF1(e, subj) == /\ G1(e, subj)
                /\ Set(e.o, e.i, e.x, <<seqs[e.o][e.i + 1]>>, Elems(e.born))
                /\ ObsSeq(seqs'[e.o], e.post)

DevApplies(id, e, subj) ==
    \/ id = "C10-KF1" /\ G1(e, subj)
    \/ id = "C10-KF9" /\ G9(e, subj)
    \/ id = "C10-KF10" /\ G10(e, subj)
    \/ id = "C10-KF11" /\ G11(e, subj)
KnownDeviation(id, e, subj) ==
    \/ id = "C10-KF1" /\ KF1(e, subj)
    \/ id = "C10-KF9" /\ KF9(e, subj)
    \/ id = "C10-KF10" /\ KF10(e, subj)
    \/ id = "C10-KF11" /\ KF11(e, subj)
=============================================================================
