----------------------------- MODULE Known_Seq -----------------------------
(* Named deviation actions for the recorded known findings of property C10 on the *)
(* vector subjects (see /verif/known_findings.json).  A deviation is enabled only  *)
(* for the listed subject and only under its semantic trigger; in KF mode a        *)
(* deviation whose guard holds REPLACES the contract action for that event.        *)
EXTENDS Seq

KnownIds == {}

(* C10-KF1: ValVec32::set(i, x) overwrites slot i with ptr::write and never runs the       *)
(* destructor of the element that was there: the old element is leaked.  Trigger: a         *)
(* successful set on an in-range index that dropped nothing.  The deviation takes the       *)
(* overwritten element out of the owned set (it is gone for good), everything else - the    *)
(* new content, the observation after the call - is still checked.                          *)
G1(e, subj) == /\ subj.fam = "valvec32"
               /\ e.op = "set" /\ e.ok /\ e.dropped = <<>>
               /\ e.i < Len(seqs[e.o])
KF1(e, subj) == /\ G1(e, subj)
                /\ Set(e.o, e.i, e.x, <<seqs[e.o][e.i + 1]>>, Elems(e.born))
                /\ ObsSeq(seqs'[e.o], e.post)

DevApplies(id, e, subj) ==
    \/ id = "C10-KF1" /\ G1(e, subj)
KnownDeviation(id, e, subj) ==
    \/ id = "C10-KF1" /\ KF1(e, subj)
=============================================================================
