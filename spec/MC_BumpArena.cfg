SPECIFICATION Spec
CONSTANTS
  Base = 8
  Cap = 40
  AlignAddress = TRUE
  Sizes = {1, 8, 9}
  Aligns = {1, 8, 16}
  MaxBlocks = 3
INVARIANT NoOverlap SizesOk InBuffer AlignOk
CHECK_DEADLOCK FALSE
