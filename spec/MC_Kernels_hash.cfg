SPECIFICATION Spec
CONSTANTS
  Alphabet = {0, 1, 255}
  MaxLen = 9
INVARIANT HashLaws
CHECK_DEADLOCK FALSE
