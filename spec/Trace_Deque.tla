---------------------------- MODULE Trace_Deque ----------------------------
(* Trace specification: replays a recorded execution of a real zipora ring buffer  *)
(* through the actions of Deque.tla, one event = one action.                       *)
EXTENDS Deque, TraceIO, Known_Deque

VARIABLES l, subj, kf

vars == <<seqs, alive, ever, acct, fixedcap, l, subj, kf>>

TraceInit == DequeInit(TRUE, 0) /\ l = 1 /\ subj = [subject |-> "none"] /\ kf = {}

Step(e) == TransQ(e) /\ PostQ(e)

TraceNext ==
    /\ l <= Len(Rec)
    /\ l' = l + 1
    /\ LET e == Rec[l] IN
       IF e.op = "reset"
       THEN SeqReset(e.acct) /\ fixedcap' = e.fixedcap /\ subj' = e /\ kf' = kf
       ELSE /\ subj' = subj
            /\ IF UseKF /\ \E id \in KnownIds : DevApplies(id, e, subj)
               THEN \E id \in KnownIds : KnownDeviation(id, e, subj) /\ kf' = kf \cup {id}
               ELSE Step(e) /\ kf' = kf

TraceSpec == TraceInit /\ [][TraceNext]_vars

(* reported only on a path that consumed the whole trace *)
Done == l = Len(Rec) + 1 => PrintT(<<"KFSET", kf>>)
=============================================================================
