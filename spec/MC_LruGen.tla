------------------------------ MODULE MC_LruGen ------------------------------
(* Behaviour generator (binding B2): every history of length L of put/get/remove/clear    *)
(* over Keys x Vals for every capacity in Caps, each step annotated with the result,     *)
(* the eviction-callback log and the abstract state AFTER the step (recency order and      *)
(* values) as computed by Lru.tla.  With 4 keys and capacity <= 3 nearly every put of a    *)
(* new key evicts.  "drain" is the callback log TLC expects when the harness afterwards    *)
(* pushes cap fresh keys through the cache: the whole content, least recently used first.  *)
EXTENDS Lru, TLC, Json

CONSTANTS Keys, Vals, Caps, L
VARIABLE hist

S == lru[1]
AnyK == CHOOSE k \in Keys : TRUE
AnyV == CHOOSE v \in Vals : TRUE

After == lru'[1]
Pairs(s) == [i \in 1..Len(s.order) |-> <<s.order[i], s.val[s.order[i]]>>]
Log(op, k, v, r, ev) == hist' = Append(hist, [op |-> op, k |-> k, v |-> v, r |-> r, ev |-> ev, st |-> Pairs(After)])

Ops ==
    \/ \E k \in Keys, v \in Vals : Put(1, k, v, LPut(S, k, v).r, LPut(S, k, v).ev) /\ Log("put", k, v, LPut(S, k, v).r, LPut(S, k, v).ev)
    \/ \E k \in Keys : Get(1, k, LGet(S, k).r) /\ Log("get", k, AnyV, LGet(S, k).r, <<>>)
    \/ \E k \in Keys : Remove(1, k, LRemove(S, k).r, <<>>) /\ Log("remove", k, AnyV, LRemove(S, k).r, <<>>)
    \/ Clear(<<>>) /\ Log("clear", AnyK, AnyV, None, <<>>)
(* histories of length L have no successors: nothing is generated just to be cut by the constraint *)
Next == Len(hist) < L /\ Ops

Init == (\E c \in Caps : LruInit(1, c)) /\ hist = <<>>
Spec == Init /\ [][Next]_<<lru, loc, last, hist>>

Drain == [i \in 1..Len(S.order) |-> LET k == S.order[Len(S.order) + 1 - i] IN <<k, S.val[k]>>]
Bound == Len(hist) <= L
Emit == Len(hist) = L => PrintT(<<"REPLAY", ToJson([cap |-> S.cap, steps |-> hist, drain |-> Drain])>>)
=============================================================================
