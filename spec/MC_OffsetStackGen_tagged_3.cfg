SPECIFICATION Spec
CONSTANTS
  P = 3
  Tagged = TRUE
  BumpHook = TRUE
  NB = 5
  InitFree <- MCInitFree
  Threads <- MCThreads
  Prog <- MCProg
INVARIANT Emit
CHECK_DEADLOCK FALSE
