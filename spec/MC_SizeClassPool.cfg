SPECIFICATION Spec
CONSTANTS
  Classes <- MCClasses
  Sizes <- MCSizes
  Arena = 12
  CarveClass = TRUE
  AdvanceOnFail = FALSE
  Wrap = 64
  MaxLive = 4
CONSTRAINT Bound
INVARIANT NoOverlap SizesOk InArena TypeOK
PROPERTY Refines
CHECK_DEADLOCK FALSE
