------------------------- MODULE Known_DurableFile -------------------------
(* Named deviation actions for the recorded known findings of property C19         *)
(* (see /verif/known_findings.json).  Guard = subject family + image kind +        *)
(* outcome (+ what the reopened object claims); every guard also requires that the *)
(* strict contract rejects the event, so a deviation never fires on a conforming   *)
(* reopen.  A deviation replaces the contract action only in KF mode.              *)
EXTENDS DurableFile, TLC

KnownIds == {"C19-KF3", "C19-KF5", "C19-KF6"}

MixKinds == {"mixture", "rollback", "hdr_new_data_old", "data_new_hdr_old"}
Damaged == MixKinds \cup {"truncate"}

IsReopen(e) == e.op = "reopen" /\ img /= NoImg
Rejected(e) == ~ReopenOK(e.outcome, e.content, e.extent)
(* the reopened object claims more bytes (header + capacity) than the image holds *)
ClaimsBeyond(e) == e.claim /= <<>> /\ e.claim[1] > img.len

Accept == img' = NoImg /\ UNCHANGED sp

(* C19-KF1: MmapVec::open validates magic / version / element size / len <= capacity but  *)
(* never compares the capacity with the file length: a file cut short (or a header that   *)
(* got ahead of the file) opens, and reads return bytes that are not in the file (zeros   *)
(* of the private buffer, or memory beyond it: SIGSEGV).                                  *)
G1(e, subj) == /\ subj.fam = "mmapvec" /\ IsReopen(e) /\ img.kind \in Damaged
               /\ \/ e.outcome = "ok" /\ ClaimsBeyond(e) /\ Rejected(e)
                  \/ e.outcome = "signal" /\ img.len < img.flen
KF1(e, subj) == G1(e, subj) /\ Accept

(* C19-KF2: MmapVec::sync rewrites the whole file in place (std::fs::write) and the       *)
(* format has no checksum: a torn rewrite whose length matches the header is accepted     *)
(* with a content that was never synced.                                                  *)
G2(e, subj) == /\ subj.fam = "mmapvec" /\ IsReopen(e) /\ img.kind \in MixKinds
               /\ e.outcome = "ok" /\ ~ClaimsBeyond(e) /\ Rejected(e)
KF2(e, subj) == G2(e, subj) /\ Accept

(* C19-KF3: PlainBlobStore records are bare files (no length, no checksum) that put()     *)
(* creates and fills under their final name: a record cut short or torn is served as is.  *)
G3(e, subj) == /\ subj.fam = "plain" /\ IsReopen(e) /\ img.kind \in Damaged
               /\ e.outcome = "ok" /\ Rejected(e)
KF3(e, subj) == G3(e, subj) /\ Accept

(* C19-KF4: ZReorderMap::open accepts a file that ends before its declared element count  *)
(* (cut short, or the output of a builder that never finished); iteration silently stops  *)
(* early (Iterator::next swallows the read error) while size() reports the full count.    *)
G4(e, subj) == /\ subj.fam = "reorder" /\ IsReopen(e)
               /\ (img.kind = "truncate" \/ (img.kind = "intact" /\ ~sp[img.k].valid))
               /\ e.outcome = "ok" /\ Rejected(e)
KF4(e, subj) == G4(e, subj) /\ Accept

(* C19-KF5: ZReorderMapBuilder rewrites an existing file in place (O_TRUNC, no temporary  *)
(* file) and the format has no checksum: a torn rewrite WHOSE RECORDS ARE CONSISTENT WITH  *)
(* THE DECLARED ELEMENT COUNT is accepted.  Not covered: a map that stops in the middle of *)
(* a run that was written (the reopened values end with a proper prefix of a written run): *)
(* then the records overshoot the declared count, which open() is required to refuse.      *)
(* wruns = the multi-element runs [start, len] the history wrote (reset event), tail = the *)
(* last maximal run [start, len] of the reopened values.                                   *)
EndsInsideWrittenRun(e, subj) ==
    /\ e.tail /= <<>>
    /\ \E i \in 1..Len(subj.wruns) : subj.wruns[i][1] = e.tail[1] /\ e.tail[2] < subj.wruns[i][2]
G5(e, subj) == /\ subj.fam = "reorder" /\ IsReopen(e) /\ img.kind \in MixKinds
               /\ e.outcome = "ok" /\ Rejected(e) /\ ~EndsInsideWrittenRun(e, subj)
KF5(e, subj) == G5(e, subj) /\ Accept

(* C19-KF6: SuffixArrayDictionary::save_to_file rewrites the dictionary file in place and *)
(* the bincode image has no checksum: a torn rewrite loads with a text never saved.       *)
G6(e, subj) == /\ subj.fam = "dzdict" /\ subj.variant \in {"sadict", "serde"}
               /\ IsReopen(e) /\ img.kind \in MixKinds
               /\ e.outcome = "ok" /\ Rejected(e)
KF6(e, subj) == G6(e, subj) /\ Accept

DevApplies(id, e, subj) ==
    \/ id = "C19-KF1" /\ G1(e, subj)
    \/ id = "C19-KF2" /\ G2(e, subj)
    \/ id = "C19-KF3" /\ G3(e, subj)
    \/ id = "C19-KF4" /\ G4(e, subj)
    \/ id = "C19-KF5" /\ G5(e, subj)
    \/ id = "C19-KF6" /\ G6(e, subj)
KnownDeviation(id, e, subj) ==
    \/ id = "C19-KF1" /\ KF1(e, subj)
    \/ id = "C19-KF2" /\ KF2(e, subj)
    \/ id = "C19-KF3" /\ KF3(e, subj)
    \/ id = "C19-KF4" /\ KF4(e, subj)
    \/ id = "C19-KF5" /\ KF5(e, subj)
    \/ id = "C19-KF6" /\ KF6(e, subj)
=============================================================================
