------------------------- MODULE Known_DurableFile -------------------------
(* Named deviation actions for the recorded known findings of property C19         *)
(* (see /verif/known_findings.json).  Guard = subject family / variant + image     *)
(* kind + outcome; a deviation replaces the contract action only in KF mode.       *)
EXTENDS DurableFile, TLC

KnownIds == {}

DevApplies(id, e, subj) == FALSE
KnownDeviation(id, e, subj) == FALSE
=============================================================================
