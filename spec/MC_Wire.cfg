SPECIFICATION Spec
CONSTANTS
  Vals = {"a", "b", "c"}
  MaxRecs = 4
  MaxSrc = 3
  MaxK = 2
INVARIANT TypeInv ReadsReturnWritesInOrder OffsetIsSum ThroughAnswers OneAnswer RefusalOnlyAtEnd DeliveredIsView ReadAnswers SinkIsAccepted PredOneAnswer TotalRefusal
PROPERTY WriteWindow
CHECK_DEADLOCK FALSE
