--------------------------- MODULE PipelineStream ---------------------------
(* Contract of the streaming / batching / yielding / async-I/O helpers of zipora   *)
(* that property C18 lists besides the executor and the fiber pool:                *)
(*                                                                                 *)
(*   1  stage pipelines   Pipeline::execute_stream / execute_two_stage,            *)
(*                        BatchMapStage, FilterStage (concurrency/pipeline.rs)     *)
(*   2  BatchCollector    add / check_timeout / flush / start_timeout_checker      *)
(*   3  fibers            fiber_yield.rs: every fiber completes exactly once       *)
(*                        whatever the yield pattern / budget; the order-keeping   *)
(*                        helpers of CooperativeUtils / YieldingIterator           *)
(*   4  file I/O          fiber_aio.rs: FiberFile / FiberAio / VectoredIo /        *)
(*                        FiberIoUtils: reads return exactly the file's bytes at    *)
(*                        the requested range, writes land where requested         *)
(*                                                                                 *)
(* (The async blob stores are judged by BlobStore.tla: same contract as the         *)
(*  synchronous stores, the harness logs a linearisation of the concurrent calls.)  *)
(*                                                                                 *)
(* Every action takes the arguments AND the result the implementation returned and  *)
(* is enabled exactly for the results the property allows.  Refusal rule: a call    *)
(* may report an error (ok = FALSE) provided what it handed out before is still     *)
(* right; a success that hides a lost, duplicated, shifted or wrong item is never   *)
(* accepted.                                                                        *)
EXTENDS Integers, Sequences, FiniteSets, TLC

VARIABLES bc,    \* batch collector: [added, handed, max]
          fib,   \* fibers: id -> "spawned" | "done"
          fio    \* one open FiberFile: [content, pos]

psvars == <<bc, fib, fio>>

Rng(s) == { s[i] : i \in 1..Len(s) }
MinOf(S) == CHOOSE x \in S : \A y \in S : x <= y
MaxOf(S) == CHOOSE x \in S : \A y \in S : y <= x
Lesser(a, b) == IF a <= b THEN a ELSE b
Greater(a, b) == IF a >= b THEN a ELSE b
DistinctSeq(s) == \A i, j \in 1..Len(s) : i /= j => s[i] /= s[j]
RECURSIVE Flat(_)
Flat(ss) == IF ss = <<>> THEN <<>> ELSE Head(ss) \o Flat(Tail(ss))
RECURSIVE SumSeq(_)
SumSeq(s) == IF s = <<>> THEN 0 ELSE Head(s) + SumSeq(Tail(s))

(* ======================================================================= 1 *)
(* Stage functions of the harness.  A stage kind is "F", "G" or "S"; fl is the     *)
(* record [F |-> inputs on which F fails, G |-> inputs on which G fails,           *)
(* S |-> inputs on which the identity stage S sleeps past the stage timeout].      *)
F(x) == 2 * x + 1
G(x) == x + 3
P(x) == x % 3 /= 0                      \* predicate of the FilterStage

App(k, x) == IF k = "F" THEN F(x) ELSE IF k = "G" THEN G(x) ELSE x
Bad(k, x, fl) == IF k = "F" THEN x \in Rng(fl.F) ELSE IF k = "G" THEN x \in Rng(fl.G) ELSE x \in Rng(fl.S)

(* the sequential composition of the stages on one item: <<TRUE, value>> or <<FALSE, 0>> *)
RECURSIVE Run(_, _, _)
Run(stages, x, fl) ==
    IF stages = <<>> THEN <<TRUE, x>>
    ELSE IF Bad(Head(stages), x, fl) THEN <<FALSE, 0>>
    ELSE Run(Tail(stages), App(Head(stages), x), fl)

(* item number id (its position in the input) came out of the pipeline with value v *)
Out(stages, fl, in, id, v) ==
    /\ id \in 1..Len(in)
    /\ Run(stages, in[id], fl)[1]
    /\ v = Run(stages, in[id], fl)[2]

(* one call (execute_single / execute_two_stage) on one item *)
ChainOk(stages, fl, x, ok, out) ==
    IF Run(stages, x, fl)[1] THEN ok => out = <<Run(stages, x, fl)[2]>>      \* (an error without cause is a refusal)
    ELSE ~ok                                                                   \* a failing / timed-out item surfaces as an error

(* Pipeline::process_batch with one stage of kind k over a whole input vector: one result per      *)
(* input, in input order; an item that fails or times out in the MIDDLE of the batch makes the      *)
(* call an error - never a shorter vector, never the results of the later items moved up            *)
BatchChainOk(k, fl, in, ok, out) ==
    IF \E i \in 1..Len(in) : Bad(k, in[i], fl) THEN ~ok
    ELSE ok => (Len(out) = Len(in) /\ \A i \in 1..Len(in) : out[i] = App(k, in[i]))

(* execute_stream: the items were sent in input order (ids 1..n); outIds / outVals is what the     *)
(* output channel delivered until it closed, ok is the result of the call.  Every accepted input    *)
(* yields exactly one output, in order, equal to the composition; when an item fails in some stage  *)
(* the call must report an error, and what was delivered is the outputs of the items before the     *)
(* first failing one (a prefix: nothing shifted, nothing duplicated, nothing from the failing item).*)
StreamOk(stages, fl, in, ok, outIds, outVals) ==
    LET bad == { i \in 1..Len(in) : ~Run(stages, in[i], fl)[1] }
        lim == IF bad = {} THEN Len(in) ELSE MinOf(bad) - 1
    IN /\ Len(outIds) = Len(outVals)
       /\ Len(outIds) <= lim
       /\ \A i \in 1..Len(outIds) : outIds[i] = i /\ Out(stages, fl, in, i, outVals[i])
       /\ ok => (bad = {} /\ Len(outIds) = Len(in))

(* a batch call with one result per input (BatchMapStage through Pipeline::process_batch, the      *)
(* yielding helpers): in order, F applied, a failing item makes the call an error                   *)
MapFOk(in, fail, ok, out) ==
    IF \E i \in 1..Len(in) : in[i] \in Rng(fail) THEN ~ok
    ELSE ok => (Len(out) = Len(in) /\ \A i \in 1..Len(in) : out[i] = F(in[i]))

(* FilterStage through process_batch: one Option per input, Some(x) iff P(x) *)
FilterOk(in, ok, out) ==
    ok => (Len(out) = Len(in) /\ \A i \in 1..Len(in) : out[i] = IF P(in[i]) THEN <<in[i]>> ELSE <<>>)

(* ======================================================================= 2 *)
(* BatchCollector.  added = the items in the order they were added (ids are        *)
(* distinct); handed = the items handed out in some batch.  The concatenation of   *)
(* all batches handed out = added; each batch is non-empty and at most max long.   *)
BCInit == bc = [added |-> <<>>, handed |-> {}, max |-> 1]
BCNew(max) == bc' = [added |-> <<>>, handed |-> {}, max |-> max]

NPending == Len(bc.added) - Cardinality(bc.handed)

(* --- sequential use (one task calls add / check_timeout / flush): the log order is the real order, *)
(* so each batch is exactly the next items not yet handed out                                         *)
SeqBatch(added, handed, max, b) ==
    LET h == Cardinality(handed) IN
    /\ Len(b) >= 1 /\ Len(b) <= max
    /\ h + Len(b) <= Len(added)
    /\ b = SubSeq(added, h + 1, h + Len(b))

BCAdd(id, some, b) ==
    /\ id \notin Rng(bc.added)
    /\ LET a2 == Append(bc.added, id) IN
       IF some THEN /\ SeqBatch(a2, bc.handed, bc.max, b)
                    /\ bc' = [bc EXCEPT !.added = a2, !.handed = @ \cup Rng(b)]
       ELSE b = <<>> /\ bc' = [bc EXCEPT !.added = a2]

(* flush: a batch, or nothing - but "nothing" while items are pending means they are lost at flush *)
BCFlush(some, b) ==
    IF some THEN SeqBatch(bc.added, bc.handed, bc.max, b) /\ bc' = [bc EXCEPT !.handed = @ \cup Rng(b)]
    ELSE b = <<>> /\ NPending = 0 /\ UNCHANGED bc

(* check_timeout: a batch, or nothing.  due = the harness waited longer than the batch timeout since *)
(* the last hand-out: then pending items must come out (timing assumption, see the evidence)          *)
BCTimeout(some, due, b) ==
    IF some THEN SeqBatch(bc.added, bc.handed, bc.max, b) /\ bc' = [bc EXCEPT !.handed = @ \cup Rng(b)]
    ELSE b = <<>> /\ (due => NPending = 0) /\ UNCHANGED bc

BCLen(n) == n = NPending /\ UNCHANGED bc

(* --- concurrent use (producers + the background timeout checker): a batch is drained atomically,  *)
(* but it reaches the log later than the drain, so batches may be logged out of order.  id =         *)
(* 1000 * producer + sequence number.  What remains decidable per batch: its items were offered, not  *)
(* handed out before, distinct, at most max, and the items of one producer form an ascending          *)
(* contiguous run of that producer's sequence (necessary for the concatenation to keep the order).    *)
Prod(id) == id \div 1000
ConcBatch(b) ==
    /\ Len(b) >= 1 /\ Len(b) <= bc.max
    /\ DistinctSeq(b)
    /\ Rng(b) \subseteq Rng(bc.added) \ bc.handed
    /\ \A i, j \in 1..Len(b) : (i < j /\ Prod(b[i]) = Prod(b[j])) => b[i] < b[j]
    /\ \A p \in { Prod(x) : x \in Rng(b) } :
          LET S == { x \in Rng(b) : Prod(x) = p } IN
          Cardinality(S) = MaxOf(S) - MinOf(S) + 1
(* the harness is about to call add(id) (logged BEFORE the call: the checker may drain it at once) *)
BCOffer(id) == id \notin Rng(bc.added) /\ bc' = [bc EXCEPT !.added = Append(@, id)]
BCAddC(id, some, b) ==
    /\ id \in Rng(bc.added)
    /\ IF some THEN ConcBatch(b) /\ bc' = [bc EXCEPT !.handed = @ \cup Rng(b)]
       ELSE b = <<>> /\ UNCHANGED bc
(* the timeout checker handed a batch to its callback *)
BCDeliver(b) == ConcBatch(b) /\ bc' = [bc EXCEPT !.handed = @ \cup Rng(b)]
(* flush while the checker runs: "nothing" is no verdict (a drained batch may still be on its way  *)
(* to the log); what is left is judged by BCQuiet / BCEnd                                          *)
BCFlushC(some, b) ==
    IF some THEN ConcBatch(b) /\ bc' = [bc EXCEPT !.handed = @ \cup Rng(b)]
    ELSE b = <<>> /\ UNCHANGED bc
(* the producers are done and nothing has happened for the grace period while the timeout checker *)
(* is running: every item must have come out through a batch                                        *)
BCQuiet == NPending = 0 /\ UNCHANGED bc

(* the end of a run (after the final flushes): nothing is left, len() agrees *)
BCEnd(n) == n = 0 /\ NPending = 0 /\ UNCHANGED bc

(* ======================================================================= 3 *)
(* Fibers that yield.  Every spawned fiber completes exactly once, having done the  *)
(* number of steps it was asked to do.                                              *)
FibInit == fib = [x \in {} |-> "none"]
FibPlace(i, s) == [x \in DOMAIN fib \cup {i} |-> IF x = i THEN s ELSE fib[x]]
FSpawn(id) == id \notin DOMAIN fib /\ fib' = FibPlace(id, "spawned")
FDone(id, want, iters) ==
    /\ id \in DOMAIN fib /\ fib[id] = "spawned"
    /\ iters = want
    /\ fib' = FibPlace(id, "done")
(* every fiber finished, or nothing has happened for the grace period *)
FEnd(pending) == pending = 0 /\ (\A id \in DOMAIN fib : fib[id] = "done") /\ UNCHANGED fib

(* run_with_yield(n, interval, f): f(0) .. f(n-1) in order *)
RunWithYieldOk(n, fail, ok, out) ==
    IF \E i \in 0..(n - 1) : i \in Rng(fail) THEN ~ok
    ELSE ok => (Len(out) = n /\ \A i \in 1..n : out[i] = F(i - 1))
(* YieldingIterator::for_each: every item seen once, in order, count returned; collect: the items *)
IterOk(in, ok, count, seen) == ok => (count = Len(in) /\ seen = in)

(* ======================================================================= 4 *)
(* One FiberFile.  content = the bytes of the file, pos = the logical position.    *)
FioInit == fio = [content |-> <<>>, pos |-> 0]
FOpen(content) == fio' = [content |-> content, pos |-> 0]

(* the bytes of s in [off, off + n) *)
Slice(s, off, n) == IF off >= Len(s) THEN <<>> ELSE SubSeq(s, off + 1, Lesser(off + n, Len(s)))

(* read(buf of n bytes) -> Ok(k) with the bytes: exactly the file's bytes at the position, k <= n; *)
(* k = 0 only at end of file (or n = 0); the position advances by k.  Err: refusal, nothing moves.  *)
ReadAnswer(n, at, got) ==
    /\ Len(got) <= n
    /\ got = Slice(fio.content, at, Len(got))
    /\ Len(got) = 0 => (n = 0 \/ at >= Len(fio.content))
FRead(n, ok, got) ==
    IF ok THEN ReadAnswer(n, fio.pos, got) /\ fio' = [fio EXCEPT !.pos = @ + Len(got)]
    ELSE UNCHANGED fio
(* read_at(buf, off): the bytes at off, "without changing file position" *)
FReadAt(n, off, ok, got) ==
    /\ ok => ReadAnswer(n, off, got)
    /\ UNCHANGED fio
(* seek(Start(d) | Current(d) | End(d)) -> Ok(new position) *)
SeekTarget(kind, d) == IF kind = "start" THEN d ELSE IF kind = "cur" THEN fio.pos + d ELSE Len(fio.content) + d
FSeek(kind, d, ok, r) ==
    IF ok THEN /\ SeekTarget(kind, d) >= 0
               /\ r = SeekTarget(kind, d)
               /\ fio' = [fio EXCEPT !.pos = r]
    ELSE UNCHANGED fio
FPosition(r) == r = fio.pos /\ UNCHANGED fio
(* read_to_end(): "Read entire file contents": the rest of the file from the position (the meaning  *)
(* of read_to_end everywhere else), or the whole file (the doc comment) - nothing else; afterwards   *)
(* the position is the end of the file                                                               *)
FReadToEnd(ok, got) ==
    IF ok THEN /\ (got = Slice(fio.content, fio.pos, Len(fio.content)) \/ got = fio.content)
               /\ fio' = [fio EXCEPT !.pos = Greater(@, Len(fio.content))]
    ELSE UNCHANGED fio

(* a created file: write(buf) -> Ok(k): the first k bytes land at the position (a hole reads as 0) *)
FCreate == fio' = [content |-> <<>>, pos |-> 0]
Overlay(c, at, data) ==
    [i \in 1..Greater(Len(c), at + Len(data)) |->
        IF i > at /\ i <= at + Len(data) THEN data[i - at]
        ELSE IF i <= Len(c) THEN c[i] ELSE 0]
FWrite(data, ok, k) ==
    IF ok THEN /\ k <= Len(data) /\ (Len(data) > 0 => k > 0)
               /\ fio' = [content |-> IF k = 0 THEN fio.content ELSE Overlay(fio.content, fio.pos, SubSeq(data, 1, k)),
                          pos |-> fio.pos + k]
    ELSE UNCHANGED fio
FWriteAll(data, ok) ==
    IF ok THEN fio' = [content |-> IF data = <<>> THEN fio.content ELSE Overlay(fio.content, fio.pos, data),
                       pos |-> fio.pos + Len(data)]
    ELSE UNCHANGED fio
(* after flush: the bytes found in the file *)
FContent(bytes) == bytes = fio.content /\ UNCHANGED fio

(* FiberFile::copy_to(dst) from the current position of the source: the rest of the source *)
CopyFromOk(src, pos, ok, n, dst) == ok => (n = Len(Slice(src, pos, Len(src))) /\ dst = Slice(src, pos, Len(src)))

(* self-contained calls (state predicates) *)
(* FiberAio::copy(src, dst) -> Ok(n) *)
CopyOk(src, ok, n, dst) == ok => (n = Len(src) /\ dst = src)
(* FiberAio::write_all(path, data) -> Ok: the file holds the data when the call has returned (now = *)
(* what a reader found at that moment); then FiberAio::read_to_vec(path) returns it               *)
RoundTripOk(data, wok, now, rok, got) ==
    /\ wok => now = data
    /\ (wok /\ rok) => got = data
(* VectoredIo::read_vectored into buffers of the given capacities: the filled parts, concatenated, *)
(* are the first `total` bytes of the source; it stops early only at the end of the source          *)
VReadOk(src, sizes, ok, total, got) ==
    ok => /\ Len(got) = Len(sizes)
          /\ \A i \in 1..Len(got) : Len(got[i]) <= sizes[i]
          /\ total = Len(Flat(got))
          /\ Flat(got) = SubSeq(src, 1, Lesser(total, Len(src))) /\ total <= Len(src)
(* VectoredIo::write_vectored(bufs) -> Ok(total): the destination holds the first total bytes *)
VWriteOk(bufs, ok, total, dst) ==
    ok => /\ total <= Len(Flat(bufs))
          /\ dst = SubSeq(Flat(bufs), 1, total)
(* parallel reads of one file: fiber i opened the file itself and read [off, off+n) to the end of  *)
(* the range (looping until n bytes or end of file)                                                 *)
ParReadOk(src, reqs, got) ==
    /\ Len(got) = Len(reqs)
    /\ \A i \in 1..Len(reqs) : got[i].ok => got[i].b = Slice(src, reqs[i][1], reqs[i][2])
(* FiberIoUtils::process_files_parallel(paths, ..): one result per path, in input order. *)
(* The processor returns the length of the file; the harness wrote file i with in[i] bytes. *)
InOrderOk(in, ok, out) == ok => out = in

(* ======================================================================= 5 *)
(* An async blob store shared by k tasks on a multi-thread runtime, judged at       *)
(* QUIESCENCE (after all tasks have joined) - only what was observed:               *)
(*   puts      every successful put / put_batch item of every task: [id, d]          *)
(*             (d = digest of the bytes the task supplied; payloads are unique)       *)
(*   removed   ids whose owner removed them successfully (only the owner of an id     *)
(*             it never showed to anybody removes it)                                  *)
(*   final     final[i] = answer [ok, d] of get(puts[i].id) at quiescence              *)
(*   contains  contains[i] = contains(puts[i].id) at quiescence                        *)
(*   reads     what the tasks read WHILE running: [ok, d, want] for get / get_batch    *)
(*             of an id the reader itself had put and not removed (want = its bytes)   *)
(*   gb        get_batch over the ids not removed, in the order of puts: [ok, items]   *)
(*             with items[j] = [id, d]                                                *)
(*   len       len() at quiescence                                                     *)
(* One distinct id per accepted record (put and put_batch alike: one result per       *)
(* input), every accepted record readable with its own bytes, nothing else counted.    *)
AsQ(puts, ids, gone, final, contains, reads, gb, len) ==
    /\ Cardinality(ids) = Len(puts)                           \* no id handed out twice
    /\ gone \subseteq ids
    /\ Len(final) = Len(puts) /\ Len(contains) = Len(puts)
    /\ \A i \in 1..Len(puts) :
          IF puts[i].id \in gone THEN ~final[i].ok /\ ~contains[i]
          ELSE final[i].ok /\ final[i].d = puts[i].d /\ contains[i]
    /\ \A j \in 1..Len(reads) : reads[j].ok /\ reads[j].d = reads[j].want
    /\ gb.ok /\ gb.items = SelectSeq(puts, LAMBDA p : p.id \notin gone)      \* [id, d] in the order asked
    /\ len = Len(puts) - Cardinality(gone)
(* the same for the large "duel" rounds (batchers storing thousands of records back to back     *)
(* against tasks storing single records; nothing removed), logged compactly: a record is the      *)
(* 4-byte payload read as an integer v (unique per round; -1 = not these 4 bytes / not found):    *)
(* ids[i], vs[i] = id and value of accepted record i, fv[i] = what get(ids[i]) holds at           *)
(* quiescence, gbv = get_batch(ids), rv / rw = value read / value expected while running          *)
AsQuiesceCompact(ids, vs, fv, gbok, gbv, rv, rw, len) ==
    /\ Len(vs) = Len(ids) /\ Len(fv) = Len(ids)
    /\ Cardinality(Rng(ids)) = Len(ids)                       \* no id handed out twice
    /\ fv = vs                                               \* every accepted record holds its own bytes
    /\ gbok /\ gbv = vs
    /\ rv = rw
    /\ len = Len(ids)

AsQuiesce(puts, removed, final, contains, reads, gb, len) ==
    AsQ(puts, { puts[i].id : i \in 1..Len(puts) }, Rng(removed), final, contains, reads, gb, len)
=============================================================================
