-------------------------- MODULE Trace_BlobStore --------------------------
(* Trace specification for property C03: replays a recorded execution of a real   *)
(* zipora blob store through the actions of BlobStore.tla, one event = one action. *)
(* Events are fully logged (operation, arguments, result), so every step is        *)
(* deterministic.  Payloads appear as digests [len, h]; ids as integers.           *)
EXTENDS BlobStore, TraceIO, Known_BlobStore

VARIABLES l, subj, kf

vars == <<live, issued, keyof, bykey, lastd, l, subj, kf>>

TraceInit == BSInit /\ lastd = Empty /\ l = 1 /\ subj = [subject |-> "none"] /\ kf = {}

Step(e) ==
    \/ e.op = "put"        /\ e.ok  /\ Put(e.d, e.id)
    \/ e.op = "put"        /\ ~e.ok /\ PutRefused(e.d)
    \/ e.op = "put_batch"  /\ e.ok  /\ PutBatch(e.ds, e.ids)
    \/ e.op = "put_batch"  /\ ~e.ok /\ PutBatchRefused(e.ds)
    \/ e.op = "get"        /\ Get(e.id, e.ok, e.d)
    \/ e.op = "remove"     /\ e.ok  /\ Remove(e.id)
    \/ e.op = "remove"     /\ ~e.ok /\ RemoveRefused(e.id)
    \/ e.op = "remove_batch" /\ e.ok  /\ RemoveBatch(e.ids, e.n)
    \/ e.op = "remove_batch" /\ ~e.ok /\ RemoveBatchRefused(e.ids)
    \/ e.op = "get_batch"  /\ GetBatch(e.ids, e.ok, e.r)
    \/ e.op = "iter_ids"   /\ IterIds(e.r)
    \/ e.op = "contains"   /\ Contains(e.id, e.r)
    \/ e.op = "size"       /\ Size(e.id, e.ok, e.r)
    \/ e.op = "len"        /\ Len_(e.r)
    \/ e.op = "clear"      /\ e.ok  /\ Clear
    \/ e.op = "clear"      /\ ~e.ok /\ Same
    \/ e.op = "maintenance" /\ Maintenance
    \/ e.op = "iter_blobs" /\ IterBlobs(e.ok, e.r)
    \/ e.op = "build_at"   /\ e.ok  /\ BuildAt(e.ids, e.ds) /\ e.len_after = Len(e.ds)
    \/ e.op = "build_at"   /\ ~e.ok /\ BuildRefused(e.ds)
    \/ e.op = "build_keyed" /\ e.ok  /\ BuildKeyed(e.ks, e.ds) /\ e.len_after = Len(e.ds)
    \/ e.op = "build_keyed" /\ ~e.ok /\ BuildRefused(e.ds)
    \/ e.op = "mixed_shape" /\ MixedShape(e.f, e.nf, e.nv, e.ids, e.isf)
    \/ e.op = "put_batch_keys" /\ e.ok  /\ PutBatchWithKeys(e.ks, e.ds, e.ids)
    \/ e.op = "put_batch_keys" /\ ~e.ok /\ PutBatchRefused(e.ds)
    \/ e.op = "keys"       /\ ListKeys(e.p, e.ok, e.r)
    \/ e.op = "build"      /\ e.ok  /\ BuildFrom(e.ds) /\ e.len_after = Len(e.ds)
    \/ e.op = "build"      /\ ~e.ok /\ BuildRefused(e.ds)
    \/ e.op = "saveload"   /\ SaveLoad
    \/ e.op = "probe"      /\ Probe(e.ids, e.get, e.contains, e.size, e.len)
    \/ e.op = "put_key"    /\ e.ok  /\ PutWithKey(e.k, e.d, e.id)
    \/ e.op = "put_key"    /\ ~e.ok /\ PutRefused(e.d)
    \/ e.op = "get_key"    /\ GetByKey(e.k, e.ok, e.d)
    \/ e.op = "contains_key" /\ ContainsKey(e.k, e.r)
    \/ e.op = "get_prefix" /\ GetByPrefix(e.p, e.ok, e.r)

TraceNext ==
    /\ l <= Len(Rec)
    /\ l' = l + 1
    /\ LET e == Rec[l] IN
       IF e.op = "reset"
       THEN /\ live' = Empty /\ issued' = {} /\ keyof' = Empty /\ bykey' = Empty
            /\ lastd' = Empty /\ subj' = e /\ kf' = kf
       ELSE /\ subj' = subj
            /\ LastdNext(e)
            /\ IF UseKF /\ \E id \in KnownIds : DevApplies(id, e, subj)
               THEN \E id \in KnownIds : KnownDeviation(id, e, subj) /\ kf' = kf \cup {id}
               ELSE Step(e) /\ kf' = kf

TraceSpec == TraceInit /\ [][TraceNext]_vars

(* reported only on a path that consumed the whole trace *)
Done == l = Len(Rec) + 1 => PrintT(<<"KFSET", kf>>)
=============================================================================
