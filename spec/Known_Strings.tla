--------------------------- MODULE Known_Strings ---------------------------
(* Named deviation actions for the recorded known findings of property C20           *)
(* (see /verif/known_findings.json).  A deviation is enabled only for the listed      *)
(* subject and only under its semantic trigger, and it states WHAT the subject is      *)
(* recorded to do instead of the contract: every entry of a batch that the trigger      *)
(* does not cover must still equal the definition.  The trace specification records     *)
(* the ids taken on an accepted path in the variable kf.                                *)
EXTENDS LexIter, TLC

Num == INSTANCE NumericCmp

KnownIds == {"C20-KF1"}

(* guards and batch predicates are evaluated as plain boolean expressions (IF conditions): as   *)
(* action conjuncts TLC would branch on every witness of their existential quantifiers          *)
Pure_(P) == IF P THEN UNCHANGED livars ELSE FALSE

(* ------------------------------------------------------------------------------------------ *)
(* C20-KF1: sse42_strcmp ("Performs lexicographic comparison") answers by LENGTH first: a       *)
(* shorter slice is Less than a longer one whatever the bytes ("b" < "aa").  Equal lengths       *)
(* compare correctly.                                                                            *)
ShortLex(x, y) == IF Len(x) # Len(y) THEN Sgn(Len(x) - Len(y)) ELSE Cmp(x, y)
G1(e, subj) == /\ subj.subject = "simd:sse42_strcmp" /\ e.op = "cmp_matrix"
               /\ \E i \in 1..Len(e.a) : \E j \in 1..Len(e.b) : ShortLex(e.a[i], e.b[j]) # Cmp(e.a[i], e.b[j])
KF1(e, subj) == Pure_(/\ G1(e, subj)
                      /\ IsMatrix(e.a, e.b, e.m)
                      /\ \A i \in 1..Len(e.a) : \A j \in 1..Len(e.b) : e.m[i][j] = ShortLex(e.a[i], e.b[j]))

(* ------------------------------------------------------------------------------------------ *)
(* the midpoint binary search used by SortedVecLexIterator::seek_lower_bound and                 *)
(* ZoSortedStrVec::binary_search: returns the element it HITS when some element equals t (any     *)
(* of a run of duplicates), else the insertion point.  idx is 0-based.                            *)
RECURSIVE BSearch(_, _, _, _)
BSearch(v, t, left, right) ==
    IF left >= right THEN [found |-> FALSE, idx |-> left]
    ELSE LET mid == left + ((right - left) \div 2)
             c == Cmp(v[mid + 1], t)
         IN IF c < 0 THEN BSearch(v, t, mid + 1, right)
            ELSE IF c > 0 THEN BSearch(v, t, left, mid)
            ELSE [found |-> TRUE, idx |-> mid]
BS(v, t) == BSearch(v, t, 0, Len(v))

SortedVecSubjects == {"lexiter:sortedvec", "lexiter:builder_sortedvec"}

(* C20-KF2: with duplicates of the target in the sequence, seek_lower_bound positions the cursor  *)
(* on the duplicate the binary search happens to hit instead of the FIRST element >= target (the    *)
(* earlier copies are skipped by a forward scan), and seek_upper_bound = that position + 1 may      *)
(* still be on a copy of the target instead of the first element > target.                          *)
G2(e, subj) == /\ subj.subject \in SortedVecSubjects /\ e.op \in {"li_lower", "li_upper"} /\ e.ok
               /\ BS(S, e.t).found
               /\ IF e.op = "li_lower" THEN BS(S, e.t).idx + 1 # LowerBound(e.t)
                                       ELSE BS(S, e.t).idx + 2 # UpperBound(e.t)
KF2(e, subj) == IF G2(e, subj) /\ e.r = (e.op = "li_lower")
                THEN pos' = (IF e.op = "li_lower" THEN BS(S, e.t).idx + 1 ELSE BS(S, e.t).idx + 2) /\ S' = S
                ELSE FALSE

(* the same finding seen through utils::count_with_prefix, which seeks the lower bound of the       *)
(* prefix and counts forward: copies of the prefix string itself that lie before the hit are missed  *)
RECURSIVE RunFrom(_, _, _)
RunFrom(v, p, k) == IF k > Len(v) \/ ~StartsWith(v[k], p) THEN 0 ELSE 1 + RunFrom(v, p, k + 1)
ImplPrefixCount(v, p) == RunFrom(v, p, BS(v, p).idx + 1)
G2u(e, subj) == /\ subj.subject = "lexutils:sortedvec" /\ e.op = "li_utils"
                /\ \E i \in 1..Len(e.counts) : /\ e.counts[i].ok /\ BS(e.S, e.counts[i].p).found
                                                /\ ImplPrefixCount(e.S, e.counts[i].p) # PrefixCount(e.S, e.counts[i].p)
KF2u(e, subj) ==
    Pure_(/\ G2u(e, subj)
          /\ LexSorted(e.S)
          /\ ~e.collect.ok \/ e.collect.r = e.S
          /\ ~e.lcp.ok \/ e.lcp.r = CommonPrefixOfAll(e.S)
          /\ \A i \in 1..Len(e.counts) : ~e.counts[i].ok \/ e.counts[i].n = ImplPrefixCount(e.S, e.counts[i].p))

(* C20-KF3: prev() at the end position (current() = None) does not step back to the last element:  *)
(* it jumps to the FIRST element and answers false.                                                 *)
G3(e, subj) == /\ subj.subject \in SortedVecSubjects /\ e.op = "li_prev" /\ e.ok
               /\ pos = End /\ Len(S) > 0 /\ e.r = FALSE
KF3(e, subj) == IF G3(e, subj) THEN pos' = 1 /\ S' = S ELSE FALSE

(* C20-KF4: StreamingLexIterator::current() answers None while the cursor is on an EMPTY string     *)
(* (it tests current_line.is_empty()), so empty elements are invisible / look like the end.         *)
G4(e, subj) == /\ subj.subject = "lexiter:streaming" /\ e.op = "li_current"
               /\ pos \in 1..Len(S) /\ S[pos] = <<>> /\ e.r = <<>>
KF4(e, subj) == Pure_(G4(e, subj))

(* ------------------------------------------------------------------------------------------ *)
(* C20-KF5: decimal_strcmp / decimal_strcmp_with_sign decide by the sign flag before looking at    *)
(* the magnitude: a negative zero is Less than a non-negative zero ("-0" < "0", "-00" < "+0").      *)
NegZeroCell(xb, xneg, yb, yneg) == Num!IsZeroBody(xb) /\ Num!IsZeroBody(yb) /\ xneg # yneg
D5(x, y, r) ==
    IF Num!ValidDecimal(x) /\ Num!ValidDecimal(y) /\ NegZeroCell(Num!Body(x), Num!Negative(x), Num!Body(y), Num!Negative(y))
    THEN r = (IF Num!Negative(x) THEN -1 ELSE 1)
    ELSE Num!DecimalAnswerOK(x, y, r)
D5s(x, y, r) ==
    IF NegZeroCell(x.b, x.neg, y.b, y.neg) THEN r = (IF x.neg THEN -1 ELSE 1)
    ELSE r = Num!SignedCmp(x.b, x.neg, y.b, y.neg)
G5(e, subj) ==
    \/ /\ subj.subject = "numcmp:decimal_strcmp" /\ e.op = "numcmp" /\ e.kind = "decimal"
       /\ \E i \in 1..Len(e.a) : \E j \in 1..Len(e.b) :
             /\ Num!ValidDecimal(e.a[i]) /\ Num!ValidDecimal(e.b[j])
             /\ NegZeroCell(Num!Body(e.a[i]), Num!Negative(e.a[i]), Num!Body(e.b[j]), Num!Negative(e.b[j]))
    \/ /\ subj.subject = "numcmp:decimal_with_sign" /\ e.op = "numcmp_sign" /\ e.kind = "decimal"
       /\ \E i \in 1..Len(e.a) : \E j \in 1..Len(e.b) : NegZeroCell(e.a[i].b, e.a[i].neg, e.b[j].b, e.b[j].neg)
KF5(e, subj) ==
    Pure_(/\ G5(e, subj)
          /\ Num!IsMatrix(e.a, e.b, e.m)
          /\ \A i \in 1..Len(e.a) : \A j \in 1..Len(e.b) :
                   IF e.op = "numcmp" THEN D5(e.a[i], e.b[j], e.m[i][j]) ELSE D5s(e.a[i], e.b[j], e.m[i][j]))

(* C20-KF6: realnum_strcmp / realnum_strcmp_with_sign compare the TEXT: after the sign check, the   *)
(* position of the decimal point (= number of integer digits, leading zeros included) decides, and    *)
(* when it is equal the two bodies are compared as strings.  Right for canonical forms; wrong as      *)
(* soon as an operand has a leading zero or an empty integer part, a trailing fraction zero or a       *)
(* trailing ".", or is a negative zero ("1" < "1.0", "01" > "2", ".5" < "0.5", "-0" < "0").            *)
PointIndex(b) == IF Num!DotCount(b) = 0 THEN Len(b) ELSE Num!DotPos(b) - 1
ImplReal(xb, xneg, yb, yneg) ==
    IF xneg /\ ~yneg THEN -1
    ELSE IF ~xneg /\ yneg THEN 1
    ELSE LET c == IF PointIndex(xb) = PointIndex(yb) THEN Cmp(xb, yb) ELSE Sgn(PointIndex(xb) - PointIndex(yb))
         IN IF xneg THEN -c ELSE c
CanonicalBody(b, neg) ==
    LET ip == Num!IntPart(b)  fp == Num!FracPart(b) IN
    /\ Len(ip) >= 1 /\ (Len(ip) = 1 \/ ip[1] # Num!Zero)
    /\ Num!DotCount(b) = 1 => (Len(fp) >= 1 /\ fp[Len(fp)] # Num!Zero)
    /\ ~(neg /\ Num!IsZeroBody(b))
D6(xb, xneg, yb, yneg, r) ==
    IF CanonicalBody(xb, xneg) /\ CanonicalBody(yb, yneg) THEN r = Num!SignedCmp(xb, xneg, yb, yneg)
    ELSE r = ImplReal(xb, xneg, yb, yneg)
D6str(x, y, r) ==
    IF Num!ValidReal(x) /\ Num!ValidReal(y) THEN D6(Num!Body(x), Num!Negative(x), Num!Body(y), Num!Negative(y), r)
    ELSE Num!RealAnswerOK(x, y, r)
G6(e, subj) ==
    \/ /\ subj.subject = "numcmp:realnum_strcmp" /\ e.op = "numcmp" /\ e.kind = "real"
       /\ \E i \in 1..Len(e.a) : \E j \in 1..Len(e.b) :
             /\ Num!ValidReal(e.a[i]) /\ Num!ValidReal(e.b[j])
             /\ ImplReal(Num!Body(e.a[i]), Num!Negative(e.a[i]), Num!Body(e.b[j]), Num!Negative(e.b[j])) # Num!ValueCmp(e.a[i], e.b[j])
    \/ /\ subj.subject = "numcmp:realnum_with_sign" /\ e.op = "numcmp_sign" /\ e.kind = "real"
       /\ \E i \in 1..Len(e.a) : \E j \in 1..Len(e.b) :
             ImplReal(e.a[i].b, e.a[i].neg, e.b[j].b, e.b[j].neg) # Num!SignedCmp(e.a[i].b, e.a[i].neg, e.b[j].b, e.b[j].neg)
KF6(e, subj) ==
    Pure_(/\ G6(e, subj)
          /\ Num!IsMatrix(e.a, e.b, e.m)
          /\ \A i \in 1..Len(e.a) : \A j \in 1..Len(e.b) :
                   IF e.op = "numcmp" THEN D6str(e.a[i], e.b[j], e.m[i][j])
                   ELSE D6(e.a[i].b, e.a[i].neg, e.b[j].b, e.b[j].neg, e.m[i][j]))

(* ------------------------------------------------------------------------------------------ *)
(* C20-KF7: ZoSortedStrVec::range(lo, hi) takes both ends from binary_search (any copy of an equal   *)
(* element): with duplicates of lo the earlier copies are skipped, with duplicates of hi copies of     *)
(* hi are delivered although the end is exclusive.                                                     *)
ImplRange(v, lo, hi) == SubSeq(v, BS(v, lo).idx + 1, MinI(BS(v, hi).idx, Len(v)))
G7(e, subj) == /\ subj.subject = "sorted:zo_range" /\ e.op = "zo_range"
               /\ \E i \in 1..Len(e.cases) : ImplRange(e.S, e.cases[i].lo, e.cases[i].hi) # SelectRange(e.S, e.cases[i].lo, e.cases[i].hi, 1)
KF7(e, subj) == Pure_(/\ G7(e, subj)
                      /\ \A i \in 1..Len(e.cases) : ~e.cases[i].ok \/ e.cases[i].r = ImplRange(e.S, e.cases[i].lo, e.cases[i].hi))

(* ------------------------------------------------------------------------------------------ *)
(* C20-KF8: LineProcessor::count_lines with skip_empty_lines tests line.trim().is_empty() even when  *)
(* trim_whitespace is off: lines made of white space only are not counted although process_lines       *)
(* delivers them (and, with preserve_line_endings, an empty line "\n" is delivered but not counted).   *)
NonBlank(ln) == \E i \in 1..Len(ln) : ~IsSpace(ln[i])
CountNonBlank(t) == Cardinality({ i \in 1..Len(RawLines(t)) : NonBlank(RawLines(t)[i]) })
L8(text, x) ==
    IF x.ok /\ x.via = "count_lines" /\ x.s /\ ~x.t THEN x.n = CountNonBlank(text) ELSE LinesCaseOK(text, x)
G8(e, subj) == /\ subj.subject = "lines:line_processor" /\ e.op = "lines"
               /\ \E i \in 1..Len(e.res) :
                     LET x == e.res[i] IN
                     x.ok /\ x.via = "count_lines" /\ x.s /\ ~x.t /\ CountNonBlank(e.text) # Len(Lines(e.text, x.p, x.s, x.t))
KF8(e, subj) == Pure_(G8(e, subj) /\ \A i \in 1..Len(e.res) : L8(e.text, e.res[i]))

(* C20-KF9: LineSplitter with the optimized strategy, delimiter "," TAB or SPACE, drops a trailing     *)
(* EMPTY field ("a," gives ["a"], "" gives []), unlike the simple strategy and unlike every other         *)
(* delimiter.                                                                                            *)
OptDelims == { <<44>>, <<9>>, <<32>> }
DropLastEmpty(f) == IF Len(f) > 0 /\ f[Len(f)] = <<>> THEN SubSeq(f, 1, Len(f) - 1) ELSE f
S9(c) == IF c.ok /\ c.d \in OptDelims THEN c.r = DropLastEmpty(Split(c.line, c.d)) ELSE SplitCaseOK(c)
G9(e, subj) == /\ subj.subject = "split:optimized" /\ e.op = "split"
               /\ \E i \in 1..Len(e.cases) : LET c == e.cases[i] IN
                     c.ok /\ c.d \in OptDelims /\ DropLastEmpty(Split(c.line, c.d)) # Split(c.line, c.d)
KF9(e, subj) == Pure_(G9(e, subj) /\ \A i \in 1..Len(e.cases) : S9(e.cases[i]))

(* ------------------------------------------------------------------------------------------ *)
(* guard (state predicate) and action of each deviation.  In KF mode a deviation whose guard    *)
(* holds REPLACES the contract action for that event.                                            *)
DevApplies(id, e, subj) ==
    \/ id = "C20-KF1" /\ G1(e, subj)
    \/ id = "C20-KF2" /\ (G2(e, subj) \/ G2u(e, subj))
    \/ id = "C20-KF3" /\ G3(e, subj)
    \/ id = "C20-KF4" /\ G4(e, subj)
    \/ id = "C20-KF5" /\ G5(e, subj)
    \/ id = "C20-KF6" /\ G6(e, subj)
    \/ id = "C20-KF7" /\ G7(e, subj)
    \/ id = "C20-KF8" /\ G8(e, subj)
    \/ id = "C20-KF9" /\ G9(e, subj)
KnownDeviation(id, e, subj) ==
    \/ id = "C20-KF1" /\ KF1(e, subj)
    \/ id = "C20-KF2" /\ (IF e.op = "li_utils" THEN KF2u(e, subj) ELSE KF2(e, subj))
    \/ id = "C20-KF3" /\ KF3(e, subj)
    \/ id = "C20-KF4" /\ KF4(e, subj)
    \/ id = "C20-KF5" /\ KF5(e, subj)
    \/ id = "C20-KF6" /\ KF6(e, subj)
    \/ id = "C20-KF7" /\ KF7(e, subj)
    \/ id = "C20-KF8" /\ KF8(e, subj)
    \/ id = "C20-KF9" /\ KF9(e, subj)
=============================================================================
