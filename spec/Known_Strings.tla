--------------------------- MODULE Known_Strings ---------------------------
(* Named deviation actions for the recorded known findings of property C20           *)
(* (see /verif/known_findings.json).  Filled in below.                               *)
EXTENDS LexIter, TLC

Num == INSTANCE NumericCmp

KnownIds == {}
DevApplies(id, e, subj) == FALSE
KnownDeviation(id, e, subj) == FALSE
=============================================================================
