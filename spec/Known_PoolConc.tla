--------------------------- MODULE Known_PoolConc ---------------------------
(* Named deviation actions for the recorded known findings of property C08.      *)
EXTENDS PoolOwnership, TLC
KnownIds == {}
DevApplies(id, e, subj) == FALSE
KnownDeviation(id, e, subj) == FALSE /\ UNCHANGED <<owner, seen, nodes>>
=============================================================================
