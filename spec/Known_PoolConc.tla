--------------------------- MODULE Known_PoolConc ---------------------------
(* Named deviation actions for the recorded known findings of property C08.      *)
EXTENDS PoolOwnership, TLC

VARIABLE shared   \* KF1 only: <<offset, thread>> pairs - further threads holding an offset that another thread owns

KnownIds == {"C08-KF1", "C08-KF4"}

(* C08-KF1 (the C07-KF11 defect seen by concurrent users): the five-level ThreadLocalPool hands out  *)
(* offsets relative to the arena of the CALLING thread in the one MemOffset space of the pool, so   *)
(* two threads hold the same MemOffset at the same time.  Guard: subject family tl5 only; an        *)
(* allocation whose offset range shares bytes only with blocks of DIFFERENT threads, or              *)
(* the free of such an extra holding by the thread that got it.  A second holding by the same       *)
(* thread, a free by a thread that holds nothing, counters and the drain stay under the contract.   *)
G1(e, subj) ==
    /\ subj.fam = "tl5"
    /\ \/ /\ e.op = "alloc" /\ e.ok
          /\ Conflicts(<<e.pos[1], e.pos[2], e.len>>) /= {}
          /\ \A x \in Conflicts(<<e.pos[1], e.pos[2], e.len>>) : owner[x] /= e.t
          /\ <<e.addr, e.t>> \notin shared
       \/ /\ e.op = "free_start" /\ <<e.addr, e.t>> \in shared
          /\ ~(e.addr \in DOMAIN owner /\ owner[e.addr] = e.t)
KF1(e, subj) ==
    IF e.op = "alloc"
    THEN /\ shared' = shared \cup {<<e.addr, e.t>>}
         /\ cnt' = [cnt EXCEPT !.na = @ + 1]
         /\ UNCHANGED <<owner, seen, nodes, big, ext>>
    ELSE /\ shared' = shared \ {<<e.addr, e.t>>}
         /\ cnt' = [cnt EXCEPT !.nf = @ + 1]
         /\ UNCHANGED <<owner, seen, nodes, big, ext>>


Without(c, f) == [x \in DOMAIN c \ {f} |-> c[x]]

(* C08-KF2: FixedCapacityMemoryPool::deallocate pushes the block on its free list BEFORE it       *)
(* decrements active_blocks; an allocate of another thread pops that block and increments first,  *)
(* so active_blocks (and with it peak_blocks) transiently counts one block twice: a pool of cap    *)
(* blocks reports a peak above cap.  Guard: family fcp, the counters event, peak above the         *)
(* capacity by at most one per other thread; every other counter stays under the contract.         *)
G2(e, subj) ==
    /\ subj.fam = "fcp" /\ e.op = "counters"
    /\ "peak" \in DOMAIN e.c /\ "cap" \in DOMAIN subj /\ "threads" \in DOMAIN subj
    /\ subj.cap > 0 /\ e.c.peak > subj.cap /\ e.c.peak < subj.cap + subj.threads
KF2(e, subj) == Counters(Without(e.c, "peak"), subj.cap)

(* C08-KF3: MemoryPool keeps `allocated` under a RwLock that it only try_write()s: under          *)
(* contention the update is skipped, so after all threads have finished allocated differs from    *)
(* chunk size * (cached + owned chunks).  Guard: family basic, the counters event, exactly that    *)
(* relation broken; every other counter stays under the contract.                                  *)
G3(e, subj) ==
    /\ subj.fam = "basic" /\ e.op = "counters"
    /\ {"allocated", "csz", "chunks"} \subseteq DOMAIN e.c
    /\ e.c.allocated /= e.c.csz * (e.c.chunks + Cardinality(DOMAIN owner))
KF3(e, subj) == Counters(Without(e.c, "allocated"), 0)

(* C08-KF4: LockFreeMemoryPool (sizes above the 8 KiB fast-bin threshold: skip list) and the      *)
(* five-level LockFreePool / MutexBasedPool (sizes above max_fast_block_size: huge list) only      *)
(* count a freed block of such a size; it is never handed out again (the lists are not            *)
(* implemented): the block is lost until the pool is dropped.  Guard: the run states the pool's    *)
(* threshold (fastmax), the drain of a recycling pool, something is missing and everything         *)
(* missing was handed out above the threshold.  Blocks at or below it stay under the contract.     *)
G4(e, subj) ==
    /\ "fastmax" \in DOMAIN subj /\ subj.fam \in {"lfp", "fl5", "mx5"}
    /\ e.op = "drain" /\ e.recycles
    /\ seen \ { e.drained[i] : i \in 1..Len(e.drained) } /= {}
    /\ seen \ { e.drained[i] : i \in 1..Len(e.drained) } \subseteq big
KF4(e, subj) == shared = {} /\ DrainOf(seen \ big, e.drained, e.recycles, 0)

DevApplies(id, e, subj) ==
    \/ id = "C08-KF4" /\ G4(e, subj)
    \/ id = "C08-KF1" /\ G1(e, subj)
    \/ id = "C08-KF2" /\ G2(e, subj)
    \/ id = "C08-KF3" /\ G3(e, subj)
KnownDeviation(id, e, subj) ==
    \/ id = "C08-KF4" /\ G4(e, subj) /\ KF4(e, subj) /\ shared' = shared
    \/ id = "C08-KF1" /\ G1(e, subj) /\ KF1(e, subj)
    \/ id = "C08-KF2" /\ G2(e, subj) /\ KF2(e, subj) /\ shared' = shared
    \/ id = "C08-KF3" /\ G3(e, subj) /\ KF3(e, subj) /\ shared' = shared
=============================================================================
