SPECIFICATION Spec
CONSTANTS
  NK = 7
  L = 4
CONSTRAINT Bound
INVARIANT Emit TableAgrees
CHECK_DEADLOCK FALSE
