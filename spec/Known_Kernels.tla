--------------------------- MODULE Known_Kernels ---------------------------
(* Named deviation actions for the recorded known findings of property C14       *)
(* (see /verif/known_findings.json).  Filled in below.                           *)
EXTENDS Kernels

KnownIds == {}
DevApplies(id, e, subj) == FALSE
KnownDeviation(id, e, subj) == FALSE
=============================================================================
