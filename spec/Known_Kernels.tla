--------------------------- MODULE Known_Kernels ---------------------------
(* Named deviation actions for the recorded known findings of property C14       *)
(* (see /verif/known_findings.json).  A deviation is enabled only for the listed *)
(* subjects and only under its semantic trigger, and it describes the WRONG      *)
(* answer exactly (what the faulty code computes), so that any other wrong       *)
(* answer of the same subject is still rejected.  The contract is stateless: a   *)
(* deviation is a predicate on the event.                                        *)
EXTENDS Kernels

KnownIds == {"C14-KF3", "C14-KF6"}

(* C14-KF1: io::simd_memory::search::sse42_strstr_short loads 16 bytes at every offset     *)
(* although fewer than 16 bytes of the haystack remain: with the haystack ending at a page   *)
(* end in front of an unmapped page the process dies with SIGSEGV (needles shorter than 16). *)
StrstrSubjects == {"iosearch:find_pattern", "iosearch:sse42_strstr",
                   "iosearch@default:find_pattern", "iosearch@sse42:find_pattern"}
G1(e, subj) == /\ subj.subject \in StrstrSubjects
               /\ e.op = "signal" /\ e.sig = 11 /\ e.in \in {"findsub_mut", "find_sub"}
               /\ e.desc.ps = "g"                 \* the haystack ended at the guard page
               /\ e.desc.nlen < 16 /\ e.desc.nlen >= 1
KF1(e, subj) == G1(e, subj)

(* C14-KF2: io::simd_memory::search::sse42_multi_search_impl truncates the character set to  *)
(* its first 16 members inside the 16-byte main loop (the tail uses the whole set): a member  *)
(* beyond the 16th is missed in every full chunk.                                            *)
MultiSubjects == {"iosearch:find_any_of", "iosearch:sse42_multi_search",
                  "iosearch@default:find_any_of", "iosearch@sse42:find_any_of"}
TruncatedFindAny(h, cs) ==
    LET full == (Len(h) \div 16) * 16
        i == FindAnyOf(SubSeq(h, 1, full), SubSeq(cs, 1, 16))
        j == FindAnyOf(SubSeq(h, full + 1, Len(h)), cs)
    IN  IF i # NotFound THEN i ELSE IF j = NotFound THEN NotFound ELSE full + j
G2(e, subj) == /\ subj.subject \in MultiSubjects
               /\ e.op \in {"findany_mut", "find_any"} /\ Len(e.cs) > 16
KF2(e, subj) ==
    /\ G2(e, subj)
    /\ IF e.op = "find_any" THEN e.r = OptOf(TruncatedFindAny(e.h, e.cs))
       ELSE /\ Len(e.r) = Len(e.h) + 1
            /\ \A p \in 1..Len(e.h) :
                  e.r[p] = TruncatedFindAny([e.h EXCEPT ![p] = e.cs[((p - 1) % Len(e.cs)) + 1]], e.cs)
            /\ e.r[Len(e.h) + 1] = TruncatedFindAny(e.h, e.cs)

(* C14-KF3: zipora::string::simd_search::sse42_strcmp orders strings of different lengths   *)
(* by LENGTH first (documented as a lexicographic comparison; the repository's own test       *)
(* test_strcmp_different_lengths pins "short" < "longer").                                    *)
G3(e, subj) == /\ subj.subject \in {"strsearch:sse42_strcmp", "strsearch@instance:sse42_strcmp"}
               /\ e.op = "compare" /\ Len(e.a) # Len(e.b)
KF3(e, subj) == G3(e, subj) /\ e.r = Sign(Len(e.a) - Len(e.b))

(* C14-KF4: hash_map::simd_string_ops::fast_string_hash absorbs the remainder behind the last *)
(* full 32-byte block byte by byte in its AVX2 path, the portable path in 8-byte words: the    *)
(* value of one string depends on the CPU tier for lengths >= 32 with a remainder >= 8.        *)
BlockHash(s, base, blk) ==
    LET full == (Len(s) \div blk) * blk
    IN  HashBytes(HashWords(base, SubSeq(s, 1, full), 1), s, full + 1)
G4(e, subj) == /\ subj.subject = "hashmap:fast_string_hash"
               /\ e.op = "strhash" /\ Len(e.s) >= 32 /\ Len(e.s) % 32 >= 8
KF4(e, subj) == G4(e, subj) /\ e.r = BlockHash(e.s, e.base, 32)

(* C14-KF5: entropy::bit_ops::zero_high_bits32/64 pass the index to BZHI, which reads only    *)
(* its low 8 bits: an index >= 256 keeps (index mod 256) bits instead of everything (the       *)
(* software path keeps everything for index >= width).                                         *)
G5(e, subj) == /\ subj.subject = "bitops@hw"
               /\ e.op = "bzhi" /\ e.n >= 256
KF5(e, subj) == G5(e, subj) /\ e.r = ZeroHighBits(e.x, e.w, e.n % 256)

(* fsa::fast_search::FastSearchEngine takes its rank-select strategy when forced, and by     *)
(* default (adaptive, rank_select_threshold = 36) for every buffer of 36 bytes or more.       *)
UsesRankSelect(e, subj) ==
    \/ subj.subject = "fastsearch@ranksel"
    \/ subj.subject = "fastsearch@default" /\ Len(e.h) >= 36
    \/ subj.subject = "fastsearch@performance" /\ Len(e.h) >= 64        \* preset: adaptive, threshold 64
(* C14-KF6: search_rank_select asks select1(i) for i = 1..count although select1 counts from  *)
(* 0: the first occurrence is dropped (the failing last query is ignored).                    *)
G6(e, subj) == UsesRankSelect(e, subj) /\ e.op = "positions" /\ Len(PositionsOf(e.h, e.c)) >= 1
KF6(e, subj) == G6(e, subj) /\ e.r = Tail(PositionsOf(e.h, e.c))

(* C14-KF7: the rank-select cache is validated by a hash of the data only, not by the target  *)
(* byte: the same buffer asked for another byte answers for the byte asked first (the         *)
(* histogram case clears the cache and then asks 0, 1, …, 255).                               *)
G7(e, subj) == UsesRankSelect(e, subj) /\ e.op = "histogram" /\ Len(e.h) >= 1
KF7(e, subj) == G7(e, subj) /\ e.r = [v \in 1..256 |-> CountByte(e.h, 0)]

(* C14-KF8: string::bmi2_string_ops::extract_utf8_chars_bmi2 / utf8_to_utf16_bmi2 (inputs of  *)
(* 8 bytes or more): decode_utf8_char_bmi2 looks only at the lead byte (no check of the        *)
(* continuation bytes, overlong forms, surrogates, U+10FFFF) and compares the ABSOLUTE         *)
(* position with the 4-byte window, so a multi-byte character is refused unless it starts at   *)
(* position <= 2 / 1 / 0; the last < 4 bytes go through the standard library.  The algorithm   *)
(* as written, i = 0-based position, result <<ok, code points>>:                               *)
BmiFail == <<FALSE, <<>>>>
BmiCons(cp, res) == IF res[1] THEN <<TRUE, <<cp>> \o res[2]>> ELSE res
RECURSIVE BmiDecodeFrom(_, _)
BmiDecodeFrom(s, i) ==
    IF i >= Len(s) THEN <<TRUE, <<>>>>
    ELSE IF i + 4 <= Len(s)
    THEN LET f == s[i + 1]
         IN  IF f <= 127 THEN BmiCons(f, BmiDecodeFrom(s, i + 1))
             ELSE IF f >= 192 /\ f <= 223
             THEN (IF i + 1 < 4
                   THEN BmiCons((f % 32) * 64 + (s[i + 2] % 64), BmiDecodeFrom(s, i + 2))
                   ELSE BmiFail)
             ELSE IF f >= 224 /\ f <= 239
             THEN (IF i + 2 < 4
                   THEN BmiCons((f % 16) * 4096 + (s[i + 2] % 64) * 64 + (s[i + 3] % 64), BmiDecodeFrom(s, i + 3))
                   ELSE BmiFail)
             ELSE IF f >= 240 /\ f <= 247
             THEN (IF i + 3 < 4
                   THEN BmiCons((f % 8) * 262144 + (s[i + 2] % 64) * 4096 + (s[i + 3] % 64) * 64 + (s[i + 4] % 64),
                                BmiDecodeFrom(s, i + 4))
                   ELSE BmiFail)
             ELSE BmiFail
    ELSE LET rem == SubSeq(s, i + 1, Len(s))
         IN  IF Utf8Valid(rem) THEN <<TRUE, Utf8Decode(rem)>> ELSE BmiFail
(* the number of code points the same algorithm delivers (-1: Err), without building them *)
RECURSIVE BmiCountFrom(_, _)
BmiCountFrom(s, i) ==
    IF i >= Len(s) THEN 0
    ELSE IF i + 4 <= Len(s)
    THEN LET f == s[i + 1]
             k == IF f <= 127 THEN 1
                  ELSE IF f >= 192 /\ f <= 223 /\ i + 1 < 4 THEN 2
                  ELSE IF f >= 224 /\ f <= 239 /\ i + 2 < 4 THEN 3
                  ELSE IF f >= 240 /\ f <= 247 /\ i + 3 < 4 THEN 4
                  ELSE 0
             r == BmiCountFrom(s, i + k)
         IN  IF k = 0 THEN -1 ELSE IF r < 0 THEN -1 ELSE r + 1
    ELSE LET rem == SubSeq(s, i + 1, Len(s))
         IN  IF Utf8Valid(rem) THEN Utf8CharCount(rem) ELSE -1
BmiCountOf(s) == BmiCountFrom(s, 0)
G8(e, subj) ==
    \/ /\ subj.subject = "bmi2:extract_utf8_chars_bmi2"
       /\ \/ e.op = "utf8_decode" /\ Len(e.s) >= 8
          \/ e.op = "utf8count_batch" /\ Len(e.frame) >= 8
    \/ subj.subject = "bmi2:utf8_to_utf16_bmi2" /\ e.op = "utf16" /\ Len(e.s) >= 8
KF8(e, subj) ==
    /\ G8(e, subj)
    /\ CASE e.op = "utf8_decode" ->
              LET d == BmiDecodeFrom(e.s, 0) IN e.ok = d[1] /\ e.r = d[2]
         [] e.op = "utf16" ->
              LET d == BmiDecodeFrom(e.s, 0) IN e.ok = d[1] /\ e.r = Utf16Enc(d[2])
         [] e.op = "utf8count_batch" ->
              LET cnt == Pow(Len(e.alpha), e.k)
              IN  /\ Len(e.r) = cnt
                  /\ \A idx \in 0..(cnt - 1) :
                        e.r[idx + 1] = BmiCountOf(Embed(e.frame, e.off, NthString(e.alpha, e.k, idx)))

(* C14-KF9: string::bmi2_string_ops::wildcard_match_bmi2_impl (text of 8+ bytes, pattern of 4+): *)
(* it stops when the pattern is used up without looking at the rest of the text, a `*` jumps to  *)
(* the FIRST occurrence of the byte behind it and never retries, and that byte is compared       *)
(* literally even when it is `?`.  The algorithm as written (ti, pi 0-based):                    *)
RECURSIVE SkipStars(_, _)
SkipStars(p, pi) == IF pi < Len(p) /\ p[pi + 1] = 42 THEN SkipStars(p, pi + 1) ELSE pi
RECURSIVE SeekByte(_, _, _)
SeekByte(t, c, ti) == IF ti >= Len(t) \/ t[ti + 1] = c THEN ti ELSE SeekByte(t, c, ti + 1)
RECURSIVE GreedyWild(_, _, _, _)
GreedyWild(t, p, ti, pi) ==
    IF pi < Len(p) /\ ti < Len(t)
    THEN IF p[pi + 1] = 42
         THEN LET q == SkipStars(p, pi)
              IN  IF q = Len(p) THEN TRUE ELSE GreedyWild(t, p, SeekByte(t, p[q + 1], ti), q)
         ELSE IF p[pi + 1] = 63 THEN GreedyWild(t, p, ti + 1, pi + 1)
         ELSE IF t[ti + 1] # p[pi + 1] THEN FALSE ELSE GreedyWild(t, p, ti + 1, pi + 1)
    ELSE SkipStars(p, pi) = Len(p)
G9(e, subj) == /\ subj.subject \in {"bmi2text", "bmi2text@global"}
               /\ e.op = "wildcard" /\ Len(e.t) >= 8 /\ Len(e.p) >= 4
KF9(e, subj) == G9(e, subj) /\ e.r = GreedyWild(e.t, e.p, 0, 0)

(* C14-KF10: string::bmi2_string_ops::hash_string_bmi2_impl (strings of 8+ bytes; hash_bulk_bmi2  *)
(* for every element): a full 8-byte chunk is absorbed as ONE little-endian word and followed by   *)
(* h <- h xor bits 13..31 of h; the portable path absorbs byte by byte.                            *)
BextrMix(h) ==          \* limbs most significant first; v = bits 13..31 = 19 bits
    LET v == h[3] * 8 + (h[4] \div 8192)
    IN  <<h[1], h[2], h[3] ^^ (v \div 65536), h[4] ^^ (v % 65536)>>
RECURSIVE Bmi2HashFrom(_, _, _)
Bmi2HashFrom(h, s, i) ==
    IF i + 7 > Len(s) THEN HashBytes(h, s, i)
    ELSE Bmi2HashFrom(BextrMix(Add64(Rotl5(h), LeWord(s, i))), s, i + 8)
Bmi2Hash(s, base) == Bmi2HashFrom(base, s, 1)
G10(e, subj) ==
    /\ subj.subject \in {"bmi2text", "bmi2text@global"}
    /\ \/ e.op = "bytehash" /\ Len(e.s) >= 8
       \/ e.op = "bytehash_bulk" /\ \E k \in 1..Len(e.ss) : Len(e.ss[k]) >= 8
KF10(e, subj) ==
    /\ G10(e, subj)
    /\ IF e.op = "bytehash" THEN e.r = Bmi2Hash(e.s, e.base)
       ELSE e.r = [k \in 1..Len(e.ss) |-> Bmi2Hash(e.ss[k], e.base)]

(* C14-KF11: entropy::bit_ops::BitOps::parallel_bit_extract_bmi2 indexes field_masks[0] on its *)
(* BMI2 route: an empty mask list panics there (the software route answers the empty list).     *)
G11(e, subj) == /\ subj.subject = "bitfields@hw:empty_masks"
                /\ e.op = "panic" /\ e.in = "pext_list"
                /\ e.msg = "index out of bounds: the len is 0 but the index is 0"
KF11(e, subj) == G11(e, subj)

(* C14-KF12: the software route of CompressionBmi2Dispatcher::dispatch_variable_length_decode   *)
(* sets `1u32 << bit_idx` for the bit_idx-th mask bit: for a mask with more than 32 bits the      *)
(* shift count wraps modulo 32 (release build) and bits 32..63 of the extract land on bits 0..31. *)
WrapPext32(x, m) ==
    LET pb == ToBits(Pext(x, m, 64), 64)
    IN  FromBits([i \in 1..32 |-> IF pb[i] = 1 \/ pb[i + 32] = 1 THEN 1 ELSE 0])
G12(e, subj) == /\ subj.subject = "bitdispatch@sw"
                /\ e.op = "pext_list" /\ e.w32 /\ e.add = <<0, 0, 0, 0>>
                /\ \E k \in 1..Len(e.ms) : PopCount(e.ms[k], 64) > 32
KF12(e, subj) ==
    /\ G12(e, subj) /\ Len(e.r) = Len(e.ms)
    /\ \A k \in 1..Len(e.ms) : e.r[k] = WrapPext32(e.x, e.ms[k])

(* guard (state predicate) and action of each deviation.  In KF mode a deviation whose   *)
(* guard holds REPLACES the contract action for that event.                               *)
DevApplies(id, e, subj) ==
    \/ id = "C14-KF1" /\ G1(e, subj)
    \/ id = "C14-KF2" /\ G2(e, subj)
    \/ id = "C14-KF3" /\ G3(e, subj)
    \/ id = "C14-KF4" /\ G4(e, subj)
    \/ id = "C14-KF5" /\ G5(e, subj)
    \/ id = "C14-KF6" /\ G6(e, subj)
    \/ id = "C14-KF7" /\ G7(e, subj)
    \/ id = "C14-KF8" /\ G8(e, subj)
    \/ id = "C14-KF9" /\ G9(e, subj)
    \/ id = "C14-KF10" /\ G10(e, subj)
    \/ id = "C14-KF11" /\ G11(e, subj)
    \/ id = "C14-KF12" /\ G12(e, subj)
KnownDeviation(id, e, subj) ==
    \/ id = "C14-KF1" /\ KF1(e, subj)
    \/ id = "C14-KF2" /\ KF2(e, subj)
    \/ id = "C14-KF3" /\ KF3(e, subj)
    \/ id = "C14-KF4" /\ KF4(e, subj)
    \/ id = "C14-KF5" /\ KF5(e, subj)
    \/ id = "C14-KF6" /\ KF6(e, subj)
    \/ id = "C14-KF7" /\ KF7(e, subj)
    \/ id = "C14-KF8" /\ KF8(e, subj)
    \/ id = "C14-KF9" /\ KF9(e, subj)
    \/ id = "C14-KF10" /\ KF10(e, subj)
    \/ id = "C14-KF11" /\ KF11(e, subj)
    \/ id = "C14-KF12" /\ KF12(e, subj)
=============================================================================
