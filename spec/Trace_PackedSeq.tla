-------------------------- MODULE Trace_PackedSeq --------------------------
(* Trace specification: replays a recorded execution of a real zipora packed     *)
(* integer container through the actions of PackedSeq.tla, one event = one       *)
(* action.                                                                       *)
EXTENDS PackedSeq, TraceIO, Known_PackedSeq

VARIABLES l, subj, kf

vars == <<seq, built, l, subj, kf>>

TraceInit == PSInit /\ l = 1 /\ subj = [subject |-> "none", fam |-> "none"] /\ kf = {}

(* subjects whose index APIs document a panic for an out-of-range index (UintVecMin0::get /   *)
(* get2 / set "Panics if index >= size", ZipIntVec likewise): for them a panic is an allowed   *)
(* refusal of an out-of-range access.  Everything else must answer None / Err.                 *)
PanicRefusers == {"uvm0", "zipint"}
PanicOK == subj.fam \in PanicRefusers

Step(e) ==
    \/ e.op = "build"     /\ Build(e.xs, e.ok)
    \/ e.op = "push"      /\ Push(e.x, e.ok)
    \/ e.op = "extend"    /\ Extend(e.xs)
    \/ e.op = "set"       /\ Set(e.i, e.x, e.ok)
    \/ e.op = "finish"    /\ Finish(e.ok)
    \/ e.op = "get"       /\ Get(e.i, e.r, e.how, PanicOK)
    \/ e.op = "get2"      /\ Get2(e.i, e.r, e.how, PanicOK)
    \/ e.op = "probes"    /\ Probes(e.g, PanicOK)
    \/ e.op = "len"       /\ (IF Has(e, "empty") THEN LenEmpty(e.n, e.empty) ELSE LenIs(e.n))
    \/ e.op = "back"      /\ Back(e.r, e.how, PanicOK)
    \/ e.op = "clear"     /\ Clear(e.n)
    \/ e.op = "resize"    /\ Resize(e.n, e.out)
    \/ e.op = "maintain"  /\ Maintain(e.out)
    \/ e.op = "swap"      /\ Swap(e.xs, e.out)
    \/ e.op = "readback"  /\ ReadBack(e.out, e.n)
    \/ e.op = "readback2" /\ ReadBack2(e.out)
    \/ e.op = "readblocks" /\ ReadBlocks(e.bs, e.nb, e.out)

TraceNext ==
    /\ l <= Len(Rec)
    /\ l' = l + 1
    /\ LET e == Rec[l] IN
       IF e.op = "reset"
       THEN seq' = <<>> /\ built' = FALSE /\ subj' = e /\ kf' = kf
       ELSE /\ subj' = subj
            /\ IF UseKF /\ \E id \in KnownIds : DevApplies(id, e, subj)
               THEN (* one deviation, chosen deterministically: no branching of the validation *)
                    LET id == CHOOSE x \in KnownIds : DevApplies(x, e, subj) IN
                    KnownDeviation(id, e, subj) /\ kf' = kf \cup {id}
               ELSE Step(e) /\ kf' = kf

TraceSpec == TraceInit /\ [][TraceNext]_vars

(* reported only on a path that consumed the whole trace *)
Done == l = Len(Rec) + 1 => PrintT(<<"KFSET", kf>>)
=============================================================================
