---------------------------- MODULE SuffixArray ----------------------------
(* Contract of the suffix-array family of zipora (property C12):                 *)
(*   algorithms::suffix_array::{SuffixArrayBuilder x SuffixArrayAlgorithm,       *)
(*   SuffixArray, LcpArray, EnhancedSuffixArray}, compression::suffix_array::    *)
(*   {SuffixArrayCompressor, EnhancedSuffixArray}, and the rank-range matcher of *)
(*   compression::dict_zip::SuffixArrayDictionary.                               *)
(*                                                                               *)
(* A text T is a sequence of bytes 0..255 (1-based in TLA+).  Text positions and *)
(* ranks of the library are 0-based and are kept 0-based here: position i is the *)
(* byte T[i+1]; the entry of rank r (0-based) of a logged array a is a[r+1].      *)
(* The library appends NO sentinel: the suffixes are the n non-empty suffixes    *)
(* T[i..n), ordered lexicographically as unsigned byte strings, a proper prefix  *)
(* being smaller than its extensions.                                            *)
(*                                                                               *)
(* Conventions of the library (src/algorithms/suffix_array.rs), stated here:     *)
(*   LCP  : LcpArray has n entries; lcp[0] = 0 and, for 1 <= r < n, lcp[r] is the *)
(*          length of the longest common prefix of the suffixes of rank r-1 and r *)
(*          (compute_lcp_kasai: lcp[rank[i]] = h where j = sa[rank[i]-1]).         *)
(*   BWT  : bwt[r] = T[sa[r]-1], and for sa[r] = 0 the LAST byte T[n-1] (cyclic    *)
(*          convention of EnhancedSuffixArray::compute_bwt; no sentinel symbol).  *)
(*   search_range(P) = (lo, hi): half-open rank interval [lo, hi);                *)
(*   search(P) = (lo, hi - lo).                                                   *)
EXTENDS Integers, Sequences, FiniteSets

(* ------------------------------------------------------------------------ *)
(* definitions over byte sequences                                           *)

(* the suffix of T starting at 0-based position i, as a sequence (definition only) *)
Suffix(T, i) == SubSeq(T, i + 1, Len(T))

(* length of the longest common prefix of two sequences *)
RECURSIVE Cpl(_, _, _)
Cpl(u, v, k) == IF k < Len(u) /\ k < Len(v) /\ u[k + 1] = v[k + 1] THEN Cpl(u, v, k + 1) ELSE k
CommonPrefixLen(u, v) == Cpl(u, v, 0)

(* lexicographic order on byte sequences: unsigned bytes, a proper prefix is smaller *)
LexLess(u, v) ==
    LET k == CommonPrefixLen(u, v) IN
    IF k = Len(u) THEN k < Len(v)
    ELSE IF k = Len(v) THEN FALSE
    ELSE u[k + 1] < v[k + 1]

IsPrefix(p, u) == Len(p) <= Len(u) /\ \A k \in 1..Len(p) : u[k] = p[k]

(* ---- the same notions on suffixes of T by index, without building subsequences ---- *)
(* (MC_SuffixArray checks that they agree with the sequence definitions above)         *)

(* = CommonPrefixLen(Suffix(T,i), Suffix(T,j)): the number of leading positions on which the two *)
(* suffixes agree = (first mismatching offset) - 1, or the length m of the shorter suffix when    *)
(* there is no mismatch.  Written without recursion (TLC evaluates deep recursion slowly): the     *)
(* mismatching offsets are collected first in a window of w bytes and only then in the rest.      *)
MinOf(S) == CHOOSE x \in S : \A y \in S : x <= y
SufLcpW(T, i, j, w) ==
    LET m == Len(T) - (IF i > j THEN i ELSE j)
        Mis(lo, hi) == { q \in lo..hi : T[i + q] # T[j + q] }
        S1 == Mis(1, IF m < w THEN m ELSE w) IN
    IF S1 # {} THEN MinOf(S1) - 1
    ELSE IF m <= w THEN m
    ELSE LET S2 == Mis(w + 1, m) IN IF S2 # {} THEN MinOf(S2) - 1 ELSE m
SufLcp(T, i, j) == SufLcpW(T, i, j, 16)

(* = LexLess(Suffix(T,i), Suffix(T,j)) *)
SufLess(T, i, j) ==
    LET k == SufLcp(T, i, j) IN
    IF i + k = Len(T) THEN j + k < Len(T)
    ELSE IF j + k = Len(T) THEN FALSE
    ELSE T[i + k + 1] < T[j + k + 1]

(* = IsPrefix(P, Suffix(T,i)) : P occurs in T at position i *)
OccursAt(T, i, P) == i + Len(P) <= Len(T) /\ \A k \in 1..Len(P) : T[i + k] = P[k]

(* = LexLess(Suffix(T,i), P) *)
RECURSIVE SufPatCpl(_, _, _, _)
SufPatCpl(T, i, P, k) ==
    IF i + k < Len(T) /\ k < Len(P) /\ T[i + k + 1] = P[k + 1] THEN SufPatCpl(T, i, P, k + 1) ELSE k
SufLessPat(T, i, P) ==
    LET k == SufPatCpl(T, i, P, 0) IN
    IF i + k = Len(T) THEN k < Len(P)
    ELSE IF k = Len(P) THEN FALSE
    ELSE T[i + k + 1] < P[k + 1]

Positions(T) == 0..(Len(T) - 1)
Occurrences(T, P) == { i \in Positions(T) : OccursAt(T, i, P) }

(* ------------------------------------------------------------------------ *)
(* the four result predicates                                                *)

IsPermutation(n, sa) ==
    /\ Len(sa) = n
    /\ \A r \in 1..n : sa[r] \in 0..(n - 1)
    /\ Cardinality({ sa[r] : r \in 1..n }) = n

(* sa is THE suffix array of T: a permutation of the positions in which every adjacent *)
(* pair of ranks is in strictly increasing suffix order (adjacent pairs suffice: the   *)
(* order is total and transitive)                                                      *)
IsSA(T, sa) ==
    /\ IsPermutation(Len(T), sa)
    /\ \A r \in 1..(Len(T) - 1) : SufLess(T, sa[r], sa[r + 1])

(* number of adjacent rank pairs out of order (used to describe recorded defects) *)
Inversions(T, sa) == Cardinality({ r \in 1..(Len(T) - 1) : ~SufLess(T, sa[r], sa[r + 1]) })

(* library convention: n entries, entry 0 is 0, entry r is lcp(rank r-1, rank r) *)
LcpOk(T, sa, lcp) ==
    /\ Len(lcp) = Len(T)
    /\ Len(T) > 0 => lcp[1] = 0
    /\ \A r \in 2..Len(T) : lcp[r] = SufLcp(T, sa[r - 1], sa[r])

(* library convention: cyclic, sa[r] = 0 takes the last byte *)
BwtOk(T, sa, bwt) ==
    /\ Len(bwt) = Len(T)
    /\ \A r \in 1..Len(T) : bwt[r] = IF sa[r] = 0 THEN T[Len(T)] ELSE T[sa[r]]

(* [lo, hi) (0-based, half-open) is exactly the set of ranks whose suffix starts with P: *)
(* all and only the occurrences.  For an absent pattern this forces lo = hi.             *)
SearchOk(T, sa, P, lo, hi) ==
    /\ lo <= hi /\ hi <= Len(T)
    /\ \A r \in 1..Len(T) : OccursAt(T, sa[r], P) <=> (lo < r /\ r <= hi)

(* the same interval without reference to a stored array (the suffix array of T is      *)
(* unique): lo = number of suffixes smaller than P, hi - lo = number of occurrences.    *)
(* MC_SuffixArray checks that the two formulations coincide on the suffix array.        *)
RangeLo(T, P) == Cardinality({ i \in Positions(T) : SufLessPat(T, i, P) })
RangeHi(T, P) == RangeLo(T, P) + Cardinality(Occurrences(T, P))
RangeOk(T, P, lo, hi) ==
    IF Occurrences(T, P) = {} THEN lo = hi /\ hi <= Len(T)
    ELSE lo = RangeLo(T, P) /\ hi = RangeHi(T, P)

(* a list of text positions: exactly the occurrences, each once, ascending *)
PositionsOk(T, P, pos) ==
    /\ \A k \in 1..(Len(pos) - 1) : pos[k] < pos[k + 1]
    /\ { pos[k] : k \in 1..Len(pos) } = Occurrences(T, P)

(* longest prefix of P that occurs in T (dictionary matcher) *)
RECURSIVE MatchDepthFrom(_, _, _)
MatchDepthFrom(T, P, d) ==
    IF d < Len(P) /\ Occurrences(T, SubSeq(P, 1, d + 1)) # {} THEN MatchDepthFrom(T, P, d + 1) ELSE d
MatchDepth(T, P) == MatchDepthFrom(T, P, 0)

(* ------------------------------------------------------------------------ *)
(* the contract: state and actions                                           *)
(*   T    the text of the current case                                       *)
(*   sa   the array the subject returned for T (<<>> before / without one)   *)
(*   have TRUE when sa was returned for T                                    *)

VARIABLES T, sa, have

(* an answer predicate is evaluated as a VALUE: inside an action TLC would turn every disjunction *)
(* under a bounded quantifier into a separate (identical) successor state                         *)
Holds(P) == IF P THEN TRUE ELSE FALSE

SAInit == T = <<>> /\ sa = <<>> /\ have = FALSE

IsText(t) == \A k \in 1..Len(t) : t[k] \in 0..255

(* a new case: the text handed to the subject *)
SetText(t) == IsText(t) /\ T' = t /\ sa' = <<>> /\ have' = FALSE

(* construction returned Ok(array) *)
Built(s) == Holds(IsSA(T, s)) /\ sa' = s /\ have' = TRUE /\ UNCHANGED T
(* construction returned Err: refused, nothing to judge further (refusal rule) *)
BuildRefused == UNCHANGED <<T, sa, have>>

(* ---- answers about an accepted array: each is a state predicate `...Ans` (is this answer ---- *)
(* ---- the one the definitions give?) and an action that accepts exactly those answers     ---- *)
Same == UNCHANGED <<T, sa, have>>

(* suffix_at_rank(r) for every r in 0..n : the array entry, None (projected to -1) at r = n; *)
(* text_len() = n                                                                           *)
RanksAns(r, n) ==
    /\ have
    /\ n = Len(T)
    /\ Len(r) = Len(T) + 1
    /\ \A k \in 1..Len(T) : r[k] = sa[k]
    /\ r[Len(T) + 1] = 0 - 1
RanksOk(r, n) == Holds(RanksAns(r, n)) /\ Same

(* LcpArray::as_slice *)
LcpAns(l) == have /\ LcpOk(T, sa, l)
Lcp(l) == Holds(LcpAns(l)) /\ Same
(* lcp_at(r) for every r in 0..n : the entry, None (-1) at r = n *)
LcpAtAns(at) ==
    /\ have
    /\ Len(at) = Len(T) + 1
    /\ LcpOk(T, sa, SubSeq(at, 1, Len(T)))
    /\ at[Len(T) + 1] = 0 - 1
LcpAt(at) == Holds(LcpAtAns(at)) /\ Same
(* LCP not computed by this configuration (documented None) / Err: refusal *)
LcpAbsent == Same

Bwt(b) == Holds(have /\ BwtOk(T, sa, b)) /\ Same

(* a batch of searches: pats[k] answered by the half-open rank range [res[k][1], res[k][2]) *)
SearchesAns(pats, res) ==
    /\ have
    /\ Len(res) = Len(pats)
    /\ \A k \in 1..Len(pats) : Len(pats[k]) > 0 => SearchOk(T, sa, pats[k], res[k][1], res[k][2])
    (* the empty pattern: every suffix starts with it -> the whole range; an API that documents *)
    (* "no result for the empty pattern" may refuse with the empty range (0, 0)                 *)
    /\ \A k \in 1..Len(pats) : Len(pats[k]) = 0 =>
          \/ res[k] = <<0, Len(T)>>
          \/ res[k] = <<0, 0>>
Searches(pats, res) == Holds(SearchesAns(pats, res)) /\ Same

(* a batch of position lists (find_pattern) and counts (count_pattern) *)
FindsAns(pats, res) ==
    /\ have
    /\ Len(res) = Len(pats)
    /\ \A k \in 1..Len(pats) : Len(pats[k]) > 0 => PositionsOk(T, pats[k], res[k])
    /\ \A k \in 1..Len(pats) : Len(pats[k]) = 0 =>
          \/ PositionsOk(T, pats[k], res[k])
          \/ res[k] = <<>>
Finds(pats, res) == Holds(FindsAns(pats, res)) /\ Same
CountsAns(pats, res) ==
    /\ have
    /\ Len(res) = Len(pats)
    /\ \A k \in 1..Len(pats) : Len(pats[k]) > 0 => res[k] = Cardinality(Occurrences(T, pats[k]))
    /\ \A k \in 1..Len(pats) : Len(pats[k]) = 0 => res[k] \in {0, Len(T)}
Counts(pats, res) == Holds(CountsAns(pats, res)) /\ Same

(* dictionary matcher (array not observable): sa_match_continuation(0, n, 0, P) = (lo, hi, depth): *)
(* depth = longest prefix of P occurring in T, [lo, hi) = rank range of that prefix in THE suffix   *)
(* array of T                                                                                      *)
MatchesAns(pats, res) ==
    /\ Len(res) = Len(pats)
    /\ \A k \in 1..Len(pats) :
          LET d == MatchDepth(T, pats[k]) IN
          /\ res[k][3] = d
          /\ RangeOk(T, SubSeq(pats[k], 1, d), res[k][1], res[k][2])
Matches(pats, res) == Holds(MatchesAns(pats, res)) /\ Same

(* find_all_matches(P): the occurrences in suffix order (= the array entries of the rank range of P) *)
RankedOk(T_, P, pos) ==
    /\ Len(pos) = Cardinality(Occurrences(T_, P))
    /\ { pos[k] : k \in 1..Len(pos) } = Occurrences(T_, P)
    /\ \A k \in 1..(Len(pos) - 1) : SufLess(T_, pos[k], pos[k + 1])
(* minl / maxl: the configured pattern-length window of the dictionary; a pattern outside it may be *)
(* refused with the empty list (documented), never answered wrongly                                  *)
RankedFindsAns(pats, res, minl, maxl) ==
    /\ Len(res) = Len(pats)
    /\ \A k \in 1..Len(pats) :
          \/ RankedOk(T, pats[k], res[k])
          \/ (Len(pats[k]) < minl \/ Len(pats[k]) > maxl) /\ res[k] = <<>>
RankedFinds(pats, res, minl, maxl) == Holds(RankedFindsAns(pats, res, minl, maxl)) /\ Same

(* MatchStatus::match_count of the logged (lo, hi, depth) triples *)
MatchCountAns(ms, cnt) ==
    /\ Len(cnt) = Len(ms)
    /\ \A k \in 1..Len(ms) : cnt[k] = IF ms[k][2] > ms[k][1] THEN ms[k][2] - ms[k][1] ELSE 0

(* da_match_max_length (DFA-cache front end with suffix-array fallback): the twin of            *)
(* sa_match_continuation(0, n, 0, P) for a non-empty input; (0, 0, 0) for the empty input        *)
DaEmptyAns(r) == r = <<0, 0, 0>>

(* find_longest_match(input, position, max): Some(length, dict_position) exactly when the longest   *)
(* prefix of input[position..] occurring in T has at least minl (>= 1) bytes; length is that        *)
(* longest length and dict_position one of its occurrences; None (<<>>) otherwise and for           *)
(* position >= len(input)                                                                           *)
LongestAns(inputs, pos, res, minl) ==
    /\ Len(res) = Len(inputs) /\ Len(pos) = Len(inputs)
    /\ \A k \in 1..Len(inputs) :
          IF pos[k] >= Len(inputs[k]) THEN res[k] = <<>>
          ELSE LET Q == SubSeq(inputs[k], pos[k] + 1, Len(inputs[k]))
                   d == MatchDepth(T, Q) IN
               IF d >= minl /\ d >= 1
               THEN /\ Len(res[k]) = 2
                    /\ res[k][1] = d
                    /\ res[k][2] \in Positions(T)
                    /\ OccursAt(T, res[k][2], SubSeq(Q, 1, d))
               ELSE res[k] = <<>>
Longest(inputs, pos, res, minl) == Holds(LongestAns(inputs, pos, res, minl)) /\ Same

(* sa_equal_range(lo, hi, |p|, ch): one refinement step.  [lo, hi) must be the rank range of the   *)
(* occurring prefix p (it was returned by the library itself); the answer for byte ch is the rank  *)
(* range of p.ch when that occurs, and an empty range (a >= b) when it does not                    *)
EqRangeAns(p, lo, hi, chs, res) ==
    /\ Occurrences(T, p) # {}
    /\ lo = RangeLo(T, p) /\ hi = RangeHi(T, p)
    /\ Len(res) = Len(chs)
    /\ \A k \in 1..Len(chs) :
          LET q == Append(p, chs[k]) IN
          IF Occurrences(T, q) # {}
          THEN res[k] = <<RangeLo(T, q), RangeHi(T, q)>>
          ELSE res[k][1] >= res[k][2]
(* a batch: items = records [p, lo, hi, res] sharing the byte list chs *)
EqRangesAns(chs, items) == \A k \in 1..Len(items) : EqRangeAns(items[k].p, items[k].lo, items[k].hi, chs, items[k].res)
EqRanges(chs, items) == Holds(EqRangesAns(chs, items)) /\ Same

(* the dictionary was built (its array is not observable): it holds the text / construction refused *)
DictBuilt(ok, n, dtext) == Holds(ok => (n = Len(T) /\ dtext = T)) /\ Same

(* projection of a large case (text too long to judge entry by entry in TLC): the harness *)
(* logs the permutation flag and the number of adjacent rank pairs out of order, computed *)
(* by a generic projection; the contract is evaluated on the projection.                  *)
SetTextProjected == T' = <<>> /\ sa' = <<>> /\ have' = FALSE
BuiltProjected(n, len, isperm, violations) ==
    /\ len = n /\ isperm = TRUE /\ violations = 0
    /\ UNCHANGED <<T, sa, have>>

(* projection of a large dictionary case: for each pattern the number of occurrences (generic window scan), *)
(* of the list find_all_matches returned: its length, "every entry is an occurrence", "entries distinct",  *)
(* number of adjacent entries out of suffix order; the (lo, hi, depth) of sa_match_continuation and of     *)
(* da_match_max_length.  All and only the occurrences, in suffix order, in a rank range of that size.      *)
DictProjItemAns(it) ==
    /\ it.npos = it.occ /\ it.all_occ = TRUE /\ it.distinct = TRUE /\ it.viol = 0
    /\ \A m \in {it.m, it.da} :
          IF it.occ > 0 THEN m[3] = it.plen /\ m[2] - m[1] = it.occ /\ m[1] >= 0
          ELSE m[3] < it.plen
DictProjAns(n, len, items) == n = len /\ \A k \in 1..Len(items) : DictProjItemAns(items[k])
DictProjected(n, len, items) == Holds(DictProjAns(n, len, items)) /\ Same

TypeOK == IsText(T) /\ have \in BOOLEAN /\ (have => IsSA(T, sa))
=============================================================================
