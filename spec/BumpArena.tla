------------------------------ MODULE BumpArena ------------------------------
(* Mechanism specification of src/memory/bump.rs: BumpAllocator::alloc_bytes      *)
(* (bump pointer with alignment rounding), reset, and BumpArena::scope /           *)
(* BumpScope (drop resets the pointer to where the scope began).                   *)
(* The buffer starts at address Base (the layout of BumpAllocator::new only        *)
(* guarantees 8 bytes).  AlignAddress is the parameter bound from the code:         *)
(*   FALSE  the OFFSET is rounded up to the alignment (the pinned bump.rs)          *)
(*   TRUE   the ADDRESS is rounded up                                               *)
(* The module EXTENDS the contract; TLC checks NoOverlap, SizesOk, InBuffer and     *)
(* AlignOk on the mechanism's state graph.                                          *)
EXTENDS Allocator, TLC

CONSTANTS Base, Cap, AlignAddress, Sizes, Aligns, MaxBlocks

VARIABLES cur,      \* bump offset
          marks,    \* stack of offsets at which the open scopes began
          nb

bvars == <<live, pend, cur, marks, nb>>

Up(x, a) == ((x + a - 1) \div a) * a
AlignedOffset(a) == IF AlignAddress THEN Up(Base + cur, a) - Base ELSE Up(cur, a)

Init == AllocInit /\ cur = 0 /\ marks = <<>> /\ nb = 0

Alloc(s, a) ==
    /\ nb < MaxBlocks
    /\ LET off == AlignedOffset(a) IN
       IF off + s <= Cap
       THEN /\ live' = With(nb + 1, Blk(Base + off, Base + off + s, s, s, a))
            /\ cur' = off + s
            /\ nb' = nb + 1
            /\ UNCHANGED <<pend, marks>>
       ELSE UNCHANGED bvars                                  \* Err(out of memory)

(* blocks at or above offset m vanish when the pointer is reset to m *)
Above(m) == {b \in DOMAIN live : live[b].lo >= Base + m}
ScopeBegin == Len(marks) < 2 /\ marks' = Append(marks, cur) /\ UNCHANGED <<live, pend, cur, nb>>
ScopeEnd == /\ marks # <<>>
            /\ LET m == marks[Len(marks)] IN live' = Without(Above(m)) /\ cur' = m
            /\ marks' = SubSeq(marks, 1, Len(marks) - 1)
            /\ UNCHANGED <<pend, nb>>
Reset == marks = <<>> /\ live' = Empty /\ cur' = 0 /\ UNCHANGED <<pend, marks, nb>>

Next == (\E s \in Sizes, a \in Aligns : Alloc(s, a)) \/ ScopeBegin \/ ScopeEnd \/ Reset

Spec == Init /\ [][Next]_bvars

InBuffer == \A b \in DOMAIN live : Base <= live[b].lo /\ live[b].hi <= Base + Cap
AlignOk == \A b \in DOMAIN live : live[b].lo % live[b].align = 0
=============================================================================
