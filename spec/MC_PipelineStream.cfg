SPECIFICATION Spec
CONSTANTS
  N = 5
  Max = 2
  Variant = "code"
  Mode = "seq"
INVARIANT NoDup NoLoss OrderKept SizeBound Conforms EndOk
CHECK_DEADLOCK FALSE
