--------------------------- MODULE MC_SuffixArray ---------------------------
(* Bounded model of the SuffixArray contract: coherence of the definitions.      *)
(* The states enumerate EVERY string over Sigma of length <= MaxLen, first       *)
(* without and then with an array accepted by Built (the contract action).       *)
(* Checked in every state:                                                       *)
(*  - exactly one permutation of the positions satisfies IsSA (the suffix array  *)
(*    is unique; the adjacent-pair formulation is sound and complete);           *)
(*  - the index-based operators (SufLess, SufLcp, OccursAt, SufLessPat) agree    *)
(*    with the sequence definitions (LexLess, CommonPrefixLen, IsPrefix on       *)
(*    Suffix(T,i));                                                              *)
(*  - for EVERY pattern over Sigma of length <= MaxPat the ranks of the          *)
(*    occurrences form a contiguous interval, it is [RangeLo, RangeHi), SearchOk *)
(*    accepts exactly that interval (exactly the empty intervals for an absent   *)
(*    pattern) and RangeOk (array-free formulation) accepts the same;            *)
(*  - LcpOk and BwtOk have exactly the defined solution; the BWT is a            *)
(*    rearrangement of T;                                                        *)
(*  - the contract rejects every swap of two array entries, every search range   *)
(*    widened or narrowed by one, every LCP / BWT entry changed.                 *)
EXTENDS SuffixArray, TLC

CONSTANTS MaxLen, MaxPat, Sigma

vars == <<T, sa, have>>

Strings(maxlen) == UNION { [1..n -> Sigma] : n \in 0..maxlen }

(* all arrays of length n that are permutations of 0..n-1, as sequences; evaluated once per n *)
PermTable == [n \in 0..MaxLen |-> { [r \in 1..n |-> p[r] - 1] : p \in Permutations(1..n) }]
Patterns == Strings(MaxPat)

Init == SAInit
Next == \/ \E t \in Strings(MaxLen) : ~have /\ T = <<>> /\ SetText(t)
        \/ ~have /\ \E s \in PermTable[Len(T)] : Built(s)
Spec == Init /\ [][Next]_vars

n == Len(T)

(* ---- uniqueness of the suffix array *)
UniqueSA == Cardinality({ s \in PermTable[n] : IsSA(T, s) }) = 1
TheSA == CHOOSE s \in PermTable[n] : IsSA(T, s)

(* ---- index operators = sequence definitions *)
IndexDefsAgree ==
    /\ \A i, j \in Positions(T) :
          /\ SufLcp(T, i, j) = CommonPrefixLen(Suffix(T, i), Suffix(T, j))
          /\ \A w \in 1..3 : SufLcpW(T, i, j, w) = CommonPrefixLen(Suffix(T, i), Suffix(T, j))
          /\ i # j => (SufLess(T, i, j) <=> LexLess(Suffix(T, i), Suffix(T, j)))
    /\ \A i \in Positions(T) : \A P \in Patterns :
          /\ OccursAt(T, i, P) <=> IsPrefix(P, Suffix(T, i))
          /\ SufLessPat(T, i, P) <=> LexLess(Suffix(T, i), P)

(* ---- LexLess is a strict total order on the strings of the model (trichotomy, transitivity on suffixes) *)
OrderLaws ==
    /\ \A i, j \in Positions(T) :
          LET u == Suffix(T, i)
              v == Suffix(T, j) IN
          /\ ~LexLess(u, u)
          /\ u # v => (LexLess(u, v) <=> ~LexLess(v, u))
    /\ \A i, j, k \in Positions(T) :
          (SufLess(T, i, j) /\ SufLess(T, j, k)) => SufLess(T, i, k)
    (* a proper prefix is smaller than its extension *)
    /\ \A i \in Positions(T) : i + 1 < n => LexLess(SubSeq(T, i + 1, n - 1), Suffix(T, i))

(* ---- search: occurrences are a contiguous rank interval; the contract accepts exactly it *)
OccRanks(s, P) == { r \in 1..n : OccursAt(T, s[r], P) }
SearchCoherent ==
    LET s == TheSA IN
    \A P \in Patterns :
       LET R == OccRanks(s, P)
           lo == RangeLo(T, P)
           hi == RangeHi(T, P) IN
       /\ Cardinality(R) = Cardinality(Occurrences(T, P))
       /\ R # {} => /\ R = (lo + 1)..hi
                    /\ { <<a, b>> \in (0..(n + 1)) \X (0..(n + 1)) : SearchOk(T, s, P, a, b) } = { <<lo, hi>> }
                    /\ { <<a, b>> \in (0..(n + 1)) \X (0..(n + 1)) : RangeOk(T, P, a, b) } = { <<lo, hi>> }
       /\ R = {} => /\ { <<a, b>> \in (0..(n + 1)) \X (0..(n + 1)) : SearchOk(T, s, P, a, b) }
                         = { <<a, a>> : a \in 0..n }
                    /\ { <<a, b>> \in (0..(n + 1)) \X (0..(n + 1)) : RangeOk(T, P, a, b) }
                         = { <<a, a>> : a \in 0..n }
       (* refinement: the range of a pattern lies inside the range of each of its prefixes, and the  *)
       (* one-byte extensions of an occurring prefix partition the part of its range that can be     *)
       (* extended (what sa_equal_range / sa_match_continuation rely on)                             *)
       /\ (R # {} /\ Len(P) >= 1) =>
             LET Q == SubSeq(P, 1, Len(P) - 1) IN
             /\ RangeLo(T, Q) <= lo /\ hi <= RangeHi(T, Q)
             /\ EqRangeAns(Q, RangeLo(T, Q), RangeHi(T, Q), <<P[Len(P)]>>, << <<lo, hi>> >>)
             /\ ~EqRangeAns(Q, RangeLo(T, Q), RangeHi(T, Q), <<P[Len(P)]>>, << <<lo, hi + 1>> >>)
       /\ (R = {} /\ Len(P) >= 1 /\ Occurrences(T, SubSeq(P, 1, Len(P) - 1)) # {}) =>
             LET Q == SubSeq(P, 1, Len(P) - 1) IN
             /\ EqRangeAns(Q, RangeLo(T, Q), RangeHi(T, Q), <<P[Len(P)]>>, << <<lo, lo>> >>)
             /\ ~EqRangeAns(Q, RangeLo(T, Q), RangeHi(T, Q), <<P[Len(P)]>>, << <<0, 1>> >>)
       (* longest match: the defined answer is accepted, a shorter or longer length is not *)
       /\ LET d == MatchDepth(T, P) IN
             IF d >= 1
             THEN /\ \A i \in Occurrences(T, SubSeq(P, 1, d)) : LongestAns(<<P>>, <<0>>, << <<d, i>> >>, 1)
                  /\ ~LongestAns(<<P>>, <<0>>, << <<>> >>, 1)
                  /\ \A i \in Positions(T) : ~LongestAns(<<P>>, <<0>>, << <<d + 1, i>> >>, 1)
                  /\ d >= 2 => \A i \in Positions(T) : ~LongestAns(<<P>>, <<0>>, << <<d - 1, i>> >>, 1)
                  /\ LongestAns(<<P>>, <<0>>, << <<>> >>, d + 1)
             ELSE LongestAns(<<P>>, <<0>>, << <<>> >>, 1)
       (* the empty pattern occurs everywhere: the whole range *)
       /\ P = <<>> => (lo = 0 /\ hi = n)
       (* positions / dictionary matcher formulations *)
       /\ PositionsOk(T, P, <<>>) <=> (Occurrences(T, P) = {})
       /\ LET d == MatchDepth(T, P) IN
             /\ Occurrences(T, SubSeq(P, 1, d)) # {} \/ n = 0
             /\ d < Len(P) => Occurrences(T, SubSeq(P, 1, d + 1)) = {}

(* ---- LCP / BWT: exactly the defined solution *)
DefLcp(s) == [r \in 1..n |-> IF r = 1 THEN 0 ELSE CommonPrefixLen(Suffix(T, s[r - 1]), Suffix(T, s[r]))]
DefBwt(s) == [r \in 1..n |-> IF s[r] = 0 THEN T[n] ELSE T[s[r]]]
CountOf(q, x) == Cardinality({ k \in 1..Len(q) : q[k] = x })
LcpBwtCoherent ==
    LET s == TheSA IN
    /\ LcpOk(T, s, DefLcp(s))
    /\ \A r \in 1..n : ~LcpOk(T, s, [DefLcp(s) EXCEPT ![r] = @ + 1])
    /\ \A r \in 1..n : DefLcp(s)[r] > 0 => ~LcpOk(T, s, [DefLcp(s) EXCEPT ![r] = @ - 1])
    (* a shift by one rank (the other common indexing convention) is not accepted unless identical *)
    /\ n > 1 => LET sh == [r \in 1..n |-> IF r < n THEN DefLcp(s)[r + 1] ELSE 0] IN
                (LcpOk(T, s, sh) <=> sh = DefLcp(s))
    /\ BwtOk(T, s, DefBwt(s))
    /\ \A r \in 1..n : \A x \in Sigma : x # DefBwt(s)[r] => ~BwtOk(T, s, [DefBwt(s) EXCEPT ![r] = x])
    /\ \A x \in Sigma : CountOf(DefBwt(s), x) = CountOf(T, x)

(* ---- the contract accepts the defined answers and rejects the corruptions of the binding self-tests *)
Swap(s, a, b) == [s EXCEPT ![a] = s[b], ![b] = s[a]]
ContractSharp ==
    LET s == TheSA IN
    /\ \A a, b \in 1..n : a < b => ~IsSA(T, Swap(s, a, b))
    /\ \A r \in 1..n : \A x \in 0..n : x # s[r] => ~IsSA(T, [s EXCEPT ![r] = x])
    /\ \A P \in Patterns :
          LET lo == RangeLo(T, P)
              hi == RangeHi(T, P) IN
          Occurrences(T, P) # {} =>
             /\ SearchOk(T, s, P, lo, hi)
             /\ hi < n => ~SearchOk(T, s, P, lo, hi + 1)
             /\ lo > 0 => ~SearchOk(T, s, P, lo - 1, hi)
             /\ ~SearchOk(T, s, P, lo + 1, hi)
             /\ ~SearchOk(T, s, P, lo, hi - 1)

(* ---- states with an accepted array: it is the suffix array, and the read actions are enabled for it *)
AcceptedIsTheSA == have => (sa = TheSA /\ IsSA(T, sa))
ReadActionsEnabled ==
    have => /\ ENABLED RanksOk([k \in 1..(n + 1) |-> IF k <= n THEN sa[k] ELSE 0 - 1], n)
            /\ ~ENABLED RanksOk([k \in 1..(n + 1) |-> IF k <= n THEN sa[k] ELSE 0 - 1], n + 1)
            /\ ~ENABLED RanksOk([k \in 1..(n + 1) |-> IF k <= n THEN sa[k] ELSE 0], n)
            /\ ENABLED Lcp(DefLcp(sa))
            /\ ENABLED LcpAt(Append(DefLcp(sa), 0 - 1))
            /\ ~ENABLED LcpAt(Append(DefLcp(sa), 0))
            /\ ENABLED Bwt(DefBwt(sa))
=============================================================================
