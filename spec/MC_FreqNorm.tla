---------------------------- MODULE MC_FreqNorm ----------------------------
(* Bounded models of FreqNorm.tla: every frequency vector of 2..MaxSyms symbols    *)
(* with counts 0..MaxCount (at least one symbol present).                          *)
(*   MC_FreqNorm.cfg         Variant = "reserve" (rans.rs), TOT = 8   -> holds      *)
(*   MC_FreqNorm16.cfg       Variant = "reserve", TOT = 16            -> holds      *)
(*   MC_FreqNorm_clamp.cfg   Variant = "clamp" (fse.rs normalize_frequencies_simple *)
(*                           as coded), TOT = 4 -> DonePresentHasSlot VIOLATED      *)
(*                           (counts 6,1,1,1: 2+1+1 use up the table, the fourth    *)
(*                           symbol is present and gets 0 slots)                    *)
EXTENDS FreqNorm
=============================================================================
