SPECIFICATION Spec
CONSTANTS
  Alphabet = {42, 63, 65, 97, 90, 32, 48}
  MaxLen = 5
INVARIANT AsciiLaws WildLaws
CHECK_DEADLOCK FALSE
