-------------------------------- MODULE Seq --------------------------------
(* Contract of every vector type of zipora (property C10): FastVec, ValVec32,    *)
(* CacheAlignedVec, BumpVec, PooledVec, MmapVec.                                  *)
(*                                                                               *)
(* State                                                                         *)
(*   seqs   function  object id -> sequence of elements.  A trace may hold        *)
(*          several objects: Clone creates a second one that later diverges.      *)
(*   alive  the set of elements currently owned by the containers of the run      *)
(*   ever   every element that has ever existed in the run (freshness of ids)     *)
(*   acct   TRUE when the elements are drop-counting heap boxes (unique ids);     *)
(*          FALSE for subjects that only accept Copy elements (plain integers,    *)
(*          no ownership to account for)                                          *)
(* An element is a pair <<value, instance>>: Clone of an element makes a new      *)
(* instance with the same value.                                                  *)
(*                                                                               *)
(* Every public operation is one action whose parameters are the arguments, the   *)
(* result the implementation returned, the list D of elements whose destructor    *)
(* ran during the call and the set B of elements cloned into existence during     *)
(* the call.  Ownership rule (Flow): every dropped element was owned by a         *)
(* container (or was an argument / clone of this very call), is dropped once,     *)
(* is not inside a container or returned afterwards, and after the call the       *)
(* owned elements are exactly the contents of the containers - so a second drop,  *)
(* a use of a dropped element and a leak are all rejected.                        *)
(* Refusal rule (DESIGN section 6): a mutating call may fail (Err / false) when   *)
(* it leaves the content unchanged; pop of a non-empty vector must succeed; an    *)
(* out-of-range index must be refused.                                            *)
EXTENDS Naturals, Sequences, FiniteSets, TLC, Opt

VARIABLES seqs, alive, ever, acct

ownvars == <<seqs, alive, ever, acct>>

Elems(s) == { s[i] : i \in 1..Len(s) }
NoDup(s) == \A i, j \in 1..Len(s) : i # j => s[i] # s[j]
Contents(f) == UNION { Elems(f[o]) : o \in DOMAIN f }
(* no element sits in two slots (of one container or of two containers) *)
Disjoint(f) == /\ \A o \in DOMAIN f : NoDup(f[o])
               /\ \A o1, o2 \in DOMAIN f : o1 # o2 => Elems(f[o1]) \cap Elems(f[o2]) = {}
SameVals(a, b) == Len(a) = Len(b) /\ \A i \in 1..Len(a) : a[i][1] = b[i][1]
Min2(a, b) == IF a < b THEN a ELSE b
Prefix(s, n) == SubSeq(s, 1, Min2(n, Len(s)))
InsertAt(s, i, x) == SubSeq(s, 1, i) \o <<x>> \o SubSeq(s, i + 1, Len(s))      \* i = 0-based position
RemoveAt(s, i) == SubSeq(s, 1, i) \o SubSeq(s, i + 2, Len(s))                  \* i = 0-based position
NoObj == [o \in {} |-> <<>>]
With(o, new) == (o :> new) @@ seqs
Without(o) == [p \in DOMAIN seqs \ {o} |-> seqs[p]]

SeqInit(a) == seqs = (1 :> <<>>) /\ alive = {} /\ ever = {} /\ acct = a
(* a new run begins (trace specifications) *)
SeqReset(a) == seqs' = (1 :> <<>>) /\ alive' = {} /\ ever' = {} /\ acct' = a

(* ---- the ownership rule ---------------------------------------------------- *)
(* f    the containers after the call                                             *)
(* In   elements handed to the call by the caller (moved in)                      *)
(* B    elements cloned into existence during the call                            *)
(* Ret  elements handed back to the caller (moved out)                            *)
(* D    sequence of elements whose destructor ran during the call                 *)
Flow(f, In, B, Ret, D) ==
    /\ seqs' = f
    /\ acct' = acct
    /\ IF acct
       THEN LET inside == alive \cup In \cup B IN
            /\ (In \cup B) \cap ever = {}                    \* ids are fresh: no use of a dead element
            /\ In \cap B = {}
            /\ NoDup(D)                                      \* nothing dropped twice in one call
            /\ Elems(D) \subseteq inside                     \* nothing dropped that was not owned (second drop)
            /\ Ret \subseteq inside
            /\ Ret \cap Elems(D) = {}                        \* a returned element was not also dropped
            /\ alive' = (inside \ Elems(D)) \ Ret
            /\ alive' = Contents(f)                          \* no leak, nothing dead still inside
            /\ Disjoint(f)                                   \* no element duplicated bitwise
            /\ ever' = ever \cup In \cup B
       ELSE alive' = alive /\ ever' = ever

(* ---- operations ------------------------------------------------------------ *)
Push(o, x, D, B)        == Flow(With(o, Append(seqs[o], x)), {x}, B, {}, D)
(* push(x) -> Err: nothing changes, the rejected argument is destroyed *)
PushRefused(o, x, D, B) == Flow(seqs, {x}, B, {}, D)

Pop(o, r, D, B) ==
    LET s == seqs[o] IN
    IF s = <<>> THEN r = None /\ Flow(seqs, {}, B, {}, D)
    ELSE r = Some(s[Len(s)]) /\ Flow(With(o, SubSeq(s, 1, Len(s) - 1)), {}, B, {s[Len(s)]}, D)

Insert(o, i, x, D, B)        == i <= Len(seqs[o]) /\ Flow(With(o, InsertAt(seqs[o], i, x)), {x}, B, {}, D)
InsertRefused(o, i, x, D, B) == Flow(seqs, {x}, B, {}, D)

Remove(o, i, r, D, B) == /\ i < Len(seqs[o]) /\ r = seqs[o][i + 1]
                         /\ Flow(With(o, RemoveAt(seqs[o], i)), {}, B, {r}, D)
RemoveRefused(o, i, D, B) == Flow(seqs, {}, B, {}, D)

(* set(i, x): the overwritten element must be destroyed (it is in D by the ownership rule) *)
Set(o, i, x, D, B)        == i < Len(seqs[o]) /\ Flow(With(o, [seqs[o] EXCEPT ![i + 1] = x]), {x}, B, {}, D)
SetRefused(o, i, x, D, B) == Flow(seqs, {x}, B, {}, D)

Get(o, i, r) == r = (IF i < Len(seqs[o]) THEN Some(seqs[o][i + 1]) ELSE None) /\ UNCHANGED ownvars

(* resize(n, x): c is the content the implementation reported after the call.  Shrinking keeps  *)
(* the first n elements; growing appends n - len elements that all carry the value of x and     *)
(* are clones made by this call (or x itself, as Vec::resize does).                             *)
Resize(o, n, x, c, D, B) ==
    LET s == seqs[o] IN
    /\ IF n <= Len(s) THEN c = SubSeq(s, 1, n)
       ELSE /\ Len(c) = n /\ SubSeq(c, 1, Len(s)) = s
            /\ \A i \in (Len(s) + 1)..n : c[i][1] = x[1] /\ (acct => c[i] \in B \cup {x})
    /\ Flow(With(o, c), {x}, B, {}, D)
ResizeRefused(o, n, x, D, B) == Flow(seqs, {x}, B, {}, D)

(* resize_with(n, f): growing appends the elements xs the closure produced, in the order it     *)
(* produced them (exactly n - len of them); shrinking keeps the first n and calls f never        *)
ResizeWith(o, n, xs, D, B) ==
    LET s == seqs[o] IN
    /\ IF n <= Len(s) THEN xs = <<>> ELSE Len(xs) = n - Len(s)
    /\ Flow(With(o, IF n <= Len(s) THEN SubSeq(s, 1, n) ELSE s \o xs), Elems(xs), B, {}, D)
(* refused: the content stays; whatever the closure produced meanwhile is destroyed *)
ResizeWithRefused(o, xs, D, B) == Flow(seqs, Elems(xs), B, {}, D)

(* copy_from_slice(xs): the content becomes a copy of xs (Copy element types only) *)
CopyFrom(o, xs) == ~acct /\ Flow(With(o, xs), {}, {}, {}, <<>>)

(* a new object o2 made by a sized constructor: n elements carrying the value of x *)
NewSized(o2, n, x, c, D, B) ==
    /\ o2 \notin DOMAIN seqs
    /\ Len(c) = n /\ \A i \in 1..n : c[i][1] = x[1] /\ (acct => c[i] \in B \cup {x})
    /\ Flow(With(o2, c), {x}, B, {}, D)
NewSizedRefused(x, D, B) == Flow(seqs, {x}, B, {}, D)
(* a new empty object o2 (a second vector carved from the same allocator) *)
NewEmpty(o2, D, B) == o2 \notin DOMAIN seqs /\ Flow(With(o2, <<>>), {}, B, {}, D)
(* an object that is opened with a content it did not get through this trace (a file written   *)
(* earlier): only as the first event of a run, only for Copy element types                     *)
Adopt(o, c) == ~acct /\ seqs[o] = <<>> /\ ever = {} /\ Flow(With(o, c), {}, {}, {}, <<>>)

(* compare(a..b, o2): is self[a..b] equal to the first b - a elements of o2; an empty range is *)
(* equal to anything; a range that does not fit must be refused                                *)
Compare(o, o2, a, b, r) ==
    /\ o2 \in DOMAIN seqs
    /\ IF a >= b THEN r = TRUE
       ELSE /\ b <= Len(seqs[o]) /\ b - a <= Len(seqs[o2])
            /\ r = (SubSeq(seqs[o], a + 1, b) = SubSeq(seqs[o2], 1, b - a))
    /\ UNCHANGED ownvars

(* extend by moving the elements xs in *)
ExtendMove(o, xs, D, B) == Flow(With(o, seqs[o] \o xs), Elems(xs), B, {}, D)
(* extend_from_slice: xs stay with the caller, clones of them are appended (c = reported content) *)
ExtendClone(o, xs, c, D, B) ==
    LET s == seqs[o] IN
    /\ Len(c) = Len(s) + Len(xs) /\ SubSeq(c, 1, Len(s)) = s
    /\ \A i \in 1..Len(xs) : c[Len(s) + i][1] = xs[i][1] /\ (acct => c[Len(s) + i] \in B)
    /\ Flow(With(o, c), {}, B, {}, D)
ExtendRefused(o, xs, moved, D, B) == Flow(seqs, IF moved THEN Elems(xs) ELSE {}, B, {}, D)

(* fill the positions a+1..b with the Copy value x (only offered for Copy element types); an   *)
(* empty or reversed range that is accepted must change nothing                               *)
Fill(o, a, b, x) ==
    LET s == seqs[o] IN
    /\ ~acct
    /\ IF a >= b THEN Flow(seqs, {}, {}, {}, <<>>)
       ELSE /\ b <= Len(s)
            /\ Flow(With(o, [i \in 1..Len(s) |-> IF i > a /\ i <= b THEN x ELSE s[i]]), {}, {}, {}, <<>>)

Clear(o, D, B)       == Flow(With(o, <<>>), {}, B, {}, D)
Truncate(o, n, D, B) == Flow(With(o, Prefix(seqs[o], n)), {}, B, {}, D)
(* split_off-like bulk pop of the last n elements (MmapVec::pop_bulk_simd) *)
PopTail(o, n, r, D, B) ==
    LET s == seqs[o] IN
    /\ n <= Len(s) /\ r = SubSeq(s, Len(s) - n + 1, Len(s))
    /\ Flow(With(o, SubSeq(s, 1, Len(s) - n)), {}, B, Elems(r), D)
(* shrink_to_fit, reserve, a refused truncate/clear ...: whatever they return, the content stays *)
Maintenance(o, D, B) == Flow(seqs, {}, B, {}, D)

(* clone: a new object o2 whose elements are fresh clones carrying the same values, in order *)
Clone(o, o2, c, D, B) ==
    /\ o2 \notin DOMAIN seqs
    /\ SameVals(c, seqs[o])
    /\ IF acct THEN Elems(c) \subseteq B ELSE c = seqs[o]
    /\ Flow(With(o2, c), {}, B, {}, D)
(* copy the content of o2 into o (Copy element types) *)
Assign(o, o2) == ~acct /\ o2 \in DOMAIN seqs /\ Flow(With(o, seqs[o2]), {}, {}, {}, <<>>)

(* the container goes out of scope: everything still inside is destroyed, nothing else *)
DropContainer(o, D, B) == o \in DOMAIN seqs /\ Flow(Without(o), {}, B, {}, D)

(* ---- observation of one object after a call -------------------------------- *)
(* p = [len, c (as_slice), has_it, it (iteration), has_get, gets (get(0..len), the last one    *)
(*      out of range), cap, views (the content through every twin reader), alt_len, alt_cap]   *)
ObsSeq(s, p) ==
    /\ p.len = Len(s)
    /\ p.c = s
    /\ p.has_it => p.it = s
    /\ p.has_get => /\ Len(p.gets) = Len(s) + 1
                    /\ \A i \in 1..Len(p.gets) : p.gets[i] = (IF i <= Len(s) THEN Some(s[i]) ELSE None)
    /\ p.cap >= Len(s)
    (* every twin reader (as_mut_slice, iter_mut, raw pointer, get_unchecked, Index ...) shows the same *)
    /\ \A i \in 1..Len(p.views) : p.views[i] = s
    (* twins of len() (len_usize, stats().len, is_empty) and of capacity() *)
    /\ \A i \in 1..Len(p.alt_len) : p.alt_len[i] = Len(s)
    /\ \A i \in 1..Len(p.alt_cap) : p.alt_cap[i] = p.cap

(* ---- properties of the contract itself (checked by MC_Seq) ------------------ *)
OwnershipInv == acct => (alive = Contents(seqs) /\ Disjoint(seqs) /\ alive \subseteq ever)
=============================================================================
