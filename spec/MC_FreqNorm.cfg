SPECIFICATION FNSpec
CONSTANTS
  TOT = 8
  MaxSyms = 4
  MaxCount = 6
  Variant = "reserve"
INVARIANT FNTypeOK Conservation DonePresentHasSlot DoneSumIsTotal DoneNoPhantom
CHECK_DEADLOCK FALSE
