------------------------- MODULE Trace_Compressor -------------------------
(* Trace specification of property C02: replays a recorded execution of real        *)
(* zipora compressors through the actions of CompressorFraming.tla (one event = one *)
(* action) and judges the PA-Zip match codec / interpreter executions with the      *)
(* executable semantics of PaZipStream.tla.                                         *)
EXTENDS CompressorFraming, PaZipStream, TraceIO, Known_Compressor

VARIABLES l, subj, kf

vars == <<frames, epoch, created, l, subj, kf>>

TraceInit == FramingInit /\ l = 1 /\ subj = [subject |-> "none"] /\ kf = {}

(* encode_matches -> decode_matches / encode_match -> decode_match: encoding may be refused (operands *)
(* outside the format); an encoding that exists must decode to the same matches with every bit accounted *)
CodecOK(e) ==
    e.enc_ok => /\ e.dec_ok
                /\ e.dec = e.ms
                /\ e.bits_in = e.bits_out
                /\ (e.api = "matches" => e.buf_len = (e.bits_out + 7) \div 8)
                /\ (e.api = "match" => e.written = e.bits_out)

(* an interpreter of the match stream (a decompressor fed a well-formed stream): what it returns is *)
(* Apply of the stream; refusing is allowed *)
ApplyOK(e) == e.ok => e.out = Proj(Apply(e.ms, e.lits, e.dict))

(* what the harness logged about the choice compress made (coverage; read by the deviation guards) *)
Note(e) == [tag |-> e.tag, via |-> e.via, algo |-> IF Has(e, "algo") THEN e.algo ELSE "",
            fellback |-> IF Has(e, "fellback") THEN e.fellback ELSE FALSE,
            globals |-> IF Has(e, "globals") THEN e.globals ELSE 0]

Step(e) ==
    \/ e.op = "create"     /\ Create(e.ok)
    \/ e.op = "compress"   /\ Compress(e.id, e.x, e.ok, e.frame, Note(e))
    \/ e.op = "decompress" /\ Decompress(e.id, e.frame, e.ok, e.y)
    \/ e.op = "switch"     /\ Switch(e.ok)
    \/ e.op = "train"      /\ Train(e.ok)
    \/ e.op \in {"info", "batch"} /\ Info
    \/ e.op = "codec"      /\ CodecOK(e) /\ UNCHANGED fvars
    \/ e.op = "apply"      /\ ApplyOK(e) /\ UNCHANGED fvars
    (* no action for "panic" and "crash": a compressor that panics or kills the process is rejected *)

TraceNext ==
    /\ l <= Len(Rec)
    /\ l' = l + 1
    /\ LET e == Rec[l] IN
       IF e.op = "reset"
       THEN frames' = NoFrames /\ epoch' = 0 /\ created' = FALSE /\ subj' = e /\ kf' = kf
       ELSE /\ subj' = subj
            /\ IF UseKF /\ \E id \in KnownIds : DevApplies(id, e, subj)
               THEN LET id == CHOOSE i \in KnownIds : DevApplies(i, e, subj)
                    IN KnownDeviation(id, e, subj) /\ kf' = kf \cup {id}
               ELSE Step(e) /\ kf' = kf

TraceSpec == TraceInit /\ [][TraceNext]_vars

(* reported only on a path that consumed the whole trace *)
Done == l = Len(Rec) + 1 => PrintT(<<"KFSET", kf>>)
=============================================================================
