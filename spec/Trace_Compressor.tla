------------------------- MODULE Trace_Compressor -------------------------
(* Trace specification of property C02: replays a recorded execution of real        *)
(* zipora compressors through the actions of CompressorFraming.tla (one event = one *)
(* action) and judges the PA-Zip match codec / interpreter executions with the      *)
(* executable semantics of PaZipStream.tla.                                         *)
EXTENDS CompressorFraming, PaZipStream, TraceIO, Known_Compressor

VARIABLES l, subj, kf

vars == <<frames, epoch, created, l, subj, kf>>

TraceInit == FramingInit /\ l = 1 /\ subj = [subject |-> "none"] /\ kf = {}

(* encode_matches -> decode_matches / encode_match -> decode_match: encoding may be refused (operands *)
(* outside the format); an encoding that exists must decode to the same matches with every bit accounted *)
CodecOK(e) ==
    e.enc_ok => /\ e.dec_ok
                /\ e.dec = e.ms
                /\ e.bits_in = e.bits_out
                /\ (e.api = "matches" => e.buf_len = (e.bits_out + 7) \div 8)
                /\ (e.api = "match" => e.written = e.bits_out)

(* an interpreter of the match stream (a decompressor fed a well-formed stream): what it returns is *)
(* Apply of the stream; refusing is allowed *)
ApplyOK(e) == e.ok => e.out = Proj(Apply(e.ms, e.lits, e.dict))

(* BitWriter::write_bits -> finish -> BitReader::read_bits: every value comes back masked to its width,  *)
(* bits_written / bit_position account for every bit, less than a byte of padding remains (values < 2^31)    *)
WidthSum(ws) == FoldLeft(LAMBDA a, q : a + q[2], 0, ws)
MaskTo(v, w) == IF w >= 31 THEN v ELSE v % (2 ^ w)
BitsOK(e) ==
    e.ok => /\ e.written = WidthSum(e.ws)
            /\ e.buf_len = (WidthSum(e.ws) + 7) \div 8
            /\ Len(e.rd) = Len(e.ws)
            /\ \A i \in 1..Len(e.ws) : e.rd[i] = MaskTo(e.ws[i][1], e.ws[i][2])
            /\ e.pos = WidthSum(e.ws)
            /\ ~e.tail8

(* Match::literal / global / rle / near_short / ...: a constructor that accepts returns the operands given *)
CtorOK(e) == e.ok => e.got = e.m

(* the kind selectors (get_encoding_meta, choose_best_compression_type_reference and                        *)
(* reference_encoding::get_back_ref_encoding_meta are twins and agree;                                       *)
(* choose_best_compression_type agrees where it answers through the reference logic); WHICH kind is chosen *)
(* is not constrained, but a match of the chosen kind that the constructor accepts has the operands asked   *)
(* for and is supported by its kind                                                                          *)
ChooseOK(e) ==
    /\ e.k_meta = e.k_ref /\ e.k_back = e.k_ref
    /\ (e.len >= 1 /\ (e.d >= 1 \/ e.len = 1)) => e.k_legacy = <<e.k_ref>>
    /\ e.ctor_ok => /\ e.got.k = e.k_ref /\ e.got.len = e.len
                    /\ (IsCopy(e.got) => e.got.d = e.d)
                    /\ e.supports

(* ReferenceEncoder::encode_*: the bytes written, read back by RefDecodeOne, are the match asked for *)
RefEncOK(e) ==
    e.ok => IF e.kind = "lit"
            THEN LET r == RefApply(e.bytes, <<>>) IN r.ok /\ r.out = e.data
            ELSE LET r == RefDecodeOne(e.bytes, 0) IN
                 /\ r.ok /\ r.p = Len(e.bytes)
                 /\ r.m.k = e.kind /\ r.m.len = e.len
                 /\ (e.kind = "glob" => r.m.pos = e.pos)
                 /\ (e.kind # "glob" => r.m.d = e.d)

(* compress_record_reference: the record it wrote decodes (by the reader of this specification) to the payload *)
RefRecOK(e) == e.ok => LET r == RefApply(e.frame, e.dict) IN r.ok /\ r.out = e.x

(* SuffixArrayDictionary::find_longest_match / find_all_matches: a match that is reported lies inside the     *)
(* dictionary and its bytes are the bytes of the pattern (projected to digests by the harness)                 *)
GMatchOK(e) ==
    \A i \in 1..Len(e.probes) :
        LET q == e.probes[i] IN q.found => /\ q.inb /\ q.mlen >= 1 /\ q.mlen <= q.plen /\ q.dslice = q.ppre

(* a dictionary that was serialised / saved and read back has the text it had *)
ReloadOK(e) == e.ok => e.text = e.orig

(* what the harness logged about the choice compress made (coverage; read by the deviation guards) *)
Note(e) == [tag |-> e.tag, via |-> e.via, algo |-> IF Has(e, "algo") THEN e.algo ELSE "",
            fellback |-> IF Has(e, "fellback") THEN e.fellback ELSE FALSE,
            globals |-> IF Has(e, "globals") THEN e.globals ELSE 0]

Step(e) ==
    \/ e.op = "create"     /\ Create(e.ok)
    \/ e.op = "compress"   /\ Compress(e.id, e.x, e.ok, e.frame, Note(e))
    \/ e.op = "decompress" /\ Decompress(e.id, e.frame, e.ok, e.y)
    \/ e.op = "switch"     /\ Switch(e.ok)
    \/ e.op = "train"      /\ Train(e.ok)
    \/ e.op \in {"info", "batch"} /\ Info
    \/ e.op = "codec"      /\ CodecOK(e) /\ UNCHANGED fvars
    \/ e.op = "apply"      /\ ApplyOK(e) /\ UNCHANGED fvars
    \/ e.op = "bits"       /\ BitsOK(e) /\ UNCHANGED fvars
    \/ e.op = "ctor"       /\ CtorOK(e) /\ UNCHANGED fvars
    \/ e.op = "choose"     /\ ChooseOK(e) /\ UNCHANGED fvars
    \/ e.op = "refenc"     /\ RefEncOK(e) /\ UNCHANGED fvars
    \/ e.op = "refrec"     /\ RefRecOK(e) /\ UNCHANGED fvars
    \/ e.op = "gmatch"     /\ GMatchOK(e) /\ UNCHANGED fvars
    \/ e.op = "reload"     /\ ReloadOK(e) /\ UNCHANGED fvars
    (* no action for "panic" and "crash": a compressor that panics or kills the process is rejected *)

TraceNext ==
    /\ l <= Len(Rec)
    /\ l' = l + 1
    /\ LET e == Rec[l] IN
       IF e.op = "reset"
       THEN frames' = NoFrames /\ epoch' = 0 /\ created' = FALSE /\ subj' = e /\ kf' = kf
       ELSE /\ subj' = subj
            /\ IF UseKF /\ \E id \in KnownIds : DevApplies(id, e, subj)
               THEN LET id == CHOOSE i \in KnownIds : DevApplies(i, e, subj)
                    IN KnownDeviation(id, e, subj) /\ kf' = kf \cup {id}
               ELSE Step(e) /\ kf' = kf

TraceSpec == TraceInit /\ [][TraceNext]_vars

(* reported only on a path that consumed the whole trace *)
Done == l = Len(Rec) + 1 => PrintT(<<"KFSET", kf>>)
=============================================================================
