SPECIFICATION PCSpec
CONSTANTS
  HMaxSyms = 4
  HMaxCount = 2
  Strategy = "any"
INVARIANT NodeCodesPrefixFree WeightConserved DoneCodesOK DoneComplete DoneKraftFormsAgree
CHECK_DEADLOCK FALSE
