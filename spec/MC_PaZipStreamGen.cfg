SPECIFICATION GenSpec
CONSTANTS
  LoopBits = 3
INVARIANT Emit
CHECK_DEADLOCK FALSE
