-------------------------- MODULE WorkStealingMech --------------------------
(* Mechanism-level model of concurrency/work_stealing.rs: per-worker local and      *)
(* steal queues, a global overflow queue, submit (round robin), find_task (the       *)
(* queues a worker polls, in the order the code polls them), steal, balance.         *)
(* Each action is atomic because the code performs it under the queue's mutex.       *)
(*                                                                                   *)
(* PollOwnSteal = FALSE is find_task of the pinned tree: a worker polls its local     *)
(* queue, the global queue and the OTHER workers' queues - never its own steal queue. *)
(* PollOwnSteal = TRUE is the repaired find_task.                                     *)
EXTENDS Naturals, Sequences, FiniteSets, TLC

CONSTANTS Workers,       \* 1..N
          Tasks,         \* set of task ids
          Cap,           \* local queue capacity
          Prio,          \* function task -> priority
          Stealable,     \* function task -> BOOLEAN
          PollOwnSteal

VARIABLES local, steal, global, running, done, submitted, nextw

vars == <<local, steal, global, running, done, submitted, nextw>>
N == Cardinality(Workers)

Init == /\ local = [w \in Workers |-> <<>>] /\ steal = [w \in Workers |-> <<>>]
        /\ global = <<>> /\ running = [w \in Workers |-> 0] /\ done = {}
        /\ submitted = {} /\ nextw = 0

(* priority insert: before the first element of lower priority (FIFO among equals) *)
InsPos(q, t) == IF \E i \in 1..Len(q) : Prio[q[i]] < Prio[t]
                THEN CHOOSE i \in 1..Len(q) : Prio[q[i]] < Prio[t] /\ \A j \in 1..(i-1) : Prio[q[j]] >= Prio[t]
                ELSE Len(q) + 1
Ins(q, t) == LET p == InsPos(q, t) IN SubSeq(q, 1, p - 1) \o <<t>> \o SubSeq(q, p, Len(q))
RemoveAt(q, i) == SubSeq(q, 1, i - 1) \o SubSeq(q, i + 1, Len(q))

Submit(t) ==
    /\ t \notin submitted
    /\ LET w == (nextw % N) + 1 IN
       /\ nextw' = nextw + 1
       /\ submitted' = submitted \cup {t}
       /\ IF Len(local[w]) < Cap
          THEN local' = [local EXCEPT ![w] = Ins(@, t)] /\ UNCHANGED global
          ELSE global' = Ins(global, t) /\ UNCHANGED local
    /\ UNCHANGED <<steal, running, done>>

Idle(w) == running[w] = 0

PopLocal(w) ==
    /\ Idle(w) /\ local[w] /= <<>>
    /\ running' = [running EXCEPT ![w] = Head(local[w])]
    /\ local' = [local EXCEPT ![w] = Tail(@)]
    /\ UNCHANGED <<steal, global, done, submitted, nextw>>

PopGlobal(w) ==
    /\ Idle(w) /\ local[w] = <<>> /\ global /= <<>>
    /\ running' = [running EXCEPT ![w] = Head(global)]
    /\ global' = Tail(global)
    /\ UNCHANGED <<local, steal, done, submitted, nextw>>

(* WorkStealingQueue::steal of victim v: its steal queue first, else the last stealable task of its  *)
(* local queue provided that queue holds more than one task                                           *)
StealFrom(w, v) ==
    /\ Idle(w) /\ local[w] = <<>>
    /\ IF steal[v] /= <<>>
       THEN /\ running' = [running EXCEPT ![w] = Head(steal[v])]
            /\ steal' = [steal EXCEPT ![v] = Tail(@)]
            /\ UNCHANGED local
       ELSE /\ Len(local[v]) > 1
            /\ \E i \in 1..Len(local[v]) : Stealable[local[v][i]]
            /\ LET i == CHOOSE i \in 1..Len(local[v]) :
                          Stealable[local[v][i]] /\ \A j \in (i+1)..Len(local[v]) : ~Stealable[local[v][j]]
               IN /\ running' = [running EXCEPT ![w] = local[v][i]]
                  /\ local' = [local EXCEPT ![v] = RemoveAt(@, i)]
            /\ UNCHANGED steal
    /\ UNCHANGED <<global, done, submitted, nextw>>

Steal(w) == \E v \in Workers \ {w} : StealFrom(w, v)
(* the repair: a worker whose local queue is empty also drains its own steal queue *)
OwnSteal(w) == PollOwnSteal /\ StealFrom(w, w)

(* balance(): move up to (local-steal)/2 tasks from the back of local to the steal queue, stop at *)
(* the first non-stealable one.  Runs whenever total_executed is a multiple of 100, which includes *)
(* a fresh executor: modelled as always enabled.                                                    *)
RECURSIVE Move(_, _, _)
Move(lq, sq, k) == IF k = 0 \/ lq = <<>> THEN <<lq, sq>>
                   ELSE LET t == lq[Len(lq)] IN
                        IF Stealable[t] THEN Move(SubSeq(lq, 1, Len(lq) - 1), Append(sq, t), k - 1)
                        ELSE <<lq, sq>>
Balance(w) ==
    /\ Len(local[w]) > Len(steal[w]) + 1
    /\ LET r == Move(local[w], steal[w], (Len(local[w]) - Len(steal[w])) \div 2) IN
       /\ local' = [local EXCEPT ![w] = r[1]]
       /\ steal' = [steal EXCEPT ![w] = r[2]]
    /\ UNCHANGED <<global, running, done, submitted, nextw>>

Finish(w) ==
    /\ running[w] /= 0
    /\ done' = done \cup {running[w]}
    /\ running' = [running EXCEPT ![w] = 0]
    /\ UNCHANGED <<local, steal, global, submitted, nextw>>

WorkerStep(w) == PopLocal(w) \/ PopGlobal(w) \/ Steal(w) \/ OwnSteal(w) \/ Finish(w)
Next == (\E t \in Tasks : Submit(t)) \/ (\E w \in Workers : WorkerStep(w) \/ Balance(w))

Spec == Init /\ [][Next]_vars /\ \A w \in Workers : WF_vars(WorkerStep(w))

(* ---- properties ---- *)
Range(q) == { q[i] : i \in 1..Len(q) }
Queued == UNION ({ Range(local[w]) : w \in Workers } \cup { Range(steal[w]) : w \in Workers } \cup { Range(global) })
Running == { running[w] : w \in Workers } \ {0}
(* every submitted task is in exactly one place (never duplicated, never lost) *)
Conservation ==
    /\ submitted = Queued \cup Running \cup done
    /\ Queued \cap Running = {} /\ Queued \cap done = {} /\ Running \cap done = {}
    /\ \A w \in Workers : Len(local[w]) = Cardinality(Range(local[w])) /\ Len(steal[w]) = Cardinality(Range(steal[w]))
    /\ \A w, v \in Workers : /\ (w /= v => Range(local[w]) \cap Range(local[v]) = {})
                             /\ Range(local[w]) \cap Range(steal[v]) = {}
                             /\ (w /= v => (running[w] = 0 \/ running[w] /= running[v]))
(* every submitted task is eventually executed *)
EventuallyDone == \A t \in Tasks : (t \in submitted) ~> (t \in done)
=============================================================================
