SPECIFICATION Spec
CONSTANTS
  P = 1
  Tagged = FALSE
  BumpHook = FALSE
  NB = 4
  InitFree <- MCInitFree
  Threads <- MCThreads
  Prog <- MCProg
VIEW view
INVARIANT ExclusiveOwnership ListWellFormed NoLoss
CHECK_DEADLOCK FALSE
