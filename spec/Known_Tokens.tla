---------------------------- MODULE Known_Tokens ----------------------------
(* Named deviation actions for the recorded known findings of property C16.      *)
EXTENDS Tokens, TLC

KnownIds == {"C16-KF1"}

(* C16-KF1: a token holds a raw pointer to the VersionManager that issued it.  When the   *)
(* manager is destroyed while one of its tokens is still alive (held, or parked in the    *)
(* per-thread cache), the later release runs against the destroyed manager.               *)
(* Trigger: a release callback whose address is that of a manager already dropped, in a   *)
(* history that drops managers with tokens outstanding.                                   *)
G1(e, subj) == /\ subj.fam = "tm" /\ subj.variant = "unsafe_drops"
               /\ e.op = "release_cb"
               /\ \E m \in DOMAIN mgrs : mgrs[m].addr = e.addr /\ ~mgrs[m].alive
               /\ ~(\E m \in DOMAIN mgrs : mgrs[m].addr = e.addr /\ mgrs[m].alive)
KF1(e, subj) == G1(e, subj) /\ UNCHANGED <<live, mgrs, freed, lfl, pend>>

DevApplies(id, e, subj) == id = "C16-KF1" /\ G1(e, subj)
KnownDeviation(id, e, subj) == id = "C16-KF1" /\ KF1(e, subj)
=============================================================================
