SPECIFICATION Spec
CONSTANTS
  P = 4
  Fixed = FALSE
  OneWriterMode = FALSE
  Threads <- MCThreads
  Prog <- MCProg
VIEW view
INVARIANT CountsMatch
CHECK_DEADLOCK FALSE
