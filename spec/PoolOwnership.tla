---------------------------- MODULE PoolOwnership ----------------------------
(* Contract of concurrent use of one thread-safe pool (property C08).             *)
(*                                                                                 *)
(* A block (identified by its address / offset) is OWNED by thread t from the      *)
(* moment allocate returned it to t until the moment t starts freeing it.          *)
(* At any instant a block has at most one owner; a freed block becomes available   *)
(* again exactly once; internal list nodes are never dereferenced after they were  *)
(* freed; at quiescence nothing is lost and the pool's counters add up.            *)
(*                                                                                 *)
(* Every way to obtain blocks (allocate, allocate_with_hint, allocate_bulk_*,      *)
(* a PooledBuffer of a global pool ...) is an Alloc of this contract, every way to *)
(* give them back (deallocate, deallocate_with_zero, dropping a RAII guard) is a   *)
(* Free: twins share the action of their sibling.                                  *)
EXTENDS Naturals, Sequences, FiniteSets

VARIABLES owner,     \* function address -> owning thread (domain = blocks currently owned)
          seen,      \* every address ever handed out (and not given back to the system by clear)
          nodes,     \* heap nodes of an internal list that currently exist (boxed Treiber stack)
          big,       \* addresses handed out in a size class above the pool's free-list threshold (huge / skip-list sizes)
          ext,       \* function on the owned addresses: the bytes the owner was promised, <<hi, lo, len>> with
                     \* start = hi * 2^24 + lo (addresses do not fit TLC's integers) and len bytes
          cnt        \* what the users did: na successful allocations, nr refused ones, nf frees,
                     \* nfbig frees of non-recycled blocks, maxlive = most blocks owned at one instant
pvars == <<owner, seen, nodes, big, ext, cnt>>

ZeroCnt == [na |-> 0, nr |-> 0, nf |-> 0, nfbig |-> 0, maxlive |-> 0]
PoReset == owner = [x \in {} |-> 0] /\ ext = [x \in {} |-> 0] /\ seen = {} /\ nodes = {} /\ big = {} /\ cnt = ZeroCnt
PoResetNext == owner' = [x \in {} |-> 0] /\ ext' = [x \in {} |-> 0] /\ seen' = {} /\ nodes' = {} /\ big' = {} /\ cnt' = ZeroCnt
PoInit == PoReset

Range(s) == { s[i] : i \in 1..Len(s) }
Max(a, b) == IF a >= b THEN a ELSE b
Live == Cardinality(DOMAIN owner)

(* ---- byte ranges: two blocks owned at the same time have disjoint ranges [start, start + len) ---- *)
W == 16777216
Norm(h, l) == IF l >= W THEN <<h + 1, l - W>> ELSE <<h, l>>
End(r) == Norm(r[1], r[2] + r[3])                      \* len < 2^24
Less(p, q) == p[1] < q[1] \/ (p[1] = q[1] /\ p[2] < q[2])
Leq(p, q) == ~Less(q, p)
Disjoint(r, q) == r[3] = 0 \/ q[3] = 0 \/ Leq(End(r), <<q[1], q[2]>>) \/ Leq(End(q), <<r[1], r[2]>>)
(* the owned blocks a new block r would share bytes with *)
Conflicts(r) == { x \in DOMAIN owner : ~Disjoint(ext[x], r) }

(* one call returned the addresses `addrs` to thread t (rcs[i]: block i belongs to a class the   *)
(* pool recycles).  Nobody may own any of them, they are pairwise distinct, and a pool of fixed   *)
(* capacity cap (0 = not fixed) never has more than cap blocks out at one instant.                *)
AllocBulkOk(t, addrs, rcs, cap, rs) ==
    LET S == Range(addrs) IN
    /\ Len(addrs) = Cardinality(S) /\ Len(rs) = Len(addrs)
    /\ S \cap DOMAIN owner = {}
    /\ \A i \in 1..Len(rs) : Conflicts(rs[i]) = {}
    /\ \A i, j \in 1..Len(rs) : i < j => Disjoint(rs[i], rs[j])
    /\ ext' = [x \in DOMAIN owner \cup S |-> IF x \in S THEN rs[CHOOSE i \in 1..Len(addrs) : addrs[i] = x] ELSE ext[x]]
    /\ cap > 0 => Live + Len(addrs) <= cap
    /\ owner' = [x \in DOMAIN owner \cup S |-> IF x \in S THEN t ELSE owner[x]]
    /\ seen' = seen \cup S
    /\ big' = big \cup { addrs[i] : i \in { j \in 1..Len(addrs) : ~rcs[j] } }
    /\ cnt' = [cnt EXCEPT !.na = @ + Len(addrs), !.maxlive = Max(@, Live + Len(addrs))]
    /\ UNCHANGED nodes
(* allocate returned address a to thread t *)
AllocOk(t, a, rc, cap, r) == AllocBulkOk(t, <<a>>, <<rc>>, cap, <<r>>)
(* allocate refused (pool exhausted, retries exceeded): always acceptable *)
AllocRefused(t) == cnt' = [cnt EXCEPT !.nr = @ + 1] /\ UNCHANGED <<owner, seen, nodes, big, ext>>
(* thread t starts freeing a: it must own it, and the bytes it wrote into the block are still there *)
(* (intact: the owner filled the whole block when it got it and compared it just before this call) *)
FreeStart(t, a, intact) ==
    /\ a \in DOMAIN owner /\ owner[a] = t
    /\ intact
    /\ owner' = [x \in DOMAIN owner \ {a} |-> owner[x]]
    /\ ext' = [x \in DOMAIN owner \ {a} |-> ext[x]]
    /\ cnt' = [cnt EXCEPT !.nf = @ + 1, !.nfbig = @ + (IF a \in big THEN 1 ELSE 0)]
    /\ UNCHANGED <<seen, nodes, big>>
(* the free call returned: freeing a block one owns must succeed *)
FreeDone(t, ok) == ok /\ UNCHANGED pvars

(* clear() returned: the pool gave its cached free blocks back to the system.  Blocks owned at    *)
(* that moment are untouched (they are still expected back after their free); the others need not  *)
(* come out of the pool again.                                                                      *)
ClearDone(ok) == IF ok THEN seen' = DOMAIN owner /\ UNCHANGED <<owner, nodes, big, ext, cnt>>
                       ELSE UNCHANGED pvars
(* validate() of the pool / of an owned block: the structures are well formed *)
Validate(ok) == ok /\ UNCHANGED pvars

(* internal list nodes (hook sites tb.push.alloc / tb.pop.freed / tb.pop.next) *)
NodeAlloc(n) == nodes' = nodes \cup {n} /\ UNCHANGED <<owner, seen, big, ext, cnt>>
NodeFree(n) == n \in nodes /\ nodes' = nodes \ {n} /\ UNCHANGED <<owner, seen, big, ext, cnt>>
(* NoDanglingDeref: a node is dereferenced only while it exists *)
NodeDeref(n) == n \in nodes /\ UNCHANGED pvars

(* quiescence: every thread finished and freed what it held; the harness then drains the pool   *)
(* by allocating `drained` (a sequence of addresses).  Nothing is owned, no address comes out    *)
(* twice, (pools that recycle every freed block through one shared structure) every block ever  *)
(* handed out comes out again: none was lost, and a pool of fixed capacity does not hold more    *)
(* blocks than its capacity.                                                                     *)
DrainOf(expected, drained, recycles, cap) ==
    /\ DOMAIN owner = {}
    /\ Len(drained) = Cardinality(Range(drained))
    /\ recycles => expected \subseteq Range(drained)
    /\ cap > 0 => Len(drained) <= cap
    /\ UNCHANGED pvars
Drain(drained, recycles, cap) == DrainOf(seen, drained, recycles, cap)

(* counters reported by the pool once all threads have finished; c is a record, every pool      *)
(* reports the fields it has:                                                                    *)
(*   allocs, deallocs   operations served: allocs - deallocs = blocks still owned, and every     *)
(*                      free was counted once                                                    *)
(*   active, peak       blocks out now / most blocks out at one instant                          *)
(*   hits, misses       every allocation is one or the other                                     *)
(*   dfree, corrupt     double frees / corruptions the pool believes it saw: nobody did that      *)
(*   used, frag         bytes carved from the arena / bytes on the free lists (five-level pools): *)
(*                      equal when nothing is owned                                               *)
(*   hugefrees          frees of non-recycled (huge / skip-list) blocks                           *)
(*   pushes, pops       free-list operations (LockFreeMemoryPool fast bins): what was pushed and  *)
(*                      not popped are the recycled blocks nobody owns                            *)
(*   allocated, csz, chunks   bytes held from the system = chunk size * (cached + owned chunks)   *)
(*   availb, totalb, bsz, hascap   capacity in bytes still available / in total, bytes one block  *)
(*                      accounts for, has_capacity(): what is not out is available                *)
F(c, f) == f \in DOMAIN c
Counters(c, cap) ==
    /\ (F(c, "allocs") /\ F(c, "deallocs")) =>
          /\ c.allocs >= c.deallocs
          /\ c.allocs - c.deallocs = Live
          /\ c.deallocs = cnt.nf
    /\ F(c, "active") => c.active = Live
    /\ F(c, "peak") => cnt.maxlive <= c.peak /\ (cap > 0 => c.peak <= cap)
    /\ (F(c, "hits") /\ F(c, "misses") /\ F(c, "allocs")) => c.hits + c.misses = c.allocs
    /\ F(c, "dfree") => c.dfree = 0
    /\ F(c, "corrupt") => c.corrupt = 0
    /\ (F(c, "used") /\ F(c, "frag")) => (Live = 0 => c.used = c.frag)
    /\ F(c, "hugefrees") => c.hugefrees = cnt.nfbig
    /\ (F(c, "pushes") /\ F(c, "pops")) =>
          /\ c.pushes >= c.pops
          /\ c.pushes - c.pops + Cardinality(DOMAIN owner \ big) = Cardinality(seen \ big)
    /\ (F(c, "allocated") /\ F(c, "csz") /\ F(c, "chunks")) => c.allocated = c.csz * (c.chunks + Live)
    /\ (F(c, "availb") /\ F(c, "totalb") /\ F(c, "bsz")) => c.availb + Live * c.bsz = c.totalb
    /\ F(c, "hascap") => ((cap > 0 /\ Live < cap) => c.hascap)
    /\ UNCHANGED pvars
=============================================================================
