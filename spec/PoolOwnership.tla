---------------------------- MODULE PoolOwnership ----------------------------
(* Contract of concurrent use of one thread-safe pool (property C08).             *)
(*                                                                                 *)
(* A block (identified by its address / offset) is OWNED by thread t from the      *)
(* moment allocate returned it to t until the moment t starts freeing it.          *)
(* At any instant a block has at most one owner; a freed block becomes available   *)
(* again exactly once; internal list nodes are never dereferenced after they were  *)
(* freed; at quiescence nothing is lost and the pool's counters add up.            *)
EXTENDS Naturals, Sequences, FiniteSets

VARIABLES owner,     \* function address -> owning thread (domain = blocks currently owned)
          seen,      \* every address ever handed out
          nodes      \* heap nodes of an internal list that currently exist (boxed Treiber stack)

PoInit == owner = [x \in {} |-> 0] /\ seen = {} /\ nodes = {}

(* allocate returned address a to thread t: nobody may own a *)
AllocOk(t, a) ==
    /\ a \notin DOMAIN owner
    /\ owner' = [x \in DOMAIN owner \cup {a} |-> IF x = a THEN t ELSE owner[x]]
    /\ seen' = seen \cup {a}
    /\ UNCHANGED nodes
(* allocate refused (pool exhausted, retries exceeded): always acceptable *)
AllocRefused(t) == UNCHANGED <<owner, seen, nodes>>
(* thread t starts freeing a: it must own it *)
FreeStart(t, a) ==
    /\ a \in DOMAIN owner /\ owner[a] = t
    /\ owner' = [x \in DOMAIN owner \ {a} |-> owner[x]]
    /\ UNCHANGED <<seen, nodes>>
(* the free call returned: freeing a block one owns must succeed *)
FreeDone(t, ok) == ok /\ UNCHANGED <<owner, seen, nodes>>

(* internal list nodes (hook sites tb.push.alloc / tb.pop.freed / tb.pop.next) *)
NodeAlloc(n) == nodes' = nodes \cup {n} /\ UNCHANGED <<owner, seen>>
NodeFree(n) == n \in nodes /\ nodes' = nodes \ {n} /\ UNCHANGED <<owner, seen>>
(* NoDanglingDeref: a node is dereferenced only while it exists *)
NodeDeref(n) == n \in nodes /\ UNCHANGED <<owner, seen, nodes>>

(* quiescence: every thread finished and freed what it held; the harness then drains the pool   *)
(* by allocating `drained` (a sequence of addresses).  Nothing is owned, no address comes out    *)
(* twice, and (pools that recycle every freed block through one shared structure) every block    *)
(* ever handed out comes out again: none was lost.                                               *)
Range(s) == { s[i] : i \in 1..Len(s) }
Drain(drained, recycles) ==
    /\ DOMAIN owner = {}
    /\ Len(drained) = Cardinality(Range(drained))
    /\ recycles => seen \subseteq Range(drained)
    /\ UNCHANGED <<owner, seen, nodes>>
(* counters reported by the pool at quiescence: allocations - deallocations = blocks still owned *)
Counters(allocs, deallocs) ==
    /\ allocs >= deallocs
    /\ allocs - deallocs = Cardinality(DOMAIN owner)
    /\ UNCHANGED <<owner, seen, nodes>>
=============================================================================
