----------------------------- MODULE LruListMech -----------------------------
(* Mechanism-level model of zipora's LruMap (src/containers/specialized/lru_map.rs),     *)
(* written like the code: a key -> node index, a dense node array with intrusive         *)
(* prev/next links (0 = INVALID_NODE), head (most recent) / tail (least recent) / count   *)
(* of LruList, and the free-node stack.  One action per public method, the steps in the   *)
(* order of the code (evict_lru before allocate_node, callback before unlinking ...).     *)
(*                                                                                       *)
(* TLC checks that it REFINES the contract Lru.tla: the abstraction Abs(m) (walk the list *)
(* from head) is a well-formed LRU record and every method call is the contract operation *)
(* on it with the same result and the same callback log - or a refusal that changes       *)
(* nothing (Refines).  ClearAsInCode = TRUE reproduces clear() of the pinned tree, which  *)
(* rebuilds the free list from the nodes that were IN USE only: nodes that were free are  *)
(* lost (NoLostNodes fails) and put is later refused although there is room               *)
(* (NoSpuriousRefusal fails).  ClearAsInCode = FALSE is the repaired clear().             *)
EXTENDS Lru, TLC

CONSTANTS Keys, Vals, Cap, ClearAsInCode

VARIABLES m,      \* the data structure
          op      \* ghost: the latest call  [name, k, v, r, cb, refused] and the abstract state before it

Nodes == 1..Cap
NoKey == "none"

MInit ==
    m = [index |-> EmptyFn,
         nkey  |-> [i \in Nodes |-> NoKey], nval |-> [i \in Nodes |-> NoKey], valid |-> [i \in Nodes |-> FALSE],
         prev  |-> [i \in Nodes |-> 0], next |-> [i \in Nodes |-> 0],
         head  |-> 0, tail |-> 0, count |-> 0,
         free  |-> [i \in 1..Cap |-> i]]          \* free_nodes.push(i) for i in 0..capacity; pop takes the last

\* ---- LruList
ListRemove(M, i) ==
    LET p == M.prev[i]
        n == M.next[i]
        next1 == IF p /= 0 THEN [M.next EXCEPT ![p] = n] ELSE M.next
        head1 == IF p /= 0 THEN M.head ELSE n
        prev1 == IF n /= 0 THEN [M.prev EXCEPT ![n] = p] ELSE M.prev
        tail1 == IF n /= 0 THEN M.tail ELSE p
    IN [M EXCEPT !.next = [next1 EXCEPT ![i] = 0], !.prev = [prev1 EXCEPT ![i] = 0],
                 !.head = head1, !.tail = tail1, !.count = M.count - 1]
InsertHead(M, i) ==
    LET old == M.head
        prev1 == [M.prev EXCEPT ![i] = 0]
    IN [M EXCEPT !.next = [M.next EXCEPT ![i] = old],
                 !.prev = IF old /= 0 THEN [prev1 EXCEPT ![old] = i] ELSE prev1,
                 !.tail = IF old /= 0 THEN M.tail ELSE i,
                 !.head = i, !.count = M.count + 1]
MoveToHead(M, i) == IF M.head = i THEN M ELSE InsertHead(ListRemove(M, i), i)

ResetNode(M, i) == [M EXCEPT !.valid = [M.valid EXCEPT ![i] = FALSE], !.prev = [M.prev EXCEPT ![i] = 0], !.next = [M.next EXCEPT ![i] = 0]]
Push(M, i) == [M EXCEPT !.free = Append(M.free, i)]
IdxDel(M, k) == [M EXCEPT !.index = [x \in DOMAIN M.index \ {k} |-> M.index[x]]]
IdxPut(M, k, i) == [M EXCEPT !.index = [x \in DOMAIN M.index \cup {k} |-> IF x = k THEN i ELSE M.index[x]]]

\* ---- abstraction: walk the list from head
RECURSIVE Walk(_, _, _)
Walk(M, i, fuel) == IF i = 0 \/ fuel = 0 THEN <<>> ELSE <<i>> \o Walk(M, M.next[i], fuel - 1)
NodeSeq(M) == Walk(M, M.head, Cap + 1)
Abs(M) == LET ns == NodeSeq(M) IN
          [order |-> [j \in 1..Len(ns) |-> M.nkey[ns[j]]],
           val   |-> [k \in { M.nkey[ns[j]] : j \in 1..Len(ns) } |-> M.nval[CHOOSE i \in SeqRange(ns) : M.nkey[i] = k]],
           cap   |-> Cap]

Call(name, k, v, r, cb, refused) == op' = [name |-> name, k |-> k, v |-> v, r |-> r, cb |-> cb, refused |-> refused, before |-> Abs(m)]

\* ---- get
MGet(k) ==
    IF k \notin DOMAIN m.index \/ ~m.valid[m.index[k]]
    THEN m' = m /\ Call("get", k, NoKey, None, <<>>, FALSE)
    ELSE LET i == m.index[k] IN
         /\ m' = MoveToHead(m, i)
         /\ Call("get", k, NoKey, Some(m.nval[i]), <<>>, FALSE)

\* ---- put
EvictLru(M) ==      \* returns [ok, M, cb]
    LET i == M.tail IN
    IF i = 0 \/ ~M.valid[i] THEN [ok |-> FALSE, M |-> M, cb |-> <<>>]
    ELSE [ok |-> TRUE,
          cb |-> << <<M.nkey[i], M.nval[i]>> >>,                       \* eviction_callback.on_evict(&key, &value)
          M  |-> Push(ResetNode(ListRemove(IdxDel(M, M.nkey[i]), i), i), i)]
MPut(k, v) ==
    IF k \in DOMAIN m.index /\ m.valid[m.index[k]]
    THEN LET i == m.index[k] IN
         /\ m' = MoveToHead([m EXCEPT !.nval = [m.nval EXCEPT ![i] = v]], i)
         /\ Call("put", k, v, Some(m.nval[i]), <<>>, FALSE)
    ELSE LET ev == IF m.count >= Cap THEN EvictLru(m) ELSE [ok |-> TRUE, M |-> m, cb |-> <<>>] IN
         IF ~ev.ok THEN m' = m /\ Call("put", k, v, None, <<>>, TRUE)                  \* evict_lru()? failed
         ELSE IF ev.M.free = <<>> THEN m' = ev.M /\ Call("put", k, v, None, ev.cb, TRUE)  \* allocate_node()? failed
         ELSE LET i == ev.M.free[Len(ev.M.free)]
                  M1 == [ev.M EXCEPT !.free = SubSeq(ev.M.free, 1, Len(ev.M.free) - 1),
                                     !.nkey = [ev.M.nkey EXCEPT ![i] = k], !.nval = [ev.M.nval EXCEPT ![i] = v],
                                     !.valid = [ev.M.valid EXCEPT ![i] = TRUE]]
              IN /\ m' = IdxPut(InsertHead(M1, i), k, i)
                 /\ Call("put", k, v, None, ev.cb, FALSE)

\* ---- remove
MRemove(k) ==
    IF k \notin DOMAIN m.index THEN m' = m /\ Call("remove", k, NoKey, None, <<>>, FALSE)
    ELSE LET i == m.index[k]
             M0 == IdxDel(m, k)
         IN IF ~m.valid[i] THEN m' = M0 /\ Call("remove", k, NoKey, None, <<>>, FALSE)
            ELSE /\ m' = Push(ResetNode(ListRemove(M0, i), i), i)
                 /\ Call("remove", k, NoKey, Some(m.nval[i]), <<>>, FALSE)

\* ---- clear
RECURSIVE Sweep(_, _, _)
Sweep(valid, i, acc) ==     \* for (i, node) in nodes.iter_mut().enumerate() { if node.is_valid { free_nodes.push(i) } }
    IF i > Cap THEN acc ELSE Sweep(valid, i + 1, IF valid[i] \/ ~ClearAsInCode THEN Append(acc, i) ELSE acc)
MClear ==
    /\ m' = [m EXCEPT !.index = EmptyFn, !.free = Sweep(m.valid, 1, <<>>),
                      !.valid = [i \in Nodes |-> FALSE], !.prev = [i \in Nodes |-> 0], !.next = [i \in Nodes |-> 0],
                      !.head = 0, !.tail = 0, !.count = 0]
    /\ Call("clear", NoKey, NoKey, None, <<>>, FALSE)

MNext == \/ \E k \in Keys : MGet(k)
         \/ \E k \in Keys, v \in Vals : MPut(k, v)
         \/ \E k \in Keys : MRemove(k)
         \/ MClear

(* the contract variables, as a refinement mapping of the mechanism *)
NoOp == [name |-> "none", k |-> NoKey, v |-> NoKey, r |-> None, cb |-> <<>>, refused |-> FALSE, before |-> LNew(Cap)]
MSpec == MInit /\ op = NoOp /\ lru = [s \in {1} |-> Abs(m)] /\ loc = EmptyFn /\ last = NoCall
         /\ [][MNext /\ lru' = [s \in {1} |-> Abs(m')] /\ loc' = loc
               /\ last' = [kind |-> IF op'.refused THEN "refused" ELSE op'.name, shard |-> 1, before |-> op'.before, cb |-> op'.cb]]_<<m, op, lru, loc, last>>

\* ---- properties
(* structural invariants of the mechanism *)
ListOK ==
    LET ns == NodeSeq(m) IN
    /\ Len(ns) = m.count /\ Len(ns) <= Cap /\ NoDup(ns)
    /\ (ns = <<>>) = (m.head = 0) /\ (ns = <<>>) = (m.tail = 0)
    /\ ns /= <<>> => ns[1] = m.head /\ ns[Len(ns)] = m.tail /\ m.prev[m.head] = 0
    /\ \A j \in 1..(Len(ns) - 1) : m.prev[ns[j + 1]] = ns[j]
    /\ \A i \in Nodes : m.valid[i] = (i \in SeqRange(ns))
    /\ DOMAIN m.index = { m.nkey[i] : i \in SeqRange(ns) }
    /\ \A k \in DOMAIN m.index : m.nkey[m.index[k]] = k /\ m.valid[m.index[k]]
    /\ NoDup(m.free) /\ SeqRange(m.free) \cap SeqRange(ns) = {}

(* every method call is the contract operation with the same result and callback log, or a refusal without effect *)
Refines ==
    LET b == op.before
        a == Abs(m)
    IN CASE op.name = "none"   -> TRUE
         [] op.name = "get"    -> a = LGet(b, op.k).st /\ op.r = LGet(b, op.k).r /\ op.cb = <<>>
         [] op.name = "put"    -> IF op.refused THEN a = b /\ op.cb = <<>>
                                  ELSE a = LPut(b, op.k, op.v).st /\ op.r = LPut(b, op.k, op.v).r /\ op.cb = LPut(b, op.k, op.v).ev
         [] op.name = "remove" -> a = LRemove(b, op.k).st /\ op.r = LRemove(b, op.k).r /\ op.cb = <<>>
         [] op.name = "clear"  -> a = LClear(b) /\ op.cb = <<>>

(* no node is ever lost: free + in use = capacity *)
NoLostNodes == Len(m.free) + m.count = Cap
(* an LRU put can always make room: it is never refused *)
NoSpuriousRefusal == ~op.refused
=============================================================================
