----------------------------- MODULE Known_Wire -----------------------------
(* Named deviation actions for the recorded known findings of property C13       *)
(* (see /verif/known_findings.json).  A deviation is enabled only for the listed *)
(* subject (family / kind / variant of the reset event), the listed operation    *)
(* and its semantic trigger, and only for a result the contract rejects; the     *)
(* trace specification records the ids taken on an accepted path in kf.          *)
(* After a wrong or refused read the driver continues at the next record         *)
(* boundary, so the deviations of part 1 advance the cursor by the record size.  *)
EXTENDS Wire, TLC

KnownIds == {"C13-KF6"}

HasTag(e, t) == "tags" \in DOMAIN e /\ \E i \in 1..Len(e.tags) : e.tags[i] = t
AtCursor(e) == HasNext /\ e.at = off
WrongValue(e) == e.v /= stream[cur].v

(* C13-KF1: VarIntEncoder delta strategy, u64 sequences: a difference of 2^63 or more   *)
(* between neighbours overflows the (diff << 1 | sign) encoding: the decoded sequence    *)
(* has the right length but wrong elements.                                             *)
G1(e, subj) == /\ subj.fam = "encseq" /\ subj.kind \in {"delta", "auto"}
               /\ e.op = "read_val"
               /\ e.codec \in {"encseq:delta:u64", "encseq:auto>delta:u64"}
               /\ HasTag(e, "bigdiff")
               /\ AtCursor(e) /\ WrongValue(e) /\ Len(e.v) = Len(stream[cur].v)
KF1(e, subj) == G1(e, subj) /\ Advance

(* C13-KF2: group varint sequences: the selector has two bits per element (1..4 bytes), *)
(* an element above 2^32-1 (any negative i64) is truncated or makes decoding fail.      *)
G2(e, subj) == /\ subj.fam = "encseq" /\ subj.kind = "groupvarint"
               /\ e.op \in {"read_val", "read_refused"}
               /\ HasTag(e, "over32")
               /\ AtCursor(e)
               /\ e.op = "read_val" => (WrongValue(e) /\ Len(e.v) = Len(stream[cur].v))
KF2(e, subj) == G2(e, subj) /\ Advance

(* C13-KF3: write_endianness_magic(Big) on a little-endian host yields the little-endian *)
(* magic, which detect_endianness_from_magic reads back as Little.                       *)
G3(e, subj) == /\ subj.fam = "endian" /\ subj.variant = "magic"
               /\ e.op = "read"
               /\ AtCursor(e) /\ stream[cur].v = <<"Big">> /\ e.v = <<"Little">>
               /\ e.consumed = stream[cur].n
KF3(e, subj) == G3(e, subj) /\ Advance

(* C13-KF4: endian::simd::convert_u16/u32_slice_simd test their from_little argument     *)
(* inverted: data that needs no conversion is swapped, data that needs it is not.        *)
G4(e, subj) == /\ subj.fam = "endian" /\ subj.variant = "slices"
               /\ e.op = "batch_eq"
               /\ e.what \in {"convert_u16_slice_simd vs from_endian", "convert_u32_slice_simd vs from_endian"}
               /\ e.n >= 1
               /\ e.batch /= e.scalar /\ Len(e.batch) = Len(e.scalar)
KF4(e, subj) == G4(e, subj) /\ UNCHANGED <<wireVars, viewVars>>

(* C13-KF5: a dangling Weak is written as the single marker byte 0, but the reader then  *)
(* deserialises a pointee that was never written: it fails at the end of the stream or   *)
(* swallows the bytes of the following records.                                          *)
G5(e, subj) == /\ subj.fam = "smart" /\ subj.variant = "weak"
               /\ e.op \in {"read", "read_refused"}
               /\ e.codec \in {"smart:weak<rc>/dangling", "smart:weak<arc>/dangling"}
               /\ AtCursor(e)
               /\ e.op = "read" => e.consumed /= stream[cur].n
KF5(e, subj) == G5(e, subj) /\ Advance

(* C13-KF6: SerializationContext identifies objects by address without keeping them      *)
(* alive: a temporary Rc allocated where an earlier (dropped) one lived is written as a   *)
(* back reference and decodes to the EARLIER value.                                      *)
G6(e, subj) == /\ subj.fam = "smart" /\ subj.variant = "ctx-temp"
               /\ e.op = "read"
               /\ AtCursor(e) /\ WrongValue(e) /\ e.consumed = stream[cur].n
               /\ \E i \in 1..(cur - 1) : stream[i].v = e.v
KF6(e, subj) == G6(e, subj) /\ Advance

(* C13-KF7: Version packs major and minor into 8 bits each although the fields are u16:  *)
(* a major or minor above 255 does not survive serialize / to_u32.                        *)
G7(e, subj) == /\ subj.fam = "ver" /\ subj.variant = "version"
               /\ e.op = "read"
               /\ HasTag(e, "over8")
               /\ AtCursor(e) /\ WrongValue(e) /\ e.consumed = stream[cur].n
KF7(e, subj) == G7(e, subj) /\ Advance

(* C13-KF8: VersionedSerialize::serialize_versioned writes no version header but          *)
(* deserialize_versioned reads one: the first four payload bytes are taken as the version. *)
G8(e, subj) == /\ subj.fam = "ver" /\ subj.variant = "versioned"
               /\ e.op \in {"read", "read_refused"}
               /\ e.codec = "ver:versioned-trait"
               /\ AtCursor(e)
               /\ e.op = "read" => (WrongValue(e) \/ e.consumed /= stream[cur].n)
KF8(e, subj) == G8(e, subj) /\ Advance

(* C13-KF9: StreamBufferedReader::seek(SeekFrom::Current(o)) forwards o to the inner      *)
(* reader, which is ahead of the logical position by the bytes still buffered: the new    *)
(* position (reported and real) is target + buffered.                                     *)
G9(e, subj) == /\ subj.fam = "rd" /\ subj.kind = "buffered_seekcur"
               /\ e.op = "seek" /\ e.whence = "cur"
               /\ e.r > SeekTarget("cur", e.o)
(* (the inner reader may even end up beyond the end of the stream: then nothing is left)  *)
KF9(e, subj) == G9(e, subj) /\ vc' = (IF e.r > VLen THEN VLen ELSE e.r) /\ UNCHANGED <<view, sent, wp, wireVars>>

(* C13-KF10: ZeroCopyReader: a request larger than the buffer capacity (zc_read, peek,    *)
(* read_optimized) finds the buffer full, takes "0 bytes filled" for end of stream and     *)
(* latches eof: later small reads report end of stream although data is left.              *)
G10(e, subj) == /\ subj.fam = "rd" /\ subj.kind = "zerocopy_over"
                /\ e.op = "readn"
                /\ "overcap" \in DOMAIN e /\ e.overcap
                /\ e.got = <<>> /\ e.k > 0 /\ vc < VLen
KF10(e, subj) == G10(e, subj) /\ UNCHANGED <<viewVars, wireVars>>

(* C13-KF11: VectoredIO::read_vectored goes on to the next buffer after a short read: the *)
(* bytes are not contiguous in the buffers although the count says so.  The inner reader   *)
(* has advanced by the count returned.                                                     *)
G11(e, subj) == /\ subj.fam = "rd" /\ subj.kind = "vectored"
                /\ e.op = "readn"
                /\ Len(e.got) <= e.k /\ vc + Len(e.got) <= VLen
                /\ e.got /= Slice(vc, Len(e.got))
KF11(e, subj) == G11(e, subj) /\ vc' = vc + Len(e.got) /\ UNCHANGED <<view, sent, wp, wireVars>>

(* C13-KF12: VectoredIO::write_vectored goes on to the next buffer after a short write:   *)
(* the sink misses the tail of the first buffer although the count covers it.              *)
G12(e, subj) == /\ subj.fam = "wr" /\ subj.kind = "vectored"
                /\ e.op = "sink"
                /\ e.got /= sent /\ Len(e.got) = Len(sent) /\ e.ob = e.oa
KF12(e, subj) == G12(e, subj) /\ UNCHANGED <<viewVars, wireVars>>

(* C13-KF13: the buffering wrappers turn an ErrorKind::Interrupted of the inner reader /  *)
(* writer into ErrorKind::Other (StreamBufferedReader fill / bulk read, ZeroCopyBuffer     *)
(* fill_from / drain_to under ZeroCopyReader / ZeroCopyWriter): read_exact / write_all on   *)
(* top no longer retry and a validly written record is refused / a write fails half way.    *)
(* The driver ends the run at that event.                                                   *)
G13(e, subj) == /\ subj.fam = "dio"
                /\ "interrupted" \in DOMAIN e /\ e.interrupted
                /\ \/ subj.variant \in {"vec-sbr_intr", "vec-zc_intr"} /\ e.op = "read_refused" /\ HasNext
                   \/ subj.variant = "zcw_short-zc_short" /\ e.op = "panic" /\ e.in = "write"
KF13(e, subj) == G13(e, subj) /\ UNCHANGED <<wireVars, viewVars>>

(* guard (state predicate) and action of each deviation.  In KF mode a deviation whose    *)
(* guard holds REPLACES the contract action for that event.                                *)
DevApplies(id, e, subj) ==
    \/ id = "C13-KF1" /\ G1(e, subj)
    \/ id = "C13-KF2" /\ G2(e, subj)
    \/ id = "C13-KF3" /\ G3(e, subj)
    \/ id = "C13-KF4" /\ G4(e, subj)
    \/ id = "C13-KF5" /\ G5(e, subj)
    \/ id = "C13-KF6" /\ G6(e, subj)
    \/ id = "C13-KF7" /\ G7(e, subj)
    \/ id = "C13-KF8" /\ G8(e, subj)
    \/ id = "C13-KF9" /\ G9(e, subj)
    \/ id = "C13-KF10" /\ G10(e, subj)
    \/ id = "C13-KF11" /\ G11(e, subj)
    \/ id = "C13-KF12" /\ G12(e, subj)
    \/ id = "C13-KF13" /\ G13(e, subj)
KnownDeviation(id, e, subj) ==
    \/ id = "C13-KF1" /\ KF1(e, subj)
    \/ id = "C13-KF2" /\ KF2(e, subj)
    \/ id = "C13-KF3" /\ KF3(e, subj)
    \/ id = "C13-KF4" /\ KF4(e, subj)
    \/ id = "C13-KF5" /\ KF5(e, subj)
    \/ id = "C13-KF6" /\ KF6(e, subj)
    \/ id = "C13-KF7" /\ KF7(e, subj)
    \/ id = "C13-KF8" /\ KF8(e, subj)
    \/ id = "C13-KF9" /\ KF9(e, subj)
    \/ id = "C13-KF10" /\ KF10(e, subj)
    \/ id = "C13-KF11" /\ KF11(e, subj)
    \/ id = "C13-KF12" /\ KF12(e, subj)
    \/ id = "C13-KF13" /\ KF13(e, subj)
=============================================================================
