----------------------------- MODULE Known_Wire -----------------------------
(* Named deviation actions for the recorded known findings of property C13       *)
(* (see /verif/known_findings.json).  A deviation is enabled only for the listed *)
(* subject and only under its semantic trigger; the trace specification records  *)
(* the ids taken on an accepted path in the variable kf.                         *)
EXTENDS Wire, TLC

KnownIds == {}

DevApplies(id, e, subj) == FALSE
KnownDeviation(id, e, subj) == FALSE
=============================================================================
