SPECIFICATION GenSpec
CONSTANTS
  Caps = {1, 2, 4}
  MaxLenQ = 100
  MaxId = 1000
  L = 10
  Ops = {"push_back","pop_front","clear"}
CONSTRAINT GenBound
INVARIANT Emit
CHECK_DEADLOCK FALSE
