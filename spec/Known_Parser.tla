---------------------------- MODULE Known_Parser ----------------------------
(* Named deviations for the recorded known findings of property C15                  *)
(* (see /verif/known_findings.json).  A deviation explains a NON-ALLOWED outcome      *)
(* class of a batch: guard = parser name (+ expected-length variant) + mutation kind  *)
(* + outcome.  In KF mode a batch whose every non-allowed outcome class is covered by *)
(* a listed deviation is accepted and the ids are recorded; a batch with any outcome  *)
(* class not covered stays rejected (VIOLATION).                                      *)
EXTENDS Parser, TLC

AnyVariant == {"-", "exact", "zero", "plus1", "p31", "max"}
AllKinds == {"b", "t", "s", "m", "a", "c", "r", "R"}

(* the table: one row per finding *)
KFTable == {
    [id |-> "C15-KF0", parsers |-> {}, variants |-> {}, kinds |-> {}, outcome |-> "panic"]
}

KnownIds == {r.id : r \in KFTable}
Row(id) == CHOOSE r \in KFTable : r.id = id

(* does deviation id cover outcome class o of batch e of subject subj? *)
Covers(id, e, subj, o) ==
    LET r == Row(id) IN
    /\ subj.subject \in r.parsers
    /\ e.variant \in r.variants
    /\ e.kind \in r.kinds
    /\ o = r.outcome

BadClasses(e) == {o \in Outcomes \ Allowed : e.outcomes[o] > 0}

(* guard Gn: the batch has the outcome class of the deviation *)
G(id, e, subj) == e.op = "parse" /\ \E o \in BadClasses(e) : Covers(id, e, subj, o)

DevIds(e, subj) == {id \in KnownIds : G(id, e, subj)}

(* the batch is explained: something is wrong with it, and everything wrong is listed *)
DevApplies(e, subj) ==
    /\ e.op = "parse"
    /\ BadClasses(e) # {}
    /\ \A o \in BadClasses(e) : \E id \in KnownIds : Covers(id, e, subj, o)
    /\ e.skipped > 0 => e.outcomes.timeout > 0     \* cases are skipped only after repeated timeouts

(* action KF: replaces ParseBatch for that batch *)
KnownBatch(e, subj, P) ==
    /\ DevApplies(e, subj)
    /\ BatchShape(e, P)
    /\ tally' = [ok |-> tally.ok + e.outcomes.ok, err |-> tally.err + e.outcomes.err,
                 batches |-> tally.batches + 1]
=============================================================================
