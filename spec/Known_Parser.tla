---------------------------- MODULE Known_Parser ----------------------------
(* Named deviations for the recorded known findings of property C15                  *)
(* (see /verif/known_findings.json).  A deviation explains a NON-ALLOWED outcome      *)
(* class of a batch: guard = parser name (+ expected-length variant) + mutation kind  *)
(* + outcome.  In KF mode a batch whose every non-allowed outcome class is covered by *)
(* a listed deviation is accepted and the ids are recorded; a batch with any outcome  *)
(* class not covered stays rejected (VIOLATION).                                      *)
EXTENDS Parser, TLC

AnyVariant == {"-", "exact", "zero", "one", "minus1", "plus1", "p31", "max"}
AllKinds == {"b", "t", "s", "m", "a", "c", "o", "p", "u", "r", "R"}
(* every kind that changes the encoding: the two unbounded-output findings (KF8, KF9) are    *)
(* triggered by ANY malformed stream that decodes to a match with a huge length              *)
MutKinds == {"t", "s", "m", "a", "c", "o", "p", "u", "r", "R"}
(* size class (MiB) of the allocation that failed.  KF8 / KF9 grow their OUTPUT until the     *)
(* allocator refuses the doubling at 1 GiB: a request of any other size in the same parsers  *)
(* (e.g. a buffer reserved straight from a length field) is a different defect.  KF9 extends *)
(* the ~1 GiB output by one more match (at most a few tens of MiB): 1024..1100 MiB.           *)
AnyAlloc == 0..2147483647

(* the table: one row per (finding, outcome it shows as); generated from the outcome classes *)
(* observed on the pinned tree (quick and thorough tier)                                     *)
KFTable == {
    [id |-> "C15-KF1", outcome |-> "oom",
     parsers |-> {"complex.meta.array4", "complex.meta.btreemap", "complex.meta.btreeset", "complex.meta.option", "complex.meta.result", "complex.meta.tuple2", "complex.raw.btreemap", "complex.raw.option", "complex.raw.tuple2", "din.reader.lp_bytes", "din.reader.lp_string", "din.reader.read_vec", "din.slice.lp_bytes", "din.slice.lp_string", "din.slice.read_string", "din.slice.read_vec", "smartptr.box_string", "smartptr.rc_string"},
     variants |-> {"-", "p31"}, kinds |-> {"a", "b", "c", "m", "r", "s", "t"}, allocs |-> AnyAlloc],
    [id |-> "C15-KF1", outcome |-> "panic",
     parsers |-> {"din.reader.read_vec", "din.slice.read_string", "din.slice.read_vec"},
     variants |-> {"max"}, kinds |-> {"a", "b", "c", "m", "r", "s", "t"}, allocs |-> AnyAlloc],
    [id |-> "C15-KF2", outcome |-> "oom",
     parsers |-> {"vie.compact.i64seq", "vie.compact.u64seq", "vie.delta.i64seq", "vie.delta.u64seq", "vie.group.i64seq", "vie.group.u64seq", "vie.leb128.i64seq", "vie.leb128.u64seq", "vie.prefixfree.i64seq", "vie.prefixfree.u64seq", "vie.simd.i64seq", "vie.simd.u64seq", "vie.zigzag.i64seq"},
     variants |-> {"-"}, kinds |-> {"c", "m"}, allocs |-> AnyAlloc],
    [id |-> "C15-KF2", outcome |-> "panic",
     parsers |-> {"vie.compact.i64seq", "vie.delta.i64seq", "vie.group.i64seq", "vie.leb128.i64seq", "vie.prefixfree.i64seq", "vie.simd.i64seq", "vie.zigzag.i64seq"},
     variants |-> {"-"}, kinds |-> {"m"}, allocs |-> AnyAlloc],
    [id |-> "C15-KF3", outcome |-> "oom",
     parsers |-> {"complex.batch.meta", "complex.batch.raw", "complex.meta.hashmap", "complex.meta.hashset", "complex.raw.hashmap", "complex.raw.hashset", "smartptr.box_vec_string", "smartptr.rc_vec_u32"},
     variants |-> {"-"}, kinds |-> {"c", "m", "s"}, allocs |-> AnyAlloc],
    [id |-> "C15-KF4", outcome |-> "oom",
     parsers |-> {"huff.ctx.deserialize.o0", "huff.ctx.deserialize.o1", "huff.ctx.deserialize.o2"},
     variants |-> {"-"}, kinds |-> {"c", "m", "s"}, allocs |-> AnyAlloc],
    [id |-> "C15-KF5", outcome |-> "oom",
     parsers |-> {"comp.huffman.decompress", "huff.ctx.decode.o0", "huff.ctx.decode.o1", "huff.ctx.decode.o2", "huff.ctx.decode_x1", "huff.ctx.decode_x2", "huff.ctx.decode_x4", "huff.ctx.decode_x8", "huff.decode"},
     variants |-> {"-", "p31"}, kinds |-> {"a", "b", "c", "m", "r", "s", "t"}, allocs |-> AnyAlloc],
    [id |-> "C15-KF5", outcome |-> "panic",
     parsers |-> {"huff.ctx.decode.o0", "huff.ctx.decode.o1", "huff.ctx.decode.o2", "huff.ctx.decode_x1", "huff.ctx.decode_x2", "huff.ctx.decode_x4", "huff.ctx.decode_x8", "huff.decode"},
     variants |-> {"max"}, kinds |-> {"a", "b", "c", "m", "r", "s", "t"}, allocs |-> AnyAlloc],
    [id |-> "C15-KF6", outcome |-> "oom",
     parsers |-> {"comp.rans.decompress", "rans.decode.x1", "rans.decode.x2", "rans.decode.x4", "rans.decode.x8"},
     variants |-> {"-", "p31"}, kinds |-> {"a", "b", "c", "m", "s", "t"}, allocs |-> AnyAlloc],
    [id |-> "C15-KF6", outcome |-> "panic",
     parsers |-> {"rans.decode.x1", "rans.decode.x2", "rans.decode.x4", "rans.decode.x8"},
     variants |-> {"max"}, kinds |-> {"a", "b", "c", "m", "s", "t"}, allocs |-> AnyAlloc],
    [id |-> "C15-KF7", outcome |-> "abort",
     parsers |-> {"zipoffset.load_from_reader"},
     variants |-> {"-"}, kinds |-> {"m", "s"}, allocs |-> AnyAlloc],
    [id |-> "C15-KF8", outcome |-> "oom",
     parsers |-> {"comp.dictionary.decompress", "dict.decompress", "dict.opt.decompress"},
     variants |-> {"-"}, kinds |-> MutKinds, allocs |-> {1024}],
    [id |-> "C15-KF9", outcome |-> "oom",
     parsers |-> {"simdlz77.cfg.high_performance.decompress", "simdlz77.cfg.low_latency.decompress", "simdlz77.cfg.maximum_parallelism.decompress", "simdlz77.cfg.with_dictionary.decompress", "simdlz77.decompress", "simdlz77.global.decompress", "simdlz77.x1.decompress", "simdlz77.x2.decompress", "simdlz77.x4.decompress", "simdlz77.x8.decompress"},
     variants |-> {"-"}, kinds |-> MutKinds, allocs |-> 1024..1100],
    [id |-> "C15-KF10", outcome |-> "oom",
     parsers |-> {"simdenc.varint.decode_batch"},
     variants |-> {"p31"}, kinds |-> {"a", "b", "c", "m", "r", "s", "t"}, allocs |-> AnyAlloc],
    [id |-> "C15-KF10", outcome |-> "panic",
     parsers |-> {"simdenc.varint.decode_batch"},
     variants |-> {"max"}, kinds |-> {"a", "b", "c", "m", "r", "s", "t"}, allocs |-> AnyAlloc],
    [id |-> "C15-KF11", outcome |-> "oom",
     parsers |-> {"fse.decompress.parallel", "fse.decompress.parallel_default"},
     variants |-> {"-"}, kinds |-> {"o", "p", "u"}, allocs |-> 256..1023]
}

(* the enabled deviations (literal set: tools/sync_known.py removes the ids of findings whose  *)
(* status became 'fixed'; their rows stay in KFTable as documentation but cover nothing)       *)
KnownIds == {"C15-KF8", "C15-KF9"}
ASSUME KnownIds \subseteq {r.id : r \in KFTable}

(* does deviation id cover outcome class o of batch e of subject subj?  (a finding may   *)
(* have several rows: one per outcome it shows as)                                      *)
Covers(id, e, subj, o) ==
    \E r \in KFTable :
        /\ r.id = id
        /\ subj.parser \in r.parsers
        /\ e.variant \in r.variants
        /\ e.kind \in r.kinds
        /\ o = r.outcome
        /\ \A j \in 1..Len(e.bad) : e.bad[j].o = o => e.bad[j].alloc_mb \in r.allocs
        /\ o = "oom" => e.bad_unlisted = 0        \* every failed allocation is listed and was looked at

BadClasses(e) == {o \in Outcomes \ Allowed : e.outcomes[o] > 0}

(* guard Gn: the batch has the outcome class of the deviation *)
G(id, e, subj) == e.op = "parse" /\ \E o \in BadClasses(e) : Covers(id, e, subj, o)

DevIds(e, subj) == {id \in KnownIds : G(id, e, subj)}

(* the batch is explained: something is wrong with it, and everything wrong is listed *)
DevApplies(e, subj) ==
    /\ e.op = "parse"
    /\ BadClasses(e) # {}
    /\ \A o \in BadClasses(e) : \E id \in KnownIds : Covers(id, e, subj, o)
    \* cases are skipped only after repeated process-killing outcomes in the same batch
    /\ e.skipped > 0 => e.outcomes.timeout + e.outcomes.abort + e.outcomes.signal + e.outcomes.oom > 0

(* action KF: replaces ParseBatch for that batch *)
KnownBatch(e, subj, P) ==
    /\ DevApplies(e, subj)
    /\ BatchShape(e, P)
    /\ tally' = [ok |-> tally.ok + e.outcomes.ok, err |-> tally.err + e.outcomes.err,
                 batches |-> tally.batches + 1]
=============================================================================
