----------------------------- MODULE Known_Lru -----------------------------
(* Named deviation actions for the recorded known findings of property C17 on the LRU    *)
(* maps (see /verif/known_findings.json).  A deviation is enabled only for the listed    *)
(* subject and only under its semantic trigger; the trace specification records the ids  *)
(* taken on an accepted path in the variable kf.                                          *)
EXTENDS Lru, TLC

KnownIds == {"C17-KF1", "C17-KF2"}     \* C17-KF4 is a note of Trace_Lru (accepted refusal), not a deviation

(* ---- observation of the shard an operation went to (ConcurrentLruMap) ----            *)
(* The harness logs, before and after every call, shard_sizes() and the per-shard        *)
(* put/get counters of shard_stats(i) (when statistics are enabled).  The shard of the   *)
(* call is the one whose observation changed.                                             *)
HasF(e, f) == f \in DOMAIN e
Changed(a, b) == { i \in 1..Len(a) : a[i] /= b[i] }
Cand(e) == IF HasF(e, "sz0")
           THEN Changed(e.sz0, e.sz1) \cup Changed(e.pc0, e.pc1) \cup Changed(e.gc0, e.gc1)
           ELSE {}
KeyOps == {"put", "get", "remove", "contains"}

(* C17-KF1: ConcurrentLruMap with LoadBalancingStrategy::RoundRobin and more than one    *)
(* shard selects the shard from a global operation counter, for put AND get/remove/       *)
(* contains_key: a key is looked up in a shard it was not stored in.  Deviation: the      *)
(* operation is applied, with the full per-shard LRU contract, to the shard it was        *)
(* observed to go to instead of the shard the key lives in.  Trigger: the observed shard  *)
(* differs from the known location of the key (or nothing observable happened).           *)
InSome(k) == \E s \in Shards : LHas(lru[s], k)
WrongShard(e) ==
    \/ /\ e.op \in KeyOps
       /\ \/ Cardinality(Cand(e)) = 1 /\ e.k \in DOMAIN loc /\ Cand(e) /= {loc[e.k]}
          \/ Cand(e) = {} /\ e.op \in {"remove", "contains"}
    \/ \* a probe (batch of contains_key calls): some key that is stored was looked up elsewhere
       e.op = "probe" /\ \E i \in 1..Len(e.c) : e.c[i][2] /= InSome(e.c[i][1])
G1(e, subj) == subj.fam = "clru" /\ subj.strategy = "rr" /\ subj.shards > 1 /\ WrongShard(e)
ApplyWhereObserved(e) ==
    IF e.op = "probe"
    THEN /\ \A i \in 1..Len(e.c) : e.c[i][2] \in { LHas(lru[s], e.c[i][1]) : s \in Shards }
         /\ Len_(e.len)
    ELSE
    /\ IF Cand(e) /= {}
       THEN LET s == CHOOSE x \in Cand(e) : TRUE IN
            \/ e.op = "put" /\ e.ok /\ PutAt(s, e.k, e.v, e.r, e.ev)
            \/ e.op = "get" /\ GetAt(s, e.k, e.r)
            \/ e.op = "remove" /\ RemoveAt(s, e.k, e.r, e.ev)
            \/ e.op = "contains" /\ ContainsAt(s, e.k, e.r)
       ELSE \* nothing observable: the answer fits some shard and nothing changed
            /\ \/ e.op = "remove" /\ e.r = None /\ FALSE \in { LHas(lru[s], e.k) : s \in Shards }
               \/ e.op = "contains" /\ e.r \in { LHas(lru[s], e.k) : s \in Shards }
            /\ UNCHANGED <<lru, loc, last>>

KF1(e, subj) == G1(e, subj) /\ ApplyWhereObserved(e)

(* C17-KF2: LoadBalancingStrategy::ThreadAffinity selects the shard from the id of the CALLING  *)
(* THREAD: an entry put by one thread is not found by another thread.  Same deviation and      *)
(* trigger as KF1, for subjects driven from more than one thread (one call at a time).         *)
G2(e, subj) == subj.fam = "clru" /\ subj.strategy = "aff" /\ subj.shards > 1 /\ subj.threads > 1 /\ WrongShard(e)
KF2(e, subj) == G2(e, subj) /\ ApplyWhereObserved(e)

(* C17-KF5: ConcurrentLruMap::keys() is a placeholder: it loops over the shards without collecting   *)
(* anything and returns an empty vector whatever the map holds.  Deviation: exactly the empty      *)
(* answer of keys() on a non-empty map is accepted; nothing changes.                               *)
G5(e, subj) == subj.fam = "clru" /\ e.op = "keys" /\ e.r = <<>> /\ AllKeys /= {}
KF5(e, subj) == G5(e, subj) /\ UNCHANGED <<lru, loc, last>>

DevApplies(id, e, subj) ==
    \/ id = "C17-KF1" /\ G1(e, subj)
    \/ id = "C17-KF2" /\ G2(e, subj)
    \/ id = "C17-KF5" /\ G5(e, subj)
KnownDeviation(id, e, subj) ==
    \/ id = "C17-KF1" /\ KF1(e, subj)
    \/ id = "C17-KF2" /\ KF2(e, subj)
    \/ id = "C17-KF5" /\ KF5(e, subj)
=============================================================================
