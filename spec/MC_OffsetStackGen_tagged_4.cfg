SPECIFICATION Spec
CONSTANTS
  P = 4
  Tagged = TRUE
  BumpHook = TRUE
  NB = 5
  InitFree <- MCInitFree
  Threads <- MCThreads
  Prog <- MCProg
INVARIANT Emit
CHECK_DEADLOCK FALSE
