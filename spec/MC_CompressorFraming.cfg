SPECIFICATION Spec
CONSTANTS
  Ids = {1, 2, 3}
  Payloads = {"p", "q"}
  Frames = {"f", "g"}
  MaxEpoch = 2
INVARIANT TypeOK
INVARIANT MustSucceed
INVARIANT NeverWrong
INVARIANT StaleMayRefuse
PROPERTY FramesStable
CHECK_DEADLOCK FALSE
