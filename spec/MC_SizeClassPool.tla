-------------------------- MODULE MC_SizeClassPool --------------------------
(* Bounded models of the size-class mechanism (SizeClassPool.tla), checked        *)
(* against the invariants of the Allocator contract.  Units = the alignment.      *)
(*   MC_SizeClassPool.cfg          carve the class size            -> holds       *)
(*   MC_SizeClassPool_request.cfg  carve the request size (as the pinned          *)
(*        lockfree_pool.rs / threadlocal_pool.rs do)  -> NoOverlap violated:       *)
(*        alloc(3) alloc(3) free(first) alloc(4): the recycled 3-unit block is     *)
(*        handed out for 4 units and runs into its neighbour                       *)
(*   MC_SizeClassPool_wrap.cfg     offset counter advances on refusal and wraps   *)
(*        (next_offset.fetch_add as u32)               -> NoOverlap violated       *)
EXTENDS SizeClassPool

MCClasses == <<2, 4, 6>>
(* {c-1, c, c+1} of the adjacent classes 2 and 4, min = 1, max = 6, max+1 = 7 *)
MCSizes == {1, 2, 3, 4, 5, 6, 7}
MCWrapSizes == {3, 4}
=============================================================================
