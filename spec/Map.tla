-------------------------------- MODULE Map --------------------------------
(* Contract of every map type of zipora (property C06).                          *)
(*                                                                               *)
(* State: m, a finite function from keys to values.  Every public operation is   *)
(* one action whose parameters are the arguments AND the result the              *)
(* implementation returned; the action is enabled exactly for the results a      *)
(* mathematical map allows.  Options are sequences of length 0/1.                *)
(* Refusal rule (DESIGN section 6): insert may fail with an error provided the   *)
(* map is left unchanged; no read operation may return a wrong answer.           *)
EXTENDS Naturals, Sequences, FiniteSets, Opt

VARIABLE m

Lookup(k) == IF k \in DOMAIN m THEN Some(m[k]) ELSE None
Upd(k, v) == [x \in DOMAIN m \cup {k} |-> IF x = k THEN v ELSE m[x]]
Del(k) == [x \in DOMAIN m \ {k} |-> m[x]]
Empty == [x \in {} |-> 0]

MapInit == m = Empty

(* insert(k,v) -> Ok(previous value) *)
Insert(k, v, r) == /\ r = Lookup(k)
                   /\ m' = Upd(k, v)
(* insert(k,v) -> Err(_): refused, nothing changes *)
InsertRefused(k, v) == UNCHANGED m
Get(k, r) == r = Lookup(k) /\ UNCHANGED m
(* get_mut(k) -> r (old value); when present the harness writes v through the reference *)
GetMut(k, v, r) == /\ r = Lookup(k)
                   /\ m' = IF k \in DOMAIN m THEN Upd(k, v) ELSE m
Remove(k, r) == /\ r = Lookup(k)
                /\ m' = Del(k)
Contains(k, r) == r = (k \in DOMAIN m) /\ UNCHANGED m
Len_(r) == r = Cardinality(DOMAIN m) /\ UNCHANGED m
(* iteration: a sequence of <<key, value>> pairs; each live entry exactly once, nothing else *)
Iter(r) == /\ Len(r) = Cardinality(DOMAIN m)
           /\ { r[i] : i \in 1..Len(r) } = { <<k, m[k]>> : k \in DOMAIN m }
           /\ UNCHANGED m
Clear == m' = Empty
(* put(k,v) without a result (EasyHashMap::put) *)
Put(k, v) == m' = Upd(k, v)
(* a maintenance call (shrink_to_fit, revoke_deleted, ...) must not change the content *)
Maintenance == UNCHANGED m
(* probe: the full observable projection over a small key universe, logged as one event:  *)
(* g = sequence of <<key, get(key), contains_key(key)>>, n = len(), it = iter() if offered *)
Probe(g, n, hasIter, it) ==
    /\ \A i \in 1..Len(g) : g[i][2] = Lookup(g[i][1]) /\ g[i][3] = (g[i][1] \in DOMAIN m)
    /\ n = Cardinality(DOMAIN m)
    /\ hasIter => /\ Len(it) = Cardinality(DOMAIN m)
                  /\ { it[i] : i \in 1..Len(it) } = { <<k, m[k]>> : k \in DOMAIN m }
    /\ UNCHANGED m

(* ---- properties (of the contract itself; checked by MC_Map) ---- *)
TypeOK(K, V) == DOMAIN m \subseteq K /\ \A k \in DOMAIN m : m[k] \in V
=============================================================================
