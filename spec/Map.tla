-------------------------------- MODULE Map --------------------------------
(* Contract of every map type of zipora (property C06).                          *)
(*                                                                               *)
(* State: m, a finite function from keys to values.  Every public operation is   *)
(* one action whose parameters are the arguments AND the result the              *)
(* implementation returned; the action is enabled exactly for the results a      *)
(* mathematical map allows.  Options are sequences of length 0/1.                *)
(* Refusal rule (DESIGN section 6): insert may fail with an error provided the   *)
(* map is left unchanged; no read operation may return a wrong answer.           *)
EXTENDS Naturals, Sequences, FiniteSets, Opt

VARIABLE m

Lookup(k) == IF k \in DOMAIN m THEN Some(m[k]) ELSE None
Upd(k, v) == [x \in DOMAIN m \cup {k} |-> IF x = k THEN v ELSE m[x]]
Del(k) == [x \in DOMAIN m \ {k} |-> m[x]]
Empty == [x \in {} |-> 0]

MapInit == m = Empty

(* insert(k,v) -> Ok(previous value) *)
Insert(k, v, r) == /\ r = Lookup(k)
                   /\ m' = Upd(k, v)
(* insert(k,v) -> Err(_): refused, nothing changes *)
InsertRefused(k, v) == UNCHANGED m
Get(k, r) == r = Lookup(k) /\ UNCHANGED m
(* get_mut(k) -> r (old value); when present the harness writes v through the reference *)
GetMut(k, v, r) == /\ r = Lookup(k)
                   /\ m' = IF k \in DOMAIN m THEN Upd(k, v) ELSE m
Remove(k, r) == /\ r = Lookup(k)
                /\ m' = Del(k)
Contains(k, r) == r = (k \in DOMAIN m) /\ UNCHANGED m
Len_(r) == r = Cardinality(DOMAIN m) /\ UNCHANGED m
(* iteration: a sequence of <<key, value>> pairs; each live entry exactly once, nothing else *)
Iter(r) == /\ Len(r) = Cardinality(DOMAIN m)
           /\ { r[i] : i \in 1..Len(r) } = { <<k, m[k]>> : k \in DOMAIN m }
           /\ UNCHANGED m
Clear == m' = Empty
(* put(k,v) without a result (EasyHashMap::put) *)
Put(k, v) == m' = Upd(k, v)
(* a maintenance call (shrink_to_fit, revoke_deleted, ...) must not change the content *)
Maintenance == UNCHANGED m
(* probe: the full observable projection over a small key universe, logged as one event:  *)
(* g = sequence of <<key, get(key), contains_key(key)>>, n = len(), it = iter() if offered *)
Probe(g, n, hasIter, it) ==
    /\ \A i \in 1..Len(g) : g[i][2] = Lookup(g[i][1]) /\ g[i][3] = (g[i][1] \in DOMAIN m)
    /\ n = Cardinality(DOMAIN m)
    /\ hasIter => /\ Len(it) = Cardinality(DOMAIN m)
                  /\ { it[i] : i \in 1..Len(it) } = { <<k, m[k]>> : k \in DOMAIN m }
    /\ UNCHANGED m

(* ------------------------------------------------------------------------------------ *)
(* Operations outside the property's list.  They are defined from the same abstract map *)
(* because they share the storage the listed operations rely on afterwards.             *)
Pairs == { <<k, m[k]>> : k \in DOMAIN m }
RangeOf(s) == { s[i] : i \in 1..Len(s) }
IsEnumeration(r) == Len(r) = Cardinality(DOMAIN m) /\ RangeOf(r) = Pairs
IsEmpty(r) == r = (DOMAIN m = {}) /\ UNCHANGED m
(* a batch of <<key, value>> pairs applied in order (extend, insert_batch, from_iter) *)
BatchKeys(kv) == { kv[i][1] : i \in 1..Len(kv) }
LastIdx(kv, x) == CHOOSE i \in 1..Len(kv) : kv[i][1] = x /\ \A j \in (i+1)..Len(kv) : kv[j][1] /= x
UpdAll(kv) == [x \in DOMAIN m \cup BatchKeys(kv) |-> IF x \in BatchKeys(kv) THEN kv[LastIdx(kv, x)][2] ELSE m[x]]
Extend(kv) == m' = UpdAll(kv)
InsertBatch(kv) == m' = UpdAll(kv)
InsertBatchRefused(kv) == UNCHANGED m
GetBatch(ks, rs) == /\ Len(rs) = Len(ks)
                    /\ \A i \in 1..Len(ks) : rs[i] = Lookup(ks[i])
                    /\ UNCHANGED m
(* get_or_default(k) with default d: a plain value *)
GetOrDefault(k, d, r) == r = (IF k \in DOMAIN m THEN m[k] ELSE d) /\ UNCHANGED m
(* get_or_insert(k, v) -> &mut V: r is the value seen through the reference, w the value the *)
(* caller left there.  The closure twin (get_or_insert_with) also logs whether it was called. *)
GetOrInsert(k, v, w, r) == /\ r = (IF k \in DOMAIN m THEN m[k] ELSE v)
                           /\ m' = Upd(k, w)
GetOrInsertWith(k, v, w, r, called) == GetOrInsert(k, v, w, r) /\ called = (k \notin DOMAIN m)
GetOrInsertRefused == UNCHANGED m
(* retain(p): restriction to the entries satisfying P; F is what the predicate wrote through  *)
(* its &mut V for the entries it kept.  seen = the entries the predicate was shown.           *)
RetainCore(P(_, _), F(_)) == m' = [k \in { x \in DOMAIN m : P(x, m[x]) } |-> F(m[k])]
Retain(P(_, _), F(_), seen) == IsEnumeration(seen) /\ RetainCore(P, F)
KeysOf(r) == Len(r) = Cardinality(DOMAIN m) /\ RangeOf(r) = DOMAIN m /\ UNCHANGED m
CountIn(s, x) == Cardinality({ i \in 1..Len(s) : s[i] = x })
ValuesOf(r) == /\ Len(r) = Cardinality(DOMAIN m)
               /\ \A x \in RangeOf(r) : CountIn(r, x) = Cardinality({ k \in DOMAIN m : m[k] = x })
               /\ UNCHANGED m
(* GoldHashMap fast iteration: documented to be exact only when no entry was deleted; d is an *)
(* upper bound of the deleted slots still in the entry array (ghost, kept by the trace spec). *)
IterFast(r, d) == /\ Pairs \subseteq RangeOf(r)
                  /\ Len(r) >= Cardinality(DOMAIN m)
                  /\ Len(r) <= Cardinality(DOMAIN m) + d
                  /\ (d = 0 => IsEnumeration(r))
                  /\ UNCHANGED m
(* clone(): the caller continues with the clone; eq = result of `original == clone` if offered *)
CloneSwap(eq) == eq \in {None, Some(TRUE)} /\ UNCHANGED m

(* ---- properties (of the contract itself; checked by MC_Map) ---- *)
TypeOK(K, V) == DOMAIN m \subseteq K /\ \A k \in DOMAIN m : m[k] \in V
=============================================================================
