SPECIFICATION Spec
INVARIANT LawHolds
INVARIANT WellFormedAlways
INVARIANT ContractShape
CHECK_DEADLOCK FALSE
