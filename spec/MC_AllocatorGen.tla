--------------------------- MODULE MC_AllocatorGen ---------------------------
(* Behaviour generator (binding B2) on the contract level: every history of      *)
(* allocate(size) / free(block) calls of length L over the abstract sizes         *)
(*   c1m c1 c1p   = class-1, class, class+1 of a size class c1 of the pool        *)
(*   c2m c2 c2p   = the same for the next larger class c2                         *)
(*   min max maxp = smallest / largest supported block, largest + 1               *)
(* with at most MaxLive live blocks; free is generated only for live blocks (the   *)
(* guard of the contract action Free).  Each step carries what the contract fixes: *)
(* ok (a free of a live block must succeed) and the set of live block ids after    *)
(* the step when every allocation is served.  Addresses are the implementation's   *)
(* choice (any free range): the contract action AllocOk is instantiated with a     *)
(* canonical disjoint placement only to drive the abstract state.  The harness      *)
(* maps the abstract sizes to the pool's own size-class table (DESIGN 3.3),         *)
(* executes every history on every subject, and the recorded executions are judged  *)
(* by Trace_Allocator.                                                              *)
EXTENDS Allocator, TLC, Json

CONSTANTS Sizes, L, MaxLive
VARIABLES hist, nb

gvars == <<live, pend, hist, nb>>

(* abstract size in units; only its relation to the classes 4 and 8 matters here *)
Units(s) == CASE s = "c1m" -> 3 [] s = "c1" -> 4 [] s = "c1p" -> 5
              [] s = "c2m" -> 7 [] s = "c2" -> 8 [] s = "c2p" -> 9
              [] s = "min" -> 1 [] s = "max" -> 16 [] s = "maxp" -> 17

LiveAfter == DOMAIN live'
Log(op, b, s) == hist' = Append(hist, [op |-> op, b |-> b, s |-> s, ok |-> TRUE, st |-> LiveAfter])

AllocStep(s) ==
    /\ Cardinality(DOMAIN live) < MaxLive
    /\ LET b == nb + 1  v == Units(s) IN
       /\ AllocOk(b, v, v, 1, 0, 100 * b, 100 * b + v, None, None, None)
       /\ nb' = b
       /\ Log("alloc", b, s)

FreeStep(b) ==
    /\ Free(b, TRUE)
    /\ nb' = nb
    /\ Log("free", b, "min")

Next == (\E s \in Sizes : AllocStep(s)) \/ (\E b \in DOMAIN live : FreeStep(b))

Spec == AllocInit /\ hist = <<>> /\ nb = 0 /\ [][Next]_gvars

Bound == Len(hist) <= L
Emit == Len(hist) = L => PrintT(<<"REPLAY", ToJson(hist)>>)
(* the contract invariants hold along every generated history *)
Inv == NoOverlap /\ SizesOk /\ Cardinality(DOMAIN live) <= MaxLive
=============================================================================
