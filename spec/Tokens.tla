------------------------------- MODULE Tokens -------------------------------
(* Contract of the version-token machinery of zipora (property C16):              *)
(* fsa/version_sync.rs VersionManager + fsa/token.rs TokenManager / TokenCache.   *)
(*                                                                                *)
(* A token is LIVE from the moment the acquire call that produced it RETURNED to  *)
(* its caller until the moment its release (drop / return-to-cache displacement)  *)
(* STARTS.  The contract talks about live tokens, the reclamation threshold min   *)
(* of each manager, the counters a manager reports, and which managers still      *)
(* exist.  Every action carries what the implementation was observed to do.       *)
EXTENDS Naturals, Sequences, FiniteSets

VARIABLES
    live,      \* set of [id, kind, ver, mgr, tracked]  (kind "R"/"W"; mgr = manager the CALLER asked)
    mgrs,      \* function manager name -> [level, alive, addr]
    freed      \* set of ages handed to the free callback so far (observation only)

Sync(level) == level \in {"SingleThreadShared", "OneWriteMultiRead", "MultiWriteMultiRead"}

TokInit == live = {} /\ mgrs = [x \in {} |-> 0] /\ freed = {}

LiveOf(m, k) == { t \in live : t.mgr = m /\ t.kind = k /\ t.tracked }

(* ---- the properties, as predicates over a state plus an observation ---- *)

(* at most one live writer per manager in the one-writer-many-readers mode *)
OneWriter == \A m \in DOMAIN mgrs :
    mgrs[m].level = "OneWriteMultiRead" => Cardinality(LiveOf(m, "W")) <= 1

(* the reclamation threshold never exceeds the version of a live token *)
MinNotAboveLive(m, min) == \A t \in live : (t.mgr = m /\ t.tracked /\ Sync(mgrs[m].level)) => min <= t.ver

(* reported counters = numbers of live tokens, when no operation is in flight *)
CountsMatch(m, ar, aw) == /\ ar = Cardinality(LiveOf(m, "R"))
                          /\ aw = Cardinality(LiveOf(m, "W"))

(* ---- actions ---- *)

NewManager(m, level, addr) ==
    /\ m \notin DOMAIN mgrs
    /\ mgrs' = [x \in DOMAIN mgrs \cup {m} |-> IF x = m THEN [level |-> level, alive |-> TRUE, addr |-> addr] ELSE mgrs[x]]
    /\ UNCHANGED <<live, freed>>

(* the manager object was destroyed (hook event vm.drop) *)
DropManager(m) ==
    /\ m \in DOMAIN mgrs /\ mgrs[m].alive
    /\ mgrs' = [mgrs EXCEPT ![m].alive = FALSE]
    /\ UNCHANGED <<live, freed>>

(* acquire returned a token to its caller *)
AcquireOk(id, m, kind, ver, tracked) ==
    /\ m \in DOMAIN mgrs /\ mgrs[m].alive
    /\ \A t \in live : t.id /= id
    /\ live' = live \cup {[id |-> id, kind |-> kind, ver |-> ver, mgr |-> m, tracked |-> tracked]}
    /\ UNCHANGED <<mgrs, freed>>
    /\ OneWriter'

(* acquire was refused (busy / not allowed): always acceptable, nothing changes *)
AcquireRefused(m, kind) == UNCHANGED <<live, mgrs, freed>>

(* the release of a token starts: it stops being live *)
ReleaseStart(id) ==
    /\ \E t \in live : t.id = id
    /\ live' = { t \in live : t.id /= id }
    /\ UNCHANGED <<mgrs, freed>>

(* the release callback ran against the manager at address addr (hook event vm.release):  *)
(* the manager must still exist (NoDeadManagerTouch) and must be the manager the token was  *)
(* obtained from (TokenBelongs): expectedMgr is the manager the caller asked for the token. *)
ReleaseCallback(addr, expectedMgr) ==
    /\ \E m \in DOMAIN mgrs : mgrs[m].addr = addr /\ mgrs[m].alive
    /\ expectedMgr \in DOMAIN mgrs /\ mgrs[expectedMgr].addr = addr
    /\ UNCHANGED <<live, mgrs, freed>>

(* an observation of manager m while every thread is parked (quiet: no call in flight) *)
Observe(m, min, ar, aw, quiet) ==
    /\ m \in DOMAIN mgrs /\ mgrs[m].alive
    /\ MinNotAboveLive(m, min)
    /\ quiet => CountsMatch(m, ar, aw)
    /\ UNCHANGED <<live, mgrs, freed>>

(* lazy reclamation: items (ages) handed to the free callback under threshold min of m.   *)
(* An item retired at or after a live token's version must not be freed.                  *)
Reclaim(m, ages) ==
    /\ \A i \in 1..Len(ages) : \A t \in live :
          (t.mgr = m /\ t.tracked /\ Sync(mgrs[m].level)) => ages[i] < t.ver
    /\ freed' = freed \cup { ages[i] : i \in 1..Len(ages) }
    /\ UNCHANGED <<live, mgrs>>
=============================================================================
