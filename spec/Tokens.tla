------------------------------- MODULE Tokens -------------------------------
(* Contract of the version-token machinery of zipora (property C16):              *)
(* fsa/version_sync.rs VersionManager + fsa/token.rs TokenManager / TokenCache.   *)
(*                                                                                *)
(* A token is LIVE from the moment the acquire call that produced it RETURNED to  *)
(* its caller until the moment its release (drop / return-to-cache displacement)  *)
(* STARTS.  A token obtained through with_reader_token / with_writer_token is the *)
(* same thing: live when the closure starts; at the end of the closure it goes to *)
(* the per-thread cache (Ok) - where it stays live - or is released (Err).  A      *)
(* token sitting in a cache (the per-thread one or a TokenCache object of the     *)
(* user) is live until it is displaced, cleared or handed out again.              *)
(* The contract talks about live tokens, the reclamation threshold min of each    *)
(* manager, the counters a manager reports, which managers still exist, and the   *)
(* items of the lazy free lists.  Every action carries what the implementation    *)
(* was observed to do.                                                            *)
EXTENDS Naturals, Sequences, FiniteSets

VARIABLES
    live,      \* set of [id, kind, ver, mgr, tracked]  (kind "R"/"W"; mgr = manager the CALLER asked)
    mgrs,      \* function manager name -> [level, alive, addr]
    freed,     \* set of ages handed to the free callback so far (observation only)
    lfl,       \* function lazy-free-list name -> bulk threshold it was created with
    pend       \* set of [l, off, age]: items retired into list l and not yet handed to the free callback

tokvars == <<live, mgrs, freed>>
lfvars  == <<lfl, pend>>

Levels == {"NoWriteReadOnly", "SingleThreadStrict", "SingleThreadShared", "OneWriteMultiRead", "MultiWriteMultiRead"}

Sync(level) == level \in {"SingleThreadShared", "OneWriteMultiRead", "MultiWriteMultiRead"}

(* What each concurrency level promises.  The clauses of the property are scoped by these  *)
(* predicates (one writer <-> not acw in the multi-reader levels; versions / threshold      *)
(* <-> sync), so the predicates the library reports must be these.                          *)
LevelFacts(level) ==
    [acr  |-> level \in {"OneWriteMultiRead", "MultiWriteMultiRead"},   \* allows_concurrent_readers
     acw  |-> level = "MultiWriteMultiRead",                            \* allows_concurrent_writers
     sync |-> Sync(level),                                              \* requires_synchronization
     lazy |-> Sync(level),                                              \* uses_lazy_cleanup
     maxw |-> IF level = "NoWriteReadOnly" THEN <<0>>                   \* max_concurrent_writers (option)
              ELSE IF level = "MultiWriteMultiRead" THEN <<>> ELSE <<1>>]

TokInit == live = {} /\ mgrs = [x \in {} |-> 0] /\ freed = {} /\ lfl = [x \in {} |-> 0] /\ pend = {}

LiveOf(m, k) == { t \in live : t.mgr = m /\ t.kind = k /\ t.tracked }

(* ---- the properties, as predicates over a state plus an observation ---- *)

(* at most one live writer per manager in the one-writer-many-readers mode *)
OneWriter == \A m \in DOMAIN mgrs :
    mgrs[m].level = "OneWriteMultiRead" => Cardinality(LiveOf(m, "W")) <= 1

(* the reclamation threshold never exceeds the version of a live token *)
MinNotAboveLive(m, min) == \A t \in live : (t.mgr = m /\ t.tracked /\ Sync(mgrs[m].level)) => min <= t.ver

(* reported counters = numbers of live tokens, when no operation is in flight *)
CountsMatch(m, ar, aw) == /\ ar = Cardinality(LiveOf(m, "R"))
                          /\ aw = Cardinality(LiveOf(m, "W"))

(* what a live token reports about itself: tk = [valid, tmin, lvl]                          *)
(*   valid : is_valid() - a live token is valid                                             *)
(*   tmin  : min_version() - the threshold read when the token was issued; thresholds only  *)
(*           grow, so it is still not above any live token, the token itself included       *)
(*   lvl   : concurrency_level() - the level of the manager asked                           *)
TokenFacts(m, ver, tracked, tk) ==
    /\ tk.valid = TRUE
    /\ tk.lvl = mgrs[m].level
    /\ tracked => (tk.tmin <= ver /\ MinNotAboveLive(m, tk.tmin))

(* ---- actions ---- *)

NewManager(m, level, addr, facts) ==
    /\ m \notin DOMAIN mgrs
    /\ level \in Levels
    /\ facts = LevelFacts(level)
    /\ mgrs' = [x \in DOMAIN mgrs \cup {m} |-> IF x = m THEN [level |-> level, alive |-> TRUE, addr |-> addr] ELSE mgrs[x]]
    /\ UNCHANGED <<live, freed>> /\ UNCHANGED lfvars

(* the manager object was destroyed (hook event vm.drop) *)
DropManager(m) ==
    /\ m \in DOMAIN mgrs /\ mgrs[m].alive
    /\ mgrs' = [mgrs EXCEPT ![m].alive = FALSE]
    /\ UNCHANGED <<live, freed>> /\ UNCHANGED lfvars

(* acquire returned a token to its caller (directly, or to the closure of with_*_token) *)
AcquireOk(id, m, kind, ver, tracked, tk) ==
    /\ m \in DOMAIN mgrs /\ mgrs[m].alive
    /\ \A t \in live : t.id /= id
    /\ TokenFacts(m, ver, tracked, tk)
    /\ live' = live \cup {[id |-> id, kind |-> kind, ver |-> ver, mgr |-> m, tracked |-> tracked]}
    /\ UNCHANGED <<mgrs, freed>> /\ UNCHANGED lfvars
    /\ OneWriter'

(* acquire was refused (busy / not allowed): always acceptable, nothing changes *)
AcquireRefused(m, kind) == UNCHANGED tokvars /\ UNCHANGED lfvars

(* a token handed out of the per-thread cache by manager m: it was live all the time (it   *)
(* sat in the cache) and it is the token that was put there - same kind, same version;     *)
(* from now on its holder treats it as a token of manager m                                *)
HandOutCached(id, m, kind, ver, tracked, tk) ==
    /\ m \in DOMAIN mgrs /\ mgrs[m].alive
    /\ \E t \in live : t.id = id /\ t.kind = kind /\ t.ver = ver
    /\ TokenFacts(m, ver, tracked, tk)
    /\ live' = { t \in live : t.id /= id } \cup
               {[id |-> id, kind |-> kind, ver |-> ver, mgr |-> m, tracked |-> tracked]}
    /\ UNCHANGED <<mgrs, freed>> /\ UNCHANGED lfvars
    /\ OneWriter'

(* a live token was put into a cache (per-thread or user-owned): it stays live *)
CachePut(id) ==
    /\ \E t \in live : t.id = id
    /\ UNCHANGED tokvars /\ UNCHANGED lfvars

(* a TokenCache object handed a token back: it is the live token that was put there *)
CacheGet(id, kind, ver, valid) ==
    /\ \E t \in live : t.id = id /\ t.kind = kind /\ t.ver = ver
    /\ valid = TRUE
    /\ UNCHANGED tokvars /\ UNCHANGED lfvars

(* a live token was lent to an operation (insert_with_token / lookup_with_token /          *)
(* contains_with_token): it stays live, nothing else changes                               *)
UseToken(id) ==
    /\ \E t \in live : t.id = id
    /\ UNCHANGED tokvars /\ UNCHANGED lfvars

(* the release of a token starts: it stops being live *)
ReleaseStart(id) ==
    /\ \E t \in live : t.id = id
    /\ live' = { t \in live : t.id /= id }
    /\ UNCHANGED <<mgrs, freed>> /\ UNCHANGED lfvars

(* any other public method of the manager / token manager / token cache / lazy free list / token   *)
(* (statistics, clear_stats, clear_all_stats, getters, reporters): a stutter step - it leaves the    *)
(* token state unchanged; the observation logged right after it is judged as any other               *)
Neutral == UNCHANGED tokvars /\ UNCHANGED lfvars

(* the code holding the tokens ids panicked and the stack is being unwound (the panic is caught by  *)
(* catch_unwind, or ends a thread that is joined): the tokens that were in scope are dropped by    *)
(* the unwinding - their release starts, they are no longer live                                   *)
Unwind(ids) ==
    /\ \A i \in 1..Len(ids) : \E t \in live : t.id = ids[i]
    /\ live' = { t \in live : \A i \in 1..Len(ids) : t.id /= ids[i] }
    /\ UNCHANGED <<mgrs, freed>> /\ UNCHANGED lfvars

(* a writer request made at a moment the caller knows to be quiescent was refused: only justified   *)
(* by a level without writers or by a writer token that is live in the one-writer level             *)
AcquireRefusedAtQuiescence(m, kind) ==
    /\ m \in DOMAIN mgrs
    /\ kind = "W"
    /\ \/ mgrs[m].level = "NoWriteReadOnly"
       \/ (mgrs[m].level = "OneWriteMultiRead" /\ LiveOf(m, "W") /= {})
    /\ UNCHANGED tokvars /\ UNCHANGED lfvars

(* quiescence: every token of m was released and one more token came and went since: the counters   *)
(* are zero and the threshold has caught up with the current version                                *)
ObserveQuiescent(m, min, cur, ar, aw) ==
    /\ m \in DOMAIN mgrs /\ mgrs[m].alive
    /\ LiveOf(m, "R") = {} /\ LiveOf(m, "W") = {}
    /\ ar = 0 /\ aw = 0
    /\ min = cur
    /\ UNCHANGED tokvars /\ UNCHANGED lfvars

(* the release callback ran against the manager at address addr (hook event vm.release):  *)
(* the manager must still exist (NoDeadManagerTouch) and must be the manager the token was  *)
(* obtained from (TokenBelongs): expectedMgr is the manager the caller asked for the token. *)
ReleaseCallback(addr, expectedMgr) ==
    /\ \E m \in DOMAIN mgrs : mgrs[m].addr = addr /\ mgrs[m].alive
    /\ expectedMgr \in DOMAIN mgrs /\ mgrs[expectedMgr].addr = addr
    /\ UNCHANGED tokvars /\ UNCHANGED lfvars

(* an observation of manager m while every thread is parked (quiet: no call in flight) *)
Observe(m, min, ar, aw, quiet) ==
    /\ m \in DOMAIN mgrs /\ mgrs[m].alive
    /\ MinNotAboveLive(m, min)
    /\ quiet => CountsMatch(m, ar, aw)
    /\ UNCHANGED tokvars /\ UNCHANGED lfvars

(* validate_token_version(ver) answered res while the manager reported threshold min and    *)
(* current version cur: a version is valid iff it lies in [min, cur]; in particular the     *)
(* version of a live token is valid (the threshold is not above it)                         *)
Validate(m, ver, res, min, cur) ==
    /\ m \in DOMAIN mgrs /\ mgrs[m].alive
    /\ MinNotAboveLive(m, min)
    /\ res = (min <= ver /\ ver <= cur)
    /\ (\E t \in live : t.mgr = m /\ t.tracked /\ t.ver = ver) => res = TRUE
    /\ UNCHANGED tokvars /\ UNCHANGED lfvars

(* ---- lazy reclamation ---- *)

PendOf(S, lst) == { p \in S : p.l = lst }

NewLazyList(lst, thr) ==
    /\ lst \notin DOMAIN lfl
    /\ lfl' = [x \in DOMAIN lfl \cup {lst} |-> IF x = lst THEN thr ELSE lfl[x]]
    /\ UNCHANGED tokvars /\ UNCHANGED pend

(* item off retired into list lst at version age; len / bulk = what the list reports afterwards *)
Retire(lst, off, age, len, bulk) ==
    /\ lst \in DOMAIN lfl
    /\ \A p \in pend : ~(p.l = lst /\ p.off = off)
    /\ pend' = pend \cup {[l |-> lst, off |-> off, age |-> age]}
    /\ len = Cardinality(PendOf(pend', lst))
    /\ bulk = (len >= 2 * lfl[lst])
    /\ UNCHANGED tokvars /\ UNCHANGED lfl

(* process_safe_items(min, cb) on list lst, min being the threshold manager m reported: items    *)
(* = the <<off, age>> pairs handed to the free callback, in order.  Each is a retired item with  *)
(* its true age, handed over once; an item is handed over only if age < min (can_free), and     *)
(* min is not above any live token, so an item retired at or after a live token's version is    *)
(* never freed.  ret = the count the call returned; len / bulk = len() / should_bulk_process()  *)
(* afterwards; page/pcan = can_free(min) of the probed ages.  Freeing nothing is always allowed. *)
Reclaim(m, lst, min, items, ret, len, bulk, page, pcan) ==
    LET recs == { [l |-> lst, off |-> items[i][1], age |-> items[i][2]] : i \in 1..Len(items) } IN
    /\ m \in DOMAIN mgrs /\ mgrs[m].alive /\ lst \in DOMAIN lfl
    /\ MinNotAboveLive(m, min)
    /\ recs \subseteq pend
    /\ Cardinality(recs) = Len(items)
    /\ \A i \in 1..Len(items) :
          /\ items[i][2] < min
          /\ \A t \in live : (t.mgr = m /\ t.tracked /\ Sync(mgrs[m].level)) => items[i][2] < t.ver
    /\ ret = Len(items)
    /\ Len(page) = Len(pcan)
    /\ \A i \in 1..Len(page) : pcan[i] = (page[i] < min)
    /\ pend' = pend \ recs
    /\ len = Cardinality(PendOf(pend', lst))
    /\ bulk = (len >= 2 * lfl[lst])
    /\ freed' = freed \cup { items[i][2] : i \in 1..Len(items) }
    /\ UNCHANGED <<live, mgrs, lfl>>
=============================================================================
