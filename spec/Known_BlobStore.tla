-------------------------- MODULE Known_BlobStore --------------------------
(* Named deviation actions for the recorded known findings of property C03        *)
(* (see /verif/known_findings.json).  A deviation is enabled only for the listed   *)
(* subject and only under its semantic trigger; the trace specification records    *)
(* the ids taken on an accepted path in the variable kf.  In KF mode a deviation   *)
(* whose guard holds REPLACES the contract action for that event; every answer the *)
(* deviation does not mention is still judged by the contract.                     *)
EXTENDS BlobStore, TLC, Integers

(* bookkeeping of the trace specification, used by deviation guards only: the record most recently *)
(* stored under each id (kept after the record is removed), so that "returns the REMOVED record"    *)
(* can be stated exactly.  Updated from the logged events by LastdNext.                            *)
VARIABLE lastd
LastdNext(e) ==
    lastd' = IF e.op \in {"put", "put_key"} /\ e.ok THEN Ext(lastd, e.id, e.d)
             ELSE IF e.op \in {"put_batch", "put_batch_keys"} /\ e.ok /\ Len(e.ids) = Len(e.ds)
                  THEN [x \in DOMAIN lastd \cup RangeOf(e.ids) |-> IF x \in RangeOf(e.ids) THEN e.ds[PosOf(e.ids, x)] ELSE lastd[x]]
             ELSE IF e.op \in {"build", "build_keyed"} /\ e.ok THEN [i \in 0..(Len(e.ds) - 1) |-> e.ds[i + 1]]
             ELSE IF e.op = "build_at" /\ e.ok /\ Len(e.ids) = Len(e.ds) THEN [x \in RangeOf(e.ids) |-> e.ds[PosOf(e.ids, x)]]
             ELSE lastd

KnownIds == {"C03-KF3", "C03-KF7"}

(* the probe event with replaceable judgements for get / size / len answers *)
ProbeWith(ids, g, c, s, n, G(_, _, _), S(_, _, _), L(_)) ==
    /\ Len(g) = Len(ids) /\ Len(c) = Len(ids) /\ Len(s) = Len(ids)
    /\ \A i \in 1..Len(ids) : /\ G(ids[i], g[i].ok, g[i].d)
                              /\ ContainsOk(ids[i], c[i])
                              /\ S(ids[i], s[i].ok, s[i].r)
    /\ L(n)
    /\ Same
MaxOf(S) == CHOOSE x \in S : \A y \in S : y <= x

(* ---------------------------------------------------------------------------------------- *)
(* C03-KF1: HuffmanBlobStore::put stores the Huffman-ENCODED bytes once a tree has been      *)
(* built, but get() and size() delegate to the inner store without decoding: a non-empty     *)
(* record that went through the encoder comes back as other bytes (get still succeeds) and   *)
(* size() reports the encoded size.  Empty records bypass the encoder.  contains and len     *)
(* stay correct and are still judged; so is every record the deviation does not concern.     *)
HuffSubj(subj) == \/ subj.fam = "huff" /\ subj.variant /= "untrained"
                  \/ subj.fam = "stack" /\ subj.variant = "huff_zstd_mem"
Encoded(id) == IsLive(id) /\ live[id].len > 0
Get1(id, ok, d) == IF Encoded(id) THEN ok ELSE GetOk(id, ok, d)
Size1(id, ok, r) == IF Encoded(id) THEN (ok => Len(r) = 1) ELSE SizeOk(id, ok, r)
Wrong1(id, gok, gd) == Encoded(id) /\ gok /\ ~GetOk(id, gok, gd)
G1(e, subj) ==
    /\ HuffSubj(subj)
    /\ \/ e.op = "get"   /\ Wrong1(e.id, e.ok, e.d)
       \/ e.op = "size"  /\ Encoded(e.id) /\ ~SizeOk(e.id, e.ok, e.r)
       \/ e.op = "probe" /\ \E i \in 1..Len(e.ids) :
                               \/ Wrong1(e.ids[i], e.get[i].ok, e.get[i].d)
                               \/ Encoded(e.ids[i]) /\ ~SizeOk(e.ids[i], e.size[i].ok, e.size[i].r)
KF1(e, subj) ==
    /\ G1(e, subj)
    /\ \/ e.op = "get"   /\ Get1(e.id, e.ok, e.d) /\ Same
       \/ e.op = "size"  /\ Size1(e.id, e.ok, e.r) /\ Same
       \/ e.op = "probe" /\ ProbeWith(e.ids, e.get, e.contains, e.size, e.len, Get1, Size1, LenOk)

(* ---------------------------------------------------------------------------------------- *)
(* C03-KF2: NestLoudsTrieBlobStore::len() returns the statistics counter                     *)
(* stats.blob_stats.blob_count, which is only maintained when config.enable_statistics is     *)
(* set; TrieBlobStoreConfig::memory_optimized() clears it, so len() stays 0 while records     *)
(* are stored and readable.  Every other answer is still judged by the contract.              *)
StatSubj(subj) == subj.fam \in {"trie", "triekey", "triebuild"} /\ subj.variant = "memory"
LenZero(n) == n = 0
G2(e, subj) ==
    /\ StatSubj(subj)
    /\ \/ e.op = "len"   /\ e.r = 0 /\ Cardinality(Live) > 0
       \/ e.op = "probe" /\ e.len = 0 /\ Cardinality(Live) > 0
       \/ e.op = "build" /\ e.ok /\ e.len_after = 0 /\ Len(e.ds) > 0
KF2(e, subj) ==
    /\ G2(e, subj)
    /\ \/ e.op = "len"   /\ Same
       \/ e.op = "probe" /\ ProbeWith(e.ids, e.get, e.contains, e.size, e.len, GetOk, SizeOk, LenZero)
       \/ e.op = "build" /\ BuildFrom(e.ds)

(* ---------------------------------------------------------------------------------------- *)
(* C03-KF3: ZipOffsetBlobStoreBuilder::finish() (and the batch builder, which ends in it)    *)
(* drops the content buffer and the offset index it has built and returns a freshly created, *)
(* EMPTY ZipOffsetBlobStore ("TODO: Implement actual data transfer from builder to store").   *)
(* The store built from n > 0 records reports len() = 0 and knows no id.                      *)
G3(e, subj) == /\ subj.fam = "zipoffset"
               /\ e.op = "build" /\ e.ok /\ Len(e.ds) > 0 /\ e.len_after = 0
KF3(e, subj) == /\ G3(e, subj)
                /\ live' = Empty /\ issued' = {} /\ keyof' = Empty /\ bykey' = Empty

(* ---------------------------------------------------------------------------------------- *)
(* C03-KF4: put_batch is a loop of put() with `?`: when a record in the middle of the batch   *)
(* is refused (DictZipBlobStore refuses empty records, ZeroLengthBlobStore non-empty ones)    *)
(* the call returns Err, yet the records before it stay stored under ids the caller never     *)
(* receives: len() grows, the orphans cannot be addressed.  Both stores number their records  *)
(* consecutively, which is how the deviation names the orphan ids.                            *)
SeqSubj(subj) == subj.fam \in {"dictzip", "zerolen"}
Refuses(subj, d) == IF subj.fam = "dictzip" THEN d.len = 0 ELSE d.len > 0
Accepted4(subj, ds) == CHOOSE k \in 0..Len(ds) : /\ \A i \in 1..k : ~Refuses(subj, ds[i])
                                                 /\ (k = Len(ds) \/ Refuses(subj, ds[k + 1]))
Base4(subj) == IF issued = {} THEN (IF subj.fam = "dictzip" THEN 1 ELSE 0) ELSE MaxOf(issued) + 1
G4(e, subj) == /\ SeqSubj(subj)
               /\ e.op = "put_batch" /\ ~e.ok
               /\ Accepted4(subj, e.ds) >= 1 /\ Accepted4(subj, e.ds) < Len(e.ds)
               /\ e.len_after = Cardinality(Live) + Accepted4(subj, e.ds)      \* the orphans are really there
KF4(e, subj) ==
    /\ G4(e, subj)
    /\ LET k == Accepted4(subj, e.ds)
           b == Base4(subj)
           orphans == b..(b + k - 1)
       IN /\ orphans \cap Live = {}
          /\ live' = [x \in Live \cup orphans |-> IF x \in Live THEN live[x] ELSE e.ds[x - b + 1]]
          /\ issued' = issued \cup orphans
          /\ UNCHANGED <<keyof, bykey>>

(* ---------------------------------------------------------------------------------------- *)
(* C03-KF5: NestLoudsTrieBlobStore::remove(id) deletes the KEY of the record from the trie    *)
(* even when a newer record has since been stored under the same key: the newer record stays  *)
(* live and readable by id, but get_by_key / contains_key / get_by_prefix no longer find it.   *)
(* The remove event of a keyed run carries the key the harness had supplied for that id and     *)
(* contains_key(key) observed right after the call; the deviation needs the key to be gone.     *)
G5(e, subj) == /\ subj.fam = "triekey" /\ subj.variant /= "memory"     \* (LOUDS index: see KF7)
               /\ e.op = "remove" /\ e.ok
               /\ IsLive(e.id) /\ e.id \in DOMAIN keyof
               /\ keyof[e.id] \in DOMAIN bykey /\ bykey[keyof[e.id]] /= e.id
               /\ IsLive(bykey[keyof[e.id]])
               /\ e.k = keyof[e.id] /\ ~e.key_after        \* observed right after the call: the key is gone
KF5(e, subj) == /\ G5(e, subj)
                /\ live' = Drop(live, e.id)
                /\ bykey' = Drop(bykey, keyof[e.id])
                /\ UNCHANGED <<issued, keyof>>

(* ---------------------------------------------------------------------------------------- *)
(* C03-KF7: with the LOUDS key index (memory_optimized) ZiporaTrie::remove reports success    *)
(* without removing the key, and the store keeps the node -> blob mapping and the blob bytes:  *)
(* after remove(id) the record is absent by id, but get_by_key of its key still returns it and  *)
(* get_by_prefix still lists it.  Entries of keys whose latest record is live are still judged. *)
(* Only the exact bytes of the removed record (lastd) are admitted for a stale key.               *)
Stale(k) == k \in DOMAIN bykey /\ ~IsLive(bykey[k]) /\ bykey[k] \in DOMAIN lastd
G7(e, subj) ==
    /\ subj.fam = "triekey" /\ subj.variant = "memory"
    /\ \/ e.op = "get_key" /\ e.ok /\ Stale(e.k) /\ ~GetByKeyOk(e.k, e.ok, e.d) /\ e.d = lastd[bykey[e.k]]
       \/ e.op = "get_prefix" /\ e.ok /\ \E i \in 1..Len(e.r) : Stale(e.r[i].k) /\ IsPrefix(e.p, e.r[i].k)
       \/ e.op = "keys" /\ e.ok /\ \E i \in 1..Len(e.r) : Stale(e.r[i]) /\ IsPrefix(e.p, e.r[i])
       \* a key whose removed record's id was re-issued by a plain put is no longer known to the contract
       \* (Unkey drops it) but is still in the raw trie: keys() lists it, contains_key answers true.  Coarse on
       \* purpose (found by the thorough tier): which extra keys appear is not constrained beyond the prefix.
       \/ e.op = "keys" /\ e.ok /\ ~KeysOk(e.p, e.ok, e.r) /\ PrefixSet(e.p) \subseteq RangeOf(e.r)
       \/ e.op = "contains_key" /\ e.r /\ e.k \notin DOMAIN bykey
KF7(e, subj) ==
    /\ G7(e, subj)
    /\ \/ e.op = "get_key" /\ Same
       \/ /\ e.op = "get_prefix"
          /\ LET keys == { e.r[i].k : i \in 1..Len(e.r) } IN
                /\ Len(e.r) = Cardinality(keys)
                /\ PrefixSet(e.p) \subseteq keys
                /\ \A k \in keys \ PrefixSet(e.p) : Stale(k) /\ IsPrefix(e.p, k)
                /\ \A i \in 1..Len(e.r) : IF e.r[i].k \in PrefixSet(e.p) THEN e.r[i].d = live[bykey[e.r[i].k]]
                                                                          ELSE e.r[i].d = lastd[bykey[e.r[i].k]]
          /\ Same
       \/ /\ e.op = "keys"
          /\ Len(e.r) = Cardinality(RangeOf(e.r))
          /\ PrefixSet(e.p) \subseteq RangeOf(e.r)
          /\ \A k \in RangeOf(e.r) \ PrefixSet(e.p) : IsPrefix(e.p, k)
          /\ Same
       \/ e.op = "contains_key" /\ Same

(* ---------------------------------------------------------------------------------------- *)
(* C03-KF8: DictZipBlobStore with entropy_algorithm = Fse: for large records the FSE stage     *)
(* produces output that its own decoder rejects (a 64 KiB record "compresses" to ~16 KiB), so  *)
(* get of a live id returns Err while contains / size / len still report the record.  Only the *)
(* error answer (get: Err, get_batch: None / Err) is admitted; returned bytes must still equal   *)
(* the stored record.                                                                          *)
FseSubj(subj) == subj.fam = "dictzip" /\ subj.variant \in {"fse", "fse_x4"}
Get8(id, ok, d) == IF IsLive(id) THEN (ok => d = live[id]) ELSE ~ok
GetBatch8(ids, ok, r) ==
    ok => /\ Len(r) = Len(ids)
          /\ \A i \in 1..Len(ids) : IF IsLive(ids[i]) THEN (r[i].some => r[i].d = live[ids[i]]) ELSE ~r[i].some
G8(e, subj) ==
    /\ FseSubj(subj)
    /\ \/ e.op = "get"   /\ IsLive(e.id) /\ ~e.ok
       \/ e.op = "probe" /\ \E i \in 1..Len(e.ids) : IsLive(e.ids[i]) /\ ~e.get[i].ok
       \/ e.op = "get_batch" /\ ~GetBatchOk(e.ids, e.ok, e.r) /\ GetBatch8(e.ids, e.ok, e.r)
KF8(e, subj) ==
    /\ G8(e, subj)
    /\ \/ e.op = "get"   /\ Same
       \/ e.op = "probe" /\ ProbeWith(e.ids, e.get, e.contains, e.size, e.len, Get8, SizeOk, LenOk)
       \/ e.op = "get_batch" /\ GetBatch8(e.ids, e.ok, e.r) /\ Same

(* ---------------------------------------------------------------------------------------- *)
(* C03-KF9: NestLoudsTrieBlobStore::put_batch_with_keys is a loop of put_with_key()? : when an  *)
(* entry in the middle is refused (e.g. a key the trie cannot hold) the call returns Err, yet   *)
(* the entries before it stay stored -- under ids the caller never receives -- and become the   *)
(* latest record of their keys.  The store numbers its records consecutively; len() right after *)
(* the call (logged) shows how many entries stayed.                                             *)
Stayed9(e) == e.len_after - Cardinality(Live)
G9(e, subj) == /\ subj.fam = "triekey"
               /\ e.op = "put_batch_keys" /\ ~e.ok
               /\ Stayed9(e) >= 1 /\ Stayed9(e) < Len(e.ds)
KF9(e, subj) ==
    /\ G9(e, subj)
    /\ LET k == Stayed9(e)
           b == IF issued = {} THEN 0 ELSE MaxOf(issued) + 1
       IN PutBatchWithKeys(SubSeq(e.ks, 1, k), SubSeq(e.ds, 1, k), [i \in 1..k |-> b + i - 1])

(* ---------------------------------------------------------------------------------------- *)
(* C03-KF10: MemoryBlobStore::from_data(map) sets the next id to max(id) + 1; when the map holds *)
(* a record under u32::MAX (logged as -1) the counter wraps to 0 and put() hands out -- and      *)
(* overwrites -- the id of a record that is still live (ids "never reused for a different live   *)
(* record").  Only that overwrite is admitted: the new record is then the one stored under the id. *)
G10(e, subj) == /\ subj.fam = "mem" /\ subj.variant = "from_data_top"
                /\ (0 - 1) \in issued
                /\ e.op = "put" /\ e.ok /\ IsLive(e.id)
KF10(e, subj) == /\ G10(e, subj)
                 /\ live' = Ext(live, e.id, e.d)
                 /\ UNCHANGED <<issued, keyof, bykey>>

(* guard (state predicate) and action of each deviation *)
DevApplies(id, e, subj) ==
    \/ id = "C03-KF1" /\ G1(e, subj)
    \/ id = "C03-KF2" /\ G2(e, subj)
    \/ id = "C03-KF3" /\ G3(e, subj)
    \/ id = "C03-KF4" /\ G4(e, subj)
    \/ id = "C03-KF5" /\ G5(e, subj)
    \/ id = "C03-KF7" /\ G7(e, subj)
    \/ id = "C03-KF8" /\ G8(e, subj)
    \/ id = "C03-KF9" /\ G9(e, subj)
    \/ id = "C03-KF10" /\ G10(e, subj)
KnownDeviation(id, e, subj) ==
    \/ id = "C03-KF1" /\ KF1(e, subj)
    \/ id = "C03-KF2" /\ KF2(e, subj)
    \/ id = "C03-KF3" /\ KF3(e, subj)
    \/ id = "C03-KF4" /\ KF4(e, subj)
    \/ id = "C03-KF5" /\ KF5(e, subj)
    \/ id = "C03-KF7" /\ KF7(e, subj)
    \/ id = "C03-KF8" /\ KF8(e, subj)
    \/ id = "C03-KF9" /\ KF9(e, subj)
    \/ id = "C03-KF10" /\ KF10(e, subj)
=============================================================================
