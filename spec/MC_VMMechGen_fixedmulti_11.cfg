SPECIFICATION Spec
CONSTANTS
  P = 11
  Fixed = TRUE
  OneWriterMode = FALSE
  Threads <- MCThreads
  Prog <- MCProg
INVARIANT Emit
CHECK_DEADLOCK FALSE
