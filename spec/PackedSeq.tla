----------------------------- MODULE PackedSeq -----------------------------
(* Contract of every packed / compressed integer container of zipora (property C09):  *)
(* IntVec<T>, UintVector, UintVecMin0, ZipIntVec, SortedUintVec.                      *)
(*                                                                                    *)
(* State: `built` (a container exists) and `seq`, the sequence of values it holds.    *)
(* Values are OPAQUE: every integer is logged as its decimal string, so all signed    *)
(* and 64-bit values are exact and only equality is ever needed.                      *)
(* Every public operation is one action whose parameters are the arguments AND the    *)
(* result the implementation returned; the action is enabled exactly for the results  *)
(* the property allows:                                                               *)
(*   - building succeeds (then seq = input) or reports an error (then no container);  *)
(*   - an in-range read returns exactly the stored element;                           *)
(*   - a read past the end is refused: None / Err, or - for the index APIs that       *)
(*     document it (parameter panicOK, decided per subject by the trace spec) - a     *)
(*     panic.  A VALUE for an out-of-range index is never accepted.                   *)
(*   - push / set may be refused (Err, documented panic) leaving the content as is.   *)
(* Options are sequences of length 0/1 (Opt.tla).                                     *)
(*                                                                                    *)
(* Indices are usize in the code (up to 2^64-1) and must be compared with Len(seq):   *)
(* they are logged as four 16-bit limbs, most significant first.                      *)
EXTENDS Naturals, Sequences, FiniteSets, Opt

VARIABLES seq, built

pvars == <<seq, built>>

PSInit == seq = <<>> /\ built = FALSE

(* ---- indices (limbs) ---- *)
IsLimbs(il) == Len(il) = 4 /\ \A k \in 1..4 : il[k] \in 0..65535
SmallIdx(il) == il[1] = 0 /\ il[2] = 0 /\ il[3] < 16384          \* value < 2^30
IdxVal(il) == il[3] * 65536 + il[4]                              \* only when SmallIdx
InRange(il, n) == SmallIdx(il) /\ IdxVal(il) < n                 \* il < n   (n < 2^30)
InRange2(il, n) == SmallIdx(il) /\ IdxVal(il) + 1 < n            \* il + 1 < n, no wrap-around
Limbs(i) == <<0, 0, i \div 65536, i % 65536>>                    \* for the bounded models

(* the answer a read of index il must give *)
ReadOf(s, il) == IF InRange(il, Len(s)) THEN Some(s[IdxVal(il) + 1]) ELSE None
Read2Of(s, il) == IF InRange2(il, Len(s)) THEN Some(<<s[IdxVal(il) + 1], s[IdxVal(il) + 2]>>) ELSE None
Read(il) == ReadOf(seq, il)
Read2(il) == Read2Of(seq, il)

Hows == {"value", "none", "err", "panic"}
Refusals == {"none", "err", "panic"}

(* ---- construction ---- *)
(* from_slice / build_from / builder.finish ...: ok => the container holds exactly xs *)
Build(xs, ok) == IF ok THEN seq' = xs /\ built' = TRUE
                       ELSE seq' = <<>> /\ built' = FALSE
(* push(x): appended, or refused and nothing changes *)
Push(x, ok) == /\ built
               /\ seq' = IF ok THEN Append(seq, x) ELSE seq
               /\ UNCHANGED built
(* a batch of successful pushes, logged as one event *)
Extend(xs) == built /\ seq' = seq \o xs /\ UNCHANGED built
(* set(i, x): succeeds only inside the vector and replaces exactly that element; or refused *)
Set(il, x, ok) == /\ built
                  /\ IF ok THEN /\ InRange(il, Len(seq))
                                /\ seq' = [seq EXCEPT ![IdxVal(il) + 1] = x]
                           ELSE seq' = seq
                  /\ UNCHANGED built
(* finish() of an incremental builder: the content stays, or an error and no container *)
Finish(ok) == /\ built
              /\ IF ok THEN UNCHANGED pvars ELSE seq' = <<>> /\ built' = FALSE

(* clear(): the container stays, empty; n = the length reported afterwards *)
Clear(n) == built /\ n = 0 /\ seq' = <<>> /\ UNCHANGED built
(* resize(n): the common prefix is preserved; the elements a growing resize adds are not specified, *)
(* so the event carries the complete read-back `out` taken right after the call, which defines them *)
Resize(n, out) ==
    /\ built
    /\ Len(out) = n
    /\ \A i \in 1..(IF n < Len(seq) THEN n ELSE Len(seq)) : out[i] = seq[i]
    /\ seq' = out /\ UNCHANGED built
(* a call that must not change the content (shrink_to_fit, clone and read the clone, reading through  *)
(* another view such as ZipIntVec::inner): `out` is the complete read-back afterwards / of the copy *)
Maintain(out) == built /\ out = seq /\ UNCHANGED pvars
(* swap(other): the observed container now holds what the other one was built from (xs, the INPUT of *)
(* the other); `out` is the complete read-back right after the swap                                   *)
Swap(xs, out) == built /\ out = xs /\ seq' = xs /\ UNCHANGED built

(* ---- reads ---- *)
(* The ...OK operators are state predicates ("this answer is allowed now"); the actions add  *)
(* UNCHANGED.  get(i) -> r, delivered as `how`: a value, None, Err, or a panic.              *)
GetOK(il, r, how, panicOK) ==
    /\ built
    /\ r = Read(il)
    /\ IF r = None THEN how \in Refusals /\ (how = "panic" => panicOK) ELSE how = "value"
(* get2(i) -> (seq[i], seq[i+1]) *)
Get2OK(il, r, how, panicOK) ==
    /\ built
    /\ r = Read2(il)
    /\ IF r = None THEN how \in Refusals /\ (how = "panic" => panicOK) ELSE how = "value"
(* The static fast_get(data, bits, mask, idx) of UintVecMin0 / ZipIntVec sees only the padded   *)
(* byte buffer, not the element count: inside the vector it must return the element; an index   *)
(* of 2^40 or more with bits > 0 addresses bytes no buffer has and must be refused; between the *)
(* two (padding, zero-width elements) the property says nothing.                                *)
FarIdx(il) == il[1] > 0 \/ il[2] >= 256                           \* il >= 2^40
FastGetOK(il, bits, r, how) ==
    /\ built
    /\ InRange(il, Len(seq)) => r = Read(il) /\ how = "value"
    /\ (FarIdx(il) /\ bits > 0) => r = None /\ how \in {"none", "err"}
    /\ (r = None) = (how # "value")
(* number of blocks of bs elements *)
NBlocks(bs) == (Len(seq) + bs - 1) \div bs
(* get_block(b, out): out[1..bs] filled with block b; the tail of the last block beyond Len is unspecified *)
GetBlockOK(bl, bs, ok, out) ==
    /\ built /\ bs > 0
    /\ IF InRange(bl, NBlocks(bs))
       THEN /\ ok
            /\ Len(out) >= bs
            /\ LET base == IdxVal(bl) * bs IN
               \A j \in 1..bs : base + j <= Len(seq) => out[j] = seq[base + j]
       ELSE ~ok
Get(il, r, how, panicOK) == GetOK(il, r, how, panicOK) /\ UNCHANGED pvars
Get2(il, r, how, panicOK) == Get2OK(il, r, how, panicOK) /\ UNCHANGED pvars
FastGet(il, bits, r, how) == FastGetOK(il, bits, r, how) /\ UNCHANGED pvars
GetBlock(bl, bs, ok, out) == GetBlockOK(bl, bs, ok, out) /\ UNCHANGED pvars
LenIs(n) == built /\ n = Len(seq) /\ UNCHANGED pvars
(* len() together with is_empty() *)
LenEmpty(n, empty) == built /\ n = Len(seq) /\ empty = (Len(seq) = 0) /\ UNCHANGED pvars
(* back(): the last element; on an empty vector refused (documented panic where panicOK) *)
BackOK(r, how, panicOK) ==
    /\ built
    /\ r = (IF Len(seq) > 0 THEN Some(seq[Len(seq)]) ELSE None)
    /\ IF r = None THEN how \in Refusals /\ (how = "panic" => panicOK) ELSE how = "value"
Back(r, how, panicOK) == BackOK(r, how, panicOK) /\ UNCHANGED pvars

(* a batch of single reads logged as one event: g[k].k names the call *)
ProbeOK(p, panicOK) ==
    CASE p.k = "get" -> GetOK(p.i, p.r, p.how, panicOK)
      [] p.k = "get2" -> Get2OK(p.i, p.r, p.how, panicOK)
      [] p.k = "fast_get" -> FastGetOK(p.i, p.bits, p.r, p.how)
      [] p.k = "get_block" -> GetBlockOK(p.i, p.bs, p.ok, p.out)
      [] OTHER -> FALSE
Probes(g, panicOK) == built /\ (\A k \in 1..Len(g) : ProbeOK(g[k], panicOK)) /\ UNCHANGED pvars

(* ---- batch reads: one event carries a complete read-back ---- *)
(* out[i] = get(i-1) for every i in 1..len(); an in-range None/Err is logged as a non-numeric string *)
ReadBack(out, n) == built /\ n = Len(seq) /\ out = seq /\ UNCHANGED pvars
(* out2[i] = get2(i-1) for every i in 1..len()-1 *)
ReadBack2(out2) ==
    /\ built
    /\ Len(out2) = (IF Len(seq) = 0 THEN 0 ELSE Len(seq) - 1)
    /\ \A i \in 1..Len(out2) : out2[i] = <<seq[i], seq[i + 1]>>
    /\ UNCHANGED pvars
(* all blocks 0..num_blocks()-1 concatenated *)
ReadBlocks(bs, nb, out) ==
    /\ built /\ bs > 0
    /\ nb = NBlocks(bs)
    /\ Len(out) = nb * bs
    /\ SubSeq(out, 1, Len(seq)) = seq
    /\ UNCHANGED pvars

(* ---- properties of the contract itself (checked by MC_PackedSeq) ---- *)
TypeOK(V) == built \in BOOLEAN /\ seq \in Seq(V) /\ (~built => seq = <<>>)
=============================================================================
