SPECIFICATION Spec
CONSTANTS
  Keys = {"k1","k2","k3"}
  Vals = {"v1","v2"}
  L = 5
CONSTRAINT Bound
INVARIANT Emit
CHECK_DEADLOCK FALSE
