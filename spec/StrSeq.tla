------------------------------- MODULE StrSeq -------------------------------
(* Contract of the string vectors of zipora (property C10): SortableStrVec,          *)
(* FixedLenStrVec<N>, ZoSortedStrVec, BitPackedStringVec, AdvancedStringVec.          *)
(*                                                                                   *)
(* State                                                                             *)
(*   strs   function object id -> sequence of byte strings (insertion order)          *)
(*   mode   function object id -> "none" | "lex" | "len" | "custom": which sorted view  *)
(*          the object currently offers (SortableStrVec keeps the insertion order and  *)
(*          exposes the sorted order through a second view).  "custom" = sorted by a   *)
(*          caller-supplied comparator (the harness always supplies the byte order):   *)
(*          the view must be sorted, but binary_search may decline to use it.          *)
(* A byte string is a sequence of 0..255.  Refusal rule: push may fail when it leaves *)
(* the content unchanged (FixedLenStrVec refuses strings longer than N); a read may   *)
(* never return a wrong string.                                                      *)
EXTENDS Naturals, Sequences, FiniteSets, TLC, Opt

VARIABLES strs, mode

strvars == <<strs, mode>>

StrInit == strs = (1 :> <<>>) /\ mode = (1 :> "none")

SElems(s) == { s[i] : i \in 1..Len(s) }
Count(s, x) == Cardinality({ i \in 1..Len(s) : s[i] = x })
IsPermutation(a, b) == Len(a) = Len(b) /\ \A i \in 1..Len(a) : Count(a, a[i]) = Count(b, a[i])
MinL(a, b) == IF a < b THEN a ELSE b
(* byte-wise lexicographic order (the order of Rust's str / [u8]) *)
LexLeq(a, b) ==
    LET n == MinL(Len(a), Len(b)) IN
    \E k \in 0..n : /\ \A j \in 1..k : a[j] = b[j]
                    /\ IF k = n THEN Len(a) <= Len(b) ELSE a[k + 1] < b[k + 1]
LexLess(a, b) == LexLeq(a, b) /\ a # b
LexSorted(s) == \A i \in 1..(Len(s) - 1) : LexLeq(s[i], s[i + 1])
StrictlyLexSorted(s) == \A i \in 1..(Len(s) - 1) : LexLess(s[i], s[i + 1])
LenSorted(s) == \A i \in 1..(Len(s) - 1) : Len(s[i]) <= Len(s[i + 1])
WithS(o, new) == (o :> new) @@ strs
WithM(o, m) == (o :> m) @@ mode

(* push(s) -> Ok(index): appended at the end, the index returned is its position *)
PushStr(o, s, r) == /\ r = Len(strs[o])
                    /\ strs' = WithS(o, Append(strs[o], s))
                    /\ mode' = WithM(o, "none")            \* a push invalidates the sorted view
(* push(s) -> Ok(()) for types that return no index *)
PushStrNoIdx(o, s) == strs' = WithS(o, Append(strs[o], s)) /\ mode' = WithM(o, "none")
PushStrRefused(o, s) == UNCHANGED strvars

(* extend(xs): a bulk push; the indices returned are the positions of the new strings *)
ExtendStr(o, xs, r) == /\ r = [i \in 1..Len(xs) |-> Len(strs[o]) + i - 1]
                       /\ strs' = WithS(o, strs[o] \o xs)
                       /\ mode' = WithM(o, "none")

(* sort: the insertion-order view is untouched; the object now offers a sorted view *)
SortStr(o, kind) == /\ kind \in {"lex", "len", "custom"}
                    /\ mode' = WithM(o, kind) /\ UNCHANGED strs
SortRefused(o) == UNCHANGED strvars

ClearStr(o) == strs' = WithS(o, <<>>) /\ mode' = WithM(o, "none")
CloneStr(o, o2) == /\ o2 \notin DOMAIN strs
                   /\ strs' = WithS(o2, strs[o]) /\ mode' = WithM(o2, mode[o])
MaintenanceStr(o) == UNCHANGED strvars

(* construction of a sorted vector from a list of strings; c = the content it reports.       *)
(*   "from_strings"  sorts and removes duplicates (documented): c strictly increasing and     *)
(*                   holding exactly the distinct input strings                               *)
(*   "from_sorted"   accepts only a sorted list and keeps it as it is (duplicates included)   *)
(*   "from_sortable" sorts a SortableStrVec: c sorted and a permutation of the input          *)
Build(o, kind, input, c) ==
    /\ \/ kind = "from_iter" /\ c = input                       \* SortableStrVec::from_iter keeps the order given
       \/ kind = "from_strings" /\ StrictlyLexSorted(c) /\ SElems(c) = SElems(input)
       \/ kind = "from_sorted" /\ LexSorted(input) /\ c = input
       \/ kind = "from_sortable" /\ LexSorted(c) /\ IsPermutation(c, input)
    /\ strs' = WithS(o, c) /\ mode' = WithM(o, IF kind = "from_iter" THEN "none" ELSE "lex")   \* zo: the content itself is sorted
BuildRefused(o) == UNCHANGED strvars

(* find / find_exact / contains: Some(i) must point at an equal string; None only if absent *)
Find(o, s, r) == /\ IF r = None THEN s \notin SElems(strs[o])
                    ELSE r[1] < Len(strs[o]) /\ strs[o][r[1] + 1] = s
                 /\ UNCHANGED strvars
(* count_prefix(p): the number of stored strings that start with p *)
IsPrefix(p, x) == Len(p) <= Len(x) /\ SubSeq(x, 1, Len(p)) = p
CountPrefix(o, p, r) == /\ r = Cardinality({ i \in 1..Len(strs[o]) : IsPrefix(p, strs[o][i]) })
                        /\ UNCHANGED strvars
(* range(a, b) of a sorted vector: exactly the stored strings x with a <= x < b, in order (with *)
(* all their duplicates); nothing when a > b                                                    *)
RangeStr(o, a, b, r) ==
    LET s == strs[o]
        I == { i \in 1..Len(s) : LexLeq(a, s[i]) /\ LexLess(s[i], b) } IN
    /\ LexSorted(s)
    /\ IF I = {} THEN r = <<>>
       ELSE LET lo == CHOOSE i \in I : \A j \in I : i <= j
                hi == CHOOSE i \in I : \A j \in I : j <= i IN
            I = lo..hi /\ r = SubSeq(s, lo, hi)
    /\ UNCHANGED strvars

(* binary search in the sorted view sv reported by the same event: Ok(pos) -> sv[pos] = s;   *)
(* Err allowed when the string is absent or the object offers no lexicographic view           *)
BinarySearch(o, s, ok, pos, sv) ==
    /\ IF ok THEN pos < Len(sv) /\ sv[pos + 1] = s /\ mode[o] = "lex" /\ IsPermutation(sv, strs[o]) /\ LexSorted(sv)
       ELSE s \notin SElems(strs[o]) \/ mode[o] # "lex"
    /\ UNCHANGED strvars

(* ---- observation of one object after a call --------------------------------- *)
(* p = [len, c (get(i) for every i < len, None encoded as absent -> see ok flags), get_ok      *)
(*      (every get(i), i < len, returned Some), oob (get(len) as option), has_it, it,          *)
(*      has_sorted, sorted (the sorted view: get_sorted / iter_sorted)]                        *)
ObsStr(s, m, p) ==
    /\ p.len = Len(s)
    /\ \A i \in 1..Len(p.views) : p.views[i] = s             \* twins of get(i) (get_by_id ...)
    /\ \A i \in 1..Len(p.alt_len) : p.alt_len[i] = Len(s)    \* twins of len() (is_empty, statistics)
    /\ p.get_ok /\ p.c = s
    /\ p.oob = None
    /\ p.has_it => p.it = s
    (* the sorted view may be withheld (refusal); when given it must be right for the mode *)
    /\ p.has_sorted => /\ m \in {"lex", "len", "custom"}
                       /\ IsPermutation(p.sorted, s)
                       /\ IF m = "len" THEN LenSorted(p.sorted) ELSE LexSorted(p.sorted)
=============================================================================
