------------------------------ MODULE MC_Parser ------------------------------
(* Bounded model of the C15 fault model: every descriptor of every kind applied to   *)
(* every test encoding satisfies the laws of Parser.tla (a truncation is a proper     *)
(* prefix, a substitution changes at most the one byte - exactly one when the value   *)
(* differs -, a maximised window holds the pattern and nothing else changed, appended *)
(* garbage keeps the encoding as a proper prefix, a combination keeps the maximised   *)
(* field), every generated descriptor is well formed, the per-kind sequences have no  *)
(* duplicates and exactly NumDesc elements (the closed forms the trace specification  *)
(* binds n_cases to).                                                                 *)
EXTENDS Parser, TLC

VARIABLES enc, desc

Alphabet == {0, 127, 255}
Short == UNION {[1..n -> Alphabet] : n \in 0..3}
Fixed == { <<1, 2, 3, 4, 5>>,
           <<0, 255, 128, 127, 1, 254, 16, 32, 64>>,
           <<9, 8, 7, 6, 5, 4, 3, 2, 1, 0, 255, 254, 253>>,
           [i \in 1..22 |-> (i * 11 + 3) % 256] }        \* long enough for a pair of 8-byte fields
TestEncs == Short \cup Fixed

(* two parameter sets: a window limit below and above the longest test encoding *)
Params == { [win |-> 10, combo |-> "all", raw |-> 1], [win |-> 64, combo |-> "class", raw |-> 1] }
VARIABLE par

MKinds == {"b", "t", "s", "m", "a", "c", "o", "p", "u", "r"}

Init == enc \in TestEncs /\ par \in Params /\ desc = <<"b">> /\ TallyInit

Next ==
    /\ desc = <<"b">>                       \* one step from the base case to each descriptor
    /\ \E kind \in MKinds :
        LET ds == DescSeq(kind, Len(enc), par) IN
        \E j \in 1..Len(ds) :
            /\ desc' = ds[j]
            /\ UNCHANGED <<enc, par, tally>>

Spec == Init /\ [][Next]_<<enc, desc, par, tally>>

LawHolds == Law(enc, desc)
WellFormedAlways == WellFormed(desc, Len(enc), par)
(* the contract accepts exactly the two allowed outcomes *)
ContractShape == \A o \in Outcomes : Parse("p", desc, o) <=> o \in {"ok", "err"}

(* counting laws, evaluated once *)
NoDup(s) == Cardinality({s[j] : j \in 1..Len(s)}) = Len(s)
CountLaw(L, P) ==
    \A kind \in {"b", "t", "s", "m", "a", "c", "o", "p", "u"} :
        LET ds == DescSeq(kind, L, P) IN
        /\ Len(ds) = NumDesc(kind, L, P)
        /\ NoDup(ds)
        /\ \A j \in 1..Len(ds) : WellFormed(ds[j], L, P) /\ ds[j][1] = kind

ASSUME \A L \in 0..40 : CountLaw(L, [win |-> 64, combo |-> "all", raw |-> 2])
ASSUME \A L \in {0, 1, 3, 4, 7, 8, 9, 11, 12, 20, 63, 64, 65, 72, 73, 80, 130} :
           CountLaw(L, [win |-> 64, combo |-> "class", raw |-> 2])
ASSUME \A L \in {5, 12, 30} : CountLaw(L, [win |-> 16, combo |-> "all", raw |-> 2])
(* raw strings: every string up to length 2 exactly once *)
ASSUME LET rs == RawSeq(2) IN
       /\ Len(rs) = NumDesc("r", 0, [win |-> 64, combo |-> "class", raw |-> 2])
       /\ {Tail(rs[j]) : j \in 1..Len(rs)} = UNION {[1..n -> Byte] : n \in 0..2}
ASSUME Len(RawSeq(1)) = 257 /\ Len(RawSeq(0)) = 1
(* the overflow values: w bytes each, all different, and - where a 32-bit TLC integer can say it - *)
(* the constructors build 2^e + d, 2^e - 1 and 2^(8w) - 1 - d in little endian                   *)
LEValue(b) == LET S[i \in 0..Len(b)] == IF i = 0 THEN 0 ELSE S[i - 1] * 256 + b[Len(b) - i + 1] IN S[Len(b)]
ASSUME \A w \in {4, 8} : /\ \A v \in 1..NV(w) : Len(OVal(w, v)) = w /\ \A j \in 1..w : OVal(w, v)[j] \in Byte
                          /\ Cardinality({OVal(w, x) : x \in 1..NV(w)}) = NV(w)
ASSUME \A e \in 8..30 : /\ LEValue(PowPlus(4, e, 100)) = 2 ^ e + 100 /\ LEValue(PowPlus(8, e, 0)) = 2 ^ e
                         /\ LEValue(PowMinus1(4, e)) = 2 ^ e - 1 /\ LEValue(PowMinus1(8, e)) = 2 ^ e - 1
ASSUME LEValue(MaxMinus(3, 80)) = 2 ^ 24 - 1 - 80 /\ LEValue(MaxMinus(2, 0)) = 65535
ASSUME PowPlus(8, 61, 100) = <<100, 0, 0, 0, 0, 0, 0, 32>> /\ PowMinus1(8, 64 - 3) = <<255, 255, 255, 255, 255, 255, 255, 31>>
ASSUME NV(8) = 38 /\ NV(4) = 20
ASSUME \A k \in 0..2 : Pow256(k) = Cardinality([1..k -> Byte])
=============================================================================
