------------------------------ MODULE MC_Parser ------------------------------
(* Bounded model of the C15 fault model: every descriptor of every kind applied to   *)
(* every test encoding satisfies the laws of Parser.tla (a truncation is a proper     *)
(* prefix, a substitution changes at most the one byte - exactly one when the value   *)
(* differs -, a maximised window holds the pattern and nothing else changed, appended *)
(* garbage keeps the encoding as a proper prefix, a combination keeps the maximised   *)
(* field), every generated descriptor is well formed, the per-kind sequences have no  *)
(* duplicates and exactly NumDesc elements (the closed forms the trace specification  *)
(* binds n_cases to).                                                                 *)
EXTENDS Parser, TLC

VARIABLES enc, desc

Alphabet == {0, 127, 255}
Short == UNION {[1..n -> Alphabet] : n \in 0..3}
Fixed == { <<1, 2, 3, 4, 5>>,
           <<0, 255, 128, 127, 1, 254, 16, 32, 64>>,
           <<9, 8, 7, 6, 5, 4, 3, 2, 1, 0, 255, 254, 253>> }
TestEncs == Short \cup Fixed

(* two parameter sets: a window limit below and above the longest test encoding *)
Params == { [win |-> 10, combo |-> "all", raw |-> 1], [win |-> 64, combo |-> "class", raw |-> 1] }
VARIABLE par

MKinds == {"b", "t", "s", "m", "a", "c", "r"}

Init == enc \in TestEncs /\ par \in Params /\ desc = <<"b">> /\ TallyInit

Next ==
    /\ desc = <<"b">>                       \* one step from the base case to each descriptor
    /\ \E kind \in MKinds :
        LET ds == DescSeq(kind, Len(enc), par) IN
        \E j \in 1..Len(ds) :
            /\ desc' = ds[j]
            /\ UNCHANGED <<enc, par, tally>>

Spec == Init /\ [][Next]_<<enc, desc, par, tally>>

LawHolds == Law(enc, desc)
WellFormedAlways == WellFormed(desc, Len(enc), par)
(* the contract accepts exactly the two allowed outcomes *)
ContractShape == \A o \in Outcomes : Parse("p", desc, o) <=> o \in {"ok", "err"}

(* counting laws, evaluated once *)
NoDup(s) == Cardinality({s[j] : j \in 1..Len(s)}) = Len(s)
CountLaw(L, P) ==
    \A kind \in {"b", "t", "s", "m", "a", "c"} :
        LET ds == DescSeq(kind, L, P) IN
        /\ Len(ds) = NumDesc(kind, L, P)
        /\ NoDup(ds)
        /\ \A j \in 1..Len(ds) : WellFormed(ds[j], L, P) /\ ds[j][1] = kind

ASSUME \A L \in 0..40 : CountLaw(L, [win |-> 64, combo |-> "all", raw |-> 2])
ASSUME \A L \in {0, 1, 3, 4, 7, 8, 9, 11, 12, 20, 63, 64, 65, 72, 73, 80, 130} :
           CountLaw(L, [win |-> 64, combo |-> "class", raw |-> 2])
ASSUME \A L \in {5, 12, 30} : CountLaw(L, [win |-> 16, combo |-> "all", raw |-> 2])
(* raw strings: every string up to length 2 exactly once *)
ASSUME LET rs == RawSeq(2) IN
       /\ Len(rs) = NumDesc("r", 0, [win |-> 64, combo |-> "class", raw |-> 2])
       /\ {Tail(rs[j]) : j \in 1..Len(rs)} = UNION {[1..n -> Byte] : n \in 0..2}
ASSUME Len(RawSeq(1)) = 257 /\ Len(RawSeq(0)) = 1
ASSUME \A k \in 0..2 : Pow256(k) = Cardinality([1..k -> Byte])
=============================================================================
