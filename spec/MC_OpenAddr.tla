---------------------------- MODULE MC_OpenAddr ----------------------------
EXTENDS OpenAddrMech
CONSTANT Profile
\* hash profiles of the three keys: raw 64-bit hashes are abstracted to 0..7, MAXH = 7
MCH == CASE Profile = "ident"   -> [k \in {1, 2, 3} |-> k]
         [] Profile = "zero"    -> [k \in {1, 2, 3} |-> IF k = 1 THEN 0 ELSE k]
         [] Profile = "max"     -> [k \in {1, 2, 3} |-> IF k = 1 THEN 7 ELSE k]
         [] Profile = "collide" -> [k \in {1, 2, 3} |-> 2]
MCKeys == {1, 2, 3}
=============================================================================
