SPECIFICATION NegSpec
INVARIANT AllRejected
CHECK_DEADLOCK FALSE
