SPECIFICATION GenSpec
CONSTANTS
  Deep = TRUE
  GlobPosBytes = 2
  LoopBits = 3
INVARIANT Emit
CHECK_DEADLOCK FALSE
