------------------------ MODULE Trace_PipelineStream ------------------------
(* Trace specification for the extension of C18: recorded runs of the real          *)
(* Pipeline::execute_stream / execute_two_stage, BatchMapStage, FilterStage,         *)
(* BatchCollector, the fiber_yield helpers and FiberAio / FiberFile / VectoredIo /   *)
(* FiberIoUtils, judged by PipelineStream.tla.  One event = one action; events are   *)
(* fully logged (arguments and results), so every step has exactly one successor.    *)
EXTENDS PipelineStream, TraceIO, Known_PipelineStream

VARIABLES l, subj, kf

vars == <<bc, fib, fio, l, subj, kf>>

TraceInit == BCInit /\ FibInit /\ FioInit /\ l = 1 /\ subj = [subject |-> "none", fam |-> "none"] /\ kf = {}

Fl(e) == [F |-> e.failF, G |-> e.failG, S |-> e.slow]
Conc == subj.fam = "bc_conc"

NoBC == UNCHANGED bc
NoFib == UNCHANGED fib
NoFio == UNCHANGED fio
Pure == UNCHANGED psvars

Step(e) ==
    \* 1 stage pipelines (state predicates)
    \/ e.op = "stream"   /\ StreamOk(e.stages, Fl(e), e.in, e.ok, e.out_ids, e.out_vals) /\ Pure
    \/ e.op = "chain"    /\ ChainOk(e.stages, Fl(e), e.x, e.ok, e.out) /\ Pure
    \/ e.op = "batch1"   /\ BatchChainOk(e.kind, Fl(e), e.in, e.ok, e.out) /\ Pure
    \/ e.op = "mapf"     /\ MapFOk(e.in, e.fail, e.ok, e.out) /\ Pure
    \/ e.op = "filter"   /\ FilterOk(e.in, e.ok, e.out) /\ Pure
    \* 2 batch collector
    \/ e.op = "add"      /\ (IF Conc THEN BCAddC(e.id, e.some, e.b) ELSE BCAdd(e.id, e.some, e.b)) /\ NoFib /\ NoFio
    \/ e.op = "offer"    /\ Conc /\ BCOffer(e.id) /\ NoFib /\ NoFio
    \/ e.op = "deliver"  /\ Conc /\ BCDeliver(e.b) /\ NoFib /\ NoFio
    \/ e.op = "flush"    /\ (IF Conc THEN BCFlushC(e.some, e.b) ELSE BCFlush(e.some, e.b)) /\ NoFib /\ NoFio
    \/ e.op = "timeout"  /\ ~Conc /\ BCTimeout(e.some, e.due, e.b) /\ NoFib /\ NoFio
    \/ e.op = "len"      /\ ~Conc /\ BCLen(e.n) /\ NoFib /\ NoFio
    \/ e.op = "quiet"    /\ Conc /\ BCQuiet /\ NoFib /\ NoFio
    \/ e.op = "bc_end"   /\ BCEnd(e.n) /\ NoFib /\ NoFio
    \* 3 fibers
    \/ e.op = "fspawn"   /\ FSpawn(e.id) /\ NoBC /\ NoFio
    \/ e.op = "fdone"    /\ FDone(e.id, e.want, e.iters) /\ NoBC /\ NoFio
    \/ e.op = "fend"     /\ FEnd(e.pending) /\ NoBC /\ NoFio
    \/ e.op = "rwy"      /\ RunWithYieldOk(e.n, e.fail, e.ok, e.out) /\ Pure
    \/ e.op = "iter"     /\ IterOk(e.in, e.ok, e.count, e.seen) /\ Pure
    \* 4 file I/O
    \/ e.op = "fopen"    /\ FOpen(e.content) /\ NoBC /\ NoFib
    \/ e.op = "fread"    /\ FRead(e.n, e.ok, e.got) /\ NoBC /\ NoFib
    \/ e.op = "fread_at" /\ FReadAt(e.n, e.off, e.ok, e.got) /\ NoBC /\ NoFib
    \/ e.op = "fseek"    /\ FSeek(e.kind, e.d, e.ok, e.r) /\ NoBC /\ NoFib
    \/ e.op = "fpos"     /\ FPosition(e.r) /\ NoBC /\ NoFib
    \/ e.op = "fread_to_end" /\ FReadToEnd(e.ok, e.got) /\ NoBC /\ NoFib
    \/ e.op = "fcreate"  /\ FCreate /\ NoBC /\ NoFib
    \/ e.op = "fwrite"   /\ FWrite(e.data, e.ok, e.k) /\ NoBC /\ NoFib
    \/ e.op = "fwrite_all" /\ FWriteAll(e.data, e.ok) /\ NoBC /\ NoFib
    \/ e.op = "fcontent" /\ FContent(e.bytes) /\ NoBC /\ NoFib
    \/ e.op = "copy"     /\ CopyOk(e.src, e.ok, e.n, e.dst) /\ Pure
    \/ e.op = "copy_from" /\ CopyFromOk(e.src, e.pos, e.ok, e.n, e.dst) /\ Pure
    \/ e.op = "roundtrip" /\ RoundTripOk(e.data, e.wok, e.now, e.rok, e.got) /\ Pure
    \/ e.op = "vread"    /\ VReadOk(e.src, e.sizes, e.ok, e.total, e.got) /\ Pure
    \/ e.op = "vwrite"   /\ VWriteOk(e.bufs, e.ok, e.total, e.dst) /\ Pure
    \/ e.op = "par_read" /\ ParReadOk(e.src, e.reqs, e.got) /\ Pure
    \/ e.op = "inorder"  /\ InOrderOk(e.in, e.ok, e.out) /\ Pure
    \* 5 async blob store at quiescence
    \/ e.op = "as_quiesce" /\ AsQuiesce(e.puts, e.removed, e.final, e.contains, e.reads, e.gb, e.len) /\ Pure
    \/ e.op = "as_quiesce_c" /\ AsQuiesceCompact(e.ids, e.vs, e.fv, e.gbok, e.gbv, e.rv, e.rw, e.len) /\ Pure
    \/ e.op = "note"     /\ Pure

TraceNext ==
    /\ l <= Len(Rec)
    /\ l' = l + 1
    /\ LET e == Rec[l] IN
       IF e.op = "reset"
       THEN /\ bc' = [added |-> <<>>, handed |-> {}, max |-> IF Has(e, "max") THEN e.max ELSE 1]
            /\ fib' = [x \in {} |-> "none"]
            /\ fio' = [content |-> <<>>, pos |-> 0]
            /\ subj' = e /\ kf' = kf
       ELSE /\ subj' = subj
            /\ IF UseKF /\ \E id \in KnownIds : DevApplies(id, e, subj)
               THEN \E id \in KnownIds : KnownDeviation(id, e, subj) /\ kf' = kf \cup {id}
               ELSE Step(e) /\ kf' = kf

TraceSpec == TraceInit /\ [][TraceNext]_vars
Done == l = Len(Rec) + 1 => PrintT(<<"KFSET", kf>>)
=============================================================================
