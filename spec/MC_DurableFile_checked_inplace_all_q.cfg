SPECIFICATION Spec
CONSTANTS
  ND = 3
  BSZ = 2
  MaxSyncs = 2
  Reader = "checked"
  Protocol = "inplace"
  Faults = "all"
INVARIANT TypeOK Conforms DescriptorsSound PrefixComplete PrefixInSubset TruncComplete
CHECK_DEADLOCK FALSE
