SPECIFICATION Spec
CONSTANTS
  NB = 2
  Recheck = FALSE
  Threads <- MCThreads
VIEW view
INVARIANT InitOnce NoLoss Capacity Exclusive
CHECK_DEADLOCK FALSE
