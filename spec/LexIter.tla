------------------------------ MODULE LexIter ------------------------------
(* Contract of the lexicographic cursors of zipora (property C20,                       *)
(* src/string/lexicographic_iterator.rs: trait LexicographicIterator,                    *)
(* SortedVecLexIterator, StreamingLexIterator).                                          *)
(*                                                                                      *)
(* State                                                                                *)
(*   S     the sorted sequence of byte strings the cursor runs over (duplicates and      *)
(*         empty strings allowed)                                                        *)
(*   pos   cursor: 0 = before the first element (a stream nothing was read from yet),    *)
(*         1..Len(S) = on that element, Len(S)+1 = at the end (current() = None)         *)
(* Every operation is an action whose parameters are the arguments and the result the    *)
(* implementation returned.  Refusal rule: an operation may answer Err (ok = FALSE)      *)
(* leaving the cursor where it is (StreamingLexIterator refuses prev and every seek);    *)
(* a wrong element, a skipped or a repeated element is never accepted.                   *)
EXTENDS Strings

VARIABLES S, pos

livars == <<S, pos>>

End == Len(S) + 1
Cur == IF pos \in 1..Len(S) THEN <<S[pos]>> ELSE <<>>          \* option: [] / [bytes]

(* first index whose element is >= t (resp. > t), End if none *)
LowerBound(t) == IF \E i \in 1..Len(S) : Cmp(S[i], t) >= 0
                 THEN CHOOSE i \in 1..Len(S) : Cmp(S[i], t) >= 0 /\ \A j \in 1..(i - 1) : Cmp(S[j], t) < 0
                 ELSE End
UpperBound(t) == IF \E i \in 1..Len(S) : Cmp(S[i], t) > 0
                 THEN CHOOSE i \in 1..Len(S) : Cmp(S[i], t) > 0 /\ \A j \in 1..(i - 1) : Cmp(S[j], t) <= 0
                 ELSE End

(* new(strings): the input must be sorted ("Create a new iterator from a sorted string slice");  *)
(* a slice cursor starts on the first element, a stream cursor before it                          *)
New(strings, streaming) ==
    /\ LexSorted(strings)
    /\ S' = strings
    /\ pos' = IF streaming THEN 0 ELSE 1        \* for the empty slice 1 = End

(* current() -> option.  ci: the identity of the element returned, as an index projected by the   *)
(* harness from the address of the returned slice ([] when it cannot tell, e.g. empty strings)     *)
Current(r, ci) == /\ r = Cur
                  /\ ci = <<>> \/ ci = <<pos - 1>>
                  /\ UNCHANGED livars

(* next(): "Returns true if successful, false if at end" *)
Next(r) == /\ r = (pos + 1 <= Len(S))
           /\ pos' = IF pos + 1 <= Len(S) THEN pos + 1 ELSE End
           /\ S' = S
(* prev(): "Returns true if successful, false if at beginning"; at the beginning the cursor stays *)
Prev(r) == /\ r = (pos >= 2)
           /\ pos' = IF pos >= 2 THEN pos - 1 ELSE pos
           /\ S' = S
SeekStart(r) == /\ r = (Len(S) > 0) /\ pos' = 1 /\ S' = S
SeekEnd(r) == /\ r = (Len(S) > 0) /\ pos' = (IF Len(S) > 0 THEN Len(S) ELSE End) /\ S' = S
(* "Binary search for the first string >= target.  Returns true if exact match found" *)
SeekLowerBound(t, r) == /\ pos' = LowerBound(t)
                        /\ r = (LowerBound(t) <= Len(S) /\ S[LowerBound(t)] = t)
                        /\ S' = S
(* "Binary search for the first string > target"; "Never an exact match by definition" *)
SeekUpperBound(t, r) == /\ pos' = UpperBound(t) /\ r = FALSE /\ S' = S
AtEnd(r) == r = (pos = End) /\ UNCHANGED livars
AtStart(r) == r = (pos = 1 /\ Len(S) > 0) /\ UNCHANGED livars
SizeHint(r) == (r = <<>> \/ r = <<Len(S)>>) /\ UNCHANGED livars
Refused == UNCHANGED livars

(* ---------------------------------------------------------------- what the contract guarantees *)
(* (checked in MC_LexIter with a history variable): after a positioning operation that put the     *)
(* cursor on index p, k successful next() calls followed by a failing one deliver exactly the       *)
(* elements S[p..Len(S)], each index once, in ascending order - duplicates and empty strings        *)
(* included; symmetrically for prev().                                                              *)
=============================================================================
