-------------------------- MODULE Known_RankSelect --------------------------
(* Named deviation actions for the recorded known findings of property C04        *)
(* (see /verif/known_findings.json).  A deviation is enabled only for the listed  *)
(* subject (family / variant / route of the reset event), the listed operation    *)
(* and its semantic trigger, and only when the strict contract does NOT accept    *)
(* the event (so a repaired tree never takes a deviation).  The action describes  *)
(* the recorded wrong behaviour as exactly as it can be stated from the bit       *)
(* sequence; any other wrong answer stays a VIOLATION.                            *)
EXTENDS RankSelect, TLC

KnownIds == {}

Seq0(n) == [j \in 1..n |-> j - 1]

(* ---------------------------------------------------------------------------------------- *)
(* C04-KF1  RankSelectInterleaved256 built WITHOUT a select cache: select1(k) answers the      *)
(* position of one number k+1 (select1_within_line converts the rank to 1-based twice), and    *)
(* refuses k when one k is the last one of its 256-bit line.                                   *)
NoCacheVariants == {"nosel", "opt_nosel"}
KF1Outcome(k) ==
    IF k >= Ones THEN Refused
    ELSE IF k + 1 < Ones /\ (vec.p1[k + 2] \div 256) = (vec.p1[k + 1] \div 256) THEN vec.p1[k + 2]
    ELSE Refused
KF1Apis == {"select1", "select1_hardware_accelerated", "select1_adaptive", "select1_optimized"}
G1(e, subj) ==
    /\ subj.fam = "il256" /\ subj.variant \in NoCacheVariants
    /\ Ones > 0
    /\ \/ /\ e.op = "select" /\ e.which = "select1" /\ e.api \in KF1Apis
          /\ ~ (IF e.all THEN SelectAllOK(e.which, e.r) ELSE SelectAtOK(e.which, e.at, e.r))
       \/ /\ e.op = "select_batch" /\ e.which = "select1"
          /\ ~ SelectBatchOK(e.which, e.at, e.ok, e.r)
KF1(e, subj) ==
    /\ G1(e, subj)
    /\ \/ /\ e.op = "select" /\ e.all
          /\ Len(e.r) = N + 1 /\ \A k \in 0..N : e.r[k + 1] = KF1Outcome(k)
       \/ /\ e.op = "select" /\ ~e.all
          /\ Len(e.r) = Len(e.at) /\ \A j \in 1..Len(e.at) : e.r[j] = KF1Outcome(e.at[j])
       \/ /\ e.op = "select_batch"
          \* the bulk call fails as a whole as soon as one k is refused
          /\ e.ok = (\A j \in 1..Len(e.at) : KF1Outcome(e.at[j]) # Refused)
          /\ e.ok => /\ Len(e.r) = Len(e.at)
                     /\ \A j \in 1..Len(e.at) : e.r[j] = KF1Outcome(e.at[j])
    /\ UNCHANGED vec

(* ---------------------------------------------------------------------------------------- *)
(* C04-KF2  BitVector::resize to a shorter length keeps the 64-bit blocks above the new        *)
(* length; RankSelectSE256 / SE512 / Simple count every block of their last 256/512-bit line,  *)
(* so the stale one bits are counted: count_ones too large, select1 answers positions beyond   *)
(* the vector for k >= ones, select0 refuses valid k.  rank and get stay exact.                *)
LineWords(fam) == IF fam = "se512" THEN 8 ELSE 4
StaleTrigger(fam) == N > 0 /\ ((N + 63) \div 64) % LineWords(fam) # 0
(* select1: exact below ones, then refused or a position beyond the vector (a stale one);  *)
(* select0: exact or refused below zeros, then refused or beyond the vector                *)
KF2Allowed(which, k, x) ==
    IF which = "select1"
    THEN IF k < Ones THEN x = vec.p1[k + 1] ELSE x = Refused \/ x >= N
    ELSE IF k < Zeros THEN x \in {vec.p0[k + 1], Refused} ELSE x = Refused \/ x >= N
G2(e, subj) ==
    /\ subj.route = "shrunk" /\ subj.fam \in {"se256", "se512", "simple"}
    /\ StaleTrigger(subj.fam)
    /\ \/ e.op = "counts" /\ ~ CountsOK(e.len, e.ones, e.zeros)
       \/ e.op = "select" /\ ~ (IF e.all THEN SelectAllOK(e.which, e.r) ELSE SelectAtOK(e.which, e.at, e.r))
       \* the stale ones can outnumber the zeros: count_zeros = len - ones wraps and select0 indexes past its tables
       \/ /\ e.op = "panic" /\ e.in = "select0" /\ e.kind = "oob"
          /\ Zeros < 64 * (LineWords(subj.fam) - 1)
KF2(e, subj) ==
    /\ G2(e, subj)
    /\ \/ e.op = "panic"
       \/ /\ e.op = "counts"
          /\ e.len = N
          /\ e.ones > Ones /\ e.ones <= Ones + 64 * (LineWords(subj.fam) - 1)
          /\ e.zeros = (IF e.ones <= N THEN N - e.ones ELSE Huge)
       \/ /\ e.op = "select"
          /\ LET ks == IF e.all THEN Seq0(N + 1) ELSE e.at IN
             /\ Len(e.r) = Len(ks)
             /\ \A j \in 1..Len(ks) : KF2Allowed(e.which, ks[j], e.r[j])
    /\ UNCHANGED vec

(* ---------------------------------------------------------------------------------------- *)
(* C04-KF3  RankSelectMixedIL256: rank1/rank0 at p = len panics (index out of bounds) when     *)
(* len is a positive multiple of 256 and the other dimension is not longer (no line for p).    *)
G3(e, subj) ==
    /\ subj.fam = "mixed"
    /\ e.op = "panic" /\ e.in \in {"rank1", "rank0", "rank1_dim", "rank0_dim"} /\ e.kind = "oob"
    /\ N > 0 /\ N % 256 = 0 /\ e.at = N
KF3(e, subj) == G3(e, subj) /\ UNCHANGED vec

(* ---------------------------------------------------------------------------------------- *)
(* C04-KF4  bmi2_comprehensive::Bmi2BitOps::select1_ultra_fast(word, rank) with rank = 65      *)
(* (k = 64, beyond any 64-bit word): the shift 1 << 64 wraps and the first one of the word is  *)
(* returned instead of None.                                                                   *)
G4(e, subj) ==
    /\ subj.fam = "bmi2c"
    /\ e.op = "wselect" /\ e.which = "select1" /\ e.api = "Bmi2BitOps::select1_ultra_fast(1-based)"
    /\ ~ WordSelectOK(e.which, e.w, e.r)
KF4(e, subj) ==
    /\ G4(e, subj)
    /\ Len(e.r) = 65
    /\ \A k \in 0..63 : e.r[k + 1] = WSel1(e.w, k)
    /\ WOnes(e.w) > 0 /\ e.r[65] = WSel1(e.w, 0)
    /\ UNCHANGED vec

(* ---------------------------------------------------------------------------------------- *)
(* C04-KF5  bulk_select1_simd on a BMI2 host: PDEP is given the mask (1 << r) - 1 instead of   *)
(* 1 << (r - 1), so the FIRST one of the word holding the k-th one is returned - except when   *)
(* the k-th one is the 64th one of its word (the mask wraps to 0 and a scalar scan answers).   *)
KF5Outcome(k) ==
    IF k >= Ones THEN Refused
    ELSE LET pos  == vec.p1[k + 1]
             base == Rank1(64 * (pos \div 64))
         IN  IF k - base = 63 THEN pos ELSE vec.p1[base + 1]
G5(e, subj) ==
    /\ subj.fam = "simd"
    /\ \/ /\ e.op = "select" /\ e.which = "select1" /\ e.api = "bulk_select1_simd[1]"
          /\ ~ (IF e.all THEN SelectAllOK(e.which, e.r) ELSE SelectAtOK(e.which, e.at, e.r))
       \/ /\ e.op = "select_batch" /\ e.which = "select1" /\ e.api = "bulk_select1_simd"
          /\ ~ SelectBatchOK(e.which, e.at, e.ok, e.r)
KF5(e, subj) ==
    /\ G5(e, subj)
    /\ \/ /\ e.op = "select" /\ e.all
          /\ Len(e.r) = N + 1 /\ \A k \in 0..N : e.r[k + 1] = KF5Outcome(k)
       \/ /\ e.op = "select" /\ ~e.all
          /\ Len(e.r) = Len(e.at) /\ \A j \in 1..Len(e.at) : e.r[j] = KF5Outcome(e.at[j])
       \/ /\ e.op = "select_batch"
          /\ e.ok = (\A j \in 1..Len(e.at) : e.at[j] < Ones)
          /\ e.ok => /\ Len(e.r) = Len(e.at)
                     /\ \A j \in 1..Len(e.at) : e.r[j] = KF5Outcome(e.at[j])
    /\ UNCHANGED vec

(* ---------------------------------------------------------------------------------------- *)
(* C04-KF6  bmi2_acceleration::Bmi2BlockOps::select_bulk (also behind Bmi2Accelerator):        *)
(* the block is located with binary_search(k + 1) over cumulative popcounts; when the k-th one *)
(* is the last one of its word and the following word holds no one, equal cumulative counts    *)
(* make the search land on an empty word and the call fails.                                   *)
NWords == (N + 63) \div 64
KF6Weak(k) == /\ k < Ones
              /\ LET w == vec.p1[k + 1] \div 64 IN
                    /\ Rank1(WHi(w)) = k + 1          \* last one of its word
                    /\ w + 1 < NWords /\ WOnes(w + 1) = 0
KF6Allowed(k) == IF KF6Weak(k) THEN {SelOutcome("select1", k), Refused} ELSE {SelOutcome("select1", k)}
KF6Apis == {"Bmi2BlockOps::select_bulk[1]", "Bmi2BlockOps::select_bulk", "Bmi2Accelerator::select_bulk"}
G6(e, subj) ==
    /\ subj.fam = "bmi2a"
    /\ \/ /\ e.op = "select" /\ e.which = "select1" /\ e.api \in KF6Apis
          /\ ~ (IF e.all THEN SelectAllOK(e.which, e.r) ELSE SelectAtOK(e.which, e.at, e.r))
       \/ /\ e.op = "select_batch" /\ e.which = "select1" /\ e.api \in KF6Apis
          /\ ~ SelectBatchOK(e.which, e.at, e.ok, e.r)
KF6(e, subj) ==
    /\ G6(e, subj)
    /\ \/ /\ e.op = "select" /\ e.all
          /\ Len(e.r) = N + 1 /\ \A k \in 0..N : e.r[k + 1] \in KF6Allowed(k)
       \/ /\ e.op = "select" /\ ~e.all
          /\ Len(e.r) = Len(e.at) /\ \A j \in 1..Len(e.at) : e.r[j] \in KF6Allowed(e.at[j])
       \/ /\ e.op = "select_batch"
          \* all k valid: either answered exactly, or failed as a whole because of a weak k
          /\ (\A j \in 1..Len(e.at) : e.at[j] < Ones)
          /\ \/ e.ok /\ Len(e.r) = Len(e.at) /\ \A j \in 1..Len(e.at) : e.r[j] = vec.p1[e.at[j] + 1]
             \/ ~e.ok /\ \E j \in 1..Len(e.at) : KF6Weak(e.at[j])
    /\ UNCHANGED vec

(* ---------------------------------------------------------------------------------------- *)
(* C04-KF7  bulk_rank1_simd(words, positions): a position equal to 64 * words.len() (p = len   *)
(* of a vector whose length is a multiple of 64) is answered 0 instead of the number of ones.  *)
G7(e, subj) ==
    /\ subj.fam = "simd"
    /\ e.op = "rank" /\ e.which = "rank1" /\ e.api \in {"bulk_rank1_simd", "bulk_rank1_simd[1]"}
    /\ N > 0 /\ N % 64 = 0 /\ Ones > 0
    /\ ~ (IF e.all THEN RankAllOK(e.which, e.r) ELSE RankAtOK(e.which, e.at, e.r))
KF7Outcome(p) == IF p = N THEN 0 ELSE Rank1(p)
KF7(e, subj) ==
    /\ G7(e, subj)
    /\ \/ e.all  /\ Len(e.r) = N + 1 /\ \A p \in 0..N : e.r[p + 1] = KF7Outcome(p)
       \/ ~e.all /\ Len(e.r) = Len(e.at) /\ \A j \in 1..Len(e.at) : e.r[j] = KF7Outcome(e.at[j])
    /\ UNCHANGED vec

(* ---------------------------------------------------------------------------------------- *)
(* C04-KF8  bmi2_comprehensive::Bmi2BlockOps::bulk_rank1(words, positions) answers the rank    *)
(* INSIDE the word holding the position (ones of the preceding words are not added), and 0 for *)
(* a position at the end of the last word - while its sibling bulk_select1 is global.          *)
G8(e, subj) ==
    /\ subj.fam = "bmi2c"
    /\ e.op = "rank" /\ e.which = "rank1" /\ e.api = "Bmi2BlockOps::bulk_rank1"
    /\ ~ (IF e.all THEN RankAllOK(e.which, e.r) ELSE RankAtOK(e.which, e.at, e.r))
KF8Outcome(p) == IF p \div 64 < NWords THEN WRank1(p \div 64, p % 64) ELSE 0
KF8(e, subj) ==
    /\ G8(e, subj)
    /\ \/ e.all  /\ Len(e.r) = N + 1 /\ \A p \in 0..N : e.r[p + 1] = KF8Outcome(p)
       \/ ~e.all /\ Len(e.r) = Len(e.at) /\ \A j \in 1..Len(e.at) : e.r[j] = KF8Outcome(e.at[j])
    /\ UNCHANGED vec

(* ---------------------------------------------------------------------------------------- *)
(* C04-KF9  BitVector::bulk_bitwise_op_simd(other, f, s, e) on an AVX2 host combines WHOLE      *)
(* 64-bit blocks: every bit of the blocks s div 64 .. (e-1) div 64 that both vectors own is     *)
(* combined (bits of other beyond its length read 0), not only bits s .. e-1; for e = 0 the     *)
(* subtraction e - 1 wraps and every common block is combined.  The scalar fall-back honours    *)
(* the range.                                                                                   *)
KF9Touched(p, s, e, olen) ==
    LET b == p \div 64 IN
    /\ b >= s \div 64
    /\ (e = 0 \/ b <= (e - 1) \div 64)
    /\ b < (olen + 63) \div 64
KF9Bits(f, other, s, e) ==
    [j \in 1..N |-> IF KF9Touched(j - 1, s, e, Len(other))
                    THEN BitOp(f, Bits[j], IF j <= Len(other) THEN other[j] ELSE 0)
                    ELSE Bits[j]]
Unpack(w16, n) == [i \in 1..n |-> (w16[((i - 1) \div 16) + 1] \div (2 ^ ((i - 1) % 16))) % 2]
StrictBitwise(f, other, s, e) ==
    [j \in 1..N |-> IF s < j /\ j <= e THEN BitOp(f, Bits[j], other[j]) ELSE Bits[j]]
(* e.after16: the content read back with get() right after the call (logged for this mutator only) *)
G9(e, subj) ==
    /\ subj.route = "hist"
    /\ e.op = "mut" /\ e.m = "bitwise" /\ e.ok
    /\ e.s <= e.e /\ e.e <= N /\ e.e <= e.olen
    /\ Unpack(e.after16, e.len) # StrictBitwise(e.f, Unpack(e.ow16, e.olen), e.s, e.e)
KF9(e, subj) ==
    /\ G9(e, subj)
    /\ e.len = N
    /\ Unpack(e.after16, e.len) = KF9Bits(e.f, Unpack(e.ow16, e.olen), e.s, e.e)
    /\ vec' = Mk(KF9Bits(e.f, Unpack(e.ow16, e.olen), e.s, e.e))
    /\ e.ones = Len(vec'.p1)

(* guard (state predicate) and action of each deviation.  In KF mode a deviation whose   *)
(* guard holds REPLACES the contract action for that event.                               *)
DevApplies(id, e, subj) ==
    \/ id = "C04-KF1" /\ G1(e, subj)
    \/ id = "C04-KF2" /\ G2(e, subj)
    \/ id = "C04-KF3" /\ G3(e, subj)
    \/ id = "C04-KF4" /\ G4(e, subj)
    \/ id = "C04-KF5" /\ G5(e, subj)
    \/ id = "C04-KF6" /\ G6(e, subj)
    \/ id = "C04-KF7" /\ G7(e, subj)
    \/ id = "C04-KF8" /\ G8(e, subj)
    \/ id = "C04-KF9" /\ G9(e, subj)
KnownDeviation(id, e, subj) ==
    \/ id = "C04-KF1" /\ KF1(e, subj)
    \/ id = "C04-KF2" /\ KF2(e, subj)
    \/ id = "C04-KF3" /\ KF3(e, subj)
    \/ id = "C04-KF4" /\ KF4(e, subj)
    \/ id = "C04-KF5" /\ KF5(e, subj)
    \/ id = "C04-KF6" /\ KF6(e, subj)
    \/ id = "C04-KF7" /\ KF7(e, subj)
    \/ id = "C04-KF8" /\ KF8(e, subj)
    \/ id = "C04-KF9" /\ KF9(e, subj)
=============================================================================
