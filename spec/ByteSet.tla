------------------------------ MODULE ByteSet ------------------------------
(* Contract of every trie / automaton type of zipora that stores a set of byte   *)
(* strings (property C05).                                                        *)
(*                                                                                *)
(* State: S, a finite set of byte strings (sequences over 0..255).  Every public  *)
(* operation is one action whose parameters are the arguments AND the result the  *)
(* implementation returned; the action is enabled exactly for the results a set   *)
(* of byte strings allows.  Options are sequences of length 0/1 (Opt.tla).        *)
(* Listings (keys, keys_with_prefix) are sequences of byte strings and are judged *)
(* as sets in which every member appears exactly once.                            *)
(* Refusal rule (DESIGN section 6): insert and remove may fail with an error      *)
(* provided the set is left unchanged; no read operation may return a wrong       *)
(* answer.                                                                        *)
EXTENDS Naturals, Sequences, FiniteSets, Opt

VARIABLE S

(* ---- definitions the property is written with ---- *)
Byte == 0..255
IsByteString(k) == \A i \in 1..Len(k) : k[i] \in Byte
IsPrefix(p, k) == Len(p) <= Len(k) /\ \A i \in 1..Len(p) : p[i] = k[i]
Take(q, n) == SubSeq(q, 1, n)
WithPrefix(p) == { k \in S : IsPrefix(p, k) }
(* the lengths n such that the first n bytes of q are a member *)
MemberPrefixLens(q) == { n \in 0..Len(q) : Take(q, n) \in S }
MaxOf(ns) == CHOOSE n \in ns : \A x \in ns : x <= n
(* longest_prefix(q): the length of the longest member that is a prefix of q *)
LongestPrefixOf(q) == IF MemberPrefixLens(q) = {} THEN None ELSE Some(MaxOf(MemberPrefixLens(q)))
(* a listing r (sequence) enumerates exactly the set T, each member once *)
Lists(r, T) == Len(r) = Cardinality(T) /\ { r[i] : i \in 1..Len(r) } = T

SetInit == S = {}

(* ---- mutating operations ---- *)
(* insert(k) -> Ok: idempotent *)
Insert(k) == S' = S \cup {k}
(* the same with the answer of contains(k) taken right after the call *)
InsertSeen(k, after) == after = TRUE /\ Insert(k)
(* insert(k) -> Err(_): refused, nothing changes (e.g. a key longer than a strategy stores) *)
InsertRefused(k) == UNCHANGED S
(* remove(k) -> Ok(r): r tells whether k was a member; afterwards it is not *)
Remove(k, r) == r = (k \in S) /\ S' = S \ {k}
(* remove(k) -> Err(_): refused *)
RemoveRefused(k) == UNCHANGED S
(* bulk construction from a list of keys (build_from_keys, bulk_insert): the inserts of all of them *)
InsertAll(ks) == S' = S \cup { ks[i] : i \in 1..Len(ks) }
(* a bulk builder (build_from_keys, build_from_sorted / _unsorted / _iter, ParallelTrieBuilder with any   *)
(* chunking, from_trie) yields exactly the set of the keys it was given                                    *)
Build(ks) == S' = { ks[i] : i \in 1..Len(ks) }
(* clear() *)
Clear == S' = {}
(* a maintenance call (shrink_to_fit, refresh_replicas) must not change the content *)
Maintenance == UNCHANGED S

(* ---- read operations ---- *)
Contains(k, r) == r = (k \in S) /\ UNCHANGED S
Len_(r) == r = Cardinality(S) /\ UNCHANGED S
Keys(r) == Lists(r, S) /\ UNCHANGED S
KeysWithPrefix(p, r) == Lists(r, WithPrefix(p)) /\ UNCHANGED S
(* automaton view *)
Accepts(k, r) == r = (k \in S) /\ UNCHANGED S
Lookup(k, r) == r = (k \in S) /\ UNCHANGED S       \* r = lookup(k).is_some()
LongestPrefix(q, r) == r = LongestPrefixOf(q) /\ UNCHANGED S

(* ---- probes: the full observable projection, logged as three batch events ---- *)
(* U = the key universe of the run (sequence of byte strings);                    *)
(* c  = sequence of contains(U[i]);  ab = sequence of <<key, contains(key)>> for  *)
(* probes outside the universe;  n = len()                                        *)
ProbeSetOK(U, n, c, ab) ==
    /\ n = Cardinality(S)
    /\ Len(c) = Len(U)
    /\ \A i \in 1..Len(U) : c[i] = (U[i] \in S)
    /\ \A i \in 1..Len(ab) : ab[i][2] = (ab[i][1] \in S)
ProbeSet(U, n, c, ab) == ProbeSetOK(U, n, c, ab) /\ UNCHANGED S
(* every other way a type reports its size (stats().num_keys, statistics().num_keys, Trie::len, ...) and   *)
(* its emptiness (is_empty) agrees with len(): tw = sequence of counts, em = sequence of is_empty answers  *)
TwinsOK(tw, em) == /\ \A i \in 1..Len(tw) : tw[i] = Cardinality(S)
                   /\ \A i \in 1..Len(em) : em[i] = (S = {})
(* node-id view: ids = sequence of <<key, lookup_node_id(key).is_some(), restore_string(id)>>.  A key has  *)
(* an id exactly when it is a member; restoring the id gives the key back (None = refused, never another   *)
(* string); a non-member has no id                                                                         *)
ProbeIdsOK(ids) ==
    \A i \in 1..Len(ids) :
        /\ ids[i][2] = (ids[i][1] \in S)
        /\ ids[i][3] \in {None, Some(ids[i][1])}
        /\ ~ids[i][2] => ids[i][3] = None
ProbeIds(ids) == ProbeIdsOK(ids) /\ UNCHANGED S
(* ks = keys();  pf = sequence of <<p, keys_with_prefix(p)>> *)
ProbeKeysOK(ks, pf) ==
    /\ Lists(ks, S)
    /\ \A i \in 1..Len(pf) : Lists(pf[i][2], WithPrefix(pf[i][1]))
ProbeKeys(ks, pf) == ProbeKeysOK(ks, pf) /\ UNCHANGED S
(* a = sequence of accepts(U[i]);  lk = sequence of lookup(U[i]).is_some();         *)
(* ab = sequence of <<key, accepts(key), lookup(key).is_some()>> outside U;         *)
(* lp = sequence of <<q, longest_prefix(q)>>                                        *)
ProbeFsaOK(U, a, lk, ab, lp) ==
    /\ Len(a) = Len(U) /\ Len(lk) = Len(U)
    /\ \A i \in 1..Len(U) : a[i] = (U[i] \in S) /\ lk[i] = (U[i] \in S)
    /\ \A i \in 1..Len(ab) : ab[i][2] = (ab[i][1] \in S) /\ ab[i][3] = (ab[i][1] \in S)
    /\ \A i \in 1..Len(lp) : lp[i][2] = LongestPrefixOf(lp[i][1])
ProbeFsa(U, a, lk, ab, lp) == ProbeFsaOK(U, a, lk, ab, lp) /\ UNCHANGED S
(* the three together *)
Probe(U, n, c, ab, ks, pf, a, lk, fab, lp) ==
    /\ ProbeSetOK(U, n, c, ab) /\ ProbeKeysOK(ks, pf) /\ ProbeFsaOK(U, a, lk, fab, lp)
    /\ UNCHANGED S

(* ---- properties (of the contract itself; checked by MC_ByteSet) ---- *)
TypeOK(K) == S \subseteq K /\ \A k \in S : IsByteString(k)
=============================================================================
