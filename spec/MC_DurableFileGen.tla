-------------------------- MODULE MC_DurableFileGen --------------------------
(* Fault-descriptor generator (binding B4).  Input: the shapes of the recorded     *)
(* write histories (environment variable SHAPES: one JSON line per file and         *)
(* snapshot k of a run, relative to the last sync snapshot: byte lengths, number    *)
(* of changed blocks, section boundaries).  Output: one line                        *)
(*    <<"FAULTS", json>>   json = {run, k, f, n, flen, ds: [[kind, j, len], ...]}          *)
(* per shape with EVERY fault descriptor Descriptors(s) of DurableFile.tla: every   *)
(* truncation length, every prefix-consistent mixture (old and new length), every   *)
(* single-block rollback, header-new/data-old, data-new/header-old, the intact      *)
(* image.  The harness materialises exactly these on the real files.                *)
EXTENDS DurableFile, TLC, Json, IOUtils

Shapes == ndJsonDeserialize(IOEnv.SHAPES)

VARIABLE i

ShapeOf(r) == [run |-> r.run, k |-> r.k, f |-> r.f, has_new |-> r.has_new, intact |-> r.intact,
               trunc |-> r.trunc, dense |-> r.dense, old_len |-> r.old_len, new_len |-> r.new_len,
               nch |-> r.nch, hdr_changed |-> r.hdr_changed, inplace |-> r.inplace, resume |-> r.resume,
               bounds |-> { r.bounds[x] : x \in 1..Len(r.bounds) }]

Init == i = 1 /\ DInit
Next == i <= Len(Shapes) /\ i' = i + 1 /\ UNCHANGED <<sp, img>>
Spec == Init /\ [][Next]_<<i, sp, img>>

Emit == i <= Len(Shapes) =>
          LET r == Shapes[i]
              D == Descriptors(ShapeOf(r))
          IN PrintT(<<"FAULTS", ToJson([run |-> r.run, k |-> r.k, f |-> r.f, n |-> Cardinality(D), flen |-> r.new_len,
                                        ds |-> { <<d.kind, d.j, d.len>> : d \in D }])>>)
=============================================================================
