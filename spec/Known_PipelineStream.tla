------------------------ MODULE Known_PipelineStream ------------------------
(* Named deviation actions for the recorded known findings of property C18 that   *)
(* concern the subjects of Trace_PipelineStream (see /verif/known_findings.json).  *)
(* None at present: every defect these runs showed was small enough to repair      *)
(* (work/patches/C18-*.diff), so a reappearance is a VIOLATION.                     *)
EXTENDS PipelineStream, TLC

KnownIds == {}
DevApplies(id, e, subj) == FALSE
KnownDeviation(id, e, subj) == FALSE /\ UNCHANGED psvars
=============================================================================
