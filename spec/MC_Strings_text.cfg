SPECIFICATION Spec
CONSTANTS
  Alphabet = {10, 13, 32, 65, 97, 95}
  MaxLen = 4
INVARIANT LinesCoherent WordsCoherent CaseCoherent
CHECK_DEADLOCK FALSE
