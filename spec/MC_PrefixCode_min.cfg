SPECIFICATION PCSpec
CONSTANTS
  HMaxSyms = 4
  HMaxCount = 6
  Strategy = "min"
INVARIANT NodeCodesPrefixFree WeightConserved DoneCodesOK DoneComplete DoneKraftFormsAgree
CHECK_DEADLOCK FALSE
