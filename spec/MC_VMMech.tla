----------------------------- MODULE MC_VMMech -----------------------------
(* Bounded instances of VersionManagerMech: small thread programs, all            *)
(* interleavings.  P selects the program set.  GEN = TRUE turns the model into a   *)
(* schedule generator (binding B3): every complete interleaving is printed as a    *)
(* REPLAY line (thread ids only).                                                  *)
EXTENDS VersionManagerMech, Json

CONSTANT P

Programs == <<
    [t \in {1, 2} |-> <<"W", "D">>],                                   \* 1: two writers
    [t \in {1, 2} |-> <<"R", "D">>],                                   \* 2: two readers
    [t \in {1, 2} |-> IF t = 1 THEN <<"W", "D">> ELSE <<"R", "D">>],   \* 3: writer + reader
    [t \in {1, 2} |-> <<"W", "R", "D", "D">>],                         \* 4
    [t \in {1, 2} |-> IF t = 1 THEN <<"R", "W", "D", "D">> ELSE <<"W", "D", "R", "D">>],  \* 5
    [t \in {1, 2, 3} |-> <<"W", "D">>],                                \* 6: three writers
    [t \in {1, 2, 3} |-> IF t = 1 THEN <<"W", "D">> ELSE <<"R", "D">>],\* 7
    [t \in {1, 2} |-> <<"R", "D", "R", "D">>],                         \* 8
    [t \in {1, 2, 3} |-> IF t = 3 THEN <<"W", "D", "W", "D">> ELSE <<"R", "D", "W", "D">>], \* 9
    \* ---- with the per-thread token cache (repaired protocol only) ----
    [t \in {1, 2} |-> <<"SW", "X">>],                                  \* 10: scoped writers, cache cleared
    [t \in {1, 2} |-> IF t = 1 THEN <<"SW", "SW", "X">> ELSE <<"SR", "W", "D", "X">>],  \* 11: cache hit vs direct writer
    [t \in {1, 2} |-> <<"TW", "C", "TR", "C", "X">>],                  \* 12: both slots filled, cleared in one call
    [t \in {1, 2} |-> IF t = 1 THEN <<"SWe", "SR", "X">> ELSE <<"SW", "X">>],            \* 13: closures returning Err
    [t \in {1, 2} |-> IF t = 1 THEN <<"TR", "TR", "C", "C", "X">> ELSE <<"W", "D">>],   \* 14: displacement out of the slot
    [t \in {1, 2, 3} |-> <<"SW", "X">>]                                \* 15: three scoped writers
>>

MCProg == Programs[P]
MCThreads == DOMAIN Programs[P]

Emit == Done => PrintT(<<"REPLAY", ToJson([p |-> P, prog |-> MCProg, sched |-> sched, fixed |-> Fixed, onewriter |-> OneWriterMode])>>)
=============================================================================
