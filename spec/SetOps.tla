------------------------------- MODULE SetOps -------------------------------
(* Set operations on SORTED sequences (property C11), defined by the standard     *)
(* two-pointer recursion, exactly as src/algorithms/set_ops.rs documents them:     *)
(*                                                                                *)
(*   ms_inter   multiset_intersection(a,b): scan; on equal heads copy a's head and *)
(*              advance ONLY a  => every element of a that occurs in b, with a's   *)
(*              multiplicity                                                      *)
(*   ms_inter2  multiset_intersection2(a,b): on equal heads copy b's head and      *)
(*              advance ONLY b  => every element of b that occurs in a             *)
(*   ms_union   on equal heads emit both and advance both => the merge, all kept   *)
(*   ms_diff    on equal heads drop both => multiset difference a - b              *)
(*   unique     consecutive duplicates removed                                     *)
(*   set_inter / set_union / set_diff = unique of the multiset operation           *)
(* Every variant implementation (linear, 1small = binary search, fast = adaptive)  *)
(* of one operation is judged against the ONE definition of that operation, so     *)
(* accepted variants agree with each other.                                        *)
(*                                                                                *)
(* k-way operations of SetOperations (set_operations.rs) by the k-pointer          *)
(* recursion: k_inter (an element is emitted when it heads ALL ways; the ways that  *)
(* head the minimum advance by one), k_union (unique of the k-way merge), freq,    *)
(* filter (k-way merge, then a predicate).                                         *)
EXTENDS SortMerge

(* ------------------------------------------------------------------ two sequences *)
RECURSIVE MsInterFrom(_, _, _, _, _)
MsInterFrom(kt, a, b, i, j) ==
    IF i > Len(a) \/ j > Len(b) THEN <<>>
    ELSE IF KLess(kt, a[i], b[j]) THEN MsInterFrom(kt, a, b, i + 1, j)
    ELSE IF KLess(kt, b[j], a[i]) THEN MsInterFrom(kt, a, b, i, j + 1)
    ELSE <<a[i]>> \o MsInterFrom(kt, a, b, i + 1, j)
MsInter(kt, a, b) == MsInterFrom(kt, a, b, 1, 1)

RECURSIVE MsInter2From(_, _, _, _, _)
MsInter2From(kt, a, b, i, j) ==
    IF i > Len(a) \/ j > Len(b) THEN <<>>
    ELSE IF KLess(kt, a[i], b[j]) THEN MsInter2From(kt, a, b, i + 1, j)
    ELSE IF KLess(kt, b[j], a[i]) THEN MsInter2From(kt, a, b, i, j + 1)
    ELSE <<b[j]>> \o MsInter2From(kt, a, b, i, j + 1)
MsInter2(kt, a, b) == MsInter2From(kt, a, b, 1, 1)

RECURSIVE MsUnionFrom(_, _, _, _, _)
MsUnionFrom(kt, a, b, i, j) ==
    IF i > Len(a) THEN SubSeq(b, j, Len(b))
    ELSE IF j > Len(b) THEN SubSeq(a, i, Len(a))
    ELSE IF KLess(kt, a[i], b[j]) THEN <<a[i]>> \o MsUnionFrom(kt, a, b, i + 1, j)
    ELSE IF KLess(kt, b[j], a[i]) THEN <<b[j]>> \o MsUnionFrom(kt, a, b, i, j + 1)
    ELSE <<a[i], b[j]>> \o MsUnionFrom(kt, a, b, i + 1, j + 1)
MsUnion(kt, a, b) == MsUnionFrom(kt, a, b, 1, 1)

RECURSIVE MsDiffFrom(_, _, _, _, _)
MsDiffFrom(kt, a, b, i, j) ==
    IF i > Len(a) THEN <<>>
    ELSE IF j > Len(b) THEN SubSeq(a, i, Len(a))
    ELSE IF KLess(kt, a[i], b[j]) THEN <<a[i]>> \o MsDiffFrom(kt, a, b, i + 1, j)
    ELSE IF KLess(kt, b[j], a[i]) THEN MsDiffFrom(kt, a, b, i, j + 1)
    ELSE MsDiffFrom(kt, a, b, i + 1, j + 1)
MsDiff(kt, a, b) == MsDiffFrom(kt, a, b, 1, 1)

RECURSIVE UniqueFrom(_, _)
UniqueFrom(s, i) ==
    IF i > Len(s) THEN <<>>
    ELSE IF i > 1 /\ s[i] = s[i - 1] THEN UniqueFrom(s, i + 1)
    ELSE <<s[i]>> \o UniqueFrom(s, i + 1)
Unique(s) == UniqueFrom(s, 1)

SetInter(kt, a, b) == Unique(MsInter(kt, a, b))
SetUnion(kt, a, b) == Unique(MsUnion(kt, a, b))
SetDiff(kt, a, b)  == Unique(MsDiff(kt, a, b))

(* the operation named by an event *)
SetOp2(name, kt, a, b) ==
    CASE name = "ms_inter"  -> MsInter(kt, a, b)
      [] name = "ms_inter2" -> MsInter2(kt, a, b)
      [] name = "ms_union"  -> MsUnion(kt, a, b)
      [] name = "ms_diff"   -> MsDiff(kt, a, b)
      [] name = "set_inter" -> SetInter(kt, a, b)
      [] name = "set_union" -> SetUnion(kt, a, b)
      [] name = "set_diff"  -> SetDiff(kt, a, b)
SetOp2Names == {"ms_inter", "ms_inter2", "ms_union", "ms_diff", "set_inter", "set_union", "set_diff"}

(* ------------------------------------------------------------------ k sequences *)
Live(runs, p) == { w \in 1..Len(runs) : p[w] <= Len(runs[w]) }
HeadOf(runs, p, w) == runs[w][p[w]]
Start(runs) == [ w \in 1..Len(runs) |-> 1 ]

(* k-way merge: the smallest head, the lowest way among equals *)
RECURSIVE KMergeFrom(_, _, _)
KMergeFrom(kt, runs, p) ==
    LET live == Live(runs, p) IN
    IF live = {} THEN <<>>
    ELSE LET w == CHOOSE w \in live : \A u \in live :
                      \/ KLess(kt, HeadOf(runs, p, w), HeadOf(runs, p, u))
                      \/ HeadOf(runs, p, w) = HeadOf(runs, p, u) /\ w <= u
         IN <<HeadOf(runs, p, w)>> \o KMergeFrom(kt, runs, [p EXCEPT ![w] = @ + 1])
KMerge(kt, runs) == KMergeFrom(kt, runs, Start(runs))

(* k-way intersection: the minimum head is emitted when ALL ways head it; the ways that *)
(* head the minimum advance by one (=> minimum multiplicity over the ways)              *)
RECURSIVE KInterFrom(_, _, _)
KInterFrom(kt, runs, p) ==
    LET K == 1..Len(runs)
        live == Live(runs, p) IN
    IF live # K \/ K = {} THEN <<>>      \* one way exhausted: nothing more can head all ways
    ELSE LET w0 == CHOOSE w \in K : \A u \in K : KLeq(kt, HeadOf(runs, p, w), HeadOf(runs, p, u))
             m == HeadOf(runs, p, w0)
             at == { w \in K : HeadOf(runs, p, w) = m }
             rest == KInterFrom(kt, runs, [ w \in K |-> IF w \in at THEN p[w] + 1 ELSE p[w] ])
         IN IF at = K THEN <<m>> \o rest ELSE rest
KInter(kt, runs) == KInterFrom(kt, runs, Start(runs))

KUnion(kt, runs) == Unique(KMerge(kt, runs))
(* frequency table as a set of <<element, count>> *)
Freq(runs) == LET f == Flatten(runs) IN { <<x, Count(f, x)>> : x \in Elems(f) }
(* merge, then keep the elements x with x mod m = r (integer keys) *)
FilterMerge(kt, runs, m, r) == SelectSeq(KMerge(kt, runs), LAMBDA x : x % m = r)

(* ------------------------------------------------------------------ contract *)
SetOp2OK(name, kt, a, b, out) ==
    /\ IsSorted(kt, "asc", a) /\ IsSorted(kt, "asc", b)
    /\ out = SetOp2(name, kt, a, b)
(* set_unique works in place and returns the new length n; out = the first n elements *)
UniqueOK(kt, a, n, out) ==
    /\ IsSorted(kt, "asc", a)
    /\ n = Len(out)
    /\ out = Unique(a)
(* k-way; a refusal (Err) is accepted *)
KSetOpOK(name, kt, ok, runs, out, m, r) ==
    /\ RunsSorted(kt, "asc", runs)
    /\ ok => CASE name = "k_inter"  -> out = KInter(kt, runs)
               [] name = "k_union"  -> out = KUnion(kt, runs)
               [] name = "k_merge"  -> out = KMerge(kt, runs)
               [] name = "k_filter" -> out = FilterMerge(kt, runs, m, r)
               [] name = "k_freq"   -> Elems(out) = Freq(runs) /\ Len(out) = Cardinality(Freq(runs))
KSetOpNames == {"k_inter", "k_union", "k_merge", "k_filter", "k_freq"}
=============================================================================
