SPECIFICATION FNSpec
CONSTANTS
  TOT = 4
  MaxSyms = 4
  MaxCount = 6
  Variant = "clamp"
INVARIANT DonePresentHasSlot
CHECK_DEADLOCK FALSE
