------------------------- MODULE VersionManagerMech -------------------------
(* Mechanism-level model of fsa/version_sync.rs VersionManager, one action per    *)
(* code segment between two schedule points (hook sites named vm.xxx), for one manager     *)
(* in mode OneWriteMultiRead / MultiWriteMultiRead.                                *)
(*                                                                                 *)
(* Fixed = FALSE: the protocol of the pinned tree - writer exclusion by reading    *)
(*   active_writers BEFORE the increment, version assignment under the mutex,      *)
(*   counters bumped outside it, min advanced by an unlocked zero test.            *)
(* Fixed = TRUE : the repaired protocol - check, version assignment and counter    *)
(*   increment in one critical section; min advanced under the same mutex.         *)
(*                                                                                 *)
(* Each thread runs a fixed program (sequence of "R", "W", "D" = acquire reader,   *)
(* acquire writer, drop the oldest token it holds).  A token is live from the step *)
(* in which acquire returns until the step in which its release starts (the        *)
(* contract's notion, Tokens.tla).                                                 *)
(*                                                                                 *)
(* Repaired protocol only: the per-thread token cache of fsa/token.rs (one reader  *)
(* slot and one writer slot per thread; TokenManager front-ends over ONE manager): *)
(*   "TR"/"TW"   TokenManager::acquire_*_token: the slot's token if there is one   *)
(*               (no step inside the manager), else a fresh acquisition            *)
(*   "C"         return_*_token of the oldest held token: into the slot; a token   *)
(*               already there is displaced = released                            *)
(*   "X"         clear_thread_cache: releases the slot reader, then the slot writer *)
(*   "SR"/"SW"   with_reader_token / with_writer_token whose closure returns Ok:   *)
(*               acquire as "TR"/"TW", the closure runs (pc "s.in", a schedule      *)
(*               point inside it), then the token goes to the slot as with "C"     *)
(*   "SRe"/"SWe" the same with a closure returning Err: the token is released      *)
(* A token in a slot is live (Tokens.tla).                                         *)
EXTENDS Naturals, Sequences, FiniteSets, TLC

CONSTANTS Threads, Prog, Fixed, OneWriterMode

VARIABLES cur, min, ar, aw,      \* the manager's atomics
          pc, ip,                \* per thread: program counter inside an op, index into Prog
          ver, saw,              \* per-thread registers
          held,                  \* per thread: sequence of tokens [kind, ver] it holds (live)
          slot,                  \* per thread: kind -> <<>> or <<token>>: the thread-local token cache
          sched                  \* history: thread id of every step (hidden by VIEW in MC configs)

vars == <<cur, min, ar, aw, pc, ip, ver, saw, held, slot, sched>>
view == <<cur, min, ar, aw, pc, ip, ver, saw, held, slot>>

Init == /\ cur = 1 /\ min = 1 /\ ar = 0 /\ aw = 0
        /\ pc = [t \in Threads |-> "api"] /\ ip = [t \in Threads |-> 1]
        /\ ver = [t \in Threads |-> 0] /\ saw = [t \in Threads |-> 0]
        /\ held = [t \in Threads |-> <<>>]
        /\ slot = [t \in Threads |-> [k \in {"R", "W"} |-> <<>>]]
        /\ sched = <<>>

Op(t) == IF ip[t] <= Len(Prog[t]) THEN Prog[t][ip[t]] ELSE "end"
Step(t) == sched' = Append(sched, t)
NextOp(t) == ip' = [ip EXCEPT ![t] = @ + 1]

ReaderOps == {"R", "TR", "SR", "SRe"}
WriterOps == {"W", "TW", "SW", "SWe"}
ViaCache(op) == op \in {"TR", "TW", "SR", "SW", "SRe", "SWe"}
Scoped(op) == op \in {"SR", "SW", "SRe", "SWe"}
ScopedErr(op) == op \in {"SRe", "SWe"}

(* ---------------- pinned protocol ---------------- *)
\* api -> first hook of the operation
P_StartW(t) == /\ pc[t] = "api" /\ Op(t) = "W" /\ ~Fixed
               /\ IF OneWriterMode
                  THEN saw' = [saw EXCEPT ![t] = aw] /\ pc' = [pc EXCEPT ![t] = "w.loaded"] /\ UNCHANGED <<cur, ver>>
                  ELSE cur' = cur + 1 /\ ver' = [ver EXCEPT ![t] = cur + 1] /\ pc' = [pc EXCEPT ![t] = "w.versioned"] /\ UNCHANGED saw
               /\ UNCHANGED <<min, ar, aw, ip, held>> /\ UNCHANGED slot /\ Step(t)
\* check the loaded value; refused -> back to api (next op); else mutex block
P_CheckW(t) == /\ pc[t] = "w.loaded"
               /\ IF saw[t] > 0
                  THEN pc' = [pc EXCEPT ![t] = "api"] /\ NextOp(t) /\ UNCHANGED <<cur, ver>>
                  ELSE cur' = cur + 1 /\ ver' = [ver EXCEPT ![t] = cur + 1] /\ pc' = [pc EXCEPT ![t] = "w.versioned"] /\ UNCHANGED ip
               /\ UNCHANGED <<min, ar, aw, saw, held>> /\ UNCHANGED slot /\ Step(t)
P_CountW(t) == /\ pc[t] = "w.versioned"
               /\ aw' = aw + 1 /\ pc' = [pc EXCEPT ![t] = "w.counted"]
               /\ UNCHANGED <<cur, min, ar, ip, ver, saw, held>> /\ UNCHANGED slot /\ Step(t)
P_RetW(t) ==   /\ pc[t] = "w.counted"
               /\ held' = [held EXCEPT ![t] = Append(@, [kind |-> "W", ver |-> ver[t]])]
               /\ IF Scoped(Op(t)) THEN pc' = [pc EXCEPT ![t] = "s.in"] /\ UNCHANGED ip
                                   ELSE pc' = [pc EXCEPT ![t] = "api"] /\ NextOp(t)
               /\ UNCHANGED <<cur, min, ar, aw, ver, saw>> /\ UNCHANGED slot /\ Step(t)
P_StartR(t) == /\ pc[t] = "api" /\ Op(t) = "R" /\ ~Fixed
               /\ cur' = cur + 1 /\ ver' = [ver EXCEPT ![t] = cur + 1] /\ pc' = [pc EXCEPT ![t] = "r.versioned"]
               /\ UNCHANGED <<min, ar, aw, ip, saw, held>> /\ UNCHANGED slot /\ Step(t)
P_CountR(t) == /\ pc[t] = "r.versioned"
               /\ ar' = ar + 1 /\ pc' = [pc EXCEPT ![t] = "r.counted"]
               /\ UNCHANGED <<cur, min, aw, ip, ver, saw, held>> /\ UNCHANGED slot /\ Step(t)
P_RetR(t) ==   /\ pc[t] = "r.counted"
               /\ held' = [held EXCEPT ![t] = Append(@, [kind |-> "R", ver |-> ver[t]])]
               /\ IF Scoped(Op(t)) THEN pc' = [pc EXCEPT ![t] = "s.in"] /\ UNCHANGED ip
                                   ELSE pc' = [pc EXCEPT ![t] = "api"] /\ NextOp(t)
               /\ UNCHANGED <<cur, min, ar, aw, ver, saw>> /\ UNCHANGED slot /\ Step(t)
\* drop the oldest held token: release starts (token not live any more), fetch_sub
P_StartD(t) == /\ pc[t] = "api" /\ Op(t) = "D" /\ ~Fixed
               /\ IF held[t] = <<>>
                  THEN pc' = pc /\ NextOp(t) /\ UNCHANGED <<ar, aw, held>>
                  ELSE /\ held' = [held EXCEPT ![t] = Tail(@)]
                       /\ IF Head(held[t]).kind = "R" THEN ar' = ar - 1 /\ aw' = aw ELSE aw' = aw - 1 /\ ar' = ar
                       /\ pc' = [pc EXCEPT ![t] = "rel.dec"] /\ UNCHANGED ip
               /\ UNCHANGED <<cur, min, ver, saw>> /\ UNCHANGED slot /\ Step(t)
\* the unlocked zero test (both loads in one step: they share one `if`)
P_Zero(t) ==   /\ pc[t] = "rel.dec"
               /\ IF ar = 0 /\ aw = 0
                  THEN pc' = [pc EXCEPT ![t] = "adv.zero"] /\ UNCHANGED ip
                  ELSE pc' = [pc EXCEPT ![t] = "api"] /\ NextOp(t)
               /\ UNCHANGED <<cur, min, ar, aw, ver, saw, held>> /\ UNCHANGED slot /\ Step(t)
P_LoadCur(t) == /\ pc[t] = "adv.zero"
                /\ saw' = [saw EXCEPT ![t] = cur] /\ pc' = [pc EXCEPT ![t] = "adv.cur"]
                /\ UNCHANGED <<cur, min, ar, aw, ip, ver, held>> /\ UNCHANGED slot /\ Step(t)
P_StoreMin(t) == /\ pc[t] = "adv.cur"
                 /\ min' = saw[t] /\ pc' = [pc EXCEPT ![t] = "adv.store"]
                 /\ UNCHANGED <<cur, ar, aw, ip, ver, saw, held>> /\ UNCHANGED slot /\ Step(t)
P_RetD(t) ==   /\ pc[t] = "adv.store"
               /\ pc' = [pc EXCEPT ![t] = "api"] /\ NextOp(t)
               /\ UNCHANGED <<cur, min, ar, aw, ver, saw, held>> /\ UNCHANGED slot /\ Step(t)

(* ---------------- repaired protocol ---------------- *)
\* a cache-aware acquisition goes to the manager only when the thread's slot of that kind is empty
Miss(t, k) == ViaCache(Op(t)) => slot[t][k] = <<>>
\* one critical section: writer check, version assignment, counter increment
F_AcqW(t) == /\ pc[t] = "api" /\ Op(t) \in WriterOps /\ Fixed /\ Miss(t, "W")
             /\ IF OneWriterMode /\ aw > 0
                THEN pc' = pc /\ NextOp(t) /\ UNCHANGED <<cur, aw, ver>>
                ELSE cur' = cur + 1 /\ ver' = [ver EXCEPT ![t] = cur + 1] /\ aw' = aw + 1
                     /\ pc' = [pc EXCEPT ![t] = "w.counted"] /\ UNCHANGED ip
             /\ UNCHANGED <<min, ar, saw, held, slot>> /\ Step(t)
F_AcqR(t) == /\ pc[t] = "api" /\ Op(t) \in ReaderOps /\ Fixed /\ Miss(t, "R")
             /\ cur' = cur + 1 /\ ver' = [ver EXCEPT ![t] = cur + 1] /\ ar' = ar + 1
             /\ pc' = [pc EXCEPT ![t] = "r.counted"]
             /\ UNCHANGED <<min, aw, ip, saw, held, slot>> /\ Step(t)
\* cache hit: the slot's token is handed out; the manager is not involved (no schedule point)
F_Hit(t) == /\ pc[t] = "api" /\ Fixed /\ ViaCache(Op(t))
            /\ LET k == IF Op(t) \in ReaderOps THEN "R" ELSE "W" IN
               /\ slot[t][k] /= <<>>
               /\ held' = [held EXCEPT ![t] = Append(@, slot[t][k][1])]
               /\ slot' = [slot EXCEPT ![t][k] = <<>>]
            /\ IF Scoped(Op(t)) THEN pc' = [pc EXCEPT ![t] = "s.in"] /\ UNCHANGED ip
                                ELSE pc' = pc /\ NextOp(t)
            /\ UNCHANGED <<cur, min, ar, aw, ver, saw>> /\ Step(t)
F_StartD(t) == /\ pc[t] = "api" /\ Op(t) = "D" /\ Fixed
               /\ IF held[t] = <<>>
                  THEN pc' = pc /\ NextOp(t) /\ UNCHANGED <<ar, aw, held>>
                  ELSE /\ held' = [held EXCEPT ![t] = Tail(@)]
                       /\ IF Head(held[t]).kind = "R" THEN ar' = ar - 1 /\ aw' = aw ELSE aw' = aw - 1 /\ ar' = ar
                       /\ pc' = [pc EXCEPT ![t] = "rel.dec"] /\ UNCHANGED ip
               /\ UNCHANGED <<cur, min, ver, saw, slot>> /\ Step(t)
\* token tok of thread t goes into the thread's slot; a token already there is displaced = released
\* (fetch_sub, then the schedule point vm.rel.dec)
ToSlot(t, tok) ==
    /\ slot' = [slot EXCEPT ![t][tok.kind] = <<tok>>]
    /\ IF slot[t][tok.kind] = <<>>
       THEN pc' = [pc EXCEPT ![t] = "api"] /\ NextOp(t) /\ UNCHANGED <<ar, aw>>
       ELSE /\ IF tok.kind = "R" THEN ar' = ar - 1 /\ aw' = aw ELSE aw' = aw - 1 /\ ar' = ar
            /\ pc' = [pc EXCEPT ![t] = "rel.dec"] /\ UNCHANGED ip
\* return_*_token of the oldest held token
F_Cache(t) == /\ pc[t] = "api" /\ Op(t) = "C" /\ Fixed
              /\ IF held[t] = <<>>
                 THEN pc' = pc /\ NextOp(t) /\ UNCHANGED <<ar, aw, held, slot>>
                 ELSE held' = [held EXCEPT ![t] = Tail(@)] /\ ToSlot(t, Head(held[t]))
              /\ UNCHANGED <<cur, min, ver, saw>> /\ Step(t)
\* the closure of with_*_token ends: Ok -> the token (the newest one held) goes to the slot; Err -> released
F_ScopeEnd(t) == /\ pc[t] = "s.in" /\ Fixed
                 /\ LET n == Len(held[t])
                        tok == held[t][n] IN
                    /\ held' = [held EXCEPT ![t] = SubSeq(@, 1, n - 1)]
                    /\ IF ScopedErr(Op(t))
                       THEN /\ IF tok.kind = "R" THEN ar' = ar - 1 /\ aw' = aw ELSE aw' = aw - 1 /\ ar' = ar
                            /\ pc' = [pc EXCEPT ![t] = "rel.dec"] /\ UNCHANGED <<ip, slot>>
                       ELSE ToSlot(t, tok)
                 /\ UNCHANGED <<cur, min, ver, saw>> /\ Step(t)
\* clear_thread_cache: the slot reader is released first, then (after its release ran) the slot writer
F_Clear(t) == /\ pc[t] = "api" /\ Op(t) = "X" /\ Fixed
              /\ IF slot[t]["R"] /= <<>>
                 THEN /\ ar' = ar - 1 /\ aw' = aw /\ slot' = [slot EXCEPT ![t]["R"] = <<>>]
                      /\ pc' = [pc EXCEPT ![t] = "rel.dec"] /\ UNCHANGED ip
                 ELSE IF slot[t]["W"] /= <<>>
                 THEN /\ aw' = aw - 1 /\ ar' = ar /\ slot' = [slot EXCEPT ![t]["W"] = <<>>]
                      /\ pc' = [pc EXCEPT ![t] = "rel.dec"] /\ UNCHANGED ip
                 ELSE pc' = pc /\ NextOp(t) /\ UNCHANGED <<ar, aw, slot>>
              /\ UNCHANGED <<cur, min, ver, saw, held>> /\ Step(t)
\* zero test, load and store in one critical section; then return - or, inside clear_thread_cache
\* with a writer still in the slot, straight on to its release (same code segment)
F_Advance(t) == /\ pc[t] = "rel.dec" /\ Fixed
                /\ min' = IF ar = 0 /\ aw = 0 THEN cur ELSE min
                /\ IF Op(t) = "X" /\ slot[t]["W"] /= <<>>
                   THEN /\ aw' = aw - 1 /\ slot' = [slot EXCEPT ![t]["W"] = <<>>]
                        /\ UNCHANGED <<pc, ip>>
                   ELSE /\ pc' = [pc EXCEPT ![t] = "api"] /\ NextOp(t)
                        /\ UNCHANGED <<aw, slot>>
                /\ UNCHANGED <<cur, ar, ver, saw, held>> /\ Step(t)

Pinned(t) == \/ P_StartW(t) \/ P_CheckW(t) \/ P_CountW(t) \/ P_RetW(t)
             \/ P_StartR(t) \/ P_CountR(t) \/ P_RetR(t)
             \/ P_StartD(t) \/ (~Fixed /\ P_Zero(t)) \/ P_LoadCur(t) \/ P_StoreMin(t) \/ P_RetD(t)
Repaired(t) == \/ F_AcqW(t) \/ F_AcqR(t) \/ F_Hit(t) \/ F_StartD(t) \/ F_Advance(t)
               \/ F_Cache(t) \/ F_ScopeEnd(t) \/ F_Clear(t)
               \/ (Fixed /\ (P_RetW(t) \/ P_RetR(t)))

Next == \E t \in Threads : Pinned(t) \/ Repaired(t)
Spec == Init /\ [][Next]_vars

(* ---------------- the contract's properties, through the refinement mapping ---------------- *)
\* live tokens = tokens held by a thread (or lent to a running closure) + tokens parked in a slot
AllHeld == UNION { { [t |-> t, kind |-> held[t][i].kind, ver |-> held[t][i].ver] : i \in 1..Len(held[t]) } : t \in Threads }
              \cup UNION { { [t |-> t, kind |-> k, ver |-> slot[t][k][1].ver] : k \in { k2 \in {"R", "W"} : slot[t][k2] /= <<>> } } : t \in Threads }
OneWriter == OneWriterMode => Cardinality({ x \in AllHeld : x.kind = "W" }) <= 1
MinNotAboveLive == \A x \in AllHeld : min <= x.ver
Quiet == \A t \in Threads : pc[t] \in {"api", "s.in"}
CountsMatch == Quiet => /\ ar = Cardinality({ x \in AllHeld : x.kind = "R" })
                        /\ aw = Cardinality({ x \in AllHeld : x.kind = "W" })
Done == \A t \in Threads : pc[t] = "api" /\ ip[t] > Len(Prog[t])
=============================================================================
