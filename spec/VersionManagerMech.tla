------------------------- MODULE VersionManagerMech -------------------------
(* Mechanism-level model of fsa/version_sync.rs VersionManager, one action per    *)
(* code segment between two schedule points (hook sites named vm.xxx), for one manager     *)
(* in mode OneWriteMultiRead / MultiWriteMultiRead.                                *)
(*                                                                                 *)
(* Fixed = FALSE: the protocol of the pinned tree - writer exclusion by reading    *)
(*   active_writers BEFORE the increment, version assignment under the mutex,      *)
(*   counters bumped outside it, min advanced by an unlocked zero test.            *)
(* Fixed = TRUE : the repaired protocol - check, version assignment and counter    *)
(*   increment in one critical section; min advanced under the same mutex.         *)
(*                                                                                 *)
(* Each thread runs a fixed program (sequence of "R", "W", "D" = acquire reader,   *)
(* acquire writer, drop the oldest token it holds).  A token is live from the step *)
(* in which acquire returns until the step in which its release starts (the        *)
(* contract's notion, Tokens.tla).                                                 *)
EXTENDS Naturals, Sequences, FiniteSets, TLC

CONSTANTS Threads, Prog, Fixed, OneWriterMode

VARIABLES cur, min, ar, aw,      \* the manager's atomics
          pc, ip,                \* per thread: program counter inside an op, index into Prog
          ver, saw,              \* per-thread registers
          held,                  \* per thread: sequence of tokens [kind, ver] it holds (live)
          sched                  \* history: thread id of every step (hidden by VIEW in MC configs)

vars == <<cur, min, ar, aw, pc, ip, ver, saw, held, sched>>
view == <<cur, min, ar, aw, pc, ip, ver, saw, held>>

Init == /\ cur = 1 /\ min = 1 /\ ar = 0 /\ aw = 0
        /\ pc = [t \in Threads |-> "api"] /\ ip = [t \in Threads |-> 1]
        /\ ver = [t \in Threads |-> 0] /\ saw = [t \in Threads |-> 0]
        /\ held = [t \in Threads |-> <<>>]
        /\ sched = <<>>

Op(t) == IF ip[t] <= Len(Prog[t]) THEN Prog[t][ip[t]] ELSE "end"
Step(t) == sched' = Append(sched, t)
NextOp(t) == ip' = [ip EXCEPT ![t] = @ + 1]

(* ---------------- pinned protocol ---------------- *)
\* api -> first hook of the operation
P_StartW(t) == /\ pc[t] = "api" /\ Op(t) = "W" /\ ~Fixed
               /\ IF OneWriterMode
                  THEN saw' = [saw EXCEPT ![t] = aw] /\ pc' = [pc EXCEPT ![t] = "w.loaded"] /\ UNCHANGED <<cur, ver>>
                  ELSE cur' = cur + 1 /\ ver' = [ver EXCEPT ![t] = cur + 1] /\ pc' = [pc EXCEPT ![t] = "w.versioned"] /\ UNCHANGED saw
               /\ UNCHANGED <<min, ar, aw, ip, held>> /\ Step(t)
\* check the loaded value; refused -> back to api (next op); else mutex block
P_CheckW(t) == /\ pc[t] = "w.loaded"
               /\ IF saw[t] > 0
                  THEN pc' = [pc EXCEPT ![t] = "api"] /\ NextOp(t) /\ UNCHANGED <<cur, ver>>
                  ELSE cur' = cur + 1 /\ ver' = [ver EXCEPT ![t] = cur + 1] /\ pc' = [pc EXCEPT ![t] = "w.versioned"] /\ UNCHANGED ip
               /\ UNCHANGED <<min, ar, aw, saw, held>> /\ Step(t)
P_CountW(t) == /\ pc[t] = "w.versioned"
               /\ aw' = aw + 1 /\ pc' = [pc EXCEPT ![t] = "w.counted"]
               /\ UNCHANGED <<cur, min, ar, ip, ver, saw, held>> /\ Step(t)
P_RetW(t) ==   /\ pc[t] = "w.counted"
               /\ held' = [held EXCEPT ![t] = Append(@, [kind |-> "W", ver |-> ver[t]])]
               /\ pc' = [pc EXCEPT ![t] = "api"] /\ NextOp(t)
               /\ UNCHANGED <<cur, min, ar, aw, ver, saw>> /\ Step(t)
P_StartR(t) == /\ pc[t] = "api" /\ Op(t) = "R" /\ ~Fixed
               /\ cur' = cur + 1 /\ ver' = [ver EXCEPT ![t] = cur + 1] /\ pc' = [pc EXCEPT ![t] = "r.versioned"]
               /\ UNCHANGED <<min, ar, aw, ip, saw, held>> /\ Step(t)
P_CountR(t) == /\ pc[t] = "r.versioned"
               /\ ar' = ar + 1 /\ pc' = [pc EXCEPT ![t] = "r.counted"]
               /\ UNCHANGED <<cur, min, aw, ip, ver, saw, held>> /\ Step(t)
P_RetR(t) ==   /\ pc[t] = "r.counted"
               /\ held' = [held EXCEPT ![t] = Append(@, [kind |-> "R", ver |-> ver[t]])]
               /\ pc' = [pc EXCEPT ![t] = "api"] /\ NextOp(t)
               /\ UNCHANGED <<cur, min, ar, aw, ver, saw>> /\ Step(t)
\* drop the oldest held token: release starts (token not live any more), fetch_sub
P_StartD(t) == /\ pc[t] = "api" /\ Op(t) = "D" /\ ~Fixed
               /\ IF held[t] = <<>>
                  THEN pc' = pc /\ NextOp(t) /\ UNCHANGED <<ar, aw, held>>
                  ELSE /\ held' = [held EXCEPT ![t] = Tail(@)]
                       /\ IF Head(held[t]).kind = "R" THEN ar' = ar - 1 /\ aw' = aw ELSE aw' = aw - 1 /\ ar' = ar
                       /\ pc' = [pc EXCEPT ![t] = "rel.dec"] /\ UNCHANGED ip
               /\ UNCHANGED <<cur, min, ver, saw>> /\ Step(t)
\* the unlocked zero test (both loads in one step: they share one `if`)
P_Zero(t) ==   /\ pc[t] = "rel.dec"
               /\ IF ar = 0 /\ aw = 0
                  THEN pc' = [pc EXCEPT ![t] = "adv.zero"] /\ UNCHANGED ip
                  ELSE pc' = [pc EXCEPT ![t] = "api"] /\ NextOp(t)
               /\ UNCHANGED <<cur, min, ar, aw, ver, saw, held>> /\ Step(t)
P_LoadCur(t) == /\ pc[t] = "adv.zero"
                /\ saw' = [saw EXCEPT ![t] = cur] /\ pc' = [pc EXCEPT ![t] = "adv.cur"]
                /\ UNCHANGED <<cur, min, ar, aw, ip, ver, held>> /\ Step(t)
P_StoreMin(t) == /\ pc[t] = "adv.cur"
                 /\ min' = saw[t] /\ pc' = [pc EXCEPT ![t] = "adv.store"]
                 /\ UNCHANGED <<cur, ar, aw, ip, ver, saw, held>> /\ Step(t)
P_RetD(t) ==   /\ pc[t] = "adv.store"
               /\ pc' = [pc EXCEPT ![t] = "api"] /\ NextOp(t)
               /\ UNCHANGED <<cur, min, ar, aw, ver, saw, held>> /\ Step(t)

(* ---------------- repaired protocol ---------------- *)
\* one critical section: writer check, version assignment, counter increment
F_AcqW(t) == /\ pc[t] = "api" /\ Op(t) = "W" /\ Fixed
             /\ IF OneWriterMode /\ aw > 0
                THEN pc' = pc /\ NextOp(t) /\ UNCHANGED <<cur, aw, ver>>
                ELSE cur' = cur + 1 /\ ver' = [ver EXCEPT ![t] = cur + 1] /\ aw' = aw + 1
                     /\ pc' = [pc EXCEPT ![t] = "w.counted"] /\ UNCHANGED ip
             /\ UNCHANGED <<min, ar, saw, held>> /\ Step(t)
F_AcqR(t) == /\ pc[t] = "api" /\ Op(t) = "R" /\ Fixed
             /\ cur' = cur + 1 /\ ver' = [ver EXCEPT ![t] = cur + 1] /\ ar' = ar + 1
             /\ pc' = [pc EXCEPT ![t] = "r.counted"]
             /\ UNCHANGED <<min, aw, ip, saw, held>> /\ Step(t)
F_StartD(t) == /\ pc[t] = "api" /\ Op(t) = "D" /\ Fixed
               /\ IF held[t] = <<>>
                  THEN pc' = pc /\ NextOp(t) /\ UNCHANGED <<ar, aw, held>>
                  ELSE /\ held' = [held EXCEPT ![t] = Tail(@)]
                       /\ IF Head(held[t]).kind = "R" THEN ar' = ar - 1 /\ aw' = aw ELSE aw' = aw - 1 /\ ar' = ar
                       /\ pc' = [pc EXCEPT ![t] = "rel.dec"] /\ UNCHANGED ip
               /\ UNCHANGED <<cur, min, ver, saw>> /\ Step(t)
\* zero test, load and store in one critical section; then return
F_Advance(t) == /\ pc[t] = "rel.dec" /\ Fixed
                /\ min' = IF ar = 0 /\ aw = 0 THEN cur ELSE min
                /\ pc' = [pc EXCEPT ![t] = "api"] /\ NextOp(t)
                /\ UNCHANGED <<cur, ar, aw, ver, saw, held>> /\ Step(t)

Pinned(t) == \/ P_StartW(t) \/ P_CheckW(t) \/ P_CountW(t) \/ P_RetW(t)
             \/ P_StartR(t) \/ P_CountR(t) \/ P_RetR(t)
             \/ P_StartD(t) \/ (~Fixed /\ P_Zero(t)) \/ P_LoadCur(t) \/ P_StoreMin(t) \/ P_RetD(t)
Repaired(t) == \/ F_AcqW(t) \/ F_AcqR(t) \/ F_StartD(t) \/ F_Advance(t)
               \/ (Fixed /\ (P_RetW(t) \/ P_RetR(t)))

Next == \E t \in Threads : Pinned(t) \/ Repaired(t)
Spec == Init /\ [][Next]_vars

(* ---------------- the contract's properties, through the refinement mapping ---------------- *)
LiveToks == { <<t, i>> : t \in Threads, i \in 1..3 } \* index set helper (bounded)
AllHeld == UNION { { [t |-> t, kind |-> held[t][i].kind, ver |-> held[t][i].ver] : i \in 1..Len(held[t]) } : t \in Threads }
OneWriter == OneWriterMode => Cardinality({ x \in AllHeld : x.kind = "W" }) <= 1
MinNotAboveLive == \A x \in AllHeld : min <= x.ver
Quiet == \A t \in Threads : pc[t] = "api"
CountsMatch == Quiet => /\ ar = Cardinality({ x \in AllHeld : x.kind = "R" })
                        /\ aw = Cardinality({ x \in AllHeld : x.kind = "W" })
Done == \A t \in Threads : pc[t] = "api" /\ ip[t] > Len(Prog[t])
=============================================================================
