SPECIFICATION Spec
CONSTANTS
  MaxN = 3
INVARIANT TypeInv SortedViewUnique
PROPERTY PushInvalidates SortKeepsOrder CloneIndependent
CHECK_DEADLOCK FALSE
