SPECIFICATION Spec
CONSTANTS
  Recs = {"r1","r2","r3"}
  L = 3
CONSTRAINT Bound
INVARIANT Emit
CHECK_DEADLOCK FALSE
