-------------------------- MODULE Trace_PageCache --------------------------
(* Trace specification: replays a recorded execution of a real LruPageCache /           *)
(* SingleLruPageCache / CachedBlobStore through the actions of PageCache.tla.           *)
EXTENDS PageCache, TraceIO, Known_PageCache

VARIABLES l, subj, kf

vars == <<files, since, rec, bufs, l, subj, kf>>

TraceInit == PcInit /\ l = 1 /\ subj = [subject |-> "none"] /\ kf = {}

PcStep(e) ==
    \/ e.op = "file" /\ e.ok /\ NewFile(e.f, e.size, e.gen, e.fid)
    \/ e.op = "file" /\ ~e.ok /\ e.virtual /\ NoEffect        \* register_file refused (a real descriptor): allowed
    \/ e.op = "read_far" /\ e.ok /\ ReadFar(e.f, e.offl, e.r)
    \/ e.op = "read_far" /\ ~e.ok /\ ReadRefused
    \/ e.op = "invalidate_far" /\ NoEffect
    \/ e.op = "rewrite" /\ Rewrite(e.f, e.a, e.b, e.gen)
    \/ e.op = "read" /\ e.ok /\ Read(e.f, e.off, e.len, e.r)
    \/ e.op = "read" /\ ~e.ok /\ ReadRefused
    \/ e.op = "invalidate_range" /\ e.ok /\ InvalidateRange(e.f, e.off, e.len)
    \/ e.op = "invalidate_page" /\ e.ok /\ InvalidatePage(e.f, e.page)
    \/ e.op \in {"invalidate_range", "invalidate_page"} /\ ~e.ok /\ NoEffect
    \/ e.op \in {"prefetch", "mark_dirty", "flush_file"} /\ NoEffect
    \/ e.op = "file_size" /\ FileSizeOK(e.f, e.r)
    \/ e.op = "close_file" /\ e.ok /\ CloseFile(e.f)
    \/ e.op = "close_file" /\ ~e.ok /\ NoEffect
    \/ e.op = "size" /\ SizeOK(e.r, subj.cap_pages)

CsStep(e) ==
    \/ e.op = "put" /\ e.ok /\ CsPut(e.id, e.d)
    \/ e.op = "put" /\ ~e.ok /\ NoEffect
    \/ e.op = "get" /\ CsGet(e.id, e.ok, e.r, e.iok, e.ir)
    \/ e.op = "remove" /\ e.ok /\ CsRemove(e.id)
    \/ e.op = "remove" /\ ~e.ok /\ NoEffect
    \/ e.op \in {"size", "contains", "len", "is_empty"} /\ CsSame(e.r, e.ir)
    \/ e.op \in {"flush", "prefetch_range"} /\ NoEffect
    \/ e.op = "set_write_strategy" /\ CsSame(e.r, e.want)       \* write_strategy() reports what was set

BufStep(e) ==
    /\ \/ e.op = "buf_new" /\ BufNew(e.b)
       \/ e.op = "buf_from_data" /\ BufFromData(e.b, e.d)
       \/ e.op = "buf_copy" /\ BufCopy(e.b, e.d)
       \/ e.op = "buf_extend" /\ BufExtend(e.b, e.d)
       \/ e.op = "buf_clear" /\ BufClear(e.b)
       \/ e.op \in {"buf_reserve", "buf_move"} /\ BufKeep(e.b)
    /\ BufObs(e.b, e.data, e.len, e.empty, e.has)

Step(e) ==
    IF subj.domain = "cstore" THEN CsStep(e)
    ELSE IF subj.domain = "buffer" THEN (BufStep(e) \/ (e.op \in {"pool_put", "buf_drop"} /\ BufDrop(e.b)))
    ELSE PcStep(e)

TraceNext ==
    /\ l <= Len(Rec)
    /\ l' = l + 1
    /\ LET e == Rec[l] IN
       IF e.op = "reset"
       THEN /\ files' = [x \in {} |-> 0] /\ since' = [x \in {} |-> 0] /\ rec' = [x \in {} |-> 0] /\ bufs' = [x \in {} |-> 0]
            /\ e.domain = "pagecache" => e.page = PageSize
            /\ subj' = e /\ kf' = kf
       ELSE /\ subj' = subj
            /\ IF UseKF /\ \E id \in KnownIds : DevApplies(id, e, subj)
               THEN \E id \in KnownIds : KnownDeviation(id, e, subj) /\ kf' = kf \cup {id}
               ELSE Step(e) /\ kf' = kf

TraceSpec == TraceInit /\ [][TraceNext]_vars

Done == l = Len(Rec) + 1 => PrintT(<<"KFSET", kf>>)
=============================================================================
