----------------------------- MODULE ParallelMap -----------------------------
(* Contract of the order-preserving parallel helpers of zipora (property C18):    *)
(* FiberPool::parallel_map / parallel_for_each / parallel_reduce / spawn_batch,    *)
(* Pipeline::process_batch / execute_single.  The stage function applied by the    *)
(* harness is F(x) = 2x+1, failing on the inputs listed in `fail`.                 *)
EXTENDS Naturals, Sequences, FiniteSets

F(x) == 2 * x + 1
Range(s) == { s[i] : i \in 1..Len(s) }
Fails(in, fail) == \E i \in 1..Len(in) : in[i] \in Range(fail)

(* one result per input, in input order, equal to the sequential application; a failing item      *)
(* surfaces as an error - never a shorter or shifted vector                                        *)
MapOk(in, fail, ok, out) ==
    IF Fails(in, fail) THEN ~ok
    ELSE ok /\ Len(out) = Len(in) /\ \A i \in 1..Len(in) : out[i] = F(in[i])

(* for_each: when it reports success every input was processed exactly once (seen = inputs sorted) *)
RECURSIVE CountIn(_, _)
CountIn(s, x) == IF s = <<>> THEN 0 ELSE (IF Head(s) = x THEN 1 ELSE 0) + CountIn(Tail(s), x)
SameBag(a, b) == Len(a) = Len(b) /\ \A x \in Range(a) \cup Range(b) : CountIn(a, x) = CountIn(b, x)
ForEachOk(in, fail, ok, seen) ==
    IF Fails(in, fail) THEN ~ok
    ELSE ok /\ SameBag(in, seen)

(* reduce with concatenation (associative, not commutative), identity <<>>: the input itself *)
ReduceOk(in, ok, out) == ok /\ out = in

(* spawn_batch: one handle per future; handle i resolves to F(in[i]) or to an error iff in[i] fails *)
BatchOk(in, fail, handles, out) ==
    /\ handles = Len(in) /\ Len(out) = Len(in)
    /\ \A i \in 1..Len(in) : IF in[i] \in Range(fail) THEN out[i] = <<>> ELSE out[i] = <<F(in[i])>>
=============================================================================
