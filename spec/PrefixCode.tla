----------------------------- MODULE PrefixCode -----------------------------
(* Mechanism: the Huffman code table (src/entropy/huffman.rs HuffmanTree::         *)
(* from_frequencies / generate_codes; one table per context for the contextual     *)
(* coders).                                                                        *)
(*                                                                                 *)
(* Part 1 - what a code table must satisfy so that the bit stream can be decoded   *)
(* back: non-empty codes, pairwise distinct, prefix-free, Kraft inequality, every  *)
(* symbol that must be codable has a code (for the contextual coders: every byte   *)
(* in every context).  Pure operators, evaluated by TLC                            *)
(*   (a) on every final state of the code builder below (MC_PrefixCode), and       *)
(*   (b) on the REAL tables read through HuffmanTree::get_code after every         *)
(*       training (Trace_Codec, event "codes").                                    *)
(*                                                                                 *)
(* Part 2 - the code builder as a state machine: a forest of weighted nodes, one   *)
(* merge per step, the bit of the branch prepended to the code of every symbol     *)
(* below it.  Strategy = "min" is the textbook rule (two lightest nodes),          *)
(* "max" is what huffman.rs does as coded (Reverse() around an Ord that is         *)
(* already reversed pops the two HEAVIEST nodes - not optimal, still a prefix      *)
(* code), "any" merges any two nodes: the decodability invariants do not depend    *)
(* on the merge order.                                                             *)
EXTENDS Naturals, Sequences, FiniteSets

(* ------------------------------------------------------------------ part 1 *)
Range(s) == { s[j] : j \in 1..Len(s) }
IsBits(c) == \A k \in 1..Len(c) : c[k] \in {0, 1}
Lens(codes) == [j \in 1..Len(codes) |-> Len(codes[j])]
MaxOf(S) == IF S = {} THEN 0 ELSE CHOOSE x \in S : \A y \in S : y <= x
MaxLen(codes) == MaxOf(Range(Lens(codes)))

AllNonEmptyBits(codes) == \A j \in 1..Len(codes) : Len(codes[j]) >= 1 /\ IsBits(codes[j])
Distinct(codes) == Cardinality(Range(codes)) = Len(codes)
(* no code is a proper prefix of another one: the set of all proper prefixes of all codes  *)
(* (the inner nodes of the code tree) and the set of codes (its leaves) are disjoint.       *)
(* (One set intersection: TLC sorts both sets once; a membership test per prefix against    *)
(* the unsorted code set cost 70 ms per 256-symbol table.)                                   *)
ProperPrefixes(codes) ==
    UNION { { SubSeq(codes[j], 1, k) : k \in 0..(Len(codes[j]) - 1) } : j \in 1..Len(codes) }
PrefixFree(codes) == ProperPrefixes(codes) \cap Range(codes) = {}

(* Kraft inequality  SUM 2^-len <= 1  without big numbers (code lengths reach 64):  *)
(* pack the leaves bottom-up; at depth l there are the codes of length l plus the   *)
(* parents of everything deeper; they need ceil(n/2) parents.  The lengths fit a    *)
(* binary tree iff at most one node is left at depth 0.  Equality (a complete code) *)
(* iff every level pairs up exactly and exactly one node is left.                   *)
Cnt(lens, l) == Cardinality({ j \in 1..Len(lens) : lens[j] = l })
(* hist[l + 1] = number of codes of length l, for l = 0..maxlen, computed once *)
LenHist(lens) == LET L == MaxOf(Range(lens)) IN [l1 \in 1..(L + 1) |-> Cnt(lens, l1 - 1)]
RECURSIVE NodesAt(_, _, _)
NodesAt(hist, l, carry) ==
    IF l = 0 THEN carry + hist[1]
    ELSE NodesAt(hist, l - 1, (hist[l + 1] + carry + 1) \div 2)
KraftLeq(lens) == LET hist == LenHist(lens) IN NodesAt(hist, Len(hist) - 1, 0) <= 1
RECURSIVE PairsUp(_, _, _)
PairsUp(hist, l, carry) ==
    IF l = 0 THEN carry + hist[1] = 1
    ELSE /\ (hist[l + 1] + carry) % 2 = 0
         /\ PairsUp(hist, l - 1, (hist[l + 1] + carry) \div 2)
KraftEq(lens) == LET hist == LenHist(lens) IN PairsUp(hist, Len(hist) - 1, 0)
(* the direct form, usable while 2^maxlen fits an integer (checked equivalent by MC_PrefixCode) *)
RECURSIVE Pow2(_)
Pow2(n) == IF n = 0 THEN 1 ELSE 2 * Pow2(n - 1)
RECURSIVE KraftSumTo(_, _, _)
KraftSumTo(lens, L, n) == IF n = 0 THEN 0 ELSE Pow2(L - lens[n]) + KraftSumTo(lens, L, n - 1)
KraftLeqDirect(lens) == LET L == MaxOf(Range(lens)) IN KraftSumTo(lens, L, Len(lens)) <= Pow2(L)
KraftEqDirect(lens) == LET L == MaxOf(Range(lens)) IN KraftSumTo(lens, L, Len(lens)) = Pow2(L)

(* syms[j] has code codes[j]; `must` is the set of symbols that have to be codable *)
AllCoded(syms, must) == must \subseteq Range(syms)
Uncoded(syms, must) == must \ Range(syms)

CodesOK(syms, codes, must) ==
    /\ Len(syms) = Len(codes)
    /\ Cardinality(Range(syms)) = Len(syms)
    /\ AllNonEmptyBits(codes)
    /\ Distinct(codes)
    /\ PrefixFree(codes)
    /\ KraftLeq(Lens(codes))
    /\ AllCoded(syms, must)

(* ------------------------------------------------------------------ part 2 *)
CONSTANTS HMaxSyms,    \* alphabets of 2..HMaxSyms symbols
          HMaxCount,   \* counts 0..HMaxCount
          Strategy     \* "min" | "max" | "any"

VARIABLES hf,       \* frequency vector
          forest,   \* set of nodes [w |-> weight, m |-> set of symbols below]
          code,     \* symbol -> bits (so far)
          hpc       \* "merge" | "done"

pcvars == <<hf, forest, code, hpc>>

Present == { s \in 1..Len(hf) : hf[s] > 0 }

PCInit ==
    /\ \E n \in 2..HMaxSyms : hf \in [1..n -> 0..HMaxCount]
    /\ Present # {}
    /\ forest = { [w |-> hf[s], m |-> {s}] : s \in Present }
    /\ code = [s \in Present |-> <<>>]
    /\ hpc = "merge"

Allowed(a, b) ==
    LET rest == forest \ {a, b} IN
    CASE Strategy = "min" -> \A c \in rest : c.w >= a.w /\ c.w >= b.w
      [] Strategy = "max" -> \A c \in rest : c.w <= a.w /\ c.w <= b.w
      [] OTHER -> TRUE

(* one merge: a becomes the 0-branch, b the 1-branch of a new node *)
Merge ==
    /\ hpc = "merge" /\ Cardinality(forest) >= 2
    /\ \E a, b \in forest :
         /\ a # b /\ Allowed(a, b)
         /\ forest' = (forest \ {a, b}) \cup {[w |-> a.w + b.w, m |-> a.m \cup b.m]}
         /\ code' = [s \in DOMAIN code |->
                       IF s \in a.m THEN <<0>> \o code[s]
                       ELSE IF s \in b.m THEN <<1>> \o code[s] ELSE code[s]]
    /\ UNCHANGED <<hf, hpc>>

(* one node left.  A single present symbol still needs one bit per occurrence     *)
(* (huffman.rs: `codes.insert(symbol, vec![false])`)                               *)
Finish ==
    /\ hpc = "merge" /\ Cardinality(forest) = 1
    /\ code' = IF Cardinality(Present) = 1 THEN [s \in Present |-> <<0>>] ELSE code
    /\ hpc' = "done"
    /\ UNCHANGED <<hf, forest>>

PCNext == Merge \/ Finish
PCSpec == PCInit /\ [][PCNext]_pcvars

(* ---- properties ---- *)
RECURSIVE SetToSeq(_)
SetToSeq(S) == IF S = {} THEN <<>>
               ELSE LET x == CHOOSE y \in S : \A z \in S : y <= z IN <<x>> \o SetToSeq(S \ {x})
SymSeq == SetToSeq(Present)
CodeSeq == [j \in 1..Len(SymSeq) |-> code[SymSeq[j]]]

(* inductive: inside every node of the forest the partial codes are already prefix-free *)
NodeCodesPrefixFree ==
    \A nd \in forest : Cardinality(nd.m) >= 2 =>
        LET S == { code[s] : s \in nd.m } IN
        /\ Cardinality(S) = Cardinality(nd.m)
        /\ \A s \in nd.m : \A k \in 0..(Len(code[s]) - 1) : SubSeq(code[s], 1, k) \notin S
(* weights are conserved *)
RECURSIVE SetSum(_, _)
SetSum(g, S) == IF S = {} THEN 0 ELSE LET x == CHOOSE y \in S : TRUE IN g[x] + SetSum(g, S \ {x})
WeightConserved == \A nd \in forest : nd.w = SetSum(hf, nd.m)
(* final table: decodable, every present symbol coded *)
DoneCodesOK == hpc = "done" => CodesOK(SymSeq, CodeSeq, Present)
(* a merge tree over >= 2 symbols is a complete code: Kraft holds with equality *)
DoneComplete == (hpc = "done" /\ Cardinality(Present) >= 2) => KraftEq(Lens(CodeSeq))
(* the carry form of Kraft agrees with the direct sum (lengths are small here) *)
DoneKraftFormsAgree ==
    hpc = "done" => /\ KraftLeq(Lens(CodeSeq)) = KraftLeqDirect(Lens(CodeSeq))
                    /\ KraftEq(Lens(CodeSeq)) = KraftEqDirect(Lens(CodeSeq))
=============================================================================
