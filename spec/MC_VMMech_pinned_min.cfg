SPECIFICATION Spec
CONSTANTS
  P = 2
  Fixed = FALSE
  OneWriterMode = TRUE
  Threads <- MCThreads
  Prog <- MCProg
VIEW view
INVARIANT MinNotAboveLive
CHECK_DEADLOCK FALSE
