SPECIFICATION LawSpec
CONSTANTS
  Deep = FALSE
  GlobPosBytes = 2
  LoopBits = 3
INVARIANT BitsTableOK
INVARIANT CodecLaw
CHECK_DEADLOCK FALSE
