SPECIFICATION LawSpec
CONSTANTS
  LoopBits = 3
INVARIANT BitsTableOK
INVARIANT CodecLaw
CHECK_DEADLOCK FALSE
