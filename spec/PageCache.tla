------------------------------ MODULE PageCache ------------------------------
(* Contract of the page cache of zipora (LruPageCache / SingleLruPageCache) and of     *)
(* CachedBlobStore (property C17): a read of (file, offset, length) returns exactly     *)
(* the bytes of the underlying file at that range - from cache, after eviction and      *)
(* reload, across page boundaries, after an explicit invalidation.                       *)
(*                                                                                       *)
(* The harness owns the files.  Their content is defined HERE: byte i of a region        *)
(* written with generation g is  Byte(g, i).  The harness writes that pattern (events    *)
(* "file" / "rewrite" carry only size, range and generation) and logs the bytes every    *)
(* read returned; TLC compares each returned byte with the definition.  Generations      *)
(* differ at every position and equal in-page offsets of neighbouring pages differ, so    *)
(* a stale page and a page of another offset/file are both visible.                      *)
(*                                                                                       *)
(* Staleness: a cache may serve a page loaded earlier.  "version" v of a file = its       *)
(* content after the first v writes.  since[f][p] = the oldest version of page p a        *)
(* cache may still legitimately hold: raised to the current version by an invalidation   *)
(* of the page (explicit invalidation => new bytes MUST be seen), and to the version a    *)
(* read was observed to return (a cached page never travels back in time).                *)
EXTENDS Naturals, Sequences, FiniteSets, Opt

PageSize == 4096

Byte(g, i) == (i + 31 * (i \div PageSize) + 97 * g + (i \div 251)) % 251

VARIABLES
    files,   \* f -> [size, writes: sequence of [a, b, g] (bytes a..b-1 rewritten with generation g), open, fid]
    since,   \* f -> [page -> oldest admissible version]
    rec,     \* cached blob store: id -> digest of the record put
    bufs     \* CacheBuffer objects of the harness: handle -> the bytes data() must show

PcInit == files = [x \in {} |-> 0] /\ since = [x \in {} |-> 0] /\ rec = [x \in {} |-> 0] /\ bufs = [x \in {} |-> 0]

Min2(a, b) == IF a < b THEN a ELSE b
Max2(a, b) == IF a > b THEN a ELSE b
NPages(size) == (size + PageSize - 1) \div PageSize
Cur(f) == Len(files[f].writes)

(* generation of byte i in version v: the last of the first v writes that covers i *)
GenAt(F, v, i) ==
    LET RECURSIVE Find(_)
        Find(j) == IF F.writes[j].a <= i /\ i < F.writes[j].b THEN F.writes[j].g ELSE Find(j - 1)
    IN Find(v)
ByteAtV(F, v, i) == Byte(GenAt(F, v, i), i)

(* the harness created file f (size bytes of generation g) and opened it; the cache handed out file id fid, *)
(* which must differ from the id of every other open file (pages are keyed by (file id, page))             *)
OpenFids == { files[x].fid : x \in { y \in DOMAIN files : files[y].open } }
NewFile(f, size, g, fid) ==
    /\ f \notin DOMAIN files
    /\ fid \notin OpenFids
    /\ files' = [x \in DOMAIN files \cup {f} |-> IF x = f THEN [size |-> size, writes |-> <<[a |-> 0, b |-> size, g |-> g]>>, open |-> TRUE, fid |-> fid] ELSE files[x]]
    /\ since' = [x \in DOMAIN since \cup {f} |-> IF x = f THEN [p \in 0..(NPages(size) - 1) |-> 1] ELSE since[x]]
    /\ UNCHANGED <<rec, bufs>>

(* the harness rewrote bytes a..b-1 of f in place with generation g (size unchanged) *)
Rewrite(f, a, b, g) ==
    /\ f \in DOMAIN files /\ a < b /\ b <= files[f].size
    /\ files' = [files EXCEPT ![f].writes = Append(@, [a |-> a, b |-> b, g |-> g])]
    /\ UNCHANGED <<since, rec, bufs>>

(* number of bytes of the range off..off+len-1 that exist in the file *)
Avail(F, off, len) == IF off >= F.size THEN 0 ELSE Min2(off + len, F.size) - off

PagesOf(off, n) == IF n = 0 THEN {} ELSE (off \div PageSize)..((off + n - 1) \div PageSize)

(* the part of result r (a read of n bytes at off) that lies in page p equals version v *)
PartOK(F, off, n, r, p, v) ==
    \A i \in Max2(off, p * PageSize)..(Min2(off + n, (p + 1) * PageSize) - 1) : r[i - off + 1] = ByteAtV(F, v, i)

(* first admissible version (from v upward) matching the part in page p; 0 = none *)
FirstOK(F, cur, off, n, r, p, v0) ==
    LET RECURSIVE Go(_)
        Go(v) == IF v > cur THEN 0 ELSE IF PartOK(F, off, n, r, p, v) THEN v ELSE Go(v + 1)
    IN Go(v0)

(* read(f, off, len) -> Ok(r): exactly the existing bytes of the range, every page part from ONE *)
(* admissible version of that page                                                              *)
ReadData(f, off, n, r) ==
    LET F == files[f] IN
    /\ Len(r) = n
    /\ \A p \in PagesOf(off, n) : FirstOK(F, Cur(f), off, n, r, p, since[f][p]) /= 0
    /\ since' = [since EXCEPT ![f] = [p \in DOMAIN @ |->
                    IF p \in PagesOf(off, n) THEN FirstOK(F, Cur(f), off, n, r, p, @[p]) ELSE @[p]]]
    /\ UNCHANGED <<files, rec, bufs>>

Read(f, off, len, r) ==
    /\ f \in DOMAIN files
    /\ IF files[f].open
       THEN ReadData(f, off, Avail(files[f], off, len), r)
       ELSE r = <<>> /\ UNCHANGED <<files, since, rec, bufs>>       \* closed file: nothing to return

(* a read at an offset beyond 2^31 (given as four 16-bit limbs, most significant first): beyond the end   *)
(* of every file of the harness, so there is nothing to return - in particular not the bytes of the page *)
(* whose number equals the offset's page number modulo 2^32                                             *)
IsFar(offl) == offl[1] > 0 \/ offl[2] > 0 \/ offl[3] >= 32768
ReadFar(f, offl, r) == f \in DOMAIN files /\ IsFar(offl) /\ r = <<>> /\ UNCHANGED <<files, since, rec, bufs>>

(* read -> Err: refused, nothing changes *)
ReadRefused == UNCHANGED <<files, since, rec, bufs>>

(* invalidate_range(f, off, len) -> Ok: every page of the range must be reloaded before it is served again *)
InvalidateRange(f, off, len) ==
    /\ f \in DOMAIN files
    /\ since' = [since EXCEPT ![f] = [p \in DOMAIN @ |-> IF p \in PagesOf(off, len) THEN Cur(f) ELSE @[p]]]
    /\ UNCHANGED <<files, rec, bufs>>
InvalidatePage(f, p) ==
    /\ f \in DOMAIN files
    /\ since' = [since EXCEPT ![f] = [q \in DOMAIN @ |-> IF q = p THEN Cur(f) ELSE @[q]]]
    /\ UNCHANGED <<files, rec, bufs>>

(* prefetch / mark_dirty / flush_file / a refused call: no effect on what reads may return *)
NoEffect == UNCHANGED <<files, since, rec, bufs>>

FileSizeOK(f, r) == f \in DOMAIN files /\ (r = None \/ r = Some(files[f].size)) /\ NoEffect

(* close_file(f) -> Ok *)
CloseFile(f) ==
    /\ f \in DOMAIN files
    /\ files' = [files EXCEPT ![f].open = FALSE]
    /\ UNCHANGED <<since, rec, bufs>>

(* number of cached pages never exceeds the configured capacity in pages *)
SizeOK(r, capPages) == r <= capPages /\ NoEffect

\* ---------------------------------------------------------------- cached blob store
(* a cached blob store returns the same bytes as the store it wraps: every observation of the     *)
(* cached store (r) is logged together with the same observation of inner() (ir); records are    *)
(* digests {len, h}.  put(d) -> id remembers d so that get can also be compared with what was put. *)
RecUpd(id, d) == [x \in DOMAIN rec \cup {id} |-> IF x = id THEN d ELSE rec[x]]
CsPut(id, d) == rec' = RecUpd(id, d) /\ UNCHANGED <<files, since, bufs>>
CsGet(id, ok, r, iok, ir) ==
    /\ ok = iok
    /\ ok => r = ir
    /\ (ok /\ id \in DOMAIN rec) => r = rec[id]
    /\ NoEffect
CsRemove(id) == rec' = [x \in DOMAIN rec \ {id} |-> rec[x]] /\ UNCHANGED <<files, since, bufs>>
CsSame(r, ir) == r = ir /\ NoEffect

\* ---------------------------------------------------------------- CacheBuffer / BufferPool
(* The buffers reads are delivered in.  data() must show exactly the bytes put into the buffer, whatever *)
(* happened to it in between (reserve, extend, move); a buffer taken from the pool is empty.  Every      *)
(* event carries the observations made right after the call: data(), len(), is_empty(), has_data().     *)
BufObs(b, data, len, empty, has) ==
    /\ data = bufs'[b] /\ len = Len(bufs'[b]) /\ empty = (bufs'[b] = <<>>)
    /\ (bufs'[b] /= <<>> => has)
BufSet(b, d) == bufs' = [x \in DOMAIN bufs \cup {b} |-> IF x = b THEN d ELSE bufs[x]] /\ UNCHANGED <<files, since, rec>>
BufNew(b) == b \notin DOMAIN bufs /\ BufSet(b, <<>>)                 \* CacheBuffer::new(), BufferPool::get()
BufFromData(b, d) == b \notin DOMAIN bufs /\ BufSet(b, d)            \* CacheBuffer::from_data(d)
BufCopy(b, d) == b \in DOMAIN bufs /\ BufSet(b, d)                   \* copy_from_slice(d)
BufExtend(b, d) == b \in DOMAIN bufs /\ BufSet(b, bufs[b] \o d)      \* extend_from_slice(d)
BufClear(b) == b \in DOMAIN bufs /\ BufSet(b, <<>>)                  \* clear()
BufKeep(b) == b \in DOMAIN bufs /\ BufSet(b, bufs[b])                \* reserve(n), a move of the object: content unchanged
BufDrop(b) == bufs' = [x \in DOMAIN bufs \ {b} |-> bufs[x]] /\ UNCHANGED <<files, since, rec>>   \* BufferPool::put(buffer)
=============================================================================
