----------------------------- MODULE RankSelect -----------------------------
(* Contract of every rank/select structure of zipora (property C04).             *)
(*                                                                               *)
(* A bit sequence b is a TLA+ sequence of 0/1.  Positions are 0-based as in the  *)
(* Rust API: bit p of b is b[p+1].                                               *)
(*                                                                               *)
(*   Rank1(b,p)   number of one bits among the first p bits, 0 <= p <= Len(b)    *)
(*   Rank0(b,p)   number of zero bits among the first p bits                     *)
(*   Select1(b,k) position of the k-th one bit (k from 0); an ERROR exactly when *)
(*                k >= number of ones                                            *)
(*   Select0(b,k) likewise for zero bits                                         *)
(*                                                                               *)
(* The *Def operators are the definitions.  The state variable vec holds the bit *)
(* sequence together with tables computed ONCE per vector (prefix sums, sorted   *)
(* positions of the ones / zeros); MC_RankSelect model-checks for every bit      *)
(* string of length <= 10 that the tables agree with the definitions and that    *)
(* the laws Rank1(Select1(k)) = k, Rank1(p) + Rank0(p) = p hold.                 *)
(*                                                                               *)
(* Every public operation is an action whose parameters are the results the      *)
(* implementation returned, logged as one BATCH per (vector, subject, operation):*)
(* the answer for EVERY position 0..len / every k.  An action is enabled exactly *)
(* for the answers the definition allows; vec never changes except at a reset.   *)
(* A refused select is encoded as -1 (Err / None).                               *)
EXTENDS Naturals, Integers, Sequences, FiniteSets, SequencesExt

VARIABLE vec

(* ------------------------------------------------------------------------- *)
(* the definitions                                                           *)
BitAt(b, i)    == b[i + 1]
Rank1Def(b, p) == Cardinality({i \in 0..(p - 1) : b[i + 1] = 1})
Rank0Def(b, p) == Cardinality({i \in 0..(p - 1) : b[i + 1] = 0})
OnesDef(b)     == Rank1Def(b, Len(b))
ZerosDef(b)    == Rank0Def(b, Len(b))
Select1Err(b, k) == k >= OnesDef(b)
Select0Err(b, k) == k >= ZerosDef(b)
(* meaningful exactly when ~Select1Err(b,k): the position holding a one with k ones before it *)
Select1Def(b, k) == CHOOSE p \in 0..(Len(b) - 1) : b[p + 1] = 1 /\ Rank1Def(b, p) = k
Select0Def(b, k) == CHOOSE p \in 0..(Len(b) - 1) : b[p + 1] = 0 /\ Rank0Def(b, p) = k

(* ------------------------------------------------------------------------- *)
(* tables, computed once per vector                                          *)
(* inclusive prefix sums of a sequence of numbers, O(n log n)                *)
RECURSIVE Incl(_)
Incl(s) ==
    IF Len(s) <= 24
    THEN Tail(FoldLeft(LAMBDA acc, x : Append(acc, acc[Len(acc)] + x), <<0>>, s))
    ELSE LET h == Len(s) \div 2
             L == Incl(SubSeq(s, 1, h))
             R == Incl(SubSeq(s, h + 1, Len(s)))
             t == L[h]
         IN  L \o [i \in 1..Len(R) |-> R[i] + t]

(* pre[p+1] = number of ones among the first p bits, p \in 0..Len(b) *)
Prefix(b) == <<0>> \o Incl(b)
Positions(b, x) == SelectSeq([i \in 1..Len(b) |-> i - 1], LAMBDA p : b[p + 1] = x)

Mk(b) == [n    |-> Len(b),
          bits |-> b,
          pre  |-> Prefix(b),
          p1   |-> Positions(b, 1),     \* p1[k+1] = position of the k-th one
          p0   |-> Positions(b, 0)]

(* ------------------------------------------------------------------------- *)
(* the abstract operations on the current vector                             *)
N         == vec.n
Ones      == Len(vec.p1)
Zeros     == Len(vec.p0)
Get(i)    == vec.bits[i + 1]
Rank1(p)  == vec.pre[p + 1]
Rank0(p)  == p - vec.pre[p + 1]
Rank(which, p) == IF which = "rank1" THEN Rank1(p) ELSE Rank0(p)
Cnt(which)     == IF which = "select1" THEN Ones ELSE Zeros
(* defined for k < Cnt(which) *)
Sel(which, k)  == IF which = "select1" THEN vec.p1[k + 1] ELSE vec.p0[k + 1]
Refused == -1
(* the only allowed outcome of select(k): the position, or a refusal exactly when k >= count *)
SelOutcome(which, k) == IF k < Cnt(which) THEN Sel(which, k) ELSE Refused

Min2(a, b) == IF a < b THEN a ELSE b
(* the 64-bit word w of the vector (bits 64w .. 64w+63, zero beyond the length) *)
WLo(w)        == Min2(64 * w, N)
WHi(w)        == Min2(64 * w + 64, N)
WOnes(w)      == Rank1(WHi(w)) - Rank1(WLo(w))
WRank1(w, p)  == Rank1(Min2(64 * w + p, N)) - Rank1(WLo(w))
(* position inside word w of its k-th one; refused exactly when k >= ones of the word *)
WSel1(w, k)   == IF k < WOnes(w) THEN vec.p1[Rank1(WLo(w)) + k + 1] - 64 * w ELSE Refused
(* k-th zero of a word lying entirely inside the vector *)
WZeros(w)     == 64 - WOnes(w)
WSel0(w, k)   == IF k < WZeros(w) THEN vec.p0[Rank0(64 * w) + k + 1] - 64 * w ELSE Refused

(* ------------------------------------------------------------------------- *)
(* contract actions (batch events).  which \in {"rank1","rank0"} resp.       *)
(* {"select1","select0"}; r is the sequence of returned answers.  Each action *)
(* is  <answers allowed by the definition> /\ UNCHANGED vec; the first       *)
(* conjunct is named ...OK so that the known-finding guards can refer to it.  *)
(* Answers the harness could not project into a position are logged as        *)
(* Malformed (a bulk call answering Ok with a wrong number of results) or     *)
(* Huge (a value >= 10^9, e.g. a wrapped subtraction); neither is ever equal  *)
(* to a defined answer.                                                       *)
Malformed == -2
Huge == 1000000000

(* answers for EVERY position 0..len *)
RankAllOK(which, r) ==
    /\ Len(r) = N + 1
    /\ \A p \in 0..N : r[p + 1] = Rank(which, p)
RankAll(which, r) == RankAllOK(which, r) /\ UNCHANGED vec
(* answers for the listed positions (large vectors: block boundaries +-1 and random ones) *)
RankAtOK(which, at, r) ==
    /\ Len(r) = Len(at)
    /\ \A j \in 1..Len(at) : at[j] \in 0..N /\ r[j] = Rank(which, at[j])
RankAt(which, at, r) == RankAtOK(which, at, r) /\ UNCHANGED vec

(* outcomes of select(k) for EVERY k \in 0..len: the position for k < count, refused for  *)
(* every k >= count (k = count is always among them)                                      *)
SelectAllOK(which, r) ==
    /\ Len(r) = N + 1
    /\ \A k \in 0..N : r[k + 1] = SelOutcome(which, k)
SelectAll(which, r) == SelectAllOK(which, r) /\ UNCHANGED vec
SelectAtOK(which, at, r) ==
    /\ Len(r) = Len(at)
    /\ \A j \in 1..Len(at) : r[j] = SelOutcome(which, at[j])
SelectAt(which, at, r) == SelectAtOK(which, at, r) /\ UNCHANGED vec
(* "select0 likewise WHERE OFFERED": an implementation that refuses every select0 saying   *)
(* that the operation is not implemented (why = "unimplemented", the class of its own error *)
(* messages) does not offer it: counted as vacuous for that subject, never as a success.    *)
(* A refusal claiming that k is out of range is judged by SelectAll.                        *)
SelectNotOfferedOK(which, r, why) ==
    /\ which = "select0" /\ why = "unimplemented"
    /\ \A j \in 1..Len(r) : r[j] = Refused
SelectNotOffered(which, r, why) == SelectNotOfferedOK(which, r, why) /\ UNCHANGED vec
(* ONE call answering many k (bulk entry points, Result<Vec<_>>): succeeds with every     *)
(* position when all k are valid, fails when some k >= count                              *)
SelectBatchOK(which, at, ok, r) ==
    /\ ok = (\A j \in 1..Len(at) : at[j] < Cnt(which))
    /\ ok => /\ Len(r) = Len(at)
             /\ \A j \in 1..Len(at) : r[j] = Sel(which, at[j])
SelectBatch(which, at, ok, r) == SelectBatchOK(which, at, ok, r) /\ UNCHANGED vec

(* get(i) for every i < len (0/1) *)
GetAllOK(r) ==
    /\ Len(r) = N
    /\ \A i \in 0..(N - 1) : r[i + 1] = Get(i)
GetAll(r) == GetAllOK(r) /\ UNCHANGED vec
GetAtOK(at, r) ==
    /\ Len(r) = Len(at)
    /\ \A j \in 1..Len(at) : at[j] \in 0..(N - 1) /\ r[j] = Get(at[j])
GetAt(at, r) == GetAtOK(at, r) /\ UNCHANGED vec
(* len / count_ones / count_zeros are exact *)
CountsOK(len, ones, zeros) == len = N /\ ones = Ones /\ zeros = Zeros
Counts(len, ones, zeros) == CountsOK(len, ones, zeros) /\ UNCHANGED vec

(* helpers answering rank/select questions on ONE 64-bit word (word w of the vector):     *)
(* r[p+1] = ones among the first p bits of the word, p \in 0..64                          *)
WordRankOK(w, r) ==
    /\ Len(r) = 65
    /\ \A p \in 0..64 : r[p + 1] = WRank1(w, p)
WordRank(w, r) == WordRankOK(w, r) /\ UNCHANGED vec
(* r[k+1] = outcome of select of the k-th one (k from 0; a 1-based API is asked k+1), k \in 0..64 *)
WSel(which, w, k) == IF which = "select1" THEN WSel1(w, k) ELSE WSel0(w, k)
WordSelectOK(which, w, r) ==
    /\ Len(r) = 65
    /\ which = "select0" => 64 * w + 64 <= N
    /\ \A k \in 0..64 : r[k + 1] = WSel(which, w, k)
WordSelect(which, w, r) == WordSelectOK(which, w, r) /\ UNCHANGED vec
(* ONE call selecting several ones of ONE word (any order, duplicates allowed): succeeds with every     *)
(* position when all k are valid, fails when some k >= ones of the word; an empty question may be refused *)
WordSelectBatchOK(w, at, ok, r) ==
    /\ ok => /\ \A j \in 1..Len(at) : at[j] < WOnes(w)
             /\ Len(r) = Len(at)
             /\ \A j \in 1..Len(at) : r[j] = WSel1(w, at[j])
    /\ ~ok => Len(at) = 0 \/ \E j \in 1..Len(at) : at[j] >= WOnes(w)
WordSelectBatch(w, at, ok, r) == WordSelectBatchOK(w, at, ok, r) /\ UNCHANGED vec
(* popcount of every 64-bit word *)
PopcountsOK(r) ==
    /\ Len(r) = (N + 63) \div 64
    /\ \A w \in 0..(Len(r) - 1) : r[w + 1] = WOnes(w)
Popcounts(r) == PopcountsOK(r) /\ UNCHANGED vec

(* twins of len / count_ones / count_zeros / is_empty (max_rank1, num_ones, size_dim, total_bits ...): *)
(* what \in {"len","ones","zeros","empty"}; booleans are logged as 0/1                                   *)
CountTwinOK(what, r) ==
    r = CASE what = "len"   -> N
          [] what = "ones"  -> Ones
          [] what = "zeros" -> Zeros
          [] what = "empty" -> (IF N = 0 THEN 1 ELSE 0)
CountTwin(what, r) == CountTwinOK(what, r) /\ UNCHANGED vec
(* ones inside bit ranges [s, s+l) of ONE 64-bit word (ranges are clipped at bit 64) *)
WordRangesOK(w, ss, ls, r) ==
    /\ Len(r) = Len(ss) /\ Len(ls) = Len(ss)
    /\ \A j \in 1..Len(ss) :
          r[j] = IF ss[j] >= 64 THEN 0 ELSE WRank1(w, Min2(ss[j] + ls[j], 64)) - WRank1(w, ss[j])
WordRanges(w, ss, ls, r) == WordRangesOK(w, ss, ls, r) /\ UNCHANGED vec
(* trailing / leading zero counts of a word = position of its first / last one (64 for an empty word) *)
WordEdgesOK(w, tz, lz) ==
    /\ tz = IF WOnes(w) = 0 THEN 64 ELSE WSel1(w, 0)
    /\ lz = IF WOnes(w) = 0 THEN 64 ELSE 63 - WSel1(w, WOnes(w) - 1)
WordEdges(w, tz, lz) == WordEdgesOK(w, tz, lz) /\ UNCHANGED vec

(* ------------------------------------------------------------------------- *)
(* the bit-vector history machine: the bit sequence is whatever the sequence *)
(* of BitVector mutators made it.  Abstract state = the bit string (vec);    *)
(* every mutator is an action; len and count_ones observed after the step    *)
(* are parameters of every action (Observed), the full get / rank probe of   *)
(* the BitVector and every rank/select structure built from it afterwards    *)
(* are judged by the actions above against vec.                              *)
(* Refusal rule: a mutator that returns Err (ok = FALSE) must leave the      *)
(* sequence unchanged; ok = TRUE is accepted only for arguments in range.    *)
Bits == vec.bits
Rep(x, k) == [j \in 1..k |-> x]
Observed(len, ones) == len = vec'.n /\ ones = Len(vec'.p1)
BitOp(f, a, b) == CASE f = "and" -> (IF a = 1 /\ b = 1 THEN 1 ELSE 0)
                    [] f = "or"  -> (IF a = 1 \/ b = 1 THEN 1 ELSE 0)
                    [] f = "xor" -> (IF a # b THEN 1 ELSE 0)

(* new / with_capacity (b = <<>>), with_size (b = n copies of x), from_raw_bits (b = the first n bits) *)
BvNew(b) == vec' = Mk(b)
(* push of every bit of b, in order *)
BvPush(b) == vec' = Mk(Bits \o b)
(* k calls of pop(): r[j] = the j-th popped bit (the last bit first), Refused once the vector is empty *)
BvPop(k, r) ==
    /\ Len(r) = k
    /\ \A j \in 1..k : r[j] = IF j <= N THEN Bits[N - j + 1] ELSE Refused
    /\ vec' = Mk(SubSeq(Bits, 1, N - Min2(k, N)))
(* set / set_unchecked / get_mut().set *)
BvSet(i, x, ok) ==
    IF ok THEN i < N /\ vec' = Mk([Bits EXCEPT ![i + 1] = x]) ELSE UNCHANGED vec
BvInsert(i, x, ok) ==
    IF ok THEN i <= N /\ vec' = Mk(SubSeq(Bits, 1, i) \o <<x>> \o SubSeq(Bits, i + 1, N)) ELSE UNCHANGED vec
(* ensure_set1 / fast_ensure_set1: bit i becomes 1; a vector that is too short grows with ZEROS up to i *)
BvEnsureSet1(i, ok) ==
    IF ok THEN vec' = Mk(IF i < N THEN [Bits EXCEPT ![i + 1] = 1] ELSE Bits \o Rep(0, i - N) \o <<1>>)
    ELSE UNCHANGED vec
BvResize(n, x, ok) ==
    IF ok THEN vec' = Mk(IF n <= N THEN SubSeq(Bits, 1, n) ELSE Bits \o Rep(x, n - N)) ELSE UNCHANGED vec
BvClear == vec' = Mk(<<>>)
(* set_range_simd(s, e, x): bits s .. e-1 *)
BvSetRange(s, e, x, ok) ==
    IF ok THEN /\ s <= e /\ e <= N
               /\ vec' = Mk([j \in 1..N |-> IF s < j /\ j <= e THEN x ELSE Bits[j]])
    ELSE UNCHANGED vec
(* bulk_bitwise_op_simd(other, f, s, e): bits s .. e-1 combined with the same bits of other *)
BvBitwise(f, other, s, e, ok) ==
    IF ok THEN /\ s <= e /\ e <= N /\ e <= Len(other)
               /\ vec' = Mk([j \in 1..N |-> IF s < j /\ j <= e THEN BitOp(f, Bits[j], other[j]) ELSE Bits[j]])
    ELSE UNCHANGED vec
(* reserve, clone (the clone is used from here on), == with its own clone *)
BvNoop == UNCHANGED vec

(* a constructor may refuse a vector (Err): nothing was built, nothing to check *)
BuildRefused == UNCHANGED vec
Built == UNCHANGED vec
=============================================================================
