SPECIFICATION Spec
CONSTANTS
  MaxLen = 10
INVARIANT TypeInv TablesAreDefinitions RankSum RankOfSelect SelectOfRank RankMonotone CountsAddUp WordLaws
INVARIANT ContractAcceptsDefined ContractRejectsCorrupted HistoryContract
PROPERTY HistorySteps
CHECK_DEADLOCK FALSE
