----------------------- MODULE MC_CompressorFraming -----------------------
(* Bounded model of the contract CompressorFraming.tla: an environment that offers every   *)
(* call with every result; the contract's actions decide which results are allowed.        *)
(* Checked: TypeOK, FramesStable (a frame keeps its payload), and the two sides of the     *)
(* property as statements about enabledness:                                               *)
(*   MustSucceed   for a current frame the only allowed answer is (ok, x)                  *)
(*   NeverWrong    for any frame no allowed answer is (ok, y) with y # x                   *)
EXTENDS CompressorFraming

CONSTANTS Ids, Payloads, Frames, MaxEpoch

Next ==
    \/ \E ok \in BOOLEAN : Create(ok)
    \/ \E id \in Ids, x \in Payloads, ok \in BOOLEAN, f \in Frames : Compress(id, x, ok, f, "n")
    \/ \E id \in Ids, f \in Frames, ok \in BOOLEAN, y \in Payloads : Decompress(id, f, ok, y)
    \/ \E ok \in BOOLEAN : epoch < MaxEpoch /\ Switch(ok)
    \/ \E ok \in BOOLEAN : Train(ok)

Spec == FramingInit /\ [][Next]_fvars

Answers(id) == {<<ok, y>> \in BOOLEAN \X Payloads : DecompressAllowed(id, ok, y)}
MustSucceed == \A id \in DOMAIN frames : frames[id].ep = epoch => Answers(id) = {<<TRUE, frames[id].x>>}
NeverWrong == \A id \in DOMAIN frames : \A a \in Answers(id) : a[1] => a[2] = frames[id].x
(* the refusal of a stale frame is allowed (the contract does not demand more than the property) *)
StaleMayRefuse == \A id \in DOMAIN frames : frames[id].ep < epoch => \E y \in Payloads : <<FALSE, y>> \in Answers(id)
=============================================================================
