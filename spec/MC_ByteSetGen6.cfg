SPECIFICATION Spec
CONSTANTS
  NK = 4
  L = 6
CONSTRAINT Bound
INVARIANT Emit TableAgrees
CHECK_DEADLOCK FALSE
