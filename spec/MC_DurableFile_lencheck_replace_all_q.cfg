SPECIFICATION Spec
CONSTANTS
  ND = 3
  BSZ = 2
  MaxSyncs = 2
  Reader = "lencheck"
  Protocol = "replace"
  Faults = "all"
INVARIANT TypeOK Conforms DescriptorsSound PrefixComplete PrefixInSubset TruncComplete
CHECK_DEADLOCK FALSE
