---------------------------- MODULE MC_SortMerge ----------------------------
(* Coherence of the definitions of SortMerge.tla / SetOps.tla / Limbs.tla on tiny  *)
(* domains.  The states enumerate EVERY pair (a, b) of sequences over Vals of      *)
(* length <= MaxLen; in every state the laws below are checked:                    *)
(*  - IsSortedPermutation(a, b) holds for exactly ONE b, the insertion sort of a   *)
(*    (defined independently here) - so a swapped or a dropped element is rejected; *)
(*  - the two-pointer set operations of sorted a, b are sorted and have the bag /   *)
(*    set the mathematics prescribes (union: sum of counts, intersection: the       *)
(*    elements of a occurring in b, difference: max(0, ca - cb), set_*: plain sets);*)
(*  - the k-pointer operations agree with the two-pointer ones for k = 2 and with   *)
(*    minimum-multiplicity / plain-set characterisations for k = 3;                 *)
(*  - KeepsPairs / StableByKey accept the stable sort of zipped pairs and reject     *)
(*    the "every duplicate key gets the first value" corruption;                     *)
(*  - limb-wise and byte-wise orders agree with the numeric order of the encoded     *)
(*    values.                                                                        *)
EXTENDS SetOps, TLC

CONSTANTS MaxLen, Vals

VARIABLES a, b

Init == a = <<>> /\ b = <<>>
Next == \/ Len(a) < MaxLen /\ \E x \in Vals : a' = Append(a, x) /\ b' = b
        \/ Len(b) < MaxLen /\ \E x \in Vals : b' = Append(b, x) /\ a' = a
Spec == Init /\ [][Next]_<<a, b>>

(* ---------------------------------------------------------------- independent definitions *)
RECURSIVE InsertSorted(_, _)
InsertSorted(s, x) == IF s = <<>> THEN <<x>>
                      ELSE IF x < Head(s) THEN <<x>> \o s
                      ELSE <<Head(s)>> \o InsertSorted(Tail(s), x)
RECURSIVE SortDef(_)
SortDef(s) == IF s = <<>> THEN <<>> ELSE InsertSorted(SortDef(SubSeq(s, 1, Len(s) - 1)), s[Len(s)])
Reverse(s) == [ i \in 1..Len(s) |-> s[Len(s) + 1 - i] ]
RECURSIVE SetToSorted(_)
SetToSorted(S) == IF S = {} THEN <<>>
                  ELSE LET m == CHOOSE x \in S : \A y \in S : x <= y IN <<m>> \o SetToSorted(S \ {m})
Sorted(s) == \A i \in 1..(Len(s) - 1) : s[i] <= s[i + 1]
Cnt(s, x) == Cardinality({ i \in 1..Len(s) : s[i] = x })

(* ---------------------------------------------------------------- sorts *)
SortUnique ==
    /\ IsSortedPermutation("int", "asc", a, b) <=> (b = SortDef(a))
    /\ IsSortedPermutation("int", "desc", a, b) <=> (b = Reverse(SortDef(a)))
    /\ SortOK("int", "asc", TRUE, a, b) <=> (b = SortDef(a))
    /\ SortOK("int", "asc", FALSE, a, b) <=> (SortDef(b) = SortDef(a))
SortIdempotent == IsSortedPermutation("int", "asc", SortDef(a), SortDef(a))

(* ---------------------------------------------------------------- pairs: a = keys, b = values *)
Zip == [ i \in 1..Len(a) |-> <<a[i], b[i]>> ]
RECURSIVE InsertPair(_, _)
InsertPair(s, p) == IF s = <<>> THEN <<p>>
                    ELSE IF p[1] < Head(s)[1] THEN <<p>> \o s
                    ELSE <<Head(s)>> \o InsertPair(Tail(s), p)
RECURSIVE StableSortPairs(_)
StableSortPairs(s) == IF s = <<>> THEN <<>>
                      ELSE InsertPair(StableSortPairs(SubSeq(s, 1, Len(s) - 1)), s[Len(s)])
FirstValue(z, k) == z[CHOOSE i \in 1..Len(z) : z[i][1] = k /\ \A j \in 1..(i - 1) : z[j][1] # k][2]
PairLaws ==
    Len(a) = Len(b) =>
        LET z == Zip
            s == StableSortPairs(z)
            f == [ i \in 1..Len(s) |-> <<s[i][1], FirstValue(z, s[i][1])>> ]   \* the recorded KV defect
            r == Reverse(s)
        IN /\ KeepsPairs("int", "asc", z, s) /\ StableByKey(z, s)
           /\ SortKvOK("int", "asc", TRUE, TRUE, z, s)
           /\ (f # s) => ~ KeepsPairs("int", "asc", z, f)
           /\ KeepsPairs("int", "desc", z, r)
           /\ StableByKey(z, r) <=> (\A k \in Elems(a) : KeyClass(z, k) = Reverse(KeyClass(z, k)))

(* ---------------------------------------------------------------- two-pointer set operations *)
BothSorted == Sorted(a) /\ Sorted(b)
UnionLaws ==
    BothSorted =>
        LET u == MsUnion("int", a, b) IN
        /\ u = SortDef(a \o b)
        /\ Merge("int", "asc", <<a, b>>, u) /\ MergeOK("int", "asc", TRUE, <<a, b>>, u)
        /\ KMerge("int", <<a, b>>) = u
        /\ KMerge("int", <<b, <<>>, a>>) = u
        /\ Len(u) > 0 => ~ Merge("int", "asc", <<a, b>>, Tail(u))                 \* a dropped element
        /\ SetUnion("int", a, b) = SetToSorted(Elems(a) \cup Elems(b))
        /\ KUnion("int", <<a, b>>) = SetUnion("int", a, b)
        /\ KUnion("int", <<a, b, a>>) = SetUnion("int", a, b)
InterLaws ==
    BothSorted =>
        /\ MsInter("int", a, b) = SelectSeq(a, LAMBDA x : x \in Elems(b))
        /\ MsInter2("int", a, b) = SelectSeq(b, LAMBDA x : x \in Elems(a))
        /\ SetInter("int", a, b) = SetToSorted(Elems(a) \cap Elems(b))
        /\ LET k == KInter("int", <<a, b>>) IN
           /\ Sorted(k)
           /\ \A x \in Vals : Cnt(k, x) = Min2(Cnt(a, x), Cnt(b, x))
        /\ KInter("int", <<a, b, a>>) = KInter("int", <<a, b>>)
        /\ KInter("int", <<a>>) = a
        /\ KInter("int", <<a, <<>>, b>>) = <<>>
DiffLaws ==
    BothSorted =>
        LET d == MsDiff("int", a, b) IN
        /\ Sorted(d)
        /\ \A x \in Vals : Cnt(d, x) = (IF Cnt(a, x) > Cnt(b, x) THEN Cnt(a, x) - Cnt(b, x) ELSE 0)
        /\ SetDiff("int", a, b) = SetToSorted({ x \in Vals : Cnt(a, x) > Cnt(b, x) })
UniqueLaws ==
    Sorted(a) => /\ Unique(a) = SetToSorted(Elems(a))
                 /\ UniqueOK("int", a, Len(Unique(a)), Unique(a))
                 /\ Len(a) > 0 => ~ UniqueOK("int", a, Len(a) + 1, a \o <<a[Len(a)]>>)
FreqLaws ==
    BothSorted => /\ Freq(<<a, b>>) = { <<x, Cnt(a, x) + Cnt(b, x)>> : x \in Elems(a) \cup Elems(b) }
                  /\ FilterMerge("int", <<a, b>>, 2, 0) = SelectSeq(SortDef(a \o b), LAMBDA x : x % 2 = 0)
(* the contract actions accept the defined answer and reject a neighbour of it *)
ContractSharp ==
    BothSorted =>
        \A name \in SetOp2Names :
            LET r == SetOp2(name, "int", a, b) IN
            /\ SetOp2OK(name, "int", a, b, r)
            /\ ~ SetOp2OK(name, "int", a, b, r \o <<0>>)
            /\ Len(r) > 0 => ~ SetOp2OK(name, "int", a, b, Tail(r))
Unsorted == (~ Sorted(a)) => /\ ~ SetOp2OK("ms_union", "int", a, b, SortDef(a \o b))
                             /\ ~ MergeOK("int", "asc", TRUE, <<a, b>>, SortDef(a \o b))

(* ---------------------------------------------------------------- kernels, peek *)
KernelLaws ==
    /\ LET r == [ i \in 1..Min2(Len(a), Len(b)) |-> Sign(a[i], b[i]) ] IN
       /\ Len(a) = Len(b) => /\ CompareOK(a, b, TRUE, r)
                             /\ \A i \in 1..Len(r) : ~ CompareOK(a, b, TRUE, [r EXCEPT ![i] = IF @ = 1 THEN 0 ELSE @ + 1])
       /\ Len(a) # Len(b) => ~ CompareOK(a, b, TRUE, r) /\ CompareOK(a, b, FALSE, <<>>)
    /\ ArgMinOK(<<>>, <<>>) /\ ~ ArgMinOK(<<>>, << <<0, 0>> >>)
    /\ Len(a) > 0 =>
          LET m == CHOOSE i \in 1..Len(a) : (\A j \in 1..Len(a) : a[i] <= a[j]) /\ (\A j \in 1..(i - 1) : a[j] # a[i]) IN
          /\ ArgMinOK(a, << <<m - 1, a[m]>> >>)
          /\ ~ ArgMinOK(a, <<>>)
          /\ \A i \in 1..Len(a) : i # m => ~ ArgMinOK(a, << <<i - 1, a[i]>> >>)
          /\ ~ ArgMinOK(a, << <<m - 1, a[m] + 1>> >>)
PeekLaws ==
    BothSorted =>
        LET u == MsUnion("int", a, b)
            pk == [ i \in 1..Len(u) |-> <<u[i]>> ] IN
        /\ PeekPopOK("int", "asc", TRUE, <<a, b>>, pk, <<>>, u)
        /\ Len(u) > 0 => /\ ~ PeekPopOK("int", "asc", TRUE, <<a, b>>, [pk EXCEPT ![1] = <<>>], <<>>, u)
                         /\ ~ PeekPopOK("int", "asc", TRUE, <<a, b>>, pk, <<u[1]>>, u)
                         /\ ~ PeekPopOK("int", "asc", TRUE, <<a, b>>, Tail(pk), <<>>, u)

(* ---------------------------------------------------------------- key orders *)
Base == Cardinality(Vals)
RECURSIVE ValOf(_, _)
ValOf(s, base) == IF s = <<>> THEN 0 ELSE ValOf(SubSeq(s, 1, Len(s) - 1), base) * base + s[Len(s)]
LimbOrder ==
    (Len(a) = 4 /\ Len(b) = 4) =>
        /\ LLess(a, b) <=> ValOf(a, Base) < ValOf(b, Base)
        /\ LLeq(a, b) <=> ValOf(a, Base) <= ValOf(b, Base)
        /\ KLess("limbs", a, b) <=> LLess(a, b)
(* lexicographic order with "prefix first" = numeric order of the digits+1, padded with 0 *)
Pad(s) == [ i \in 1..MaxLen |-> IF i <= Len(s) THEN s[i] + 1 ELSE 0 ]
ByteOrder ==
    /\ BLess(a, b) <=> ValOf(Pad(a), Base + 1) < ValOf(Pad(b), Base + 1)
    /\ KLeq("bytes", a, b) <=> ValOf(Pad(a), Base + 1) <= ValOf(Pad(b), Base + 1)
    /\ ~ (BLess(a, b) /\ BLess(b, a))
=============================================================================
