------------------------- MODULE MC_PipelineStream -------------------------
(* Bounded model of the BatchCollector MECHANISM (concurrency/pipeline.rs), written  *)
(* like the code, under all interleavings of a producer (add), the background        *)
(* timeout checker (check_timeout: look under the lock, release, lock again, drain)   *)
(* and flush, over N items.  TLC checks on every reachable state                      *)
(*   NoLoss, NoDup, OrderKept, SizeBound   on the batches really drained, and         *)
(*   Conforms                              every step is accepted by the CONTRACT      *)
(*                                         (PipelineStream.tla) - sequential actions   *)
(*                                         when the log order is the drain order       *)
(*                                         (Mode = "seq"), the concurrent actions when *)
(*                                         a drained batch reaches the log later       *)
(*                                         (Mode = "conc": no false alarm possible).   *)
(* Variant = "code" is the code as it is; "late_flush" (add drains on > instead of    *)
(* >=) and "no_recheck" (check_timeout drains without looking again after re-locking)  *)
(* are two wrong collectors that the invariants must catch (expected violations: the   *)
(* model is not vacuous).                                                              *)
EXTENDS PipelineStream, TLC

CONSTANTS N, Max, Variant, Mode

VARIABLES buf,       \* the VecDeque under the mutex
          nextId,    \* next item the producer adds
          offered,   \* Mode = "conc": the harness has logged that it is about to add nextId
          cpc,       \* timeout checker: "idle" | "relock" (it saw a non-empty, timed-out buffer and released the lock)
          batches,   \* history: the batches in the order they were drained
          inflight,  \* Mode = "conc": batches drained by the checker, not yet delivered to the callback (log)
          rejected,  \* a step the contract did not accept
          finished   \* the final flush has been done

allvars == <<bc, fib, fio, buf, nextId, offered, cpc, batches, inflight, rejected, finished>>

(* the contract judges a step: if its action is not enabled the step is recorded as rejected *)
Judge(A) == IF ENABLED A THEN A /\ UNCHANGED rejected
            ELSE rejected' = TRUE /\ UNCHANGED bc

Full(b) == IF Variant = "late_flush" THEN Len(b) > Max ELSE Len(b) >= Max

Init ==
    /\ bc = [added |-> <<>>, handed |-> {}, max |-> Max] /\ FibInit /\ FioInit
    /\ buf = <<>> /\ nextId = 1 /\ offered = FALSE /\ cpc = "idle" /\ batches = <<>> /\ inflight = <<>>
    /\ rejected = FALSE /\ finished = FALSE

(* Mode = "conc": the offer is logged before the call (the checker may drain the item at once) *)
MOffer ==
    /\ Mode = "conc" /\ ~finished /\ nextId <= N /\ ~offered
    /\ offered' = TRUE
    /\ Judge(BCOffer(nextId))
    /\ UNCHANGED <<buf, nextId, cpc, batches, inflight, finished, fib, fio>>
(* add(item): push_back; if len >= max drain everything *)
MAdd ==
    /\ ~finished /\ nextId <= N /\ (Mode = "conc" => offered)
    /\ offered' = FALSE
    /\ LET id == nextId
           nb == Append(buf, id)
           fl == Full(nb)
           b  == IF fl THEN nb ELSE <<>>
       IN /\ buf' = IF fl THEN <<>> ELSE nb
          /\ batches' = IF fl THEN Append(batches, nb) ELSE batches
          /\ nextId' = nextId + 1
          /\ IF Mode = "seq" THEN Judge(BCAdd(id, fl, b))
             ELSE Judge(BCAddC(id, fl, b))
    /\ UNCHANGED <<cpc, inflight, finished, fib, fio>>

(* check_timeout, first critical section: buffer non-empty and the timeout has elapsed (any time) *)
MCheckA ==
    /\ ~finished /\ cpc = "idle" /\ buf /= <<>>
    /\ cpc' = "relock"
    /\ UNCHANGED <<buf, nextId, offered, batches, inflight, rejected, finished, bc, fib, fio>>
(* second critical section: drain if (still) non-empty *)
MCheckB ==
    /\ cpc = "relock"
    /\ cpc' = "idle"
    /\ LET drain == buf /= <<>> \/ Variant = "no_recheck" IN
       IF drain
       THEN /\ buf' = <<>>
            /\ batches' = Append(batches, buf)
            /\ IF Mode = "seq" THEN Judge(BCTimeout(TRUE, FALSE, buf)) /\ UNCHANGED inflight
               ELSE inflight' = Append(inflight, buf) /\ UNCHANGED <<bc, rejected>>
       ELSE /\ UNCHANGED <<buf, batches, inflight>>
            /\ IF Mode = "seq" THEN Judge(BCTimeout(FALSE, FALSE, <<>>)) ELSE UNCHANGED <<bc, rejected>>
    /\ UNCHANGED <<nextId, offered, finished, fib, fio>>
(* Mode = "conc": the callback of the checker logs a batch, in the checker's own order *)
MDeliver ==
    /\ inflight /= <<>>
    /\ inflight' = Tail(inflight)
    /\ Judge(BCDeliver(Head(inflight)))
    /\ UNCHANGED <<buf, nextId, offered, cpc, batches, finished, fib, fio>>

(* flush(): drain if non-empty.  In conc mode the harness flushes only at the end. *)
MFlushStep(final) ==
    /\ IF buf /= <<>>
       THEN /\ buf' = <<>> /\ batches' = Append(batches, buf)
            /\ IF Mode = "seq" THEN Judge(BCFlush(TRUE, buf)) ELSE Judge(BCFlushC(TRUE, buf))
       ELSE /\ UNCHANGED <<buf, batches>>
            /\ IF Mode = "seq" THEN Judge(BCFlush(FALSE, <<>>)) ELSE Judge(BCFlushC(FALSE, <<>>))
    /\ finished' = final
    /\ UNCHANGED <<nextId, offered, cpc, inflight, fib, fio>>
MFlush == ~finished /\ Mode = "seq" /\ MFlushStep(FALSE)
(* the end: producer done, checker stopped, every delivery logged, final flush *)
MFinal == ~finished /\ nextId > N /\ cpc = "idle" /\ inflight = <<>> /\ MFlushStep(TRUE)

Next == MOffer \/ MAdd \/ MCheckA \/ MCheckB \/ MDeliver \/ MFlush \/ MFinal
Spec == Init /\ [][Next]_allvars

AllOut == Flat(batches) \o buf              \* everything added, where it is now
NoDup == DistinctSeq(AllOut)
NoLoss == Rng(AllOut) = 1..(nextId - 1)
OrderKept == \A i, j \in 1..Len(AllOut) : i < j => AllOut[i] < AllOut[j]
SizeBound == \A k \in 1..Len(batches) : Len(batches[k]) >= 1 /\ Len(batches[k]) <= Max
Conforms == ~rejected
(* at the end the contract's end-of-run condition holds as well *)
EndOk == finished => (buf = <<>> /\ NPending = 0 /\ Flat(batches) = [i \in 1..N |-> i])
=============================================================================
