SPECIFICATION Spec
CONSTANTS
  Vals = {"a","b","c"}
  L = 5
CONSTRAINT Bound
INVARIANT Emit
CHECK_DEADLOCK FALSE
