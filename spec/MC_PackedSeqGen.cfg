SPECIFICATION Spec
CONSTANTS
  Vals = {"a","b","c"}
  L = 4
CONSTRAINT Bound
INVARIANT Emit
CHECK_DEADLOCK FALSE
