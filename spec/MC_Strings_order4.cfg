SPECIFICATION Spec
CONSTANTS
  Alphabet = {0, 97, 255}
  MaxLen = 4
INVARIANT CmpAgrees CmpTotalOrder CmpUnsigned PrefixCoherent FindCoherent
CHECK_DEADLOCK FALSE
