------------------------------ MODULE FreqNorm ------------------------------
(* Mechanism: normalisation of symbol frequencies to a table of TOT slots          *)
(* (rANS: src/entropy/rans.rs normalize_frequencies, TOTFREQ = 4096;               *)
(*  FSE:  src/entropy/fse.rs normalize_frequencies_simple / EntropyNormalizer,     *)
(*        table size 2^12).                                                        *)
(*                                                                                 *)
(* Part 1 - the invariants a normalised table must satisfy for the coder to be     *)
(* lossless (present => slot, slot ranges disjoint and inside the table) and the   *)
(* stronger promise of the design (no slot wasted).  Pure operators, evaluated     *)
(* by TLC                                                                          *)
(*   (a) on every reachable final state of the normaliser below (MC_FreqNorm), and *)
(*   (b) on the REAL tables the harness reads out of zipora after every training   *)
(*       (Trace_Codec, event "table").                                             *)
(*                                                                                 *)
(* Part 2 - the normaliser written like the code, one action per loop iteration:   *)
(*   Variant = "reserve"  rans.rs: pass 1 reserves one slot for every present      *)
(*                        symbol, pass 2 hands out the rest proportionally, pass 3 *)
(*                        gives what is left to the most frequent symbols          *)
(*   Variant = "clamp"    fse.rs normalize_frequencies_simple AS CODED:            *)
(*                        slot = max(1, f*TOT / total) clamped to what remains -   *)
(*                        a present symbol late in the alphabet can end with 0     *)
EXTENDS Naturals, Sequences, FiniteSets

(* ------------------------------------------------------------------ part 1 *)
RECURSIVE SumTo(_, _)
SumTo(s, n) == IF n = 0 THEN 0 ELSE s[n] + SumTo(s, n - 1)
Sum(s) == SumTo(s, Len(s))

(* every PRESENT symbol gets at least one slot: otherwise it cannot be coded *)
PresentHasSlot(freq, norm) == \A i \in 1..Len(freq) : freq[i] > 0 => norm[i] >= 1
(* the symbols with a zero slot although present (for reporting / deviation guards) *)
Starved(freq, norm) == { i \in 1..Len(freq) : freq[i] > 0 /\ norm[i] = 0 }
(* the slots fit the table: with cumulative starts the slot ranges are disjoint and lie  *)
(* inside 0..total-1, so state mod total identifies at most one symbol.  THIS is what    *)
(* losslessness needs.                                                                    *)
SlotsFit(norm, total) == Sum(norm) <= total
(* the slots add up to the table size exactly: no slot is wasted.  The normaliser below  *)
(* guarantees it (DoneSumIsTotal); a real table that is under-full codes correctly but   *)
(* wastes code space - reported as a mechanism observation, never as a violation.        *)
SumIsTotal(norm, total) == Sum(norm) = total
(* slot ranges tile a prefix of 0..total-1 in symbol order: the range of every symbol that *)
(* owns slots starts where the slots of the symbols before it end (the start of a symbol  *)
(* without slots means nothing)                                                            *)
RECURSIVE PrefixSums(_, _)
PrefixSums(s, n) == IF n = 0 THEN <<0>> ELSE LET p == PrefixSums(s, n - 1) IN Append(p, p[n] + s[n])
StartsCumulative(start, norm) ==
    /\ Len(start) = Len(norm)
    /\ LET ps == PrefixSums(norm, Len(norm)) IN
       \A i \in 1..Len(norm) : norm[i] > 0 => start[i] = ps[i]

(* what a real table is held to *)
TableOK(freq, norm, total) ==
    /\ Len(freq) = Len(norm)
    /\ PresentHasSlot(freq, norm)
    /\ SlotsFit(norm, total)
(* what the design additionally promises *)
TableFull(freq, norm, total) == TableOK(freq, norm, total) /\ SumIsTotal(norm, total)

(* ------------------------------------------------------------------ part 2 *)
CONSTANTS TOT,       \* table size (4096 in the code)
          MaxSyms,   \* alphabets of 2..MaxSyms symbols
          MaxCount,  \* counts 0..MaxCount
          Variant    \* "reserve" | "clamp"

VARIABLES f,     \* the frequency vector (a sequence)
          nrm,   \* normalised slots
          rem,   \* slots not yet handed out
          pc,    \* "p1" | "p2" | "p3" | "done"
          i      \* loop index

fnvars == <<f, nrm, rem, pc, i>>

Min(a, b) == IF a < b THEN a ELSE b
Max(a, b) == IF a > b THEN a ELSE b
K == Len(f)
TotalF == Sum(f)
Zeros(n) == [j \in 1..n |-> 0]

FNInit ==
    /\ \E n \in 2..MaxSyms : f \in [1..n -> 0..MaxCount]
    /\ Sum(f) > 0
    /\ nrm = Zeros(Len(f))
    /\ rem = TOT
    /\ pc = IF Variant = "reserve" THEN "p1" ELSE "p2"
    /\ i = 1

(* pass 1 (reserve only): one slot for every symbol with a non-zero count *)
P1 == /\ pc = "p1"
      /\ IF i > K
         THEN pc' = "p2" /\ i' = 1 /\ UNCHANGED <<nrm, rem>>
         ELSE /\ i' = i + 1 /\ pc' = pc
              /\ IF f[i] > 0
                 THEN nrm' = [nrm EXCEPT ![i] = 1] /\ rem' = rem - 1
                 ELSE UNCHANGED <<nrm, rem>>
      /\ UNCHANGED f

(* pass 2: proportional share.  reserve: share of what REMAINS, added to the reserved *)
(* slot; clamp: share of the whole table, at least 1, at most what remains             *)
P2 == /\ pc = "p2"
      /\ IF i > K
         THEN pc' = "p3" /\ i' = 1 /\ UNCHANGED <<nrm, rem>>
         ELSE /\ i' = i + 1 /\ pc' = pc
              /\ IF f[i] = 0 THEN UNCHANGED <<nrm, rem>>
                 ELSE IF Variant = "reserve"
                 THEN IF rem > 0
                      THEN LET add == Min((f[i] * rem) \div TotalF, rem) IN
                           nrm' = [nrm EXCEPT ![i] = @ + add] /\ rem' = rem - add
                      ELSE UNCHANGED <<nrm, rem>>
                 ELSE LET q == Min(Max((f[i] * TOT) \div TotalF, 1), rem) IN
                      nrm' = [nrm EXCEPT ![i] = q] /\ rem' = rem - q
      /\ UNCHANGED f

(* pass 3: one slot at a time to the most frequent symbol that still has fewer than *)
(* TOT/4 slots (first such symbol on ties, as the strict comparison in the code)     *)
Cand == { j \in 1..K : f[j] > 0 /\ nrm[j] < TOT \div 4 }
Best == CHOOSE j \in Cand : \A k \in Cand : f[k] < f[j] \/ (f[k] = f[j] /\ j <= k)
FirstPresent == CHOOSE j \in 1..K : f[j] > 0 /\ \A k \in 1..(j - 1) : f[k] = 0
P3 == /\ pc = "p3"
      /\ IF rem = 0
         THEN pc' = "done" /\ UNCHANGED <<nrm, rem>>
         ELSE IF Cand # {}
         THEN nrm' = [nrm EXCEPT ![Best] = @ + 1] /\ rem' = rem - 1 /\ pc' = pc
         ELSE IF Variant = "reserve"
         THEN nrm' = [nrm EXCEPT ![FirstPresent] = @ + 1] /\ rem' = rem - 1 /\ pc' = pc
         ELSE pc' = "done" /\ UNCHANGED <<nrm, rem>>     \* clamp: `break` with slots left over
      /\ UNCHANGED <<f, i>>

FNNext == P1 \/ P2 \/ P3
FNSpec == FNInit /\ [][FNNext]_fnvars

(* ---- properties ---- *)
FNTypeOK == /\ pc \in {"p1", "p2", "p3", "done"}
            /\ rem \in 0..TOT
            /\ Len(nrm) = Len(f)
(* nothing is lost or invented while slots are handed out *)
Conservation == rem + Sum(nrm) = TOT
(* the final table can code every present symbol and fills the table *)
DonePresentHasSlot == pc = "done" => PresentHasSlot(f, nrm)
DoneSumIsTotal == pc = "done" => SumIsTotal(nrm, TOT)
(* absent symbols get nothing (not needed for losslessness, true for both variants) *)
DoneNoPhantom == pc = "done" => \A j \in 1..K : f[j] = 0 => nrm[j] = 0
=============================================================================
