--------------------------- MODULE MC_NumericCmp ---------------------------
(* Coherence of NumericCmp.tla over ALL strings over Alphabet up to length MaxLen          *)
(* (default {-,0,1,9,.}, length <= 4: 781 strings).                                        *)
(*   - the valid / gray / invalid classification is a partition; decimal => real            *)
(*   - on the valid reals ValueCmp is a total preorder (reflexive, antisymmetric,           *)
(*     transitive, total) whose equivalence is "same value"                                 *)
(*   - it agrees with an independent arithmetic oracle: the integer                         *)
(*     int(s) * 10^MaxLen scaled value of the string (fits 32 bits on this domain)          *)
(*   - equal values written differently compare Equal: leading zeros, "+", trailing         *)
(*     fraction zeros, a trailing ".", "-0" = "0"                                           *)
(* The comparison matrix of the valid strings is a constant (evaluated once by TLC); one    *)
(* state per row, so the cubic transitivity check is spread over the workers.               *)
EXTENDS NumericCmp, SequencesExt, TLC

(* '-' '0' '1' '9' '.'; plain definitions rather than CONSTANTS: TLC caches the constant     *)
(* definitions below (V, VS, M) only when they do not depend on declared constants          *)
Alphabet == {45, 48, 49, 57, 46}
MaxLen == 4

All == UNION { [1..n -> Alphabet] : n \in 0..MaxLen }
(* TLCEval forces TLC to evaluate these constants once instead of re-evaluating the lazy   *)
(* set / function expressions at every use                                                 *)
V == TLCEval({ s \in All : ValidReal(s) })
VD == TLCEval({ s \in All : ValidDecimal(s) })
VS == TLCEval(SetToSeq(V))
N == Len(VS)
M == TLCEval([i \in 1..N |-> TLCEval([j \in 1..N |-> ValueCmp(VS[i], VS[j])])])

(* independent oracle: value * 10^MaxLen as an integer *)
RECURSIVE DigitsToInt(_, _)
DigitsToInt(d, acc) == IF Len(d) = 0 THEN acc ELSE DigitsToInt(Tail(d), acc * 10 + (d[1] - 48))
RECURSIVE Pow10(_)
Pow10(k) == IF k = 0 THEN 1 ELSE 10 * Pow10(k - 1)
Scaled(s) ==
    LET b == Body(s)
        mag == DigitsToInt(IntPart(b), 0) * Pow10(MaxLen) + DigitsToInt(PadRight(FracPart(b), MaxLen), 0)
    IN IF Negative(s) THEN -mag ELSE mag
Sg(x) == IF x < 0 THEN -1 ELSE IF x > 0 THEN 1 ELSE 0

(* rows are visited in heap order (i -> 2i, 2i+1) so that the workers share them *)
(* (the state variable must not share its name with a bound variable of the constant M:   *)
(* TLC then stops treating M as a constant and re-evaluates it at every use)               *)
VARIABLE row
Init == row = 0
Next == \/ row = 0 /\ row' = 1
        \/ row > 0 /\ \E c \in {2 * row, 2 * row + 1} : c <= N /\ row' = c
Spec == Init /\ [][Next]_row

Classification ==
    row = 0 =>
    /\ \A s \in All : ~(ValidReal(s) /\ GrayReal(s))
    /\ VD \subseteq V
    /\ \A s \in All : ValidDecimal(s) = (ValidReal(s) /\ DotCount(s) = 0)
    /\ { s \in All : GrayReal(s) } = { <<>>, <<Minus>>, <<Dot>>, <<Minus, Dot>> } \cap All
    /\ N > 100 /\ Cardinality(VD) > 30

RowLaws ==
    row > 0 =>
    /\ M[row][row] = 0
    /\ \A j \in 1..N : M[row][j] \in {-1, 0, 1} /\ M[row][j] = -M[j][row]
    /\ \A j \in 1..N : M[row][j] <= 0 =>
          \A k \in 1..N : M[j][k] <= 0 => /\ M[row][k] <= 0
                                          /\ (M[row][k] = 0 => M[row][j] = 0 /\ M[j][k] = 0)
AgreesWithArithmetic ==
    row > 0 => \A j \in 1..N : M[row][j] = Sg(Scaled(VS[row]) - Scaled(VS[j]))

(* the same value written differently *)
SameValueForms ==
    row > 0 =>
    LET s == VS[row]
        b == Body(s)
        sign == IF HasSign(s) THEN <<s[1]>> ELSE <<>>
    IN /\ ValueCmp(s, sign \o <<Zero>> \o b) = 0                               \* leading zero
       /\ ~HasSign(s) => ValueCmp(s, <<Plus>> \o s) = 0                          \* explicit plus
       /\ DotCount(b) = 0 => ValueCmp(s, s \o <<Dot>>) = 0 /\ ValueCmp(s, s \o <<Dot, Zero>>) = 0
       /\ DotCount(b) = 1 => ValueCmp(s, s \o <<Zero>>) = 0                      \* trailing fraction zero
       /\ IsZeroBody(b) => ValueCmp(s, <<Zero>>) = 0 /\ ValueCmp(s, <<Minus, Zero>>) = 0
       /\ (~IsZeroBody(b) /\ ~HasSign(s)) => ValueCmp(<<Minus>> \o s, s) = -1 /\ ValueCmp(<<Minus>> \o s, <<Zero>>) = -1
=============================================================================
