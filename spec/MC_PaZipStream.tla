--------------------------- MODULE MC_PaZipStream ---------------------------
(* Bounded model of PaZipStream.tla and behaviour generator (binding B2).           *)
(*                                                                                  *)
(* Laws (MC_PaZipStream.cfg, LoopBits = 8 / MC_PaZipStream_pinned.cfg, LoopBits=3): *)
(*   CopyLaw      byte-by-byte copy = its closed form (all outputs over 2 symbols   *)
(*                up to length 4, every distance, lengths 0..7)                     *)
(*   BitsTableOK  the field-width table is the length of the bit encoding           *)
(*   CodecLaw     decode_matches(encode_matches(ms)) = ms, all bits accounted, for  *)
(*                every boundary match and all pairs / triples of representatives.  *)
(*                With LoopBits = 3 (the loop condition of the pinned code) the law *)
(*                is VIOLATED: zero padding of the last byte is parsed as a match.  *)
(* Generator (MC_PaZipStreamGen.cfg): one REPLAY line per item = a match sequence   *)
(* with everything this specification computes about it (validity, bits, decoded    *)
(* output projection, legacy byte layout, prediction of the pinned codec model).    *)
EXTENDS PaZipStream, TLC, Json

CONSTANTS LoopBits,      \* bits decode_matches wants before it parses another match: 3 pinned, 8 repaired
          GlobPosBytes,  \* bytes of a global dictionary position in the legacy frame: 2 pinned, 4 with fix C02-5
          Deep           \* TRUE (thorough tier): every valid boundary match next to every representative
VARIABLE it

(* boundary values of a field whose valid range is lo..hi inside a type 0..tmax *)
B(lo, hi, tmax) == {v \in {lo - 1, lo, lo + 1, hi - 1, hi, hi + 1} : v >= 0 /\ v <= tmax}

LongLens == {33, 34, 35, 64, 65, 161, 162, 163, 32801, 32802, 32803}
Far3Lens == LongLens \cup {1073774625, 1073774626, 1073774627}      \* 34 + 32768 + 2^30 - 1 / + 0 / + 1
MaxInt == 2147483647

Singles ==
         {M("lit", 0, l, 0, 0) : l \in B(1, 32, 255)}
    \cup {M("glob", 0, l, 0, p) : l \in B(6, 65535, 65535), p \in {0, 1, 65535, 65536, MaxInt}}
    \cup {M("rle", 0, l, b, 0) : l \in B(2, 33, 255), b \in {0, 255}}
    \cup {M("near", d, l, 0, 0) : d \in B(2, 9, 255), l \in B(2, 5, 255)}
    \cup {M("far1s", d, l, 0, 0) : d \in B(2, 257, 65535), l \in B(2, 33, 255)}
    \cup {M("far2s", d, l, 0, 0) : d \in B(258, 65793, MaxInt), l \in B(2, 33, 255)}
    \cup {M("far2l", d, l, 0, 0) : d \in B(0, 65535, 65535), l \in LongLens \cup {65534, 65535}}
    \cup {M("far3l", d, l, 0, 0) : d \in B(0, 16777215, MaxInt), l \in Far3Lens}

Reps == << M("lit", 0, 1, 0, 0), M("lit", 0, 32, 0, 0), M("glob", 0, 6, 0, 3), M("rle", 0, 2, 65, 0),
           M("near", 2, 5, 0, 0), M("far1s", 257, 33, 0, 0), M("far2s", 258, 2, 0, 0), M("far2l", 65535, 34, 0, 0),
           M("far2l", 1, 162, 0, 0), M("far3l", 16777215, 32802, 0, 0) >>
Reps3 == << M("lit", 0, 1, 0, 0), M("glob", 0, 300, 0, 65536), M("rle", 0, 33, 255, 0), M("near", 9, 2, 0, 0),
            M("far2l", 0, 35, 0, 0), M("far3l", 1, 161, 0, 0) >>

ValidSingles == {s \in Singles : Valid(s)}
Pairs == {<<Reps[i], Reps[j]>> : i, j \in 1..Len(Reps)}
         \cup (IF Deep THEN {<<s, Reps[j]>> : s \in ValidSingles, j \in 1..Len(Reps)} \cup {<<Reps[j], s>> : s \in ValidSingles, j \in 1..Len(Reps)}
               ELSE {})
Triples == {<<Reps3[i], Reps3[j], Reps3[k]>> : i, j, k \in 1..Len(Reps3)}

(* ---- streams the interpreter is applied to *)
Dict == [i \in 1..64 |-> 99 + i]
Lits9 == [i \in 1..9 |-> 9 + i]
P9 == <<M("rle", 0, 2, 1, 0), M("rle", 0, 2, 2, 0), M("rle", 0, 2, 3, 0), M("rle", 0, 3, 4, 0)>>
P264 == [i \in 1..8 |-> M("rle", 0, 33, 10 + i, 0)]
Big == P264 \o <<M("far3l", 264, 66000, 0, 0)>>                    \* 66 264 bytes, period 264

Applied ==
         {[ms |-> P9 \o <<M("near", d, l, 0, 0)>>, lits |-> <<>>] : d \in 2..9, l \in 2..5}
    \cup {[ms |-> <<M("lit", 0, 9, 0, 0), M("near", d, l, 0, 0)>>, lits |-> Lits9] : d \in {2, 9}, l \in {2, 5}}
    \cup {[ms |-> P9 \o <<M("near", 2, 5, 0, 0), M("near", 9, 5, 0, 0), M("far1s", 3, 33, 0, 0)>>, lits |-> <<>>]}
    \cup {[ms |-> P264 \o <<M("far1s", d, l, 0, 0)>>, lits |-> <<>>] : d \in {2, 3, 33, 256, 257}, l \in {2, 33}}
    \cup {[ms |-> Big \o <<M("far2s", d, l, 0, 0)>>, lits |-> <<>>] : d \in {258, 259, 65792, 65793}, l \in {2, 33}}
    \cup {[ms |-> P264 \o <<M("far2l", d, l, 0, 0)>>, lits |-> <<>>] : d \in {1, 2, 263, 264}, l \in {34, 35, 64, 65, 161, 162, 300}}
    \cup {[ms |-> Big \o <<M("far2l", d, l, 0, 0)>>, lits |-> <<>>] : d \in {65534, 65535}, l \in {34, 32801, 32802}}
    \cup {[ms |-> P264 \o <<M("far3l", d, l, 0, 0)>>, lits |-> <<>>] : d \in {1, 264}, l \in {34, 161, 162}}
    \cup {[ms |-> Big \o <<M("far3l", d, l, 0, 0)>>, lits |-> <<>>] : d \in {65536, 66264}, l \in {34, 32802, 70000}}
    \cup {[ms |-> <<M("glob", 0, l, 0, p)>>, lits |-> <<>>] : p \in {0, 1, 57, 58}, l \in {6, 7}}
    \cup {[ms |-> <<M("lit", 0, 9, 0, 0), M("glob", 0, 8, 0, 20), M("near", 3, 5, 0, 0), M("rle", 0, 4, 200, 0), M("far1s", 20, 30, 0, 0)>>, lits |-> Lits9]}
    \cup {[ms |-> <<M("rle", 0, l, b, 0)>>, lits |-> <<>>] : b \in {0, 255}, l \in {2, 33}}
    \cup {[ms |-> <<M("lit", 0, 1, 0, 0), M("lit", 0, 8, 0, 0)>>, lits |-> Lits9]}

ItemSet ==
         {[what |-> "single", ms |-> <<m>>, lits |-> <<>>] : m \in Singles}
    \cup {[what |-> "seq", ms |-> s, lits |-> <<>>] : s \in Pairs \cup Triples}
    \cup {[what |-> "apply", ms |-> a.ms, lits |-> a.lits] : a \in Applied}

AllValid(ms) == \A i \in 1..Len(ms) : Valid(ms[i])

Item(x) ==
    LET valid == AllValid(x.ms)
        appl == x.what = "apply" /\ valid /\ Applicable(x.ms, x.lits, Dict)
    IN [what |-> x.what, ms |-> x.ms, valid |-> valid,
        bits |-> IF valid THEN SeqBits(x.ms) ELSE 0,
        model_rt |-> valid /\ CodecRoundTrip(x.ms, LoopBits),
        applicable |-> appl,
        lz_ok |-> appl /\ \A i \in 1..Len(x.ms) : x.ms[i].k \notin {"lit", "glob"},
        out |-> IF appl THEN Proj(Apply(x.ms, x.lits, Dict)) ELSE Proj(<<>>),
        lits |-> x.lits, dict |-> IF appl THEN Dict ELSE <<>>,
        legacy |-> IF appl THEN WriteLegacy(x.ms, x.lits, GlobPosBytes) ELSE <<>>]

GenSpec == it \in ItemSet /\ [][UNCHANGED it]_it
Emit == PrintT(<<"REPLAY", ToJson(Item(it))>>)

(* ---- laws *)
Outs == UNION {[1..n -> {1, 2}] : n \in 1..4}
CopyLaw == \A o \in Outs : \A d \in 1..Len(o) : \A n \in 0..7 : CopyBB(o, d, n) = CopyCF(o, d, n)
ASSUME CopyLaw

LawSet == {<<m>> : m \in ValidSingles} \cup Pairs \cup Triples
LawSpec == it \in LawSet /\ [][UNCHANGED it]_it
BitsTableOK == \A i \in 1..Len(it) : Len(EncodeM(it[i])) = Bits(it[i])
(* lengths the 30-bit field of the long form cannot hold are outside the law (and are refused or not is observed) *)
Representable(m) == m.k \in {"far2l", "far3l"} => m.len - 34 - 32768 < 1073741824
CodecLaw == (\A i \in 1..Len(it) : Representable(it[i])) => CodecRoundTrip(it, LoopBits)
=============================================================================
