SPECIFICATION Spec
CONSTANTS
  P = 12
  Fixed = TRUE
  OneWriterMode = FALSE
  Threads <- MCThreads
  Prog <- MCProg
INVARIANT Emit
CHECK_DEADLOCK FALSE
