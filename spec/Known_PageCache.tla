-------------------------- MODULE Known_PageCache --------------------------
(* Named deviation actions for the recorded known findings of property C17 on the page  *)
(* cache (see /verif/known_findings.json).                                               *)
EXTENDS PageCache, TLC

KnownIds == {}

(* C17-KF3: LruPageCache::read copies from a page only when the WHOLE part requested from  *)
(* that page exists.  A read whose range extends beyond end-of-file therefore loses the    *)
(* existing bytes of the last, partial page of the file: it returns the bytes up to the    *)
(* start of that page (possibly none) instead of the bytes up to end-of-file.              *)
(* Deviation: exactly that shorter answer - still checked byte for byte - is accepted.     *)
(* Trigger: read starts inside the file, range ends beyond EOF, file size is not a         *)
(* multiple of the page size, and the answer has exactly the shortened length.             *)
LastPageStart(F) == (F.size \div PageSize) * PageSize
ShortLen(F, off) == IF LastPageStart(F) > off THEN LastPageStart(F) - off ELSE 0
G3(e, subj) ==
    /\ subj.fam = "pc" /\ e.op = "read" /\ e.ok
    /\ e.f \in DOMAIN files /\ files[e.f].open
    /\ LET F == files[e.f] IN
       /\ e.off < F.size /\ e.off + e.len > F.size
       /\ F.size % PageSize /= 0
       /\ Len(e.r) = ShortLen(F, e.off)
KF3(e, subj) == G3(e, subj) /\ ReadData(e.f, e.off, ShortLen(files[e.f], e.off), e.r)

(* C17-KF8: CacheBuffer::reserve grows data_buffer but leaves data_slice - the raw slice data()    *)
(* returns - pointing at the OLD allocation: when the storage moves, data() reads freed memory.     *)
(* Deviation: after reserve() on a non-empty buffer data() has the right length but other bytes;   *)
(* the observed bytes are adopted (the driver discards the buffer right after a reserve).           *)
G8(e, subj) == /\ subj.fam = "buf" /\ e.op = "buf_reserve" /\ e.b \in DOMAIN bufs
               /\ bufs[e.b] /= <<>> /\ e.len = Len(bufs[e.b]) /\ Len(e.data) = e.len /\ e.data /= bufs[e.b]
KF8(e, subj) == G8(e, subj) /\ BufSet(e.b, e.data)

DevApplies(id, e, subj) ==
    \/ id = "C17-KF3" /\ G3(e, subj)
    \/ id = "C17-KF8" /\ G8(e, subj)
KnownDeviation(id, e, subj) ==
    \/ id = "C17-KF3" /\ KF3(e, subj)
    \/ id = "C17-KF8" /\ KF8(e, subj)
=============================================================================
