--------------------------- MODULE Trace_Strings ---------------------------
(* Trace specification of property C20: replays what the real zipora string          *)
(* functions returned (harness/src/bin/c20.rs) through the definitions of             *)
(* Strings.tla / NumericCmp.tla and the cursor contract LexIter.tla; one event = one   *)
(* step.  Batch events (a whole comparison matrix, every word of a text, every line     *)
(* under every configuration) are pure: they leave the cursor state alone and are       *)
(* accepted exactly when EVERY entry the implementation returned equals the definition. *)
EXTENDS LexIter, TraceIO, Known_Strings

VARIABLES l, subj, kf

vars == <<S, pos, l, subj, kf>>

TraceInit == S = <<>> /\ pos = 1 /\ l = 1 /\ subj = [subject |-> "none"] /\ kf = {}

(* P is evaluated as a plain boolean expression (the condition of an IF), never as an action:  *)
(* TLC would otherwise branch on every disjunct / existential witness inside it                 *)
Pure(P) == IF P THEN UNCHANGED livars ELSE FALSE

NumMatrixOK(e) ==
    /\ IF e.kind = "decimal" THEN Num!DecimalMatrixOK(e.a, e.b, e.m) ELSE Num!RealMatrixOK(e.a, e.b, e.m)
    /\ e.sq => Num!MatrixOrderLaws(e.m)

SortedEventOK(e) ==
    \/ ~e.ok                                                  \* construction refused
    \/ /\ e.ok
       /\ e.gets = e.r /\ e.n = Len(e.r)                      \* get(i) / iter() / len() agree
       /\ Has(e, "ids") => e.ids = e.input                    \* get_by_id: the insertion order is untouched
       /\ IF e.kind = "zo_from_strings" THEN SortedDistinctOK(e.input, e.r)
          ELSE IF e.kind = "sortable_sort_by_rev" THEN DescSorted(e.r) /\ IsPermutation(e.input, e.r)
          ELSE IF e.kind = "sortable_sort_by_len" THEN LenSorted(e.r) /\ IsPermutation(e.input, e.r)
          ELSE IF e.kind = "sortable_sort_by_numeric"           \* the caller's order is decimal_strcmp: ascending by value
               THEN (\A i \in 1..(Len(e.r) - 1) : Num!ValueCmp(e.r[i], e.r[i + 1]) <= 0) /\ IsPermutation(e.input, e.r)
          ELSE SortedEnumOK(e.input, e.r)

(* lexicographic_iterator::utils: collect_all, find_common_prefix, count_with_prefix (Err = refused) *)
LexUtilsOK(e) ==
    /\ LexSorted(e.S)
    /\ ~e.collect.ok \/ e.collect.r = e.S
    /\ ~e.lcp.ok \/ e.lcp.r = CommonPrefixOfAll(e.S)
    /\ \A i \in 1..Len(e.counts) : ~e.counts[i].ok \/ e.counts[i].n = PrefixCount(e.S, e.counts[i].p)

BSearchEventOK(e) ==
    \/ ~e.ok
    \/ /\ e.ok /\ LexSorted(e.v)
       /\ \A i \in 1..Len(e.cases) : BSearchCaseOK(e.v, e.cases[i]) /\ e.cases[i].contains = e.cases[i].found

Step(e) ==
    \/ e.op = "cmp_matrix"    /\ Pure(CmpMatrixOK(e.a, e.b, e.m) /\ (e.sq => MatrixIsTotalOrder(e.m)))
    \/ e.op = "eq_matrix"     /\ Pure(EqMatrixOK(e.a, e.b, e.m, Has(e, "neg")))
    \/ e.op = "starts_matrix" /\ Pure(StartsMatrixOK(e.a, e.b, e.m))
    \/ e.op = "ends_matrix"   /\ Pure(EndsMatrixOK(e.a, e.b, e.m))
    \/ e.op = "find_matrix"   /\ Pure(FindMatrixOK(e.a, e.b, e.m))
    \/ e.op = "cpl_matrix"    /\ Pure(CplMatrixOK(e.a, e.b, e.m))
    \/ e.op = "find_byte"     /\ Pure(FindByteOK(e.a, e.bytes, e.m))
    \/ e.op = "hash"          /\ Pure(HashLawOK(e.pool, e.h))
    \/ e.op = "slice"         /\ Pure(SliceOK(e.s, e.cases))
    \/ e.op = "join"          /\ Pure(JoinOK(e.sep, e.parts, e.r))
    \/ e.op = "words"         /\ Pure(WordsEventOK(e.t, e.r, e.n, e.b, e.wb, e.at))
    \/ e.op = "lines"         /\ Pure(LinesOK(e.text, e.res))
    \/ e.op = "split"         /\ Pure(\A i \in 1..Len(e.cases) : SplitCaseOK(e.cases[i]))
    \/ e.op = "case"          /\ Pure(\A i \in 1..Len(e.cases) : CaseCaseOK(e.cases[i]))
    \/ e.op = "numcmp"        /\ Pure(NumMatrixOK(e))
    \/ e.op = "numcmp_sign"   /\ Pure(Num!SignedMatrixOK(e.a, e.b, e.m, e.kind = "real"))
    \/ e.op = "sorted_enum"   /\ Pure(SortedEventOK(e))
    \/ e.op = "zo_range"      /\ Pure(\A i \in 1..Len(e.cases) :
                                         ~e.cases[i].ok \/ RangeOK(e.S, e.cases[i].lo, e.cases[i].hi, e.cases[i].r))
    \/ e.op = "fs_conv"       /\ Pure(FsConvOK(e))
    \/ e.op = "fs_split"      /\ Pure(\A i \in 1..Len(e.cases) : ~e.cases[i].ok \/ FsSplitOK(e.s, e.cases[i].d, e.cases[i].r))
    \/ e.op = "multi_search"  /\ Pure(\A i \in 1..Len(e.cases) : e.cases[i].ok /\ MultiSearchOK(e.cases[i]))
    \/ e.op = "li_utils"      /\ Pure(LexUtilsOK(e))
    \/ e.op = "bsearch"       /\ Pure(BSearchEventOK(e))
    \/ e.op = "charclass"     /\ Pure(CharClassOK(e))
    \/ e.op = "line_utils"    /\ Pure(LineUtilsOK(e))
    \/ e.op = "utf8"          /\ Pure(\A i \in 1..Len(e.cases) : Utf8CaseOK(e.cases[i]))
    (* the cursor machine *)
    \/ e.op = "li_new"        /\ New(e.S, e.streaming)
    \/ e.op = "li_current"    /\ Current(e.r, e.ci)
    \/ e.op = "li_at_end"     /\ AtEnd(e.r)
    \/ e.op = "li_at_start"   /\ AtStart(e.r)
    \/ e.op = "li_size_hint"  /\ SizeHint(e.r)
    \/ e.op \in {"li_next", "li_prev", "li_seek_start", "li_seek_end", "li_lower", "li_upper"} /\ ~e.ok /\ Refused
    \/ e.op = "li_next"       /\ e.ok /\ Next(e.r)
    \/ e.op = "li_prev"       /\ e.ok /\ Prev(e.r)
    \/ e.op = "li_seek_start" /\ e.ok /\ SeekStart(e.r)
    \/ e.op = "li_seek_end"   /\ e.ok /\ SeekEnd(e.r)
    \/ e.op = "li_lower"      /\ e.ok /\ SeekLowerBound(e.t, e.r)
    \/ e.op = "li_upper"      /\ e.ok /\ SeekUpperBound(e.t, e.r)
    (* there is no action for {"op":"panic"}: a panic of the code under test is rejected *)

TraceNext ==
    /\ l <= Len(Rec)
    /\ l' = l + 1
    /\ LET e == Rec[l] IN
       IF e.op = "reset"
       THEN S' = <<>> /\ pos' = 1 /\ subj' = e /\ kf' = kf
       ELSE /\ subj' = subj
            /\ IF UseKF /\ \E id \in KnownIds : DevApplies(id, e, subj)
               THEN \E id \in KnownIds : KnownDeviation(id, e, subj) /\ kf' = kf \cup {id}
               ELSE Step(e) /\ kf' = kf

TraceSpec == TraceInit /\ [][TraceNext]_vars

(* reported only on a path that consumed the whole trace *)
Done == l = Len(Rec) + 1 => PrintT(<<"KFSET", kf>>)
=============================================================================
