--------------------------- MODULE MC_OffsetStack ---------------------------
EXTENDS OffsetStack, Json
CONSTANT P
Programs == <<
    [t \in {1, 2} |-> IF t = 1 THEN <<"A">> ELSE <<"A", "A", "F">>],            \* 1: the ABA window
    [t \in {1, 2} |-> <<"A", "F">>],                                              \* 2
    [t \in {1, 2} |-> IF t = 1 THEN <<"A", "F">> ELSE <<"A", "A", "F", "F">>],   \* 3
    [t \in {1, 2} |-> <<"A", "A", "F", "F">>],                                    \* 4
    [t \in {1, 2, 3} |-> <<"A", "F">>],                                           \* 5
    [t \in {1, 2, 3} |-> IF t = 1 THEN <<"A">> ELSE <<"A", "F">>]                 \* 6
>>
MCProg == Programs[P]
MCThreads == DOMAIN Programs[P]
MCInitFree == <<1, 2, 3>>
Emit == Done => PrintT(<<"REPLAY", ToJson([p |-> P, prog |-> MCProg, sched |-> sched, tagged |-> Tagged, initfree |-> 3])>>)
=============================================================================
