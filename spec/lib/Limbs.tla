------------------------------- MODULE Limbs -------------------------------
(* 64-bit unsigned integers in TLC (whose integers are 32 bit signed): a value   *)
(* is a sequence of four 16-bit limbs, MOST significant first (zv::limbs in the  *)
(* harness).  Order and equality are decided limb-wise; no arithmetic here.      *)
EXTENDS Naturals, Sequences

LimbBase == 65536
IsLimbs(a) == Len(a) = 4 /\ \A i \in 1..4 : a[i] \in 0..(LimbBase - 1)

LEq(a, b) == a = b
(* the first limb that differs decides *)
LLess(a, b) == \E i \in 1..4 : /\ a[i] < b[i]
                               /\ \A j \in 1..(i - 1) : a[j] = b[j]
LLeq(a, b) == LEq(a, b) \/ LLess(a, b)

LZero == <<0, 0, 0, 0>>
LMax == <<65535, 65535, 65535, 65535>>
=============================================================================
