----------------------------- MODULE TraceIO -----------------------------
(* Reading a recorded NDJSON trace (one JSON object per line) into TLC.        *)
(* The path comes from the environment variable TRACE.                          *)
EXTENDS Json, IOUtils, TLC, Sequences, Naturals

Rec == ndJsonDeserialize(IOEnv.TRACE)

Has(e, f) == f \in DOMAIN e

(* KF mode: the named deviation actions of the known findings are enabled.  The          *)
(* orchestration turns it on only for runs that the strict contract has rejected.        *)
UseKF == IOEnv.KF = "1"

Range(s) == { s[i] : i \in 1..Len(s) }

(* POSTCONDITION of every trace specification: every line was consumed.         *)
(* One state per consumed line plus the initial state.  On rejection the first   *)
(* unmatched line is printed for the orchestration.                              *)
Accepted ==
    LET d == TLCGet("stats").diameter IN
    IF d - 1 = Len(Rec) THEN PrintT(<<"ACCEPTED", Len(Rec)>>)
    ELSE /\ PrintT(<<"REJECTED_AT", d>>)
         /\ PrintT(<<"REJECTED_EVENT", ToJson(Rec[d])>>)
         /\ FALSE
=============================================================================
