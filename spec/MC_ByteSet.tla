----------------------------- MODULE MC_ByteSet -----------------------------
(* Bounded model of the ByteSet contract over concrete prefix-structured keys.    *)
(* Checks, on every reachable state, the laws a user of a trie relies on: the      *)
(* automaton view agrees with membership, prefix listings partition the set,       *)
(* longest_prefix is a member, a prefix of the query, and no longer member is;     *)
(* re-insertion is idempotent; one call changes at most the key it names.          *)
EXTENDS ByteSet, TLC

(* "", a, ab, abc, b, \x00, \xff\xff : keys that are prefixes of each other, 0x00 / 0xFF bytes, the empty key *)
KeySeq == << <<>>, <<97>>, <<97, 98>>, <<97, 98, 99>>, <<98>>, <<0>>, <<255, 255>> >>
CONSTANT NK
KS == { KeySeq[i] : i \in 1..NK }
(* prefixes and queries that are / are not members *)
Prefixes == KS \cup { <<97, 98, 99, 100>>, <<255>>, <<0, 0>>, <<99>> }
Queries == KS \cup { <<97, 98, 99, 100>>, <<97, 120>>, <<255>>, <<255, 255, 255>>, <<0, 0>>, <<99>> }

Next ==
    \/ \E k \in KS : Insert(k)
    \/ \E k \in KS : InsertRefused(k)
    \/ \E k \in KS : Remove(k, k \in S)
    \/ \E k \in KS : RemoveRefused(k)
    \/ \E k \in Queries : Contains(k, k \in S) \/ Accepts(k, k \in S) \/ Lookup(k, k \in S)
    \/ \E q \in Queries : LongestPrefix(q, LongestPrefixOf(q))
    \/ Len_(Cardinality(S))

Spec == SetInit /\ [][Next]_S

TypeInv == TypeOK(KS)
LenBound == Cardinality(S) <= Cardinality(KS)
(* keys_with_prefix("") is keys(); prefix listings are subsets and are monotone in the prefix *)
PrefixLaws ==
    /\ WithPrefix(<<>>) = S
    /\ \A p \in Prefixes : WithPrefix(p) \subseteq S
    /\ \A p, q \in Prefixes : IsPrefix(p, q) => WithPrefix(q) \subseteq WithPrefix(p)
    /\ \A p \in Prefixes : (p \in S) <=> (p \in WithPrefix(p))
(* longest_prefix(q) = Some(n): the first n bytes are a member and no longer prefix is; None: no prefix is a member *)
LongestLaws ==
    \A q \in Queries :
        LET r == LongestPrefixOf(q) IN
        /\ r = None <=> (\A n \in 0..Len(q) : Take(q, n) \notin S)
        /\ r /= None => /\ r[1] \in 0..Len(q) /\ Take(q, r[1]) \in S
                        /\ \A n \in (r[1] + 1)..Len(q) : Take(q, n) \notin S
        /\ (q \in S) => r = Some(Len(q))
        /\ (<<>> \in S) => r /= None
(* action properties *)
InsertIdempotent == [][\A k \in KS : (k \in S /\ S' = S \cup {k}) => S' = S]_S
OneKeyChanges == [][Cardinality((S \ S') \cup (S' \ S)) <= 1]_S
InsertThenMember == [][\A k \in KS : (k \notin S /\ k \in S') => Cardinality(S') = Cardinality(S) + 1]_S
=============================================================================
