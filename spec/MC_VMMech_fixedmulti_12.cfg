SPECIFICATION Spec
CONSTANTS
  P = 12
  Fixed = TRUE
  OneWriterMode = FALSE
  Threads <- MCThreads
  Prog <- MCProg
VIEW view
INVARIANT MinNotAboveLive CountsMatch
CHECK_DEADLOCK FALSE
