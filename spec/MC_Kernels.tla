---------------------------- MODULE MC_Kernels ----------------------------
(* Bounded model of the definitions of Kernels.tla (property C14).  The states   *)
(* enumerate EVERY sequence of length <= MaxLen over Alphabet; the invariants of *)
(* each configuration are the coherence theorems of one group of kernels:        *)
(*   MC_Kernels.cfg        bytes {0,127,128,255}: compare / equal / search laws, *)
(*                         CRC-32C incremental = one shot for every split,       *)
(*                         histogram, contract accepts defined / rejects corrupt *)
(*   MC_Kernels_utf8.cfg   the 12 class representatives + the 4 second-byte      *)
(*                         boundaries: state machine = code point definition     *)
(*   MC_Kernels_codec.cfg  Dec(Enc(x)) = x for Base64 (4 configurations) and hex *)
(*   MC_Kernels_text.cfg   texts: a valid Base64 / hex text is the encoding of   *)
(*                         its decoding (canonical), padding rules               *)
(*   MC_Kernels_bits.cfg   words (4 limbs): pdep / pext / select / reverse laws  *)
EXTENDS Kernels

CONSTANTS Alphabet, MaxLen

VARIABLE s

Init == s = <<>>
Next == Len(s) < MaxLen /\ \E x \in Alphabet : s' = Append(s, x)
Spec == Init /\ [][Next]_s

Pre(k) == SubSeq(s, 1, k)
Suf(k) == SubSeq(s, k + 1, Len(s))
BOOLS == {TRUE, FALSE}

(* ---------------------------------------------------------------- memory / search *)
CompareLaws ==
    \A k \in 0..Len(s) :
        LET a == Pre(k)  b == Suf(k)
        IN  /\ Compare(a, b) = -Compare(b, a)
            /\ Compare(a, a) = 0
            /\ (Compare(a, b) = 0) = (a = b)
            /\ Equal(a, b) = (a = b)
            \* a proper prefix is smaller; bytes compare as unsigned numbers
            /\ k < Len(s) => Compare(a, s) = -1 /\ Compare(s, a) = 1
(* changing one byte by +1 / +128 decides the comparison at that byte, unsigned *)
CompareMutLaw ==
    \A p \in 1..Len(s) : \A x \in {1, 128, 255} :
        LET t == Mut(s, p, x) IN Compare(s, t) = Sign(s[p] - t[p])
SearchLaws ==
    /\ \A c \in Alphabet :
          LET i == FindByte(s, c)
          IN  /\ (i = NotFound) = (c \notin RangeOf(s))
              /\ i # NotFound => s[i + 1] = c /\ \A j \in 1..i : s[j] # c
              /\ i = FindSub(s, <<c>>) /\ i = FindAnyOf(s, <<c>>)
    /\ \A k \in 0..Len(s) : \A m \in 0..(Len(s) - k) :
          \* every substring is found, at or before where it was cut out, and really occurs there
          LET n == SubSeq(s, k + 1, k + m)  i == FindSub(s, n)
          IN  i # NotFound /\ i <= k /\ MatchAt(s, n, i) /\ \A j \in 0..(i - 1) : ~MatchAt(s, n, j)
    /\ FindSub(s, Append(s, 0)) = NotFound
    /\ \A c \in Alphabet :
          LET ps == PositionsOf(s, c)
          IN  /\ Len(ps) = CountByte(s, c)
              /\ (Len(ps) > 0) => (ps[1] = FindByte(s, c) /\ ps[Len(ps)] = FindLastByte(s, c))
              /\ (Len(ps) = 0) => FindLastByte(s, c) = NotFound
              /\ ps = AllAnyOf(s, <<c>>)
    /\ \A c \in Alphabet : \A d \in Alphabet :
          LET i == FindAnyOf(s, <<c, d>>)  a == FindByte(s, c)  b == FindByte(s, d)
          IN  i = (IF a = NotFound THEN b ELSE IF b = NotFound THEN a ELSE Min2(a, b))
HistogramLaws ==
    LET h == Histogram(s)
        RECURSIVE Sum(_)
        Sum(v) == IF v = 0 THEN 0 ELSE h[v] + Sum(v - 1)
    IN  /\ Sum(256) = Len(s)
        /\ \A c \in Alphabet : h[c + 1] = CountByte(s, c)
CopyFillLaws ==
    /\ Copy(s) = s
    /\ \A v \in Alphabet : Len(Fill(Len(s), v)) = Len(s) /\ RangeOf(Fill(Len(s), v)) \subseteq {v}

(* ---------------------------------------------------------------- CRC-32C *)
(* the check value of the catalogue of parametrised CRC algorithms: CRC-32C("123456789") = E3069283 *)
ASSUME Crc32c(<<49, 50, 51, 52, 53, 54, 55, 56, 57>>) = <<58118, 37507>>
ASSUME Crc32c(<<>>) = <<0, 0>>
ASSUME PopCountBytes(<<255, 1, 0, 128, 85>>) = 14
CrcLaws ==
    /\ \A k \in 0..Len(s) :
          /\ Crc32c(s) = Not32(CrcUpdate(CrcUpdate(CrcInit, Pre(k)), Suf(k)))
          /\ \A j \in k..Len(s) :
                Crc32c(s) = Not32(CrcUpdate(CrcUpdate(CrcUpdate(CrcInit, Pre(k)), SubSeq(s, k + 1, j)), Suf(j)))
    /\ Crc32c(s) \in (0..65535) \X (0..65535)
    \* a CRC detects every single-byte change
    /\ \A p \in 1..Len(s) : Crc32c(Mut(s, p, 1)) # Crc32c(s)

(* ---------------------------------------------------------------- contract sanity *)
Ev(op) == [op |-> op]
ContractAcceptsDefined ==
    /\ CompareMutOK([a |-> s, x |-> 128, rev |-> FALSE, r |-> [p \in 1..Len(s) |-> Compare(s, Mut(s, p, 128))]])
    /\ FindByteMutOK([h |-> s, c |-> 7, r |-> [p \in 1..(Len(s) + 1) |-> IF p <= Len(s) THEN FindByte([s EXCEPT ![p] = 7], 7)
                                                                           ELSE FindByte(s, 7)]])
    /\ CrcIncOK([parts |-> <<Pre(Len(s) \div 2), Suf(Len(s) \div 2)>>, r |-> Crc32c(s)])
    /\ CopyOK([ok |-> TRUE, dlen |-> Len(s), src |-> s, out |-> s, pre |-> <<165, 165>>, post |-> <<>>, can |-> 165, init |-> 90])
    /\ CopyOK([ok |-> FALSE, dlen |-> Len(s), src |-> s, out |-> Fill(Len(s), 90), pre |-> <<165, 165>>, post |-> <<>>, can |-> 165, init |-> 90])
ContractRejectsCorrupted ==
    /\ \A p \in 1..Len(s) :
          /\ ~CompareOK([a |-> s, b |-> Mut(s, p, 128), r |-> -Compare(s, Mut(s, p, 128))])       \* sign flipped
          /\ ~CompareOK([a |-> s, b |-> Mut(s, p, 128), r |-> 0])
          /\ ~CopyOK([ok |-> TRUE, dlen |-> Len(s), src |-> s, out |-> Mut(s, p, 1), pre |-> <<165>>, post |-> <<165>>, can |-> 165, init |-> 90])
          /\ ~FindByteOK([h |-> [s EXCEPT ![p] = 7], c |-> 7, r |-> <<p>>])                        \* off by one
    /\ ~CrcHashOK([data |-> s, r |-> <<Crc32c(s)[1], (Crc32c(s)[2] + 1) % 65536>>])
    /\ ~CopyOK([ok |-> TRUE, dlen |-> Len(s), src |-> s, out |-> s, pre |-> <<165, 164>>, post |-> <<>>, can |-> 165, init |-> 90])  \* wrote in front
    /\ Len(s) > 0 => ~CopyOK([ok |-> FALSE, dlen |-> Len(s), src |-> s, out |-> Mut(Fill(Len(s), 90), 1, 1), pre |-> <<>>, post |-> <<>>, can |-> 165, init |-> 90])
    /\ ~EventOK(Ev("signal")) /\ ~EventOK(Ev("panic"))

(* ---------------------------------------------------------------- UTF-8 *)
Utf8Laws ==
    /\ Utf8Valid(s) = Utf8ValidDecl(s)
    \* validity is compositional on both sides of an ASCII byte
    /\ Utf8Valid(s) => Utf8Valid(<<65>> \o s \o <<65>>)
    /\ Utf8Valid(s) => Utf8CharCount(s) <= Len(s) /\ 4 * Utf8CharCount(s) >= Len(s)
    \* the lead-byte table agrees with the decoder on valid strings and is 0 exactly on bytes that start nothing
    /\ (Utf8Valid(s) /\ Len(s) > 0) => Utf8LeadLen(s[1]) = SeqLenOf(s[1])
    /\ \A b \in Alphabet : (Utf8LeadLen(b) = 0) = (IsCont(b) \/ b >= 248)
    /\ Utf8Valid(s) => /\ Len(CharStarts(s)) = Utf8CharCount(s) + 1
                        /\ CharStarts(s)[Len(CharStarts(s))] = Len(s)
    \* decoding a valid string yields one scalar value per character, and re-encodable UTF-16
    /\ Utf8Valid(s) =>
          LET d == Utf8Decode(s)
          IN  /\ Len(d) = Utf8CharCount(s)
              /\ \A j \in 1..Len(d) : d[j] \in 0..1114111 /\ ~(d[j] >= 55296 /\ d[j] <= 57343)
              /\ Len(Utf16Enc(d)) = Len(d) + Cardinality({j \in 1..Len(d) : d[j] >= 65536})
(* named witnesses of the classes of the property text *)
ASSUME ~Utf8Valid(<<192, 128>>)                  \* overlong U+0000
ASSUME ~Utf8Valid(<<193, 191>>)                  \* overlong U+007F
ASSUME ~Utf8Valid(<<224, 159, 191>>)             \* overlong U+07FF
ASSUME ~Utf8Valid(<<240, 143, 191, 191>>)        \* overlong U+FFFF
ASSUME ~Utf8Valid(<<237, 160, 128>>)             \* surrogate U+D800
ASSUME ~Utf8Valid(<<237, 191, 191>>)             \* surrogate U+DFFF
ASSUME ~Utf8Valid(<<244, 144, 128, 128>>)        \* U+110000
ASSUME ~Utf8Valid(<<245, 128, 128, 128>>)
ASSUME ~Utf8Valid(<<226, 130>>)                  \* truncated
ASSUME ~Utf8Valid(<<128>>)                       \* lone continuation byte
ASSUME Utf8Valid(<<237, 159, 191>>)              \* U+D7FF
ASSUME Utf8Valid(<<238, 128, 128>>)              \* U+E000
ASSUME Utf8Valid(<<244, 143, 191, 191>>)         \* U+10FFFF
ASSUME Utf8Valid(<<240, 144, 128, 128>>)         \* U+10000
ASSUME Utf8Valid(<<194, 128>>) /\ Utf8Valid(<<224, 160, 128>>)
ASSUME Utf8CharCount(<<72, 195, 169, 226, 130, 172, 240, 159, 166, 128>>) = 4
ASSUME Utf8Decode(<<72, 195, 169, 226, 130, 172, 240, 159, 166, 128>>) = <<72, 233, 8364, 129408>>      \* "H\u00e9\u20ac\U0001F980"
ASSUME Utf16Enc(<<72, 233, 8364, 129408>>) = <<72, 233, 8364, 55358, 56704>>

(* ---------------------------------------------------------------- ASCII text kernels (MC_Kernels_ascii.cfg) *)
NonWild(b) == b # 42 /\ b # 63
Lit == SelectSeq(s, NonWild)                      \* the text: s without the wildcard characters
AsciiLaws ==
    /\ AsciiLower(AsciiUpper(s)) = AsciiLower(s) /\ AsciiUpper(AsciiLower(s)) = AsciiUpper(s)
    /\ AsciiLower(AsciiLower(s)) = AsciiLower(s) /\ Len(AsciiUpper(s)) = Len(s)
    /\ \A i \in 1..Len(s) : (AsciiLower(s)[i] # s[i]) = (s[i] >= 65 /\ s[i] <= 90)
    \* runs: concatenating the runs gives the text back, neighbours differ
    /\ LET r == Runs(s)
           RECURSIVE Flat(_)
           Flat(k) == IF k > Len(r) THEN <<>> ELSE [j \in 1..r[k][3] |-> r[k][1]] \o Flat(k + 1)
       IN  /\ Flat(1) = s
           /\ \A k \in 1..(Len(r) - 1) : r[k][1] # r[k + 1][1] /\ r[k + 1][2] = r[k][2] + r[k][3]
    \* filters: keep and remove of the same set split the text; alnum = alpha or digit
    /\ LET S == <<65, 32>>
       IN  Len(FilterBytes(s, [kind |-> "keep", set |-> S])) + Len(FilterBytes(s, [kind |-> "remove", set |-> S])) = Len(s)
    /\ \A i \in 1..Len(s) :
          ClassMatch([kind |-> "alnum"], s[i]) = (ClassMatch([kind |-> "alpha"], s[i]) \/ ClassMatch([kind |-> "digit"], s[i]))
    /\ StrHashBytes(s, <<0, 0, 0, 0>>) = StrHashBytes(Suf(Len(s) \div 2), StrHashBytes(Pre(Len(s) \div 2), <<0, 0, 0, 0>>))
WildLaws ==
    /\ WildMatch(Lit, Lit) /\ WildMatch(Lit, <<42>>) /\ WildMatch(Lit, <<42, 42>>)
    /\ WildMatch(Lit, [i \in 1..Len(Lit) |-> 63]) /\ ~WildMatch(Lit, [i \in 1..(Len(Lit) + 1) |-> 63])
    /\ ~WildMatch(Append(Lit, 65), Lit) /\ WildMatch(Append(Lit, 65), Append(Lit, 42))
    /\ \A k \in 0..Len(Lit) :
          /\ WildMatch(Lit, SubSeq(Lit, 1, k) \o <<42>> \o SubSeq(Lit, k + 1, Len(Lit)))
          /\ WildMatch(Lit, SubSeq(Lit, 1, k) \o <<42>>) /\ WildMatch(Lit, <<42>> \o SubSeq(Lit, k + 1, Len(Lit)))
    \* s as a pattern: a match consumes one byte per non-star character at least
    /\ WildMatch(Lit, s) => Len(Lit) >= Cardinality({i \in 1..Len(s) : s[i] # 42})
    /\ (\A i \in 1..Len(s) : s[i] # 42) => (WildMatch(Lit, s) => Len(Lit) = Len(s))
    \* dictionary scan finds a word exactly where FindSub-style matching says
    /\ \A k \in 0..Len(s) :
          LET w == SubSeq(s, k + 1, Len(s))  d == DictMatches(s, <<w>>)
          IN  Len(w) > 0 => (\E j \in 1..Len(d) : d[j] = <<k, Len(w), 0>>) /\ d[1][1] = FindSub(s, w)

(* ---------------------------------------------------------------- codecs *)
CodecLaws ==
    /\ \A url \in BOOLS : \A pad \in BOOLS :
          LET t == Base64Enc(s, url, pad)
          IN  /\ Base64Valid(t, url, pad)
              /\ Base64Dec(t, url, pad) = s
              /\ Len(t) = (IF pad THEN 4 * ((Len(s) + 2) \div 3) ELSE (4 * Len(s) + 2) \div 3)
              \* dropping or adding a padding character makes a padded text invalid
              /\ (pad /\ Len(s) % 3 # 0) => ~Base64Valid(SubSeq(t, 1, Len(t) - 1), url, pad)
              /\ pad => ~Base64Valid(Append(t, B64Pad), url, pad)
              /\ (~pad /\ Len(s) % 3 # 0) => ~Base64Valid(Append(t, B64Pad), url, pad)
    /\ \A up \in BOOLS : HexValid(HexEnc(s, up)) /\ HexDec(HexEnc(s, up)) = s /\ Len(HexEnc(s, up)) = 2 * Len(s)
ASSUME Base64Enc(<<102, 111, 111, 98, 97>>, FALSE, TRUE) = <<90, 109, 57, 118, 89, 109, 69, 61>>     \* "fooba" -> "Zm9vYmE="
ASSUME Base64Enc(<<102>>, FALSE, TRUE) = <<90, 103, 61, 61>>                                          \* "f" -> "Zg=="
ASSUME Base64Enc(<<251, 255>>, TRUE, FALSE) = <<45, 95, 56>>                                          \* "-_8"
ASSUME HexEnc(<<222, 173>>, FALSE) = <<100, 101, 97, 100>>                                            \* "dead"
(* texts: a valid text is the canonical encoding of what it decodes to *)
TextLaws ==
    /\ \A url \in BOOLS : \A pad \in BOOLS :
          Base64Valid(s, url, pad) => Base64Enc(Base64Dec(s, url, pad), url, pad) = s
    /\ HexValid(s) => \E up \in BOOLS : TRUE /\ HexDec(s) = HexDec(HexEnc(HexDec(s), up))
    /\ HexValid(s) => Len(HexDec(s)) * 2 = Len(s)

(* ---------------------------------------------------------------- bits *)
Word == IF Len(s) = 4 THEN s ELSE <<0, 0, 0, 0>>
Masks == {<<0, 0, 0, 0>>, <<65535, 65535, 65535, 65535>>, <<0, 65535, 0, 43690>>, <<32768, 0, 1, 4080>>}
BitLaws ==
    Len(s) = 4 =>
    LET x == s  b == ToBits(x, 64)
    IN  /\ FromBits(b) = x
        /\ BitReverse(BitReverse(x, 64), 64) = x
        /\ PopCount(x, 64) + PopCount([i \in 1..4 |-> 65535 - x[i]], 64) = 64
        /\ PopCount(x, 64) = PopCount(BitReverse(x, 64), 64)
        /\ \A k \in {0, 1, 2, 15, 16, 17, 31, 32, 33, PopCount(x, 64) - 1, PopCount(x, 64), 63, 64} \cap 0..64 :
              LET p == SelectInWord(x, 64, k)
              IN  IF k < PopCount(x, 64)
                  THEN b[p + 1] = 1 /\ Cardinality({i \in 0..(p - 1) : b[i + 1] = 1}) = k
                  ELSE p = NotFound
        /\ TrailingZeros(x, 64) = (IF PopCount(x, 64) = 0 THEN 64 ELSE SelectInWord(x, 64, 0))
        /\ \A m \in Masks :
              /\ Pdep(Pext(x, m, 64), m, 64) = [i \in 1..4 |-> x[i] & m[i]]
              /\ Pext(Pdep(x, m, 64), m, 64) = ZeroHighBits(x, 64, PopCount(m, 64))
              /\ PopCount(Pext(x, m, 64), 64) = PopCount([i \in 1..4 |-> x[i] & m[i]], 64)
        /\ Pext(x, <<65535, 65535, 65535, 65535>>, 64) = x /\ Pdep(x, <<65535, 65535, 65535, 65535>>, 64) = x
        /\ \A n \in {0, 1, 16, 33, 64} : PopCount(ZeroHighBits(x, 64, n), 64) <= n
        \* the 32-bit variants agree with the 64-bit ones on words whose high half is zero
        /\ (x[1] = 0 /\ x[2] = 0) =>
              /\ PopCount(x, 32) = PopCount(x, 64)
              /\ BitReverse(BitReverse(x, 32), 32) = x
FieldLaws ==
    Len(s) = 4 =>
    LET x == s
    IN  /\ \A n \in {0, 1, 16, 31, 32, 33, 64} : Field(x, 0, n) = ZeroHighBits(x, 64, n)
        /\ \A st \in {0, 1, 16, 33, 63} : Field(x, st, 64) = Field(x, st, 64 - st)            \* bits beyond 63 read as zero
        /\ Field(x, 16, 16) = <<0, 0, 0, x[3]>> /\ Field(x, 48, 32) = <<0, 0, 0, x[1]>>
        /\ LeadingZeros(x, 64) = TrailingZeros(BitReverse(x, 64), 64)
        /\ (x[1] = 0 /\ x[2] = 0) =>
              LET lo == <<0, 0, 0, x[4]>>  hi == <<0, 0, 0, x[3]>>  il == Interleave(lo, hi)
                  pl == Pdep(lo, <<21845, 21845, 21845, 21845>>, 64)  ph == Pdep(hi, <<43690, 43690, 43690, 43690>>, 64)
              IN  /\ il = [i \in 1..4 |-> pl[i] | ph[i]]
                  /\ Pext(il, <<21845, 21845, 21845, 21845>>, 64) = lo /\ Pext(il, <<43690, 43690, 43690, 43690>>, 64) = hi
HashLaws ==
    \* the little-endian prefix is the first word the hash absorbs
    Len(s) >= 8 => StrHash(SubSeq(s, 1, 8), <<0, 0, 0, 0>>) = Prefix8(s)
=============================================================================
