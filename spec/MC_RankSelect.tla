--------------------------- MODULE MC_RankSelect ---------------------------
(* Bounded model of the RankSelect contract: the states enumerate EVERY bit      *)
(* string of length <= MaxLen (2^(MaxLen+1) - 1 states).  Checked in every state:*)
(*  - the tables (prefix sums, sorted positions) agree with the definitions;     *)
(*  - the laws  Rank1(p) + Rank0(p) = p,  Rank1(Select1(k)) = k,                 *)
(*    Select1(Rank1(p)) = p on one bits, select refuses exactly for k >= count;  *)
(*  - the batch actions accept the defined answers and reject every single-      *)
(*    position corruption of them (the contract is neither vacuous nor loose).   *)
EXTENDS RankSelect, TLC

CONSTANT MaxLen

Init == vec = Mk(<<>>)
(* the mutators of the bit-vector history machine (RankSelect.tla), bounded by MaxLen: every bit    *)
(* string of length <= MaxLen is reachable by push alone; the other mutators add transitions only. *)
PopAnswer(k) == [j \in 1..k |-> IF j <= N THEN Bits[N - j + 1] ELSE Refused]
Next ==
    \/ vec.n < MaxLen /\ \E x \in {0, 1} : BvPush(<<x>>)
    \/ \E k \in 1..2 : BvPop(k, PopAnswer(k))
    \/ \E i \in 0..N, x \in {0, 1} : BvSet(i, x, i < N)
    \/ vec.n < MaxLen /\ \E i \in 0..N, x \in {0, 1} : BvInsert(i, x, TRUE)
    \/ \E i \in 0..(MaxLen - 1) : BvEnsureSet1(i, TRUE)
    \/ \E n \in 0..MaxLen, x \in {0, 1} : BvResize(n, x, TRUE)
    \/ BvClear
    \/ \E s \in 0..N, t \in 0..N, x \in {0, 1} : s <= t /\ BvSetRange(s, t, x, TRUE)
    \/ \E s \in 0..N, t \in 0..N, f \in {"and", "or", "xor"} : s <= t /\ BvBitwise(f, Rep(1, N), s, t, TRUE)
Spec == Init /\ [][Next]_vec

(* the history machine: out-of-range arguments and wrong pop results are rejected, refusals change nothing *)
HistoryContract ==
    /\ \A x \in {0, 1} : /\ ~ ENABLED BvSet(N, x, TRUE) /\ ENABLED BvSet(N, x, FALSE)
                           /\ ~ ENABLED BvInsert(N + 1, x, TRUE)
                           /\ ~ ENABLED BvSetRange(0, N + 1, x, TRUE)
                           /\ Mk(SubSeq(Append(Bits, x), 1, N)) = vec            \* pop undoes push
                           /\ Mk(SubSeq(Bits, 1, N) \o <<x>>) = Mk(Append(Bits, x)) \* insert at len = push
    /\ IF N = 0 THEN ENABLED BvPop(1, <<Refused>>) /\ ~ ENABLED BvPop(1, <<0>>)
       ELSE /\ ~ ENABLED BvPop(1, <<1 - Bits[N]>>) /\ ~ ENABLED BvPop(1, <<Refused>>)
            /\ ENABLED BvPop(1, <<Bits[N]>>)
(* every mutator step keeps the tables consistent with the new bit string and changes the length as stated *)
HistorySteps == [][/\ vec'.pre = Prefix(vec'.bits) /\ vec'.n = Len(vec'.bits)
                   /\ Len(vec'.p1) + Len(vec'.p0) = vec'.n]_vec

b == vec.bits

TypeInv ==
    /\ vec.n = Len(b) /\ \A i \in 1..Len(b) : b[i] \in {0, 1}
    /\ Len(vec.pre) = Len(b) + 1

(* tables = definitions *)
TablesAreDefinitions ==
    /\ \A p \in 0..N : Rank1(p) = Rank1Def(b, p) /\ Rank0(p) = Rank0Def(b, p)
    /\ Ones = OnesDef(b) /\ Zeros = ZerosDef(b)
    /\ \A k \in 0..(N + 1) : /\ (k >= Ones) = Select1Err(b, k)
                             /\ (k >= Zeros) = Select0Err(b, k)
    /\ \A k \in 0..(Ones - 1)  : Sel("select1", k) = Select1Def(b, k)
    /\ \A k \in 0..(Zeros - 1) : Sel("select0", k) = Select0Def(b, k)

(* the laws of the property statement *)
RankSum        == \A p \in 0..N : Rank1(p) + Rank0(p) = p
RankOfSelect   == /\ \A k \in 0..(Ones - 1)  : Rank1(Sel("select1", k)) = k /\ Get(Sel("select1", k)) = 1
                  /\ \A k \in 0..(Zeros - 1) : Rank0(Sel("select0", k)) = k /\ Get(Sel("select0", k)) = 0
SelectOfRank   == \A p \in 0..(N - 1) : IF Get(p) = 1 THEN Sel("select1", Rank1(p)) = p
                                        ELSE Sel("select0", Rank0(p)) = p
RankMonotone   == \A p \in 0..(N - 1) : Rank1(p + 1) = Rank1(p) + Get(p)
CountsAddUp    == Ones + Zeros = N /\ Rank1(N) = Ones /\ Rank0(N) = Zeros
WordLaws       == \A w \in 0..((N + 63) \div 64) :
                     /\ WRank1(w, 64) = WOnes(w)
                     /\ \A k \in 0..(WOnes(w) - 1) : WRank1(w, WSel1(w, k)) = k

(* the defined answers *)
AnsRank(which)   == [p \in 1..(N + 1) |-> Rank(which, p - 1)]
AnsSelect(which) == [k \in 1..(N + 1) |-> SelOutcome(which, k - 1)]
AnsGet           == [i \in 1..N |-> Get(i - 1)]
Bump(r, j)       == [r EXCEPT ![j] = r[j] + 1]
(* enabledness of an action whose only effect is UNCHANGED vec = its guard; the actions are  *)
(* written as guard /\ UNCHANGED vec, so the guard is tested by evaluating the action with  *)
(* vec' = vec: done below through ENABLED                                                    *)
ContractAcceptsDefined ==
    /\ \A which \in {"rank1", "rank0"} : ENABLED RankAll(which, AnsRank(which))
    /\ \A which \in {"select1", "select0"} : ENABLED SelectAll(which, AnsSelect(which))
    /\ ENABLED GetAll(AnsGet)
    /\ ENABLED Counts(N, Ones, Zeros)
    /\ ENABLED SelectBatch("select1", [k \in 1..Ones |-> k - 1], TRUE, vec.p1)
    /\ ENABLED SelectBatch("select1", [k \in 1..(Ones + 1) |-> k - 1], FALSE, <<>>)
ContractRejectsCorrupted ==
    /\ \A which \in {"rank1", "rank0"} : \A j \in 1..(N + 1) :
          ~ ENABLED RankAll(which, Bump(AnsRank(which), j))
    /\ \A j \in 1..(N + 1) : ~ ENABLED SelectAll("select1", Bump(AnsSelect("select1"), j))
    /\ \A j \in 1..(N + 1) : AnsSelect("select0")[j] # Refused
                                => ~ ENABLED SelectAll("select0", Bump(AnsSelect("select0"), j))
    /\ \A j \in 1..N : ~ ENABLED GetAll([AnsGet EXCEPT ![j] = 1 - AnsGet[j]])
    /\ ~ ENABLED Counts(N, Ones + 1, Zeros) /\ ~ ENABLED Counts(N + 1, Ones, Zeros)
    /\ ~ ENABLED SelectBatch("select1", [k \in 1..(Ones + 1) |-> k - 1], TRUE, [k \in 1..(Ones + 1) |-> 0])
    /\ Ones > 0 => ~ ENABLED SelectBatch("select1", [k \in 1..Ones |-> k - 1], FALSE, <<>>)
    \* "not offered" is only what an implementation itself calls unimplemented, and only select0
    /\ ~ ENABLED SelectNotOffered("select0", [k \in 1..(N + 1) |-> Refused], "range")
    /\ ~ ENABLED SelectNotOffered("select1", [k \in 1..(N + 1) |-> Refused], "unimplemented")
    /\ Zeros > 0 => ~ ENABLED SelectAll("select0", [k \in 1..(N + 1) |-> Refused])
=============================================================================
