SPECIFICATION Spec
CONSTANTS
  P = 1
  Fixed = FALSE
  OneWriterMode = TRUE
  Threads <- MCThreads
  Prog <- MCProg
VIEW view
INVARIANT OneWriter
CHECK_DEADLOCK FALSE
