---------------------------- MODULE MC_ByteSetGen ----------------------------
(* Behaviour generator (binding B2): every history of mutating operations          *)
(* (insert / remove) of length L over the first NK concrete prefix-structured keys, *)
(* each step annotated with the result and the abstract state AFTER the step as     *)
(* computed by this specification.  Keys are referred to by their index in KeySeq;  *)
(* a state is the set of indices of its members.                                    *)
(* In addition the module prints, once, the TABLE of the expected observable        *)
(* projection of every abstract state (keys, keys_with_prefix for every prefix,     *)
(* longest_prefix for every query, membership of the probes outside the universe),  *)
(* so that the harness compares every observation with a value TLC computed.        *)
EXTENDS ByteSet, TLC, Json

KeySeq == << <<>>, <<97>>, <<97, 98>>, <<97, 98, 99>>, <<98>>, <<0>>, <<255, 255>> >>
CONSTANTS NK, L
VARIABLE hist

KS == { KeySeq[i] : i \in 1..NK }
(* probes outside the universe, prefixes and longest_prefix queries used by the harness *)
AbsentSeq == << <<97, 98, 99, 100>>, <<0, 0>>, <<255>>, <<99>> >>
PrefixSeq == << <<>>, <<97>>, <<97, 98>>, <<255>>, <<0>>, <<98, 98>> >>
QuerySeq == << <<>>, <<97, 98, 99, 100>>, <<97, 120>>, <<98>>, <<255, 255, 255>>, <<0, 0>>, <<99>> >>

Ids(T) == { i \in 1..NK : KeySeq[i] \in T }
SeqMap(s, F(_)) == [i \in 1..Len(s) |-> F(s[i])]

(* expected observable projection of the abstract state T *)
PrefixIn(T, p) == { k \in T : IsPrefix(p, k) }
LongestIn(T, q) ==
    LET ns == { n \in 0..Len(q) : Take(q, n) \in T } IN
    IF ns = {} THEN None ELSE Some(MaxOf(ns))
Row(T) == [ st |-> Ids(T),
            len |-> Cardinality(T),
            keys |-> T,
            absent |-> [i \in 1..Len(AbsentSeq) |-> AbsentSeq[i] \in T],
            pf |-> [i \in 1..Len(PrefixSeq) |-> PrefixIn(T, PrefixSeq[i])],
            lp |-> [i \in 1..Len(QuerySeq) |-> LongestIn(T, QuerySeq[i])] ]
Header == [ universe |-> [i \in 1..NK |-> KeySeq[i]], absent |-> AbsentSeq,
            prefixes |-> PrefixSeq, queries |-> QuerySeq ]
ASSUME PrintT(<<"TABLE", ToJson([header |-> Header])>>)
ASSUME \A T \in SUBSET KS : PrintT(<<"TABLE", ToJson([row |-> Row(T)])>>)
(* the definitions used for the table are the contract's own, evaluated in the state S = T *)
TableAgrees == /\ \A p \in { PrefixSeq[i] : i \in 1..Len(PrefixSeq) } : PrefixIn(S, p) = WithPrefix(p)
               /\ \A q \in { QuerySeq[i] : i \in 1..Len(QuerySeq) } : LongestIn(S, q) = LongestPrefixOf(q)

Log(op, i, r) == hist' = Append(hist, [op |-> op, k |-> i, r |-> r, st |-> Ids(S')])

Next ==
    \/ \E i \in 1..NK : Insert(KeySeq[i]) /\ Log("insert", i, TRUE)
    \/ \E i \in 1..NK : Remove(KeySeq[i], KeySeq[i] \in S) /\ Log("remove", i, KeySeq[i] \in S)

Spec == SetInit /\ hist = <<>> /\ [][Next]_<<S, hist>>

Bound == Len(hist) <= L
Emit == Len(hist) = L => PrintT(<<"REPLAY", ToJson(hist)>>)
=============================================================================
