---------------------------- MODULE MC_PrefixCode ----------------------------
(* Bounded models of PrefixCode.tla: every frequency vector of 2..HMaxSyms symbols *)
(* with counts 0..HMaxCount (at least one symbol present), every merge order the   *)
(* strategy allows.                                                                *)
(*   MC_PrefixCode.cfg       Strategy = "any", counts 0..2 (the merge order does    *)
(*                           not look at the weights: every tree shape is covered) *)
(*   MC_PrefixCode_min.cfg   Strategy = "min"  textbook Huffman, counts 0..6       *)
(*   MC_PrefixCode_max.cfg   Strategy = "max"  huffman.rs as coded, counts 0..6     *)
EXTENDS PrefixCode
=============================================================================
