SPECIFICATION LawSpec
CONSTANTS
  Deep = TRUE
  GlobPosBytes = 2
  LoopBits = 8
INVARIANT BitsTableOK
INVARIANT CodecLaw
CHECK_DEADLOCK FALSE
