SPECIFICATION Spec
CONSTANTS
  Keys = {"k1","k2","k3","k4"}
  Vals = {"v1","v2"}
  Cap = 1
  ClearAsInCode = TRUE
INVARIANT ListOK Refines CapacityInv CallbackExactlyOnce NeverCallbackForRetrievable NoLostNodes
CHECK_DEADLOCK FALSE
