SPECIFICATION Spec
CONSTANTS
  Classes <- MCClasses
  Sizes <- MCSizes
  Arena = 12
  CarveClass = FALSE
  AdvanceOnFail = FALSE
  Wrap = 64
  MaxLive = 4
CONSTRAINT Bound
INVARIANT NoOverlap
CHECK_DEADLOCK FALSE
