SPECIFICATION PCSpec
CONSTANTS
  HMaxSyms = 4
  HMaxCount = 6
  Strategy = "max"
INVARIANT NodeCodesPrefixFree WeightConserved DoneCodesOK DoneComplete DoneKraftFormsAgree
CHECK_DEADLOCK FALSE
