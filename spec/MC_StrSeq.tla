----------------------------- MODULE MC_StrSeq -----------------------------
(* Bounded model of the string vector contract StrSeq.tla over a small universe   *)
(* of byte strings (empty string, shared prefixes, an embedded NUL, a multi-byte  *)
(* sequence).  Checks that the order used for the sorted views is a total order   *)
(* that extends the prefix relation, that a sorted permutation of every           *)
(* reachable content exists and is unique up to equal strings, and the laws       *)
(* below.                                                                        *)
EXTENDS StrSeq

CONSTANT MaxN

U == { <<>>, <<97>>, <<97, 98>>, <<98>>, <<97, 0>>, <<195, 169>> }

Next ==
    \/ \E o \in DOMAIN strs, s \in U : Len(strs[o]) < MaxN /\ PushStr(o, s, Len(strs[o]))
    \/ \E o \in DOMAIN strs, k \in {"lex", "len", "custom"} : SortStr(o, k)
    \/ \E o \in DOMAIN strs : ClearStr(o)
    \/ DOMAIN strs = {1} /\ CloneStr(1, 2)

Spec == StrInit /\ [][Next]_strvars

ASSUME OrderLaws ==
    /\ \A a, b \in U : LexLeq(a, b) \/ LexLeq(b, a)
    /\ \A a, b \in U : LexLeq(a, b) /\ LexLeq(b, a) => a = b
    /\ \A a, b, c \in U : LexLeq(a, b) /\ LexLeq(b, c) => LexLeq(a, c)
    /\ \A a, b \in U : (Len(a) <= Len(b) /\ SubSeq(b, 1, Len(a)) = a) => LexLeq(a, b)    \* a prefix sorts first
    /\ LexLess(<<97>>, <<97, 0>>) /\ LexLess(<<97, 0>>, <<97, 98>>) /\ LexLess(<<98>>, <<195, 169>>)

TypeInv == /\ DOMAIN strs = DOMAIN mode /\ DOMAIN strs \subseteq {1, 2}
           /\ \A o \in DOMAIN strs : Len(strs[o]) <= MaxN /\ SElems(strs[o]) \subseteq U
(* every content has a lexicographically sorted permutation, and any two of them are equal *)
Perms(s) == { t \in [1..Len(s) -> SElems(s)] : IsPermutation(t, s) }
SortedViewUnique == \A o \in DOMAIN strs :
    LET P == { t \in Perms(strs[o]) : LexSorted(t) } IN P # {} /\ \A t1, t2 \in P : t1 = t2
(* a push invalidates the sorted view; sort never touches the insertion order *)
PushInvalidates == [][\A o \in DOMAIN strs : Len(strs'[o]) > Len(strs[o]) => mode'[o] = "none"]_strvars
SortKeepsOrder == [][\A o \in DOMAIN strs : mode'[o] # mode[o] /\ mode'[o] # "none" => strs'[o] = strs[o]]_strvars
CloneIndependent == [][Cardinality({ o \in DOMAIN strs : strs[o] # strs'[o] }) <= 1]_strvars
=============================================================================
