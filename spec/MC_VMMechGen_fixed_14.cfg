SPECIFICATION Spec
CONSTANTS
  P = 14
  Fixed = TRUE
  OneWriterMode = TRUE
  Threads <- MCThreads
  Prog <- MCProg
INVARIANT Emit
CHECK_DEADLOCK FALSE
