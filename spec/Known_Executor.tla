--------------------------- MODULE Known_Executor ---------------------------
(* Named deviation actions for the recorded known findings of property C18.      *)
EXTENDS Executor, TLC

KnownIds == {}
DevApplies(id, e, subj) == FALSE
KnownDeviation(id, e, subj) == FALSE /\ UNCHANGED where
=============================================================================
