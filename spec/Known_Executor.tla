--------------------------- MODULE Known_Executor ---------------------------
(* Named deviation actions for the recorded known findings of property C18.      *)
EXTENDS Executor, TLC

KnownIds == {}

(* ---------------------------------------------------------------------------------------- *)
(* C18-KF1: a task whose body panics takes its worker down (worker_loop awaits                *)
(* task.execute() unguarded, the panic ends the worker's tokio task): what is queued behind   *)
(* it - the rest of that worker's local queue, non-stealable tasks in particular, everything   *)
(* when it was the only worker - is never executed and the executor never becomes idle.        *)
(* Even when the other workers manage to drain everything, the dead worker's task stays        *)
(* counted as active: is_idle() is false for good and total_executed misses the task.           *)
(* Admitted ONLY: the final event of a run in which the harness made one task panic             *)
(* (reset.panic_at), reporting exactly the tasks still queued as pending (possibly none), none   *)
(* of them taken, none executed twice (Take / Finish are still judged by the contract for every  *)
(* other event), not idle, and the counter short by exactly the panicking task.                  *)
G1(e, subj) ==
    /\ subj.subject = "wse@panicking_task" /\ Len(subj.panic_at) = 1
    /\ e.op = "final"
    /\ Ids("running") = {}
    /\ e.pending = Cardinality(Ids("queued")) /\ e.queued = e.pending
    /\ ~e.idle                                            \* the dead worker's task stays "active" for ever
    /\ e.executed = Cardinality(Ids("done")) - 1          \* the panicking task was never counted
KF1(e, subj) == G1(e, subj) /\ UNCHANGED where

DevApplies(id, e, subj) == id = "C18-KF1" /\ G1(e, subj)
KnownDeviation(id, e, subj) == id = "C18-KF1" /\ KF1(e, subj)
=============================================================================
