---------------------------- MODULE CodecSession ----------------------------
(* Contract of every entropy codec of zipora (property C01): a thin session       *)
(* protocol.                                                                       *)
(*                                                                                 *)
(*   Train(c, d)            fixes the model of codec variant c from training data  *)
(*                          with digest d                                          *)
(*   Encode(c, x, ok, b)    may fail ("whenever encoding succeeds"); on success    *)
(*                          the produced blob b is remembered together with the    *)
(*                          model it was produced under and the payload (len, h)   *)
(*   Decode(c, b, n, ok, y) with the matching model and n = len(x) decoding MUST   *)
(*                          succeed and return a payload whose (len, digest)       *)
(*                          equals the stored one                                  *)
(*                                                                                 *)
(* Payloads are never seen by TLC: the harness projects them with zv::digest to    *)
(* records [len |-> n, h |-> <<h1, h0>>] (60-bit hash); equality of payloads is    *)
(* decided here, on (len, h).  The harness does not compare input and output.      *)
(*                                                                                 *)
(* Refusal rule: Train and Encode have refused variants that leave the state       *)
(* unchanged.  Decode has none when the decode is a matching one: a decode that    *)
(* errs, panics or returns other bytes after a successful encode is rejected.      *)
(* A decode that is not matching (other model, other length, unknown blob) is not  *)
(* constrained by the property and any outcome is accepted.                        *)
EXTENDS Naturals, Sequences, FiniteSets

VARIABLES model,   \* codec variant -> digest of the data it was last trained on
          enc      \* blob id -> [c |-> codec, m |-> model digest at encode time, x |-> payload digest]

csvars == <<model, enc>>

(* the model of a codec that was never trained (self-training codecs: FSE in      *)
(* adaptive mode, the adaptive rANS front end) - encode and decode both see it     *)
NoModel == [len |-> 0, h |-> <<0, 0>>, trained |-> FALSE]
Trained(d) == [len |-> d.len, h |-> d.h, trained |-> TRUE]

EmptyFn == [x \in {} |-> 0]
Upd(f, k, v) == [x \in DOMAIN f \cup {k} |-> IF x = k THEN v ELSE f[x]]

ModelOf(c) == IF c \in DOMAIN model THEN model[c] ELSE NoModel

CSInit == model = EmptyFn /\ enc = EmptyFn

(* train(c, data) -> Ok: the model of c is now the one derived from data *)
Train(c, d) == /\ model' = Upd(model, c, Trained(d))
               /\ UNCHANGED enc
(* train(c, data) -> Err / panic: refused, nothing changes *)
TrainRefused(c, d) == UNCHANGED csvars

(* encode(c, x) -> Ok(blob b): a fresh blob id; remember what must come back *)
Encode(c, x, b) == /\ b \notin DOMAIN enc
                   /\ enc' = Upd(enc, b, [c |-> c, m |-> ModelOf(c), x |-> x])
                   /\ UNCHANGED model
(* encode(c, x) -> Err / panic: allowed ("whenever encoding succeeds"), nothing changes *)
EncodeRefused(c, x) == UNCHANGED csvars

(* a decode the property speaks about: the blob came out of a successful encode of *)
(* the same codec variant, the model is the one the blob was produced under, and   *)
(* the caller passes the original length                                           *)
Matching(c, b, n) == /\ b \in DOMAIN enc
                     /\ enc[b].c = c
                     /\ enc[b].m = ModelOf(c)
                     /\ n = enc[b].x.len

(* decode(c, blob b, n) -> ok / y.  THE property: a matching decode succeeds and   *)
(* returns the original payload.  y is compared on (len, h).                       *)
Decode(c, b, n, ok, y) ==
    /\ Matching(c, b, n) => (ok /\ y.len = enc[b].x.len /\ y.h = enc[b].x.h)
    /\ UNCHANGED csvars

(* A batch: encode(c, x_i) immediately followed by decode(c, blob_i, n_i), for i = 1..k, under one *)
(* model, logged as ONE event (the harness does this for the exhaustive small-scope sessions: 1093 *)
(* strings).  items[i] = [x, eok, b, n, dok, y].  It is exactly the sequential composition         *)
(*   Encode(c, x_i, b_i) ; Decode(c, b_i, n_i, dok_i, y_i)      (EncodeRefused when ~eok_i):       *)
(* the model does not change in between, so Matching(c, b_i, n_i) reduces to n_i = len(x_i).        *)
OkItems(items) == { i \in 1..Len(items) : items[i].eok }
Roundtrips(c, items) ==
    /\ \A i \in OkItems(items) :
          /\ items[i].b \notin DOMAIN enc
          /\ (items[i].n = items[i].x.len) =>
                (items[i].dok /\ items[i].y.len = items[i].x.len /\ items[i].y.h = items[i].x.h)
    /\ Cardinality({ items[i].b : i \in OkItems(items) }) = Cardinality(OkItems(items))    \* fresh, distinct blob ids
    /\ enc' = [b \in DOMAIN enc \cup { items[i].b : i \in OkItems(items) } |->
                 IF b \in DOMAIN enc THEN enc[b]
                 ELSE LET i == CHOOSE k \in OkItems(items) : items[k].b = b IN
                      [c |-> c, m |-> ModelOf(c), x |-> items[i].x]]
    /\ UNCHANGED model

(* The symbol-level law of the public rANS / FSE step functions (Rans64Encoder::encode_symbol +  *)
(* Rans64Decoder::decode_symbol, FseTable::encode_symbol + decode_symbol): decoding the state that *)
(* encoding symbol s from state x produced gives back s and x - losslessness one symbol at a time. *)
(* items[i] = [s, x, ok, ds, dx, ...]; states are decimal strings (64 bit), compared for equality; *)
(* ok = FALSE: the encoder refused the symbol (no slot) - allowed.                                  *)
StepLaw(items) ==
    /\ \A i \in 1..Len(items) : items[i].ok => (items[i].ds = items[i].s /\ items[i].dx = items[i].x)
    /\ UNCHANGED csvars

(* the only results the contract accepts for a matching decode *)
AcceptedDecodeResults(c, b, n, Ys) ==
    { r \in BOOLEAN \X Ys : Matching(c, b, n) => (r[1] /\ r[2].len = enc[b].x.len /\ r[2].h = enc[b].x.h) }

(* ---- properties of the contract itself (checked by MC_CodecSession) ---- *)
TypeOK(C, D, B) ==
    /\ DOMAIN model \subseteq C
    /\ \A c \in DOMAIN model : model[c].trained /\ [len |-> model[c].len, h |-> model[c].h] \in D
    /\ DOMAIN enc \subseteq B
    /\ \A b \in DOMAIN enc : enc[b].c \in C /\ enc[b].x \in D
=============================================================================
