------------------------------- MODULE MC_Wire -------------------------------
(* Bounded model of the Wire contract (property C13).                            *)
(*  mode "wire": every interleaving of writes (3 values, sizes 1..3) and reads;  *)
(*     invariant: reads return the writes in order, the cursor offset is the sum  *)
(*     of the sizes read, and the contract accepts exactly ONE answer per read    *)
(*     (value of the record at the cursor, consumed = its size, at = its offset); *)
(*     a refusal is accepted only when nothing is left to read.                   *)
(*  mode "view": every byte sequence over {0,1} up to length MaxSrc (and one      *)
(*     generated pattern), every single / double range, every sequence of reads   *)
(*     of size 0..MaxK, skips, peeks and seeks; invariant: what sequential reads  *)
(*     delivered since the last seek is exactly the view between the seek target  *)
(*     and the cursor; end-of-stream is accepted only at the end.                 *)
(*  mode "sink": every sequence of partial writes; the sink equals the accepted   *)
(*     prefixes in order.                                                         *)
EXTENDS Wire, TLC

CONSTANTS Vals, MaxRecs, MaxSrc, MaxK

VARIABLES mode, readlog, base, seq

vars == <<stream, total, cur, off, view, vc, sent, wp, mode, readlog, base, seq>>

Bits == {0, 1}
SeqsUpTo(S, n) == UNION { [1..k -> S] : k \in 0..n }

Srcs == { [kind |-> "arr", arr |-> s] : s \in SeqsUpTo(Bits, MaxSrc) }
        \cup { [kind |-> "pat", len |-> 5, a |-> 3, b |-> 2] }
Ranges1(src) == { <<<<lo, hi>>>> : lo \in 0..SrcLen(src), hi \in 0..SrcLen(src) } 
Ranges2(src) == { <<<<a, b>>, <<c, d>>>> : a \in 0..SrcLen(src), b \in 0..SrcLen(src),
                                           c \in 0..SrcLen(src), d \in 0..SrcLen(src) }
RangeSets(src) == { r \in Ranges1(src) \cup (IF src.kind = "arr" THEN Ranges2(src) ELSE {}) : RangesOk(src, r) }

Init == /\ WireInit
        /\ mode \in {"wire", "open", "sink"}
        /\ readlog = <<>> /\ base = 0 /\ seq = <<>>

RECURSIVE SumN(_)
SumN(k) == IF k = 0 THEN 0 ELSE stream[k].n + SumN(k - 1)

Sizes == 1..3

NextWire ==
    /\ mode = "wire"
    /\ UNCHANGED <<mode, base, seq>>
    /\ \/ \E v \in Vals, n \in Sizes : Len(stream) < MaxRecs /\ Write(<<v>>, n, total) /\ UNCHANGED readlog
       \/ \E v \in Vals, n \in Sizes, p \in 0..3 :
            /\ Len(stream) < MaxRecs /\ p <= n
            /\ (p = n \/ total = SumN(Len(stream)))       \* at most one torn write per stream
            /\ WriteThrough(<<v>>, p = n, p, n, p, [i \in 1..p |-> i], [i \in 1..p |-> i], total)
            /\ UNCHANGED readlog
       \/ HasNext /\ Read(stream[cur].v, stream[cur].n, off, FALSE) /\ readlog' = Append(readlog, stream[cur].v)
       \/ HasNext /\ ReadVal(stream[cur].v, off, FALSE) /\ readlog' = Append(readlog, stream[cur].v)
       \/ ReadRefused /\ UNCHANGED readlog
       \/ WriteRefused /\ UNCHANGED readlog
       \/ Len(stream) > 0 /\ EncodedLen(stream[Len(stream)].v, stream[Len(stream)].n) /\ UNCHANGED readlog

NextOpen ==
    /\ mode = "open"
    /\ \E src \in Srcs : \E r \in RangeSets(src) : Open(src, r)
    /\ mode' = "view"
    /\ UNCHANGED <<readlog, base, seq>>

NextView ==
    /\ mode = "view"
    /\ UNCHANGED <<mode, readlog>>
    /\ \/ \E k \in 0..MaxK : \E g \in 0..k :
            /\ vc + g <= VLen
            /\ ReadN(k, Slice(vc, g))
            /\ seq' = seq \o Slice(vc, g) /\ base' = base
       \/ \E k \in 0..MaxK : vc + k <= VLen /\ ReadExact(k, Slice(vc, k))
                             /\ seq' = seq \o Slice(vc, k) /\ base' = base
       \/ \E k \in 0..MaxK : \E g \in 0..k : vc + g <= VLen /\ Peek(k, Slice(vc, g)) /\ UNCHANGED <<base, seq>>
       \/ \E k \in 1..MaxK : Skip(k) /\ seq' = seq \o Slice(vc, k) /\ base' = base
       \/ \E t \in 0..VLen : SeekTo("start", t, t) /\ base' = t /\ seq' = <<>>
       \/ \E o \in -2..2 : SeekTo("cur", o, vc + o) /\ base' = vc + o /\ seq' = <<>>
       \/ \E o \in -2..0 : SeekTo("end", o, VLen + o) /\ base' = VLen + o /\ seq' = <<>>
       \/ Pos(vc) /\ UNCHANGED <<base, seq>>
       \/ Remaining(VLen - vc) /\ UNCHANGED <<base, seq>>
       \/ ReadNRefused(-1) /\ UNCHANGED <<base, seq>>
       \/ \E k \in 0..MaxK : ReadNRefused(k) /\ UNCHANGED <<base, seq>>

NextSink ==
    /\ mode = "sink"
    /\ UNCHANGED <<mode, readlog, base, seq>>
    /\ \/ \E d \in SeqsUpTo(Bits, 2) : \E r \in 0..Len(d) : wp + r <= 4 /\ Accept(d, r, 4)
       \/ \E t \in 0..Len(sent) : SeekW("start", t, t)
       \/ \E o \in -1..1 : SeekW("cur", o, wp + o)
       \/ SeekW("end", 0, Len(sent))
       \/ SinkPos(wp)
       \/ SinkRemaining(4 - wp, 4)
       \/ Sink(sent, 0, 0)

Next == NextWire \/ NextOpen \/ NextView \/ NextSink

Spec == Init /\ [][Next]_vars

(* ---------------------------------------------------------------- invariants *)
TypeInv == WireTypeOK

(* reads return the writes in order *)
ReadsReturnWritesInOrder == readlog = [i \in 1..(cur - 1) |-> stream[i].v]
(* the cursor moved by exactly the bytes of the records read *)
OffsetIsSum == off = SumN(cur - 1) /\ total >= SumN(Len(stream))
(* a write through a short sink: only a complete, correctly counted prefix-equal write is Ok *)
ThroughAnswers ==
    mode = "wire" =>
        \A ok \in BOOLEAN, n \in 0..3, sl \in 0..3 :
            ENABLED WriteThrough(<<"a">>, ok, n, 2, sl, [i \in 1..(IF sl < 2 THEN sl ELSE 2) |-> i], [i \in 1..sl |-> i], total) =>
                /\ sl <= 2
                /\ ok => (sl = 2 /\ n = 2)
                /\ ~ok => n <= sl

(* exactly one answer is accepted for a read *)
OneAnswer ==
    mode = "wire" /\ HasNext =>
        /\ \A v \in Vals, k \in 0..4 :
              ENABLED Read(<<v>>, k, off, FALSE) => (<<v>> = stream[cur].v /\ k = stream[cur].n)
        /\ \A a \in 0..total : ENABLED Read(stream[cur].v, stream[cur].n, a, FALSE) => a = off
        /\ \A v \in Vals : ENABLED ReadVal(<<v>>, off, FALSE) => <<v>> = stream[cur].v
        /\ ~ENABLED ReadRefused
RefusalOnlyAtEnd == mode = "wire" /\ ~HasNext => ENABLED ReadRefused /\ \A v \in Vals, k \in 0..4 : ~ENABLED Read(<<v>>, k, off, FALSE)

(* sequential reads since the last seek delivered exactly the view between the   *)
(* seek target and the cursor: nothing lost, nothing repeated, nothing invented  *)
DeliveredIsView == mode = "view" => seq = Slice(base, vc - base)
(* no end-of-stream before the end, no wrong byte, never more than asked          *)
ReadAnswers ==
    mode = "view" =>
        \A k \in 0..MaxK : \A got \in SeqsUpTo(Bits \cup {2}, k + 1) :
            ENABLED ReadN(k, got) =>
                /\ Len(got) <= k
                /\ got = Slice(vc, Len(got))
                /\ (Len(got) = 0 => k = 0 \/ vc = VLen)
(* a total back end may refuse an exact read only if it does not fit *)
TotalRefusal == mode = "view" => \A k \in 0..MaxK : ENABLED ReadNRefused(k) <=> vc + k > VLen
SinkIsAccepted == mode = "sink" => \A g \in SeqsUpTo(Bits, 4) : ENABLED Sink(g, 0, 0) => g = sent
(* a write changes exactly the window [wp, wp + r) of the sink, a seek changes nothing *)
WriteWindow == [][mode = "sink" =>
                    /\ \A i \in 1..Len(sent) : (i <= wp \/ i > wp') => sent'[i] = sent[i]
                    /\ Len(sent') >= Len(sent)
                   ]_vars
(* the version predicates accept exactly one answer *)
PredOneAnswer == \A r \in BOOLEAN : ENABLED VersionPred("compatible", <<1, 2, 0>>, <<1, 1, 0>>, <<>>, r) => r = TRUE
=============================================================================
