SPECIFICATION Spec
CONSTANTS
  MaxLen = 4
  Vals = {0, 1, 2}
INVARIANT SortUnique SortIdempotent PairLaws
INVARIANT UnionLaws InterLaws DiffLaws UniqueLaws FreqLaws ContractSharp Unsorted
INVARIANT LimbOrder ByteOrder KernelLaws PeekLaws
CHECK_DEADLOCK FALSE
