SPECIFICATION Spec
CONSTANTS
  NK = 7
INVARIANT TypeInv LenBound PrefixLaws LongestLaws
PROPERTY InsertIdempotent OneKeyChanges InsertThenMember
CHECK_DEADLOCK FALSE
