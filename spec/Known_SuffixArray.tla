------------------------- MODULE Known_SuffixArray -------------------------
(* Named deviation actions for the recorded known findings of property C12       *)
(* (see /verif/known_findings.json).  A deviation is enabled only for the listed *)
(* subjects (reset event: fam, variant, algo = the construction the subject ends *)
(* in) and only under its semantic trigger; the trace specification records the  *)
(* ids taken on an accepted path in the variable kf.                             *)
EXTENDS SuffixArray, TLC

KnownIds == {}

(* written without \E: inside an action TLC would enumerate the witnesses as successor states *)
TwoSymbols(t) == ~(\A i \in 1..Len(t) : t[i] = t[1])

(* does the contract accept this answer event?  (state predicate; only the derived answers) *)
HasF(e, f) == f \in DOMAIN e
StartCount(res) == [k \in 1..Len(res) |-> <<res[k][1], res[k][1] + res[k][2]>>]
(* one search event carries the answers of every search API of the subject for the same patterns: *)
(*   search = (start, count)   range = [lo, hi)   find = positions   count   match = (lo, hi, depth) *)
(*   ranked = positions in suffix order   mcount = match_count of the match triples                  *)
(*   da = da_match_max_length (lo, hi, depth)   da_empty = its answer for the empty input            *)
SearchEventAns(e) ==
    /\ HasF(e, "search") => SearchesAns(e.pats, StartCount(e.search))
    /\ HasF(e, "range")  => SearchesAns(e.pats, e.range)
    /\ HasF(e, "find")   => FindsAns(e.pats, e.find)
    /\ HasF(e, "count")  => CountsAns(e.pats, e.count)
    /\ HasF(e, "match")  => MatchesAns(e.pats, e.match)
    /\ HasF(e, "ranked") => RankedFindsAns(e.pats, e.ranked, e.minl, e.maxl)
    /\ HasF(e, "mcount") => MatchCountAns(e.match, e.mcount)
    /\ HasF(e, "da")     => MatchesAns(e.pats, e.da)
    /\ HasF(e, "da_empty") => DaEmptyAns(e.da_empty)
LcpEventAns(e) ==
    /\ HasF(e, "lcp") => LcpAns(e.lcp)
    /\ HasF(e, "at")  => LcpAtAns(e.at)
DerivedOps == {"lcp", "lcp_at", "search", "longest", "eqr"}
DerivedAns(e) ==
    CASE e.op \in {"lcp", "lcp_at"} -> LcpEventAns(e)
      [] e.op = "search"            -> SearchEventAns(e)
      [] e.op = "longest"           -> LongestAns(e.inputs, e.pos, e.res, e.minl)
      [] e.op = "eqr"               -> EqRangesAns(e.chs, e.items)
      [] OTHER                      -> TRUE

(* C12-KF1: the SA-IS construction (SuffixArrayAlgorithm::SAIS; also what Adaptive selects from    *)
(* adaptive_threshold = 10 000 bytes on, what compression::SuffixArrayCompressor and the PA-Zip     *)
(* DictionaryBuilder always use) returns an array of the right length that is NOT the suffix array *)
(* -- frequently not even a permutation -- for texts with at least two distinct symbols.           *)
(* The wrong array is recorded in sa so that the array-relative answers (suffix_at_rank, BWT) are  *)
(* still judged against it.                                                                        *)
G1(e, subj) ==
    /\ subj.algo = "sais"
    /\ e.op = "sa" /\ e.ok
    /\ Len(e.sa) = Len(T) /\ TwoSymbols(T)
    /\ ~IsSA(T, e.sa)
G1p(e, subj) ==
    /\ subj.algo \in {"sais", "adaptive"}
    /\ e.op = "sa_proj"
    /\ subj.algo = "adaptive" => e.n >= 10000
    /\ e.len = e.n /\ e.distinct >= 2
    /\ (~e.perm \/ e.violations > 0)
(* guards are evaluated as values (G = TRUE), never as actions *)
KF1(e, subj) ==
    IF e.op = "sa" THEN (G1(e, subj) = TRUE) /\ sa' = e.sa /\ have' = TRUE /\ UNCHANGED T
    ELSE (G1p(e, subj) = TRUE) /\ Same

(* C12-KF2: answers computed from an array recorded under C12-KF1 (LcpArray::new / Kasai, binary   *)
(* search, find_pattern, count_pattern, the dictionary's rank-range matcher) follow the wrong      *)
(* array.  Only answers the contract rejects take the deviation.                                   *)
G2(e, subj) ==
    /\ subj.algo = "sais"
    /\ e.op \in DerivedOps
    /\ \/ have /\ ~IsSA(T, sa)
       \/ subj.fam = "dict" /\ TwoSymbols(T)
    /\ ~DerivedAns(e)
KF2(e, subj) == (G2(e, subj) = TRUE) /\ Same

(* C12-KF3: dc3_construct special-cases length 2 with `text[0] <= text[1]`: for two EQUAL bytes    *)
(* it returns [0, 1] although the shorter suffix T[1..] is the smaller one ([1, 0]).  Reached by   *)
(* DC3 and by Adaptive (which selects DC3 below 10 000 bytes), i.e. by SuffixArray::new,           *)
(* EnhancedSuffixArray::with_lcp / with_bwt and the default SuffixArrayDictionary.  The derived    *)
(* answers (search misses the occurrence of the 2-byte pattern, ...) follow the wrong array.       *)
Eq2(t) == Len(t) = 2 /\ t[1] = t[2]
G3(e, subj) ==
    /\ subj.algo \in {"dc3", "adaptive"}
    /\ Eq2(T)
    /\ \/ e.op = "sa" /\ e.ok /\ e.sa = <<0, 1>>
       \/ /\ e.op \in DerivedOps
          /\ (have /\ sa = <<0, 1>>) \/ subj.fam = "dict"
          /\ ~DerivedAns(e)
KF3(e, subj) ==
    /\ G3(e, subj) = TRUE
    /\ IF e.op = "sa" THEN sa' = e.sa /\ have' = TRUE /\ UNCHANGED T ELSE Same

(* C12-KF4: with optimize_small_alphabet = false the SA-IS bucket count is computed as             *)
(* `max_byte.wrapping_add(1) as usize`, which is 0 for a text containing 0xFF: the first bucket    *)
(* access panics (index out of bounds, len 0) instead of returning a Result.                       *)
G4(e, subj) ==
    /\ subj.variant = "sais_noopt"
    /\ e.op = "panic" /\ e.in = "sa"
    /\ e.head = "index out of bounds: the len is 0 but th"
    (* 0xFF in the text itself, or (>= 256 distinct LMS substrings need >= 512 bytes) in the byte-named reduced text *)
    /\ ~(\A i \in 1..Len(T) : T[i] # 255) \/ Len(T) >= 512
KF4(e, subj) == (G4(e, subj) = TRUE) /\ Same

(* guard (state predicate) and action of each deviation.  In KF mode a deviation whose guard     *)
(* holds REPLACES the contract action for that event.                                             *)
DevApplies(id, e, subj) ==
    \/ id = "C12-KF1" /\ (IF e.op = "sa" THEN G1(e, subj) ELSE G1p(e, subj))
    \/ id = "C12-KF2" /\ G2(e, subj)
    \/ id = "C12-KF3" /\ G3(e, subj)
    \/ id = "C12-KF4" /\ G4(e, subj)
KnownDeviation(id, e, subj) ==
    \/ id = "C12-KF1" /\ KF1(e, subj)
    \/ id = "C12-KF2" /\ KF2(e, subj)
    \/ id = "C12-KF3" /\ KF3(e, subj)
    \/ id = "C12-KF4" /\ KF4(e, subj)
=============================================================================
