----------------------------- MODULE Trace_Seq -----------------------------
(* Trace specification: replays a recorded execution of a real zipora vector      *)
(* through the actions of Seq.tla, one event = one action.                        *)
EXTENDS Seq, TraceIO, Known_Seq

VARIABLES l, subj, kf

vars == <<seqs, alive, ever, acct, l, subj, kf>>

TraceInit == SeqInit(TRUE) /\ l = 1 /\ subj = [subject |-> "none"] /\ kf = {}

(* the state change an event claims *)
Trans(e) ==
    LET D == e.dropped
        B == Elems(e.born) IN
    \/ e.op = "push"   /\ e.ok  /\ Push(e.o, e.x, D, B)
    \/ e.op = "push"   /\ ~e.ok /\ PushRefused(e.o, e.x, D, B)
    \/ e.op = "pop"    /\ Pop(e.o, e.r, D, B)
    \/ e.op = "insert" /\ e.ok  /\ Insert(e.o, e.i, e.x, D, B)
    \/ e.op = "insert" /\ ~e.ok /\ InsertRefused(e.o, e.i, e.x, D, B)
    \/ e.op = "remove" /\ e.ok  /\ Len(e.r) = 1 /\ Remove(e.o, e.i, e.r[1], D, B)
    \/ e.op = "remove" /\ ~e.ok /\ RemoveRefused(e.o, e.i, D, B)
    \/ e.op = "set"    /\ e.ok  /\ Set(e.o, e.i, e.x, D, B)
    \/ e.op = "set"    /\ ~e.ok /\ SetRefused(e.o, e.i, e.x, D, B)
    \/ e.op = "resize" /\ e.ok  /\ Resize(e.o, e.n, e.x, e.post.c, D, B)
    \/ e.op = "resize" /\ ~e.ok /\ ResizeRefused(e.o, e.n, e.x, D, B)
    \/ e.op = "extend_move"  /\ e.ok  /\ ExtendMove(e.o, e.xs, D, B)
    \/ e.op = "extend_move"  /\ ~e.ok /\ ExtendRefused(e.o, e.xs, TRUE, D, B)
    \/ e.op = "extend_clone" /\ e.ok  /\ ExtendClone(e.o, e.xs, e.post.c, D, B)
    \/ e.op = "extend_clone" /\ ~e.ok /\ ExtendRefused(e.o, e.xs, FALSE, D, B)
    \/ e.op = "fill"     /\ e.ok  /\ Fill(e.o, e.a, e.b, e.x)
    \/ e.op = "fill"     /\ ~e.ok /\ Maintenance(e.o, D, B)
    \/ e.op = "clear"    /\ e.ok  /\ Clear(e.o, D, B)
    \/ e.op = "clear"    /\ ~e.ok /\ Maintenance(e.o, D, B)
    \/ e.op = "truncate" /\ e.ok  /\ Truncate(e.o, e.n, D, B)
    \/ e.op = "truncate" /\ ~e.ok /\ Maintenance(e.o, D, B)
    \/ e.op = "pop_tail" /\ e.ok  /\ PopTail(e.o, e.n, e.r, D, B)
    \/ e.op = "pop_tail" /\ ~e.ok /\ Maintenance(e.o, D, B)
    \/ e.op = "maintenance" /\ Maintenance(e.o, D, B)
    \/ e.op = "clone" /\ e.ok /\ Clone(e.o, e.o2, e.post.c, D, B)
    \/ e.op = "drop"  /\ DropContainer(e.o, D, B)

(* what the object shows after the call must be the new abstract state *)
PostOK(e) ==
    \/ e.op = "drop"
    \/ e.op = "clone" /\ ObsSeq(seqs'[e.o2], e.post) /\ ObsSeq(seqs'[e.o], e.src)
    \/ e.op \notin {"drop", "clone"} /\ ObsSeq(seqs'[e.o], e.post)

Step(e) == Trans(e) /\ PostOK(e)

TraceNext ==
    /\ l <= Len(Rec)
    /\ l' = l + 1
    /\ LET e == Rec[l] IN
       IF e.op = "reset"
       THEN SeqReset(e.acct) /\ subj' = e /\ kf' = kf
       ELSE /\ subj' = subj
            /\ IF UseKF /\ \E id \in KnownIds : DevApplies(id, e, subj)
               THEN \E id \in KnownIds : KnownDeviation(id, e, subj) /\ kf' = kf \cup {id}
               ELSE Step(e) /\ kf' = kf

TraceSpec == TraceInit /\ [][TraceNext]_vars

(* reported only on a path that consumed the whole trace *)
Done == l = Len(Rec) + 1 => PrintT(<<"KFSET", kf>>)
=============================================================================
