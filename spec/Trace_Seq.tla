----------------------------- MODULE Trace_Seq -----------------------------
(* Trace specification: replays a recorded execution of a real zipora vector      *)
(* through the actions of Seq.tla, one event = one action.                        *)
EXTENDS Seq, TraceIO, Known_Seq

VARIABLES l, subj, kf

vars == <<seqs, alive, ever, acct, l, subj, kf>>

TraceInit == SeqInit(TRUE) /\ l = 1 /\ subj = [subject |-> "none"] /\ kf = {}

(* first event of a run: the line before is the reset *)
First == l > 1 /\ Rec[l - 1].op = "reset"

Step(e) == TransV(e, subj, First) /\ PostV(e)

TraceNext ==
    /\ l <= Len(Rec)
    /\ l' = l + 1
    /\ LET e == Rec[l] IN
       IF e.op = "reset"
       THEN SeqReset(e.acct) /\ subj' = e /\ kf' = kf
       ELSE /\ subj' = subj
            /\ IF UseKF /\ \E id \in KnownIds : DevApplies(id, e, subj)
               THEN \E id \in KnownIds : KnownDeviation(id, e, subj) /\ kf' = kf \cup {id}
               ELSE Step(e) /\ kf' = kf

TraceSpec == TraceInit /\ [][TraceNext]_vars

(* reported only on a path that consumed the whole trace *)
Done == l = Len(Rec) + 1 => PrintT(<<"KFSET", kf>>)
=============================================================================
