SPECIFICATION Spec
CONSTANTS
  Alphabet = {0, 1, 63, 64, 252, 255}
  MaxLen = 5
INVARIANT CodecLaws
CHECK_DEADLOCK FALSE
