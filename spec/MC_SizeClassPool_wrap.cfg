SPECIFICATION Spec
CONSTANTS
  Classes <- MCClasses
  Sizes <- MCWrapSizes
  Arena = 8
  CarveClass = TRUE
  AdvanceOnFail = TRUE
  Wrap = 16
  MaxLive = 3
CONSTRAINT Bound
INVARIANT NoOverlap
CHECK_DEADLOCK FALSE
