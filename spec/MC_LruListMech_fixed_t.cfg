SPECIFICATION Spec
CONSTANTS
  Keys = {"k1","k2","k3","k4"}
  Vals = {"v1","v2"}
  Cap = 3
  ClearAsInCode = FALSE
INVARIANT ListOK Refines CapacityInv CallbackExactlyOnce NeverCallbackForRetrievable NoLostNodes NoSpuriousRefusal
CHECK_DEADLOCK FALSE
