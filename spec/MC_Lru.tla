------------------------------- MODULE MC_Lru -------------------------------
(* Bounded model of the Lru contract (one shard): every operation over Keys x Vals for    *)
(* every capacity 1..MaxCap.  Besides the C17 invariants of Lru.tla it checks the          *)
(* order-based definition of the eviction victim against an independent formulation of     *)
(* "least recently used": a logical clock stamps every get-hit and put; the entry evicted  *)
(* to make room must be the live key with the oldest stamp (VictimIsOldest).               *)
EXTENDS Lru, TLC

CONSTANTS Keys, Vals, MaxCap, MaxClock
VARIABLES clock, stamp      \* stamp: key -> time of its last access (get hit or put)

mcvars == <<lru, loc, last, clock, stamp>>
S == lru[1]

Tick(k) == /\ clock' = clock + 1
           /\ stamp' = [x \in Keys |-> IF x = k THEN clock + 1 ELSE stamp[x]]
NoTick == UNCHANGED <<clock, stamp>>

Init == /\ \E c \in 1..MaxCap : LruInit(1, c)
        /\ clock = 0
        /\ stamp = [x \in Keys |-> 0]

DoGet == \E k \in Keys : Get(1, k, LGet(S, k).r) /\ (IF LHas(S, k) THEN Tick(k) ELSE NoTick)
DoPut == \E k \in Keys, v \in Vals : Put(1, k, v, LPut(S, k, v).r, LPut(S, k, v).ev) /\ Tick(k)
DoRefused == \E k \in Keys, v \in Vals : PutRefused(k, v, <<>>) /\ NoTick
DoRemove == \E k \in Keys : Remove(1, k, LRemove(S, k).r, <<>>) /\ NoTick
DoContains == \E k \in Keys : Contains(1, k, LHas(S, k)) /\ NoTick
DoLen == Len_(SumLen) /\ NoTick
DoClear == Clear(<<>>) /\ NoTick

(* DoRefused, DoContains, DoLen leave every variable unchanged (pure stuttering): they are part of the    *)
(* contract but add nothing to the reachable states, so the bounded model does not enumerate them.      *)
Next == DoGet \/ DoPut \/ DoRemove \/ DoClear
Stutters == [][(DoRefused \/ DoContains \/ DoLen) => UNCHANGED mcvars]_mcvars

Spec == Init /\ [][Next]_mcvars

Bound == clock <= MaxClock

TypeInv == /\ LKeys(S) \subseteq Keys
           /\ \A k \in LKeys(S) : S.val[k] \in Vals
           /\ S.cap \in 1..MaxCap

(* the order sequence IS the recency order: stamps decrease along it *)
OrderIsRecency == \A i, j \in 1..Len(S.order) : i < j => stamp[S.order[i]] > stamp[S.order[j]]

(* the entry evicted to make room is the live key whose last access is oldest *)
VictimIsOldest ==
    last.kind = "put" /\ last.cb /= <<>> =>
        /\ Len(last.cb) = 1
        /\ Len(last.before.order) = last.before.cap
        /\ \A k \in LKeys(last.before) : stamp[last.cb[1][1]] <= stamp[k] \/ k = S.order[1]

(* eviction happens only to make room: a put that evicts found the cache full and the key absent *)
EvictOnlyWhenFull ==
    [][ (last'.kind = "put" /\ last'.cb /= <<>>) => (Len(S.order) = S.cap /\ Len(S'.order) = S.cap) ]_mcvars

(* get(k) returns the most recent value put for k if k was not evicted or removed since *)
GetReturnsLastPut ==
    [][ \A k \in Keys, v \in Vals : (LHas(S, k) /\ S.val[k] = v /\ LHas(S', k) /\ S'.val[k] /= v) => last'.kind = "put" ]_mcvars
=============================================================================
