---------------------------- MODULE DurableFile ----------------------------
(* Contract of every file-backed structure of zipora (property C19) and the      *)
(* crash / fault model its images come from.                                     *)
(*                                                                               *)
(* PART 1 - files and faults.  A file is a byte length plus a sequence of        *)
(* fixed-size blocks (block 0 holds the header).  Between two sync points the    *)
(* application performs Write(block), SetLen, Sync.  A crash leaves, for         *)
(* everything written since the last sync, a mixture of old and new blocks and   *)
(* the old or the new length:                                                    *)
(*    prefix-consistent mixture  the first j changed blocks new, the rest old    *)
(*    single-block rollback      all new except one changed block                *)
(*    header-new / data-old      block 0 new, every other block old              *)
(*    data-new / header-old      block 0 old, every other block new              *)
(* all of which are members of SubsetImages (any subset of the pending block     *)
(* writes persisted - no ordering guarantee without a barrier).  Truncation      *)
(* faults cut an image at ANY byte.                                              *)
(*                                                                               *)
(* PART 2 - descriptors.  For a recorded transition between two consecutive      *)
(* snapshots of a real file (byte lengths, number of changed blocks, section     *)
(* boundaries) Descriptors(s) is the set of fault descriptors the harness must   *)
(* materialise; MC_DurableFileGen prints it, MC_DurableFile checks on the block  *)
(* model that every descriptor denotes an image the crash model can produce.     *)
(*                                                                               *)
(* PART 3 - the contract (state sp, img; one action per trace event).            *)
(*    Reopen(outcome, content, extent) of an image is allowed iff                *)
(*       outcome = "err", or                                                     *)
(*       outcome = "ok" and content is the logical content at SOME EARLIER       *)
(*       SYNC POINT (op boundary not later than the image's snapshot), and every *)
(*       byte read lies inside the image (extent <= image length).               *)
(*    An undamaged image of a sync point must open, with exactly that content.   *)
(*    signal / abort / timeout / panic have no action: never allowed.            *)
EXTENDS Integers, Sequences, FiniteSets

(* ------------------------------------------------------------------ PART 1 *)
(* An abstract image: [len |-> bytes, blk |-> function block index -> value],    *)
(* DOMAIN blk = 0..NBlocks(len,bs)-1.  Value 0 = a block of zeros / a hole.      *)
NBlocks(len, bs) == (len + bs - 1) \div bs
BlkOf(x, b) == IF b \in DOMAIN x.blk THEN x.blk[b] ELSE 0
MkImage(len, bs, val(_)) == [len |-> len, blk |-> [b \in 0..(NBlocks(len, bs) - 1) |-> val(b)]]

(* blocks that a writer must have written to get from old to new: inside the new *)
(* length and different from the old block (absent = zeros)                      *)
ChangedSet(old, new) == { b \in DOMAIN new.blk : BlkOf(old, b) /= new.blk[b] }

(* the image in which exactly the blocks in S carry the new value, length L      *)
Mix(old, new, S, L, bs) ==
    MkImage(L, bs, LAMBDA b : IF b \in S THEN BlkOf(new, b) ELSE BlkOf(old, b))

(* crash model: any subset of the pending block writes, old or new length        *)
SubsetImages(old, new, bs) ==
    { Mix(old, new, S, L, bs) : S \in SUBSET ChangedSet(old, new), L \in {old.len, new.len} }
(* prefix-consistent images for a given write order (a sequence of block indices) *)
PrefixImages(old, new, order, bs) ==
    { Mix(old, new, { order[i] : i \in 1..j }, L, bs) : j \in 0..Len(order), L \in {old.len, new.len} }
(* truncation fault: the image cut at byte n < len                                *)
Cut(x, n, bs) == MkImage(n, bs, LAMBDA b : BlkOf(x, b))
TruncImages(x, bs) == { Cut(x, n, bs) : n \in 0..(x.len - 1) }

(* ascending sequence of a finite set of naturals *)
RECURSIVE Asc(_)
Asc(S) == IF S = {} THEN <<>>
          ELSE LET m == CHOOSE x \in S : \A y \in S : x <= y IN <<m>> \o Asc(S \ {m})

(* ------------------------------------------------------------------ PART 2 *)
Kinds == {"intact", "truncate", "mixture", "rollback", "hdr_new_data_old", "data_new_hdr_old"}

(* the image a descriptor denotes, on abstract images (the harness does the same  *)
(* on bytes): changed blocks are taken in ascending order                         *)
Materialise(d, old, new, bs) ==
    LET C == Asc(ChangedSet(old, new))
        All == ChangedSet(old, new)
    IN CASE d.kind = "intact"   -> new
         [] d.kind = "truncate" -> Cut(new, d.j, bs)
         [] d.kind = "mixture"  -> Mix(old, new, { C[i] : i \in 1..d.j }, d.len, bs)
         [] d.kind = "rollback" -> Mix(old, new, All \ {C[d.j]}, d.len, bs)
         [] d.kind = "hdr_new_data_old" -> Mix(old, new, All \cap {0}, d.len, bs)
         [] d.kind = "data_new_hdr_old" -> Mix(old, new, All \ {0}, d.len, bs)

(* truncation lengths: every byte for files <= 4 KiB (when the harness asks for   *)
(* the dense set), else every 512-byte step and every section boundary +-1        *)
TruncPoints(len, bounds, dense) ==
    IF dense /\ len <= 4096 THEN 0..(len - 1)
    ELSE { n \in { 512 * i : i \in 0..((len - 1) \div 512) }
                 \cup UNION { {b - 1, b, b + 1} : b \in bounds } : n >= 0 /\ n < len }

(* s: shape of one file at snapshot k of a run, relative to snapshot k-1:          *)
(*   has_new, new_len, old_len (0 when the file did not exist), nch = number of    *)
(*   changed blocks, hdr_changed, bounds, dense, trunc (file differs from the      *)
(*   previous snapshot, so its truncations are new images), intact, inplace (the   *)
(*   file existed at the last sync and was rewritten in place - same inode; a file *)
(*   replaced by rename or newly created has no old blocks to mix with: its crash  *)
(*   images are its own prefixes, covered by the truncation faults)                *)
Descriptors(s) ==
    LET lens == {s.old_len, s.new_len}
        D(kind, j, len) == [run |-> s.run, k |-> s.k, f |-> s.f, kind |-> kind, j |-> j, len |-> len]
    IN  (IF s.intact THEN { D("intact", 0, s.new_len) } ELSE {})
        \cup (IF s.resume THEN { D("resume", 0, s.new_len) } ELSE {})   \* continuation of a sync image
        \cup (IF s.has_new /\ s.trunc
              THEN { D("truncate", n, n) : n \in TruncPoints(s.new_len, s.bounds, s.dense) } ELSE {})
        \cup (IF s.has_new /\ s.inplace /\ s.nch >= 1
              THEN { D("mixture", j, L) : j \in 0..s.nch, L \in lens }
                   \ { D("mixture", 0, s.old_len), D("mixture", s.nch, s.new_len) }
              ELSE {})
        \cup (IF s.has_new /\ s.inplace /\ s.nch >= 2
              THEN { D("rollback", b, s.new_len) : b \in 1..s.nch } ELSE {})
        \cup (IF s.has_new /\ s.inplace /\ s.nch >= 2 /\ s.hdr_changed
              THEN { D("hdr_new_data_old", 0, L) : L \in lens }
                   \cup { D("data_new_hdr_old", 0, L) : L \in lens }
              ELSE {})

(* ------------------------------------------------------------------ PART 3 *)
VARIABLES sp,   \* sequence of op-boundary states of the recorded history:
                \*   [c |-> logical content, sync |-> BOOLEAN, valid |-> BOOLEAN]
                \* valid = FALSE: no readable structure existed there (a builder in progress)
          img   \* the image being reopened (a descriptor record) or NoImg

NoImg == [kind |-> "none"]

DInit == sp = <<>> /\ img = NoImg

(* history{syncpoints}: the logical content (read back through the public API)    *)
(* after every operation of the writing process; sync = TRUE at sync/finish       *)
History(points) ==
    /\ img = NoImg
    /\ Len(points) >= 1
    /\ sp' = points
    /\ UNCHANGED img

(* image{kind,k,j,len,upto}: the harness materialised descriptor d                *)
Image(d) ==
    /\ img = NoImg
    /\ d.kind \in Kinds
    /\ d.k \in 1..Len(sp)
    /\ d.upto \in 1..Len(sp)
    /\ d.len >= 0
    /\ img' = d
    /\ UNCHANGED sp

(* an undamaged image of a sync point: must open, with exactly that content *)
MustOpenIn(S, d) == d.kind = "intact" /\ S[d.k].sync /\ S[d.k].valid
VouchedIn(S, d) == { S[i].c : i \in { x \in 1..d.upto : S[x].valid } }

(* the judgement, as a function of the history S and the image descriptor d *)
ReopenAllowed(S, d, outcome, content, extent) ==
    /\ outcome \in {"ok", "err"}          \* signal / timeout / panic: never
    /\ outcome = "err" => ~MustOpenIn(S, d)
    /\ outcome = "ok" =>
         /\ IF MustOpenIn(S, d) THEN content = S[d.k].c ELSE content \in VouchedIn(S, d)
         /\ (IF extent = <<>> THEN TRUE ELSE extent[1] <= d.len)   \* every read inside the image

ReopenOK(outcome, content, extent) == img /= NoImg /\ ReopenAllowed(sp, img, outcome, content, extent)

Reopen(outcome, content, extent) ==
    /\ ReopenOK(outcome, content, extent)
    /\ img' = NoImg
    /\ UNCHANGED sp

(* resume{k, open, mode, ...}: REOPEN IS AN ACTION OF THE HISTORY, not only a final       *)
(* observation.  The undamaged image of sync point k is opened in one of the open modes /   *)
(* configurations the type offers, used further (appends: push / put / write), closed and   *)
(* opened again:                                                                            *)
(*   - the open must succeed and present exactly the synced content (len / stats / ids are  *)
(*     part of the content); a create-new mode over the existing file presents the content  *)
(*     of a new, empty structure (sp[1], the state right after creation);                   *)
(*   - what was stored before keeps its bytes (old1 = old0); the appended records get ids   *)
(*     that are new and pairwise different; len grows by exactly the number appended;       *)
(*   - a read-only mode appends nothing;                                                    *)
(*   - the second close + reopen presents exactly what the live object held (again = live). *)
CreateModes == {"create"}
SeqRange(q) == { q[i] : i \in 1..Len(q) }
ResumeOK(e) ==
    /\ img = NoImg
    /\ e.k \in 1..Len(sp) /\ sp[e.k].sync /\ sp[e.k].valid
    /\ e.open = "ok"
    /\ e.c0 = sp[IF e.mode \in CreateModes THEN 1 ELSE e.k].c
    /\ e.old1 = e.old0
    /\ e.len1 = e.len0 + e.added
    /\ (~e.writable) => e.added = 0
    /\ e.has_ids => /\ Len(e.new_ids) = e.added
                    /\ Cardinality(SeqRange(e.new_ids)) = Len(e.new_ids)
                    /\ SeqRange(e.new_ids) \cap SeqRange(e.ids0) = {}
    /\ e.again_open = "ok" /\ e.again = e.live
Resume(e) == ResumeOK(e) /\ UNCHANGED <<sp, img>>

(* regen{api, cap, truncated, pos, writes:[{off, data}], open, got}: A FILE CREATED OVER AN  *)
(* EXISTING ONE.  Generation 1 left a longer file full of 0xAA at the path; generation 2   *)
(* was created there (initial size cap), wrote `writes` in this order (seeks may leave     *)
(* gaps, all inside cap) and optionally truncated at its final position pos.  Reopened, the *)
(* file must hold exactly what generation 2 wrote: its length is pos when truncated, else   *)
(* cap; a byte is the last write that covers it, and a byte never written is what a fresh   *)
(* file holds: zero.  Nothing of generation 1 may show.                                     *)
RegenLen(e) == IF e.truncated THEN e.pos ELSE e.cap
RegenByte(e, i) ==
    LET W == { w \in 1..Len(e.writes) :
                 e.writes[w].off < i /\ i <= e.writes[w].off + Len(e.writes[w].data) }
    IN IF W = {} THEN 0
       ELSE LET w == CHOOSE x \in W : \A y \in W : y <= x
            IN e.writes[w].data[i - e.writes[w].off]
RegenExpected(e) == [i \in 1..RegenLen(e) |-> RegenByte(e, i)]
RegenOK(e) == e.open = "ok" /\ e.got = RegenExpected(e)
Regen(e) == RegenOK(e) /\ UNCHANGED <<sp, img>>

(* script{reader, size, base, seed, steps:[{a, n, ok, val, pos, rem}]}: ACCESS SCRIPTS.    *)
(* A pattern file (byte at offset i = PatByte(seed, i)) is read through one file-backed      *)
(* input type in one of several ways (sequential, skip first, seek + skip, first / last      *)
(* byte, alternating read / skip, skip(0), skip to exactly the end).  The reader views        *)
(* `size` bytes starting at file offset `base`.  HOW the content is read must not change     *)
(* WHAT is presented: the script is replayed on the abstract position p:                     *)
(*   read n   legal iff p + n <= size: succeeds with exactly the n pattern bytes at p,       *)
(*            p' = p + n; otherwise it is refused                                            *)
(*   skip n   legal iff p + n <= size: succeeds, p' = p + n; otherwise refused               *)
(*   seek a   a < size: succeeds, p' = a; a = size: either; a > size: refused                *)
(* and after every step position() = p' and remaining() = size - p' (-1 = not offered).      *)
(* A refusal ends the script.                                                                *)
PatByte(seed, i) == (i * 7 + (i \div 256) * 13 + seed) % 251
StepLegal(st, p, size) ==
    CASE st.a = "seek" -> st.n < size \/ (st.n = size /\ st.ok)
      [] OTHER -> p + st.n <= size
StepNext(st, p) == IF ~st.ok THEN p ELSE IF st.a = "seek" THEN st.n ELSE p + st.n
RECURSIVE ScriptFrom(_, _, _)
ScriptFrom(e, j, p) ==
    IF j > Len(e.steps) THEN TRUE
    ELSE LET st == e.steps[j]
             q == StepNext(st, p)
         IN /\ st.ok = StepLegal(st, p, e.size)
            /\ (st.ok /\ st.a = "read") =>
                   st.val = [x \in 1..st.n |-> PatByte(e.seed, e.base + p + x - 1)]
            /\ (st.pos = -1 \/ st.pos = q)
            /\ (st.rem = -1 \/ st.rem = e.size - q)
            /\ (~st.ok) => j = Len(e.steps)
            /\ ScriptFrom(e, j + 1, q)
ScriptOK(e) == ScriptFrom(e, 1, 0)
Script(e) == ScriptOK(e) /\ UNCHANGED <<sp, img>>

(* raw transports (io::mmap readers: a byte stream without header): the reader    *)
(* must present exactly the bytes of the image - nothing beyond the end of the    *)
(* file, nothing missing - and an undamaged sync image is the synced content      *)
RawReopenOK(outcome, content) ==
    /\ img /= NoImg
    /\ outcome \in {"ok", "err"}
    /\ outcome = "err" => ~MustOpenIn(sp, img)
    /\ outcome = "ok" => /\ content = img.raw
                         /\ MustOpenIn(sp, img) => content = sp[img.k].c

RawReopen(outcome, content) ==
    /\ RawReopenOK(outcome, content)
    /\ img' = NoImg
    /\ UNCHANGED sp
=============================================================================
