------------------------------- MODULE Deque -------------------------------
(* Contract of the FIFO ring buffers of zipora (property C10): FixedCircularQueue<T,N>, *)
(* AutoGrowCircularQueue<T> (and the source file circular_queue_ultrafast.rs).           *)
(*                                                                                      *)
(* A queue is a sequence that grows at the back and shrinks at the front - the state,    *)
(* the elements and the ownership rule (Flow) are those of Seq.tla.  In addition:        *)
(*   fixedcap   0 for a growable queue, N for a fixed-capacity queue: the push that      *)
(*              would exceed N must be refused and must change nothing.                  *)
(* Head/tail positions, wrap-around and reallocation are invisible here: whatever the    *)
(* ring does, the observable content must be this sequence.                              *)
EXTENDS Seq

VARIABLE fixedcap

dqvars == <<seqs, alive, ever, acct, fixedcap>>

DequeInit(a, n) == SeqInit(a) /\ fixedcap = n

Full(o) == fixedcap > 0 /\ Len(seqs[o]) >= fixedcap

PushBack(o, x, D, B) == ~Full(o) /\ Push(o, x, D, B) /\ UNCHANGED fixedcap
(* Err: nothing changes, the argument is destroyed.  The only answer allowed when full. *)
PushBackRefused(o, x, D, B) == PushRefused(o, x, D, B) /\ UNCHANGED fixedcap

(* pop_front: None exactly when empty, otherwise the oldest element *)
PopFront(o, r, D, B) ==
    LET s == seqs[o] IN
    /\ IF s = <<>> THEN r = None /\ Flow(seqs, {}, B, {}, D)
       ELSE r = Some(s[1]) /\ Flow(With(o, Tail(s)), {}, B, {s[1]}, D)
    /\ UNCHANGED fixedcap

(* push_bulk(&xs): xs stay with the caller, clones are appended in order; r = number pushed, *)
(* c = content reported after the call                                                       *)
PushBulk(o, xs, r, c, D, B) ==
    LET s == seqs[o] IN
    /\ r = Len(xs)
    /\ fixedcap > 0 => Len(s) + Len(xs) <= fixedcap
    /\ Len(c) = Len(s) + Len(xs) /\ SubSeq(c, 1, Len(s)) = s
    /\ \A i \in 1..Len(xs) : c[Len(s) + i][1] = xs[i][1] /\ (acct => c[Len(s) + i] \in B)
    /\ Flow(With(o, c), {}, B, {}, D)
    /\ UNCHANGED fixedcap
PushBulkRefused(o, D, B) == Flow(seqs, {}, B, {}, D) /\ UNCHANGED fixedcap

(* pop_bulk(&mut out): out is a caller-owned buffer holding the elements F before the call;   *)
(* the first r = min(len(out), len) slots are overwritten (their old values are destroyed)    *)
(* with the r oldest elements in order, the other slots keep their value.                     *)
PopBulk(o, F, out, r, D, B) ==
    LET s == seqs[o] IN
    /\ r = Min2(Len(F), Len(s))
    /\ Len(out) = Len(F)
    /\ \A i \in 1..Len(F) : out[i] = (IF i <= r THEN s[i] ELSE F[i])
    /\ Flow(With(o, SubSeq(s, r + 1, Len(s))), Elems(F), B, Elems(out), D)
    /\ UNCHANGED fixedcap

ReserveQ(o, D, B) == Maintenance(o, D, B) /\ UNCHANGED fixedcap
ClearQ(o, D, B) == Clear(o, D, B) /\ UNCHANGED fixedcap
CloneQ(o, o2, c, D, B) == Clone(o, o2, c, D, B) /\ UNCHANGED fixedcap
DropQ(o, D, B) == DropContainer(o, D, B) /\ UNCHANGED fixedcap

(* ---- observation of one queue after a call --------------------------------- *)
(* p = [len, cap, front, back, has_c, c (the elements in order, as the Debug formatter walks *)
(*      them - the only non-destructive full view the queues offer)]                         *)
ObsEnds(s, p) ==
    /\ p.len = Len(s)
    (* twins: is_empty / statistics agree with len(), statistics with capacity(), is_full with len = capacity *)
    /\ \A i \in 1..Len(p.alt_len) : p.alt_len[i] = Len(s)
    /\ \A i \in 1..Len(p.alt_cap) : p.alt_cap[i] = p.cap
    /\ p.has_full => p.full = (Len(s) = p.cap)
    /\ p.front = (IF s = <<>> THEN None ELSE Some(s[1]))
    /\ p.back = (IF s = <<>> THEN None ELSE Some(s[Len(s)]))
    /\ p.cap >= Len(s)
    /\ fixedcap > 0 => p.cap = fixedcap
ObsDeque(s, p) == ObsEnds(s, p) /\ (p.has_c => p.c = s)

(* ---- properties of the contract itself (checked by MC_Deque) ---------------- *)
CapacityInv == fixedcap > 0 => \A o \in DOMAIN seqs : Len(seqs[o]) <= fixedcap
=============================================================================
