------------------------------ MODULE Allocator ------------------------------
(* Contract of every memory pool / allocator of zipora (property C07; reused by   *)
(* C08 for concurrent runs: events may carry a thread id t, the contract is about  *)
(* the set of live ranges only).                                                   *)
(*                                                                                 *)
(* State: live, a finite function from block ids to the range the pool handed out  *)
(*   live[b] = [lo, hi, req, len, align]                                           *)
(*     lo, hi   the byte range [lo, hi) the caller may use.  In recorded traces    *)
(*              these are ORDER-PRESERVING RANKS of the real addresses (all end     *)
(*              points of one run sorted and replaced by their rank): overlap and   *)
(*              containment are order properties and survive compression exactly.  *)
(*     req      bytes requested (plain integer)                                    *)
(*     len      bytes usable = real hi - real lo (plain integer)                   *)
(*     align    alignment requested or configured                                  *)
(* pend: a rejected bad free (double / foreign) happened and the pool has not yet  *)
(*   shown to be usable again (no successful allocation or release since; an       *)
(*   exhausted pool may go on refusing allocations).                               *)
(*                                                                                 *)
(* Every public operation is one action whose parameters are the arguments AND     *)
(* the result the implementation returned; the action is enabled exactly for the   *)
(* results the property allows.  Refusal rule: an allocation may always be refused *)
(* (AllocErr) - but a success beyond the stated capacity, overlapping a live       *)
(* block, outside the pool's region, too short or misaligned is never accepted.    *)
EXTENDS Naturals, Integers, Sequences, FiniteSets, Opt
LOCAL INSTANCE FiniteSetsExt   \* FoldSet

VARIABLES live, pend

Empty == [x \in {} |-> 0]

AllocInit == live = Empty /\ pend = FALSE

Blk(lo, hi, req, len, align) == [lo |-> lo, hi |-> hi, req |-> req, len |-> len, align |-> align]

(* half-open ranges [alo, ahi) and [blo, bhi) share a byte *)
Meets(alo, ahi, blo, bhi) == alo < bhi /\ blo < ahi

OverlapsLive(lo, hi) == \E b \in DOMAIN live : Meets(lo, hi, live[b].lo, live[b].hi)

(* bytes in use = sum of the usable lengths of the live blocks *)
InUse == FoldSet(LAMBDA b, acc : live[b].len + acc, 0, DOMAIN live)

Without(S) == [x \in DOMAIN live \ S |-> live[x]]
With(b, r) == [x \in DOMAIN live \cup {b} |-> IF x = b THEN r ELSE live[x]]

(* the individual requirements on a successful allocation (named: the deviation    *)
(* actions of Known_Allocator drop exactly one of them)                            *)
FreshId(b)            == b \notin DOMAIN live
LongEnough(req, len)  == len >= req
WellFormed(lo, hi, len) == (len > 0) <=> (lo < hi)
Aligned(mis)          == mis = 0
(* reg: None, or Some(<<rlo, rhi>>) - the arena / chunk the pool owns for this block *)
InRegion(lo, hi, reg) == reg # None => (reg[1][1] <= lo /\ hi <= reg[1][2])
(* cap: None, or Some(bytes) - the capacity the pool states *)
WithinCapacity(len, cap) == cap # None => InUse + len <= cap[1]
(* span: None, or Some(bytes) - for a pool that owns ONE arena of cap bytes: the distance from the   *)
(* lowest address to the highest end address of all blocks it has handed out so far (this one        *)
(* included).  Everything the pool issues lies inside its arena, so the span cannot exceed cap.      *)
WithinArena(span, cap) == (span # None /\ cap # None) => span[1] <= cap[1]
Disjoint(lo, hi)      == ~OverlapsLive(lo, hi)

(* allocate(req, align) -> Ok: block b = [lo, hi), len usable bytes, mis = address mod align *)
AllocOk(b, req, len, align, mis, lo, hi, reg, cap, span) ==
    /\ FreshId(b)
    /\ LongEnough(req, len)
    /\ WellFormed(lo, hi, len)
    /\ Aligned(mis)
    /\ InRegion(lo, hi, reg)
    /\ WithinCapacity(len, cap)
    /\ WithinArena(span, cap)
    /\ Disjoint(lo, hi)
    /\ live' = With(b, Blk(lo, hi, req, len, align))
    /\ pend' = FALSE

(* allocate -> Err / None: a refusal, nothing changes (always allowed) *)
AllocErr == UNCHANGED <<live, pend>>

(* free of a live block must succeed and removes it (a pool that still does that is usable) *)
Free(b, ok) ==
    /\ b \in DOMAIN live
    /\ ok = TRUE
    /\ live' = Without({b})
    /\ pend' = FALSE

(* en-bloc release (arena reset, scope drop): all blocks of S are live and vanish *)
Release(S) ==
    /\ S \subseteq DOMAIN live
    /\ live' = Without(S)
    /\ UNCHANGED pend

(* the harness filled every block with a block-specific pattern when it was allocated and  *)
(* re-read it now: r = sequence of <<block, intact>>; every one is live and intact          *)
TouchAll(r) ==
    /\ \A i \in 1..Len(r) : r[i][1] \in DOMAIN live /\ r[i][2] = TRUE
    /\ UNCHANGED <<live, pend>>
Touch(b, intact) == TouchAll(<<<<b, intact>>>>)

(* second free of a block that is no longer live: must be reported as an error *)
DoubleFree(b, ok) ==
    /\ b \notin DOMAIN live
    /\ ok = FALSE
    /\ pend' = TRUE
    /\ UNCHANGED live

(* free of a pointer the pool never issued: must be reported as an error *)
ForeignFree(ok) ==
    /\ ok = FALSE
    /\ pend' = TRUE
    /\ UNCHANGED live

(* statistics, validate(), clear() of cached free chunks ...: live blocks are not affected *)
Maintenance == UNCHANGED <<live, pend>>

(* end of a run: after a rejected bad free the pool has served an allocation or a release again *)
EndRun == pend = FALSE /\ UNCHANGED <<live, pend>>

(* ---- properties ---- *)
NoOverlap == \A a, b \in DOMAIN live : a # b => ~Meets(live[a].lo, live[a].hi, live[b].lo, live[b].hi)
SizesOk   == \A b \in DOMAIN live : live[b].len >= live[b].req /\ ((live[b].len > 0) <=> (live[b].lo < live[b].hi))
TypeOK    == /\ pend \in BOOLEAN
             /\ \A b \in DOMAIN live : /\ live[b].lo \in Nat /\ live[b].hi \in Nat
                                       /\ live[b].req \in Nat /\ live[b].len \in Nat
=============================================================================
