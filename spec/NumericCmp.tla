----------------------------- MODULE NumericCmp -----------------------------
(* Numeric order of decimal and real-number strings (property C20,                     *)
(* src/string/numeric_compare.rs: decimal_strcmp, realnum_strcmp, *_with_sign).         *)
(*                                                                                     *)
(* Strings are byte sequences (ASCII codes).                                           *)
(*   decimal   sign? digit+                                                            *)
(*   real      sign? digit* ( "." digit* )?      with at least one digit               *)
(* ("Optional leading sign (+/-)", "At most one decimal point", "No scientific          *)
(* notation", "Returns None for invalid numeric strings").  Strings of the real         *)
(* grammar WITHOUT any digit ("", "+", "-", ".", "+.", "-.") denote no number; the API   *)
(* does not say whether "." is accepted, so for them (GrayReal) the contract accepts     *)
(* any answer.  Everything else that is not valid must be rejected (None, logged as 2).  *)
(*                                                                                     *)
(* The order is defined on NORMALISED digit sequences: strip the leading zeros of the   *)
(* integer part, pad the integer parts on the left and the fractions on the right with  *)
(* '0' to equal length, compare the concatenation lexicographically, then apply the     *)
(* sign; a zero magnitude is 0 whatever its sign (-0 = 0 = +0).                         *)
EXTENDS Naturals, Integers, Sequences, FiniteSets

Plus == 43
Minus == 45
Dot == 46
Zero == 48
IsDigit(c) == c \in 48..57

HasSign(s) == Len(s) >= 1 /\ s[1] \in {Plus, Minus}
Body(s) == IF HasSign(s) THEN Tail(s) ELSE s
Negative(s) == Len(s) >= 1 /\ s[1] = Minus

AllDigits(b) == \A i \in 1..Len(b) : IsDigit(b[i])
DotCount(b) == Cardinality({ i \in 1..Len(b) : b[i] = Dot })
DigitCount(b) == Cardinality({ i \in 1..Len(b) : IsDigit(b[i]) })

ValidDecimalBody(b) == Len(b) >= 1 /\ AllDigits(b)
RealShape(b) == (\A i \in 1..Len(b) : IsDigit(b[i]) \/ b[i] = Dot) /\ DotCount(b) <= 1
ValidRealBody(b) == RealShape(b) /\ DigitCount(b) >= 1
ValidDecimal(s) == ValidDecimalBody(Body(s))
ValidReal(s) == ValidRealBody(Body(s))
GrayReal(s) == RealShape(Body(s)) /\ DigitCount(Body(s)) = 0

(* integer part and fraction of a body *)
DotPos(b) == IF DotCount(b) = 0 THEN Len(b) + 1 ELSE CHOOSE i \in 1..Len(b) : b[i] = Dot
IntPart(b) == SubSeq(b, 1, DotPos(b) - 1)
FracPart(b) == SubSeq(b, DotPos(b) + 1, Len(b))

RECURSIVE StripLeadingZeros(_)
StripLeadingZeros(d) == IF Len(d) > 0 /\ d[1] = Zero THEN StripLeadingZeros(Tail(d)) ELSE d
Zeros(n) == [i \in 1..n |-> Zero]
PadLeft(d, n) == Zeros(n - Len(d)) \o d
PadRight(d, n) == d \o Zeros(n - Len(d))
MaxI(a, b) == IF a < b THEN b ELSE a

(* lexicographic comparison of two digit sequences of EQUAL length *)
RECURSIVE DigCmp(_, _, _)
DigCmp(x, y, i) == IF i > Len(x) THEN 0
                   ELSE IF x[i] < y[i] THEN -1 ELSE IF x[i] > y[i] THEN 1 ELSE DigCmp(x, y, i + 1)

IsZeroBody(b) == \A i \in 1..Len(b) : b[i] = Zero \/ b[i] = Dot

(* magnitudes of two bodies (decimal bodies are reals without a dot) *)
MagCmp(a, b) ==
    LET ia == StripLeadingZeros(IntPart(a))
        ib == StripLeadingZeros(IntPart(b))
        ni == MaxI(Len(ia), Len(ib))
        nf == MaxI(Len(FracPart(a)), Len(FracPart(b)))
        ka == PadLeft(ia, ni) \o PadRight(FracPart(a), nf)
        kb == PadLeft(ib, ni) \o PadRight(FracPart(b), nf)
    IN DigCmp(ka, kb, 1)

(* value order of two bodies with explicit sign flags (the *_with_sign functions) *)
SignedCmp(a, aneg, b, bneg) ==
    LET an == aneg /\ ~IsZeroBody(a)          \* -0 = 0
        bn == bneg /\ ~IsZeroBody(b)
    IN IF an /\ ~bn THEN -1
       ELSE IF ~an /\ bn THEN 1
       ELSE IF an THEN -MagCmp(a, b) ELSE MagCmp(a, b)

ValueCmp(a, b) == SignedCmp(Body(a), Negative(a), Body(b), Negative(b))

(* what decimal_strcmp / realnum_strcmp may return for (a, b): 2 encodes None *)
DecimalAnswerOK(a, b, r) ==
    IF ValidDecimal(a) /\ ValidDecimal(b) THEN r = ValueCmp(a, b) ELSE r = 2
RealAnswerOK(a, b, r) ==
    IF ValidReal(a) /\ ValidReal(b) THEN r = ValueCmp(a, b)
    ELSE IF (ValidReal(a) \/ GrayReal(a)) /\ (ValidReal(b) \/ GrayReal(b)) THEN r \in {-1, 0, 1, 2}
    ELSE r = 2

(* ---------------------------------------------------------------- laws (model-checked in MC_NumericCmp) *)
(* a total preorder whose equivalence is "same value": antisymmetry, transitivity, and equal values  *)
(* written differently compare Equal                                                               *)
TotalOrderOn(V) ==
    /\ \A a \in V : ValueCmp(a, a) = 0
    /\ \A a \in V : \A b \in V : ValueCmp(a, b) = -ValueCmp(b, a)
    /\ \A a \in V : \A b \in V : \A c \in V :
          (ValueCmp(a, b) <= 0 /\ ValueCmp(b, c) <= 0) =>
              /\ ValueCmp(a, c) <= 0
              /\ (ValueCmp(a, c) = 0 => ValueCmp(a, b) = 0 /\ ValueCmp(b, c) = 0)

(* ---------------------------------------------------------------- contracts of batch events *)
(* m[i][j] = what the function returned for (a[i], b[j]); 2 encodes None *)
IsMatrix(a, b, m) == Len(m) = Len(a) /\ \A i \in 1..Len(m) : Len(m[i]) = Len(b)
DecimalMatrixOK(a, b, m) ==
    IsMatrix(a, b, m) /\ \A i \in 1..Len(a) : \A j \in 1..Len(b) : DecimalAnswerOK(a[i], b[j], m[i][j])
RealMatrixOK(a, b, m) ==
    IsMatrix(a, b, m) /\ \A i \in 1..Len(a) : \A j \in 1..Len(b) : RealAnswerOK(a[i], b[j], m[i][j])
(* *_with_sign(x, x_neg, y, y_neg): pool entries are records [b |-> body, neg |-> flag]; bodies are  *)
(* valid by construction ("digits only, no sign"); the function cannot refuse                        *)
SignedMatrixOK(a, b, m, real) ==
    /\ IsMatrix(a, b, m)
    /\ \A i \in 1..Len(a) : IF real THEN ValidRealBody(a[i].b) ELSE ValidDecimalBody(a[i].b)
    /\ \A j \in 1..Len(b) : IF real THEN ValidRealBody(b[j].b) ELSE ValidDecimalBody(b[j].b)
    /\ \A i \in 1..Len(a) : \A j \in 1..Len(b) :
          m[i][j] = SignedCmp(a[i].b, a[i].neg, b[j].b, b[j].neg)
(* redundantly, on a logged SQUARE matrix alone: restricted to the rows/columns that were accepted   *)
(* (answer # 2 on the diagonal) the matrix is a total preorder                                       *)
MatrixOrderLaws(m) ==
    LET n == Len(m)
        V == { i \in 1..n : m[i][i] # 2 }
    IN /\ \A i \in V : m[i][i] = 0
       /\ \A i \in V : \A j \in V : m[i][j] # 2 /\ m[i][j] = -m[j][i]
       /\ \A i \in V : \A j \in V : m[i][j] <= 0 =>
              \A k \in V : m[j][k] <= 0 => /\ m[i][k] <= 0
                                           /\ (m[i][k] = 0 => m[i][j] = 0 /\ m[j][k] = 0)
=============================================================================
