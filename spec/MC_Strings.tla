----------------------------- MODULE MC_Strings -----------------------------
(* Coherence of the definitions of Strings.tla on a small domain: every byte string    *)
(* over Alphabet up to length MaxLen.  One state per string a; the invariants quantify     *)
(* over the other strings.                                                              *)
(*   - the executable forms (Cmp, Find, CommonPrefixLen, Join, Split, RawLines) agree    *)
(*     with the definitional forms (CmpDef/LexLess, IsFind, CommonPrefixLenDef, IsJoin,   *)
(*     IsRawLines)                                                                        *)
(*   - Cmp is a total order whose equality is Eq (reflexive, antisymmetric, transitive,   *)
(*     total), a proper prefix sorts first, unsigned byte order decides                    *)
EXTENDS Strings, TLC

CONSTANTS Alphabet, MaxLen

Dom == UNION { [1..n -> Alphabet] : n \in 0..MaxLen }
NonEmptyDom == Dom \ { <<>> }

(* the states are the strings themselves, reached by appending one symbol (a trie), so that   *)
(* the invariants of different strings are evaluated by different workers                    *)
VARIABLE a
Init == a = <<>>
Next == Len(a) < MaxLen /\ \E x \in Alphabet : a' = Append(a, x)
Spec == Init /\ [][Next]_a

CmpAgrees == \A b \in Dom : Cmp(a, b) = CmpDef(a, b) /\ (Cmp(a, b) = 0) = Eq(a, b) /\ Eq(a, b) = (a = b)
CmpTotalOrder ==
    /\ Cmp(a, a) = 0
    /\ \A b \in Dom : Cmp(a, b) = -Cmp(b, a) /\ (Cmp(a, b) = 0 => a = b)
    /\ \A b \in Dom : Cmp(a, b) <= 0 => \A c \in Dom : Cmp(b, c) <= 0 => Cmp(a, c) <= 0
CmpUnsigned ==
    /\ \A b \in Dom : (StartsWith(b, a) /\ a # b) => Cmp(a, b) = -1                \* proper prefix first
    /\ \A x \in Alphabet : \A y \in Alphabet : x < y => \A b \in Dom :
           (Len(a) < MaxLen /\ Len(b) < MaxLen) => Cmp(Append(a, x) , Append(a, y) \o b) = -1
PrefixCoherent ==
    \A b \in Dom : /\ CommonPrefixLenDef(a, b, CommonPrefixLen(a, b))
                   /\ StartsWith(a, b) = (CommonPrefixLen(a, b) = Len(b))
                   /\ StartsWith(a, b) = OccursAt(a, b, 0)
                   /\ EndsWith(a, b) = (Len(b) <= Len(a) /\ OccursAt(a, b, Len(a) - Len(b)))
                   /\ StartsWith(a, b) = (Prefix(a, Len(b)) = b)
                   /\ EndsWith(a, b) = (Suffix(a, Len(b)) = b)
FindCoherent ==
    \A b \in Dom : /\ IsFind(a, b, Find(a, b))
                   /\ (Find(a, b) >= 0) => Slice(a, Find(a, b), Len(b)) = b
SliceCoherent ==
    \A s \in 0..Len(a) : \A n \in 0..(MaxLen + 1) :
        /\ Len(Slice(a, s, n)) = MinI(n, Len(a) - s)
        /\ \A i \in 1..Len(Slice(a, s, n)) : Slice(a, s, n)[i] = a[s + i]
        /\ Prefix(a, n) = Slice(a, 0, n)
        /\ SliceFrom(a, s) = Slice(a, s, Len(a))
        /\ Prefix(a, s) \o SliceFrom(a, s) = a
JoinCoherent ==
    \A b \in Dom : \A c \in Dom :
        /\ IsJoin(b, <<a, c>>, Join(b, <<a, c>>))
        /\ IsJoin(b, <<a, c, a>>, Join(b, <<a, c, a>>))
        /\ IsJoin(b, <<a>>, Join(b, <<a>>)) /\ Join(b, <<a>>) = a
        /\ Join(b, <<>>) = <<>>
        /\ Join(<<>>, <<a, c>>) = a \o c
SplitCoherent ==
    \A d \in NonEmptyDom :
        /\ Join(d, Split(a, d)) = a
        /\ \A i \in 1..Len(Split(a, d)) : Find(Split(a, d)[i], d) = -1 \/ Len(d) > 1
        /\ (Find(a, d) = -1) = (Split(a, d) = <<a>>)
LinesCoherent ==
    /\ IsRawLines(a, RawLines(a))
    /\ Len(RawLines(a)) = Cardinality(LfPositions(a)) + (IF Len(a) > 0 /\ a[Len(a)] # LF THEN 1 ELSE 0)
    /\ Lines(a, TRUE, FALSE, FALSE) = RawLines(a)
    /\ \A i \in 1..Len(RawLines(a)) :
          LET ln == Lines(a, FALSE, FALSE, FALSE)[i] IN
          /\ \A j \in 1..Len(ln) : ln[j] # LF
          /\ StartsWith(RawLines(a)[i], ln)
          /\ Len(RawLines(a)[i]) - Len(ln) \in {0, 1, 2}
    /\ \A i \in 1..Len(Lines(a, FALSE, TRUE, TRUE)) : LET ln == Lines(a, FALSE, TRUE, TRUE)[i] IN
          Len(ln) > 0 /\ ~IsSpace(ln[1]) /\ ~IsSpace(ln[Len(ln)])
WordsCoherent ==
    /\ RunStarts(a) = { r[1] : r \in WordRuns(a) }
    /\ RunEnds(a) = { r[2] : r \in WordRuns(a) }
    /\ Cardinality(RunStarts(a)) = Cardinality(WordRuns(a))
    /\ \A p \in 0..Len(a) : (p \in RunStarts(a) \/ p \in RunEnds(a)) => IsWordBoundary(a, p)
(* UTF-8: code point lengths add up to the byte length, character starts are exactly the non-        *)
(* continuation bytes, decoding distributes over concatenation, the lead byte announces the length    *)
EncLen(cp) == IF cp < 128 THEN 1 ELSE IF cp < 2048 THEN 2 ELSE IF cp < 65536 THEN 3 ELSE 4
RECURSIVE SumEnc(_, _)
SumEnc(d, i) == IF i > Len(d) THEN 0 ELSE EncLen(d[i]) + SumEnc(d, i + 1)
Utf8Coherent ==
    /\ Len(a) > 0 => SeqLenAt(a, 1) \in {0, LeadByteLen(a[1])}
    /\ IsUtf8(a) =>
          /\ SumEnc(Decode(a), 1) = Len(a)
          /\ Len(CharStarts(a)) = CharCount(a)
          /\ { CharStarts(a)[i] : i \in 1..Len(CharStarts(a)) } = { p \in 0..(Len(a) - 1) : ~IsCont(a[p + 1]) }
          /\ \A i \in 1..CharCount(a) : Decode(a)[i] \in 0..1114111 /\ Decode(a)[i] \notin 55296..57343
          /\ BackToBoundary(a, Len(a)) = Len(a)
          /\ \A b \in { x \in Dom : Len(x) <= 2 } : IsUtf8(b) => Decode(a \o b) = Decode(a) \o Decode(b)
    /\ (Len(a) > 0 /\ a[1] \in {128, 130, 159, 169}) => ~IsUtf8(a)            \* a continuation byte cannot start a string
CaseCoherent ==
    /\ ToLower(ToUpper(a)) = ToLower(a) /\ ToUpper(ToLower(a)) = ToUpper(a)
    /\ ToLower(ToLower(a)) = ToLower(a)
    /\ \A i \in 1..Len(a) : (ToLower(a)[i] # a[i]) => (a[i] \in 65..90 /\ ToLower(a)[i] = a[i] + 32)
    /\ \A i \in 1..Len(a) : (ToUpper(a)[i] # a[i]) => (a[i] \in 97..122 /\ ToUpper(a)[i] = a[i] - 32)
=============================================================================
