SPECIFICATION Spec
CONSTANTS
  N = 5
  Max = 2
  Variant = "code"
  Mode = "conc"
INVARIANT NoDup NoLoss OrderKept SizeBound Conforms EndOk
CHECK_DEADLOCK FALSE
