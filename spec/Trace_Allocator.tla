--------------------------- MODULE Trace_Allocator ---------------------------
(* Trace specification: replays a recorded execution of a real zipora pool /      *)
(* allocator through the actions of Allocator.tla, one event = one action.        *)
(* Addresses in the events are order-preserving ranks computed per run by the      *)
(* harness; sizes (req, len), the capacity and `mis` = address mod alignment are    *)
(* plain integers.  There is no action for a panic, a crash (signal) or a timeout   *)
(* of the code under test: such an event is rejected.                               *)
EXTENDS Allocator, TraceIO, Known_Allocator

VARIABLES l, subj, kf

vars == <<live, pend, l, subj, kf>>

TraceInit == AllocInit /\ l = 1 /\ subj = [subject |-> "none"] /\ kf = {}

Step(e) ==
    \/ e.op = "alloc" /\ e.ok  /\ AllocOk(e.b, e.req, e.len, e.align, e.mis, e.lo, e.hi, e.reg, e.cap, e.span)
    \/ e.op = "alloc" /\ ~e.ok /\ AllocErr
    \/ e.op = "alloc_refused" /\ e.served = 0 /\ AllocErr
    \/ e.op = "free"    /\ Free(e.b, e.ok)
    \/ e.op = "release" /\ Release(Range(e.bs))
    \/ e.op = "touch"   /\ TouchAll(e.r)
    \/ e.op = "dfree"   /\ DoubleFree(e.b, e.ok)
    \/ e.op = "ffree"   /\ ForeignFree(e.ok)
    \/ e.op = "maintenance" /\ Maintenance
    \/ e.op = "end"     /\ EndRun

TraceNext ==
    /\ l <= Len(Rec)
    /\ l' = l + 1
    /\ LET e == Rec[l] IN
       IF e.op = "reset"
       THEN live' = Empty /\ pend' = FALSE /\ subj' = e /\ kf' = kf
       ELSE /\ subj' = subj
            /\ IF UseKF /\ \E id \in KnownIds : DevApplies(id, e, subj)
               THEN \E id \in KnownIds : KnownDeviation(id, e, subj) /\ kf' = kf \cup {id}
               ELSE Step(e) /\ kf' = kf

TraceSpec == TraceInit /\ [][TraceNext]_vars

(* reported only on a path that consumed the whole trace *)
Done == l = Len(Rec) + 1 => PrintT(<<"KFSET", kf>>)
=============================================================================
