------------------------------- MODULE MC_Seq -------------------------------
(* Bounded model of the vector contract Seq.tla: every operation, with the       *)
(* canonical drop list a correct implementation produces, over at most two       *)
(* objects (the second one is a clone that later diverges).  Elements are        *)
(* numbered by a counter: the k-th element created has value = instance = k.     *)
(* TLC checks the ownership invariant and the laws below on every reachable      *)
(* state; MC_SeqGen adds a history variable and prints every history (B2).       *)
EXTENDS Seq

CONSTANTS MaxLen,   \* no generated operation makes a vector longer than this
          MaxId,    \* bound on the element counter (state constraint of the law model)
          Ops       \* the operations enabled in this model
VARIABLE nv

mcvars == <<seqs, alive, ever, acct, nv>>

S(o) == seqs[o]
LenOf(o) == Len(seqs[o])
Fresh(k) == <<nv + k, nv + k>>
LastOpt(s) == IF s = <<>> THEN None ELSE Some(s[Len(s)])

DoPush(o) == /\ "push" \in Ops /\ LenOf(o) < MaxLen
             /\ Push(o, Fresh(0), <<>>, {}) /\ nv' = nv + 1
DoPop(o) == "pop" \in Ops /\ Pop(o, LastOpt(S(o)), <<>>, {}) /\ nv' = nv
DoInsert(o, i) ==
    /\ "insert" \in Ops /\ LenOf(o) < MaxLen /\ i \in 0..(LenOf(o) + 1)
    /\ IF i <= LenOf(o) THEN Insert(o, i, Fresh(0), <<>>, {}) ELSE InsertRefused(o, i, Fresh(0), <<Fresh(0)>>, {})
    /\ nv' = nv + 1
DoRemove(o, i) ==
    /\ "remove" \in Ops /\ i \in 0..LenOf(o)
    /\ IF i < LenOf(o) THEN Remove(o, i, S(o)[i + 1], <<>>, {}) ELSE RemoveRefused(o, i, <<>>, {})
    /\ nv' = nv
DoSet(o, i) ==
    /\ "set" \in Ops /\ i \in 0..LenOf(o)
    /\ IF i < LenOf(o) THEN Set(o, i, Fresh(0), <<S(o)[i + 1]>>, {}) ELSE SetRefused(o, i, Fresh(0), <<Fresh(0)>>, {})
    /\ nv' = nv + 1
ResizeTail(o, n) == [j \in 1..(n - LenOf(o)) |-> <<nv, nv + j>>]
DoResize(o, n) ==
    /\ "resize" \in Ops /\ n \in 0..MaxLen
    /\ IF n <= LenOf(o)
       THEN Resize(o, n, Fresh(0), SubSeq(S(o), 1, n), SubSeq(S(o), n + 1, LenOf(o)) \o <<Fresh(0)>>, {}) /\ nv' = nv + 1
       ELSE Resize(o, n, Fresh(0), S(o) \o ResizeTail(o, n), <<Fresh(0)>>, Elems(ResizeTail(o, n))) /\ nv' = nv + 1 + (n - LenOf(o))
WithTail(o, n) == [j \in 1..(n - LenOf(o)) |-> Fresh(j - 1)]
DoResizeWith(o, n) ==
    /\ "resize_with" \in Ops /\ n \in 0..MaxLen
    /\ IF n <= LenOf(o)
       THEN ResizeWith(o, n, <<>>, SubSeq(S(o), n + 1, LenOf(o)), {}) /\ nv' = nv
       ELSE ResizeWith(o, n, WithTail(o, n), <<>>, {}) /\ nv' = nv + (n - LenOf(o))
DoExtendMove(o) ==
    /\ "extend_move" \in Ops /\ LenOf(o) + 2 <= MaxLen
    /\ ExtendMove(o, <<Fresh(0), Fresh(1)>>, <<>>, {}) /\ nv' = nv + 2
CloneTail2 == <<<<nv, nv + 2>>, <<nv + 1, nv + 3>>>>
DoExtendClone(o) ==
    /\ "extend_clone" \in Ops /\ LenOf(o) + 2 <= MaxLen
    /\ ExtendClone(o, <<Fresh(0), Fresh(1)>>, S(o) \o CloneTail2, <<>>, Elems(CloneTail2)) /\ nv' = nv + 4
DoClear(o) == "clear" \in Ops /\ Clear(o, S(o), {}) /\ nv' = nv
DoTruncate(o, n) ==
    /\ "truncate" \in Ops /\ n \in 0..(LenOf(o) + 1)
    /\ Truncate(o, n, SubSeq(S(o), n + 1, LenOf(o)), {}) /\ nv' = nv
DoShrink(o) == "shrink" \in Ops /\ Maintenance(o, <<>>, {}) /\ nv' = nv
CloneOf(s) == [i \in 1..Len(s) |-> <<s[i][1], nv + i - 1>>]
DoClone == /\ "clone" \in Ops /\ DOMAIN seqs = {1}
           /\ Clone(1, 2, CloneOf(S(1)), <<>>, Elems(CloneOf(S(1)))) /\ nv' = nv + LenOf(1)
DoDrop == /\ "drop" \in Ops /\ 2 \in DOMAIN seqs
          /\ DropContainer(2, S(2), {}) /\ nv' = nv

Next ==
    \/ \E o \in DOMAIN seqs :
        \/ DoPush(o) \/ DoPop(o) \/ DoClear(o) \/ DoShrink(o) \/ DoExtendMove(o) \/ DoExtendClone(o)
        \/ \E i \in 0..(MaxLen + 1) : DoInsert(o, i) \/ DoRemove(o, i) \/ DoSet(o, i) \/ DoTruncate(o, i) \/ DoResize(o, i) \/ DoResizeWith(o, i)
    \/ DoClone
    \/ DoDrop

Init == SeqInit(TRUE) /\ nv = 1
Spec == Init /\ [][Next]_mcvars

Bound == nv <= MaxId

(* ---- what TLC checks ---- *)
TypeInv == /\ DOMAIN seqs \subseteq {1, 2} /\ 1 \in DOMAIN seqs
           /\ \A o \in DOMAIN seqs : Len(seqs[o]) <= MaxLen
           /\ \A e \in ever : e[2] < nv
(* a destroyed element never comes back *)
NoResurrection == [][(ever \ alive) \subseteq (ever' \ alive')]_mcvars
(* one call changes at most one object: a clone is independent of its source *)
OneObjectPerCall == [][Cardinality({ o \in DOMAIN seqs \cap DOMAIN seqs' : seqs[o] # seqs'[o] }) <= 1]_mcvars
(* the relative order of the elements that stay in an object never changes, except by nothing *)
OrderKept == [][\A o \in DOMAIN seqs \cap DOMAIN seqs' :
                  \A a, b \in Elems(seqs[o]) \cap Elems(seqs'[o]) :
                      (\E i, j \in 1..Len(seqs[o]) : i < j /\ seqs[o][i] = a /\ seqs[o][j] = b)
                      => (\E i, j \in 1..Len(seqs'[o]) : i < j /\ seqs'[o][i] = a /\ seqs'[o][j] = b)]_mcvars
=============================================================================
