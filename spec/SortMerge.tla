----------------------------- MODULE SortMerge -----------------------------
(* Contract of every sorting and merging entry point of zipora (property C11).    *)
(*                                                                                *)
(* The contract is functional (no abstract state): one batch event carries the    *)
(* input and the output of one call, and the predicates below say which outputs   *)
(* the mathematics allows.  They are the ORACLE: TLC evaluates them on what the    *)
(* real code returned; the harness computes no sorted order of its own.           *)
(*                                                                                *)
(* Keys (field kt of an event):                                                   *)
(*   "int"    TLC integers (i32, and u32 values below 2^31)                       *)
(*   "limbs"  u64 / large u32 as four 16-bit limbs, most significant first        *)
(*   "bytes"  byte strings as sequences of 0..255, lexicographic by unsigned byte,*)
(*            a proper prefix before its extensions                               *)
(* ord = "asc" | "desc" (a caller-supplied reversed comparator).                  *)
(* Key-value elements are pairs <<key, value>>; only the key is ordered.          *)
EXTENDS Naturals, Integers, Sequences, FiniteSets, Limbs

Min2(x, y) == IF x < y THEN x ELSE y
Max2(x, y) == IF x < y THEN y ELSE x

(* ------------------------------------------------------------------ key order *)
BLess(a, b) ==
    \/ \E i \in 1..Min2(Len(a), Len(b)) : /\ a[i] < b[i]
                                          /\ \A j \in 1..(i - 1) : a[j] = b[j]
    \/ /\ Len(a) < Len(b)
       /\ \A j \in 1..Len(a) : a[j] = b[j]

KLess(kt, a, b) == CASE kt = "int"   -> a < b
                     [] kt = "limbs" -> LLess(a, b)
                     [] kt = "bytes" -> BLess(a, b)
KLeq(kt, a, b) == a = b \/ KLess(kt, a, b)
(* a may stand before b in a sequence sorted in order ord *)
InOrder(kt, ord, a, b) == IF ord = "desc" THEN KLeq(kt, b, a) ELSE KLeq(kt, a, b)

(* ------------------------------------------------------------------ bags *)
Elems(s) == { s[i] : i \in 1..Len(s) }
Count(s, x) == Cardinality({ i \in 1..Len(s) : s[i] = x })
BagOf(s) == [ x \in Elems(s) |-> Count(s, x) ]

RECURSIVE Flatten(_)
Flatten(ss) == IF ss = <<>> THEN <<>> ELSE Head(ss) \o Flatten(Tail(ss))

(* ------------------------------------------------------------------ sorts *)
IsSorted(kt, ord, s) == \A i \in 1..(Len(s) - 1) : InOrder(kt, ord, s[i], s[i + 1])
IsPermutation(in, out) == Len(in) = Len(out) /\ BagOf(in) = BagOf(out)
IsSortedPermutation(kt, ord, in, out) == IsSorted(kt, ord, out) /\ IsPermutation(in, out)

(* key-value sorts: elements are <<key, value>> *)
Keys(s) == [ i \in 1..Len(s) |-> s[i][1] ]
KeyClass(s, k) == SelectSeq(s, LAMBDA p : p[1] = k)
(* the multiset of (key, value) pairs is preserved and the keys are sorted *)
KeepsPairs(kt, ord, in, out) == IsPermutation(in, out) /\ IsSorted(kt, ord, Keys(out))
(* stability (only where the API promises it): elements with equal keys keep their order *)
StableByKey(in, out) == \A k \in Elems(Keys(in)) : KeyClass(in, k) = KeyClass(out, k)

(* ------------------------------------------------------------------ merges *)
RunsSorted(kt, ord, runs) == \A r \in 1..Len(runs) : IsSorted(kt, ord, runs[r])
(* the sorted bag-union of the runs, every duplicate kept *)
Merge(kt, ord, runs, out) == IsSortedPermutation(kt, ord, Flatten(runs), out)
MergePairs(kt, ord, runs, out) == KeepsPairs(kt, ord, Flatten(runs), out)
(* stable merge: equal keys ordered by way, then by position inside the way *)
StableMerge(runs, out) == StableByKey(Flatten(runs), out)

(* ------------------------------------------------------------------ contract: small regime *)
(* sort, in place or returning a vector.  ok = FALSE: the call returned Err - a refusal; the  *)
(* data handed back must still be a permutation of the input (nothing lost, nothing invented) *)
SortOK(kt, ord, ok, in, out) ==
    IF ok THEN IsSortedPermutation(kt, ord, in, out) ELSE IsPermutation(in, out)
SortKvOK(kt, ord, ok, stable, in, out) ==
    IF ok THEN KeepsPairs(kt, ord, in, out) /\ (stable => StableByKey(in, out))
    ELSE IsPermutation(in, out)
(* merge of sorted runs; a refusal (Err) returns nothing and is accepted *)
MergeOK(kt, ord, ok, runs, out) ==
    /\ RunsSorted(kt, ord, runs)
    /\ ok => Merge(kt, ord, runs, out)
MergeKvOK(kt, ord, ok, stable, runs, out) ==
    /\ RunsSorted(kt, ord, [r \in 1..Len(runs) |-> Keys(runs[r])])
    /\ ok => MergePairs(kt, ord, runs, out) /\ (stable => StableMerge(runs, out))

(* loser tree driven by hand: peek before every pop.  peeks[i] is the option (<<>> / <<v>>) that *)
(* peek() returned before the i-th successful pop, last the option it returned once the tree was  *)
(* exhausted: peek must announce exactly the element the next pop delivers                        *)
PeekPopOK(kt, ord, ok, runs, peeks, last, out) ==
    /\ MergeOK(kt, ord, ok, runs, out)
    /\ ok => /\ Len(peeks) = Len(out)
             /\ \A i \in 1..Len(out) : peeks[i] = <<out[i]>>
             /\ last = <<>>

(* ------------------------------------------------------------------ comparison kernels (i32) *)
Sign(x, y) == IF x < y THEN -1 ELSE IF x > y THEN 1 ELSE 0
(* element-wise three-way comparison of two slices (SimdComparator::compare_i32_slices,           *)
(* SimdOperations::parallel_compare_i32): Err exactly... at least for unequal lengths; for equal   *)
(* lengths a refusal is accepted, an answer must be the sign of every pair                         *)
CompareOK(a, b, ok, out) ==
    IF Len(a) # Len(b) THEN ~ok
    ELSE ok => /\ Len(out) = Len(a)
               /\ \A i \in 1..Len(a) : out[i] = Sign(a[i], b[i])
(* minimum of a slice as an option <<>> / << <<index, value>> >> (0-based index of the FIRST       *)
(* minimum: what both the scalar and the vector path answer)                                       *)
ArgMinOK(a, r) ==
    IF a = <<>> THEN r = <<>>
    ELSE /\ Len(r) = 1
         /\ LET i == r[1][1] + 1
                v == r[1][2]
            IN /\ i \in 1..Len(a) /\ a[i] = v
               /\ \A j \in 1..Len(a) : v <= a[j]
               /\ \A j \in 1..(i - 1) : a[j] # v

(* ------------------------------------------------------------------ contract: large regime *)
(* the event carries projections only: lengths, an order-independent multiset digest          *)
(* (sum and xor of a 60-bit per-element mix, as 30-bit halves) of input and output, and the    *)
(* number of adjacent inversions of the output                                                 *)
BigOK(ok, len_in, len_out, bag_in, bag_out, inv) ==
    /\ len_out = len_in
    /\ bag_out = bag_in
    /\ ok => inv = 0
BigMergeOK(ok, runs_inv, len_in, len_out, bag_in, bag_out, inv) ==
    /\ runs_inv = 0
    /\ ok => /\ len_out = len_in
             /\ bag_out = bag_in
             /\ inv = 0
=============================================================================
