--------------------------- MODULE MC_BlobStoreGen ---------------------------
(* Behaviour generator (binding B2) for property C03: every history of mutating   *)
(* operations of length L over the abstract records Recs and the alphabet          *)
(*    put(r)            r in Recs                                                  *)
(*    put_batch(r, r')  r, r' in Recs                                              *)
(*    remove(i)         the i-th id handed out so far (live or already removed);   *)
(*                      i = 0 stands for an id that was never handed out           *)
(* Real stores choose their own ids, so the generator names ids by ISSUE INDEX     *)
(* (the n-th id handed out); the harness maps issue indices to the ids it got.     *)
(* Every step carries the abstract state AFTER the step as computed by the         *)
(* contract: the set of <<issue index, record>> pairs that must be live.           *)
EXTENDS BlobStore, TLC, Json

CONSTANTS Recs, L
VARIABLES hist, n

gvars == <<live, issued, keyof, bykey, hist, n>>

StateAfter == { <<id, live'[id]>> : id \in DOMAIN live' }
Log(op, rs, i, ids) ==
    hist' = Append(hist, [op |-> op, rs |-> rs, i |-> i, ids |-> ids, st |-> StateAfter])

Next ==
    \/ \E r \in Recs :
          /\ Put(r, n + 1) /\ n' = n + 1
          /\ Log("put", <<r>>, 0, <<n + 1>>)
    \/ \E r1, r2 \in Recs :
          /\ PutBatch(<<r1, r2>>, <<n + 1, n + 2>>) /\ n' = n + 2
          /\ Log("put_batch", <<r1, r2>>, 0, <<n + 1, n + 2>>)
    \/ \E i \in 0..n :
          /\ Remove(i) /\ n' = n
          /\ Log("remove", <<>>, i, <<>>)

Spec == BSInit /\ hist = <<>> /\ n = 0 /\ [][Next]_gvars

Bound == Len(hist) <= L
Emit == Len(hist) = L => PrintT(<<"REPLAY", ToJson(hist)>>)
=============================================================================
