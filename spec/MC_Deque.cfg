SPECIFICATION Spec
CONSTANTS
  Caps = {0, 1, 2, 3}
  MaxLenQ = 4
  MaxId = 8
  Ops = {"push_back","pop_front","push_bulk","pop_bulk","reserve","clear","clone"}
CONSTRAINT Bound
INVARIANT TypeInv OwnershipInv CapacityInv
PROPERTY Fifo NoResurrection OneObjectPerCall
CHECK_DEADLOCK FALSE
