------------------------------ MODULE Strings ------------------------------
(* Byte-wise semantics of the string views of zipora (property C20).                  *)
(*                                                                                    *)
(* A byte string is a sequence over 0..255 (the harness logs FastStr / &str / &[u8]    *)
(* contents as JSON arrays of numbers).  This module holds DEFINITIONS only - it is    *)
(* the oracle: for every operation there is                                           *)
(*   - a definitional form (quantifiers over positions, no recursion) and             *)
(*   - where useful an executable form (a recursive scan) used on the long inputs of   *)
(*     the traces; MC_Strings checks on a small domain that both forms agree and that  *)
(*     the order is a total order.                                                     *)
(* The *OK predicates at the end are the contract of one logged batch event: the       *)
(* event carries the inputs and everything the implementation returned; the predicate  *)
(* holds exactly when every returned entry equals the definition.                      *)
(* Orderings are logged as -1 (Less) / 0 (Equal) / 1 (Greater); an absent position     *)
(* (None) as -1; positions are 0-based as in the Rust API.                             *)
EXTENDS Naturals, Integers, Sequences, FiniteSets

MinI(a, b) == IF a < b THEN a ELSE b
MaxI(a, b) == IF a < b THEN b ELSE a
Sgn(x) == IF x < 0 THEN -1 ELSE IF x > 0 THEN 1 ELSE 0

(* ------------------------------------------------------------------ equality, order *)
Eq(a, b) == Len(a) = Len(b) /\ \A i \in 1..Len(a) : a[i] = b[i]

(* definitional: a < b iff after a common prefix of k bytes either a ends and b goes    *)
(* on, or the next byte of a is the smaller UNSIGNED value                               *)
LexLess(a, b) ==
    \E k \in 0..MinI(Len(a), Len(b)) :
        /\ \A j \in 1..k : a[j] = b[j]
        /\ \/ k = Len(a) /\ k < Len(b)
           \/ k < Len(a) /\ k < Len(b) /\ a[k + 1] < b[k + 1]
CmpDef(a, b) == IF Eq(a, b) THEN 0 ELSE IF LexLess(a, b) THEN -1 ELSE 1

(* executable: scan to the first difference, then the lengths decide *)
RECURSIVE CmpFrom(_, _, _)
CmpFrom(a, b, i) ==
    IF i > Len(a) \/ i > Len(b) THEN Sgn(Len(a) - Len(b))
    ELSE IF a[i] # b[i] THEN (IF a[i] < b[i] THEN -1 ELSE 1)
    ELSE CmpFrom(a, b, i + 1)
Cmp(a, b) == CmpFrom(a, b, 1)

LexLeq(a, b) == Cmp(a, b) <= 0
LexSorted(s) == \A i \in 1..(Len(s) - 1) : LexLeq(s[i], s[i + 1])
StrictlyLexSorted(s) == \A i \in 1..(Len(s) - 1) : Cmp(s[i], s[i + 1]) < 0

(* common prefix length *)
RECURSIVE CplFrom(_, _, _)
CplFrom(a, b, i) == IF i > Len(a) \/ i > Len(b) \/ a[i] # b[i] THEN i - 1 ELSE CplFrom(a, b, i + 1)
CommonPrefixLen(a, b) == CplFrom(a, b, 1)
CommonPrefixLenDef(a, b, k) ==          \* k is THE common prefix length
    /\ k \in 0..MinI(Len(a), Len(b))
    /\ \A j \in 1..k : a[j] = b[j]
    /\ (k < Len(a) /\ k < Len(b)) => a[k + 1] # b[k + 1]

(* ------------------------------------------------------------------ prefix / suffix / find *)
StartsWith(a, p) == Len(p) <= Len(a) /\ \A i \in 1..Len(p) : a[i] = p[i]
EndsWith(a, s) == Len(s) <= Len(a) /\ \A i \in 1..Len(s) : a[Len(a) - Len(s) + i] = s[i]

(* needle n occurs in a at 0-based position p *)
OccursAt(a, n, p) == p + Len(n) <= Len(a) /\ \A i \in 1..Len(n) : a[p + i] = n[i]
(* definitional: r is the answer of find(a, n): the first occurrence, or -1 for none *)
IsFind(a, n, r) ==
    IF \E p \in 0..Len(a) : OccursAt(a, n, p)
    THEN r \in 0..Len(a) /\ OccursAt(a, n, r) /\ \A q \in 0..(r - 1) : ~OccursAt(a, n, q)
    ELSE r = -1
RECURSIVE FindFrom(_, _, _)
FindFrom(a, n, p) == IF p + Len(n) > Len(a) THEN -1
                     ELSE IF OccursAt(a, n, p) THEN p ELSE FindFrom(a, n, p + 1)
Find(a, n) == FindFrom(a, n, 0)          \* the empty needle occurs at 0 (FastStr::find documents Some(0))
FindByte(a, b) == Find(a, <<b>>)

(* ------------------------------------------------------------------ slicing *)
(* substring(start, len): the bytes [start, min(start+len, |a|)); defined for start <= |a| *)
Slice(a, start, n) == SubSeq(a, start + 1, MinI(start + n, Len(a)))
SliceFrom(a, start) == SubSeq(a, MinI(start, Len(a)) + 1, Len(a))
Prefix(a, n) == SubSeq(a, 1, MinI(n, Len(a)))
Suffix(a, n) == SubSeq(a, Len(a) - MinI(n, Len(a)) + 1, Len(a))

(* ------------------------------------------------------------------ join *)
RECURSIVE JoinFrom(_, _, _)
JoinFrom(sep, parts, i) == IF i > Len(parts) THEN <<>>
                           ELSE IF i = Len(parts) THEN parts[i]
                           ELSE parts[i] \o sep \o JoinFrom(sep, parts, i + 1)
Join(sep, parts) == JoinFrom(sep, parts, 1)
(* definitional: r is parts[1] sep parts[2] sep ... parts[n]; off(i) = where part i starts *)
RECURSIVE SumLen(_, _)
SumLen(parts, i) == IF i = 0 THEN 0 ELSE SumLen(parts, i - 1) + Len(parts[i])
IsJoin(sep, parts, r) ==
    LET n == Len(parts)
        off(i) == SumLen(parts, i - 1) + (i - 1) * Len(sep)
    IN IF n = 0 THEN r = <<>>
       ELSE /\ Len(r) = SumLen(parts, n) + (n - 1) * Len(sep)
            /\ \A i \in 1..n : OccursAt(r, parts[i], off(i))
            /\ \A i \in 1..(n - 1) : OccursAt(r, sep, off(i) + Len(parts[i]))

(* ------------------------------------------------------------------ splitting on a delimiter *)
(* Split(a, d) for a non-empty delimiter d: the fields between non-overlapping occurrences of d  *)
(* taken left to right; always occurrences + 1 fields ("a,," -> "a","",""; "" -> "")             *)
RECURSIVE SplitFrom(_, _, _, _)
SplitFrom(a, d, start, p) ==         \* start: 0-based start of the current field, p: scan position
    IF p + Len(d) > Len(a) THEN << SubSeq(a, start + 1, Len(a)) >>
    ELSE IF OccursAt(a, d, p) THEN << SubSeq(a, start + 1, p) >> \o SplitFrom(a, d, p + Len(d), p + Len(d))
    ELSE SplitFrom(a, d, start, p + 1)
Split(a, d) == SplitFrom(a, d, 0, 0)

(* ------------------------------------------------------------------ words *)
(* src/string/word_boundary.rs: "Word characters are: [a-zA-Z0-9_]"; words() "yield[s] only     *)
(* word sequences (not delimiters)": the words of a text are its MAXIMAL runs of word           *)
(* characters, in text order.  A run is given by its 0-based half-open byte range <<s, e>>.     *)
IsWordChar(c) == c \in 97..122 \/ c \in 65..90 \/ c \in 48..57 \/ c = 95
WordRuns(t) ==
    { <<s, e>> \in (0..Len(t)) \X (0..Len(t)) :
        /\ s < e
        /\ \A i \in (s + 1)..e : IsWordChar(t[i])
        /\ (s = 0 \/ ~IsWordChar(t[s]))
        /\ (e = Len(t) \/ ~IsWordChar(t[e + 1])) }
(* cheaper characterisation used on long texts: starts and ends of runs *)
RunStarts(t) == { s \in 0..(Len(t) - 1) : IsWordChar(t[s + 1]) /\ (s = 0 \/ ~IsWordChar(t[s])) }
RunEnds(t) == { e \in 1..Len(t) : IsWordChar(t[e]) /\ (e = Len(t) \/ ~IsWordChar(t[e + 1])) }
(* r: the sequence of ranges the implementation yielded *)
WordsOK(t, r) ==
    /\ \A i \in 1..(Len(r) - 1) : r[i][2] < r[i + 1][1]                 \* ascending, disjoint, no repeat
    /\ { r[i][1] : i \in 1..Len(r) } = RunStarts(t)
    /\ { r[i][2] : i \in 1..Len(r) } = RunEnds(t)
    /\ \A i \in 1..Len(r) : r[i][1] < r[i][2] /\ \A j \in (r[i][1] + 1)..r[i][2] : IsWordChar(t[j])
(* "A word boundary exists: at the start of the string, at the end of the string, between a     *)
(* word character and a non-word character" (is_word_boundary; any position >= |t| counts as end) *)
IsWordBoundary(t, p) ==
    \/ Len(t) = 0 \/ p = 0 \/ p >= Len(t)
    \/ IsWordChar(t[p]) # IsWordChar(t[p + 1])
(* find_word_boundaries: all boundary positions 0..|t| in ascending order; for the empty text [0] *)
BoundariesOK(t, r) ==
    /\ \A i \in 1..(Len(r) - 1) : r[i] < r[i + 1]
    /\ { r[i] : i \in 1..Len(r) } = { p \in 0..Len(t) : IsWordBoundary(t, p) }
(* word_at_position(t, p): the run containing byte p, or none (-1,-1) *)
WordAtOK(t, p, s, e) ==
    IF p < Len(t) /\ IsWordChar(t[p + 1])
    THEN s <= p /\ p < e /\ s \in RunStarts(t) /\ e \in RunEnds(t) /\ \A j \in (s + 1)..e : IsWordChar(t[j])
    ELSE s = -1 /\ e = -1

(* ------------------------------------------------------------------ lines *)
(* src/string/line_processor.rs reads "line by line" and its only statement about line endings   *)
(* is the option preserve_line_endings; the line ending it recognises (and StreamingLexIterator   *)
(* too) is LF, optionally preceded by CR: "\n" and "\r\n" terminate a line, a CR that is not       *)
(* followed by LF is ordinary line content (nothing in the API documents a lone CR as a            *)
(* terminator, so the contract does not demand it).  A final line without terminator is a line;    *)
(* no line follows the last terminator ("a\n" is one line, "" is no line, "\n" is one empty line). *)
LF == 10
CR == 13
(* the 0-based positions of the LF bytes *)
LfPositions(t) == { p \in 0..(Len(t) - 1) : t[p + 1] = LF }
(* raw lines (terminator included), by scanning *)
RECURSIVE RawLinesFrom(_, _, _)
RawLinesFrom(t, start, p) ==
    IF p >= Len(t) THEN (IF start < Len(t) THEN << SubSeq(t, start + 1, Len(t)) >> ELSE <<>>)
    ELSE IF t[p + 1] = LF THEN << SubSeq(t, start + 1, p + 1) >> \o RawLinesFrom(t, p + 1, p + 1)
    ELSE RawLinesFrom(t, start, p + 1)
RawLines(t) == RawLinesFrom(t, 0, 0)
(* definitional cross-check of RawLines: concatenation gives the text back, every line but the    *)
(* last ends in LF, LF occurs only at the end of a line, no line is empty                          *)
RECURSIVE Concat(_, _)
Concat(ls, i) == IF i > Len(ls) THEN <<>> ELSE ls[i] \o Concat(ls, i + 1)
IsRawLines(t, ls) ==
    /\ Concat(ls, 1) = t
    /\ \A i \in 1..Len(ls) : /\ Len(ls[i]) > 0
                             /\ \A j \in 1..(Len(ls[i]) - 1) : ls[i][j] # LF
                             /\ i < Len(ls) => ls[i][Len(ls[i])] = LF
StripEnding(ln) ==
    LET n == Len(ln) IN
    IF n >= 1 /\ ln[n] = LF
    THEN (IF n >= 2 /\ ln[n - 1] = CR THEN SubSeq(ln, 1, n - 2) ELSE SubSeq(ln, 1, n - 1))
    ELSE ln
(* ASCII white space as trimmed by trim_whitespace (inputs of the check contain no other          *)
(* Unicode white space): TAB LF VT FF CR SPACE                                                    *)
IsSpace(c) == c \in {9, 10, 11, 12, 13, 32}
RECURSIVE TrimLeft(_)
TrimLeft(s) == IF Len(s) > 0 /\ IsSpace(s[1]) THEN TrimLeft(Tail(s)) ELSE s
RECURSIVE TrimRight(_)
TrimRight(s) == IF Len(s) > 0 /\ IsSpace(s[Len(s)]) THEN TrimRight(SubSeq(s, 1, Len(s) - 1)) ELSE s
Trim(s) == TrimRight(TrimLeft(s))
RECURSIVE SelectNonEmpty(_, _)
SelectNonEmpty(ls, i) == IF i > Len(ls) THEN <<>>
                         ELSE (IF Len(ls[i]) = 0 THEN <<>> ELSE << ls[i] >>) \o SelectNonEmpty(ls, i + 1)
(* the lines delivered under a configuration (preserve_line_endings, skip_empty_lines,            *)
(* trim_whitespace): ending removed unless preserved, then trimmed, then empty ones skipped        *)
Lines(t, preserve, skip, trim) ==
    LET raw == RawLines(t)
        a == [i \in 1..Len(raw) |-> IF preserve THEN raw[i] ELSE StripEnding(raw[i])]
        b == [i \in 1..Len(raw) |-> IF trim THEN Trim(a[i]) ELSE a[i]]
    IN IF skip THEN SelectNonEmpty(b, 1) ELSE b

(* ------------------------------------------------------------------ ASCII case conversion *)
LowerByte(c) == IF c \in 65..90 THEN c + 32 ELSE c
UpperByte(c) == IF c \in 97..122 THEN c - 32 ELSE c
ToLower(s) == [i \in 1..Len(s) |-> LowerByte(s[i])]
ToUpper(s) == [i \in 1..Len(s) |-> UpperByte(s[i])]

(* ------------------------------------------------------------------ UTF-8 *)
(* Well-formed UTF-8 byte sequences (Unicode Table 3-7).  SeqLenAt(s, p): the length of the       *)
(* well-formed sequence that starts at the 1-based position p, 0 if there is none.                *)
ByteAt(s, i) == IF i >= 1 /\ i <= Len(s) THEN s[i] ELSE -1
IsCont(b) == b \in 128..191
SeqLenAt(s, p) ==
    LET b0 == ByteAt(s, p)  b1 == ByteAt(s, p + 1)  b2 == ByteAt(s, p + 2)  b3 == ByteAt(s, p + 3) IN
    IF b0 \in 0..127 THEN 1
    ELSE IF b0 \in 194..223 /\ IsCont(b1) THEN 2
    ELSE IF b0 = 224 /\ b1 \in 160..191 /\ IsCont(b2) THEN 3
    ELSE IF (b0 \in 225..236 \/ b0 \in 238..239) /\ IsCont(b1) /\ IsCont(b2) THEN 3
    ELSE IF b0 = 237 /\ b1 \in 128..159 /\ IsCont(b2) THEN 3
    ELSE IF b0 = 240 /\ b1 \in 144..191 /\ IsCont(b2) /\ IsCont(b3) THEN 4
    ELSE IF b0 \in 241..243 /\ IsCont(b1) /\ IsCont(b2) /\ IsCont(b3) THEN 4
    ELSE IF b0 = 244 /\ b1 \in 128..143 /\ IsCont(b2) /\ IsCont(b3) THEN 4
    ELSE 0
CodepointAt(s, p, n) ==
    IF n = 1 THEN s[p]
    ELSE IF n = 2 THEN (s[p] % 32) * 64 + (s[p + 1] % 64)
    ELSE IF n = 3 THEN (s[p] % 16) * 4096 + (s[p + 1] % 64) * 64 + (s[p + 2] % 64)
    ELSE (s[p] % 8) * 262144 + (s[p + 1] % 64) * 4096 + (s[p + 2] % 64) * 64 + (s[p + 3] % 64)
(* the code points of s, and the 0-based byte offset where each starts; an ill-formed rest is     *)
(* reported as a final -1                                                                          *)
RECURSIVE DecodeFrom(_, _)
DecodeFrom(s, p) ==
    IF p > Len(s) THEN <<>>
    ELSE LET n == SeqLenAt(s, p) IN
         IF n = 0 THEN << -1 >> ELSE << CodepointAt(s, p, n) >> \o DecodeFrom(s, p + n)
Decode(s) == DecodeFrom(s, 1)
RECURSIVE StartsFrom(_, _)
StartsFrom(s, p) ==
    IF p > Len(s) THEN <<>>
    ELSE LET n == SeqLenAt(s, p) IN IF n = 0 THEN <<>> ELSE << p - 1 >> \o StartsFrom(s, p + n)
CharStarts(s) == StartsFrom(s, 1)
IsUtf8(s) == \A i \in 1..Len(Decode(s)) : Decode(s)[i] # -1
CharCount(s) == Len(Decode(s))
Reverse(q) == [i \in 1..Len(q) |-> q[Len(q) + 1 - i]]
(* utf8_byte_count(lead byte): "ASCII 1, continuation byte 0, 2-byte / 3-byte / 4-byte sequence, invalid 0" *)
LeadByteLen(b) == IF b < 128 THEN 1 ELSE IF b < 192 THEN 0 ELSE IF b < 224 THEN 2
                  ELSE IF b < 240 THEN 3 ELSE IF b < 248 THEN 4 ELSE 0

(* ------------------------------------------------------------------ byte classes of word_boundary.rs *)
(* is_whitespace: "space, tab, newline, carriage return, form feed, vertical tab" *)
IsWhitespaceByte(c) == c \in {32, 9, 10, 13, 12, 11}
(* is_punctuation: "an ASCII punctuation character": ! .. / : .. @ [ .. ` { .. ~ ; the module   *)
(* counts '_' (95) as a word character, so the contract leaves the answer for '_' open            *)
IsPunctByte(c) == c \in 33..47 \/ c \in 58..64 \/ c \in 91..96 \/ c \in 123..126

(* ================================================================== contracts of batch events *)
(* A matrix event carries two pools a (rows) and b (columns) and m[i][j] = what the              *)
(* implementation returned for (a[i], b[j]).                                                     *)
IsMatrix(a, b, m) == Len(m) = Len(a) /\ \A i \in 1..Len(m) : Len(m[i]) = Len(b)

CmpMatrixOK(a, b, m) ==
    IsMatrix(a, b, m) /\ \A i \in 1..Len(a) : \A j \in 1..Len(b) : m[i][j] = Cmp(a[i], b[j])
(* neg: the matrix holds the answers of != *)
EqMatrixOK(a, b, m, neg) ==
    IsMatrix(a, b, m) /\ \A i \in 1..Len(a) : \A j \in 1..Len(b) : m[i][j] = ((a[i] = b[j]) # neg)
StartsMatrixOK(a, b, m) ==
    IsMatrix(a, b, m) /\ \A i \in 1..Len(a) : \A j \in 1..Len(b) : m[i][j] = StartsWith(a[i], b[j])
EndsMatrixOK(a, b, m) ==
    IsMatrix(a, b, m) /\ \A i \in 1..Len(a) : \A j \in 1..Len(b) : m[i][j] = EndsWith(a[i], b[j])
FindMatrixOK(a, b, m) ==
    IsMatrix(a, b, m) /\ \A i \in 1..Len(a) : \A j \in 1..Len(b) : m[i][j] = Find(a[i], b[j])
CplMatrixOK(a, b, m) ==
    IsMatrix(a, b, m) /\ \A i \in 1..Len(a) : \A j \in 1..Len(b) : m[i][j] = CommonPrefixLen(a[i], b[j])
FindByteOK(a, bytes, m) ==
    IsMatrix(a, bytes, m) /\ \A i \in 1..Len(a) : \A k \in 1..Len(bytes) : m[i][k] = FindByte(a[i], bytes[k])
(* a square matrix (a = b) that claims to be an order must, redundantly, be one: checked on the   *)
(* logged matrix itself, without reference to the definition                                      *)
MatrixIsTotalOrder(m) ==
    LET n == Len(m) IN
    /\ \A i \in 1..n : m[i][i] = 0
    /\ \A i \in 1..n : \A j \in 1..n : m[i][j] = -m[j][i]
    /\ \A i \in 1..n : \A j \in 1..n : m[i][j] <= 0 =>
           \A k \in 1..n : m[j][k] <= 0 => /\ m[i][k] <= 0
                                           /\ (m[i][k] = 0 => m[i][j] = 0 /\ m[j][k] = 0)

(* hash law: a = b => hash(a) = hash(b).  h[i] = the hashes (decimal strings) of several copies   *)
(* of pool[i] placed at different addresses / alignments                                          *)
HashLawOK(pool, h) ==
    /\ Len(h) = Len(pool)
    /\ \A i \in 1..Len(pool) : Len(h[i]) >= 1 /\ \A c \in 1..Len(h[i]) : h[i][c] = h[i][1]
    /\ \A i \in 1..Len(pool) : \A j \in 1..Len(pool) : pool[i] = pool[j] => h[i][1] = h[j][1]

(* one slicing case c of the string s: c.k names the operation, c.a / c.n its arguments, c.r the  *)
(* bytes of the returned view, c.ri an integer result, c.ok = FALSE a panic                        *)
SliceCaseOK(s, c) ==
    \/ c.k = "substring" /\ c.ok /\ c.a <= Len(s) /\ c.r = Slice(s, c.a, c.n) /\ c.ri = c.a   \* ri: offset of the view
    \/ c.k = "substring_max" /\ c.ok /\ c.a <= Len(s) /\ c.r = SliceFrom(s, c.a)      \* len = usize::MAX
    \/ c.k = "substring_from" /\ c.ok /\ c.r = SliceFrom(s, c.a)
    \/ c.k = "prefix" /\ c.ok /\ c.r = Prefix(s, c.a)
    \/ c.k = "suffix" /\ c.ok /\ c.r = Suffix(s, c.a)
    \/ c.k = "get_byte" /\ c.ok /\ c.ri = (IF c.a < Len(s) THEN s[c.a + 1] ELSE -1)
    (* start beyond the end: the slice operation underneath panics; a panic or an empty view *)
    \/ c.k = "substring_oob" /\ c.a > Len(s) /\ (~c.ok \/ c.r = <<>>)
SliceOK(s, cases) == \A i \in 1..Len(cases) : SliceCaseOK(s, cases[i])

JoinOK(sep, parts, r) == r = Join(sep, parts)

(* everything word_boundary.rs answered for one text t *)
WordsEventOK(t, r, n, b, wb, at) ==
    /\ WordsOK(t, r) /\ n = Len(r)
    /\ BoundariesOK(t, b)
    /\ Len(wb) = Len(t) + 2 /\ \A p \in 0..(Len(t) + 1) : wb[p + 1] = IsWordBoundary(t, p)
    /\ Len(at) = Len(t) + 1 /\ \A p \in 0..Len(t) : WordAtOK(t, p, at[p + 1][1], at[p + 1][2])

(* one LineProcessor result x for the text: x.via the entry point, x.p/x.s/x.t the configuration,  *)
(* x.r the lines delivered, x.n the count returned.  Err (x.ok = FALSE) is a refusal.              *)
LinesCaseOK(text, x) ==
    \/ ~x.ok /\ x.via # "panic"
    \/ /\ x.ok /\ x.lnok
       /\ LET want == Lines(text, x.p, x.s, x.t) IN
          IF x.via = "count_lines" THEN x.n = Len(want)
          ELSE x.r = want /\ x.n = Len(want)
LinesOK(text, res) == \A i \in 1..Len(res) : LinesCaseOK(text, res[i])

(* LineSplitter::split(line, d), d non-empty: the fields between the delimiters *)
SplitCaseOK(c) == ~c.ok \/ c.r = Split(c.line, c.d)

(* case conversion: mode "lower" / "upper" / "same" *)
CaseCaseOK(c) ==
    \/ ~c.ok /\ c.mode # "panic"
    \/ c.ok /\ c.mode = "lower" /\ c.r = ToLower(c.s)
    \/ c.ok /\ c.mode = "upper" /\ c.r = ToUpper(c.s)
    \/ c.ok /\ c.mode = "same" /\ c.r = c.s

(* sorted string vectors *)
Count(s, x) == Cardinality({ i \in 1..Len(s) : s[i] = x })
ToSet(s) == { s[i] : i \in 1..Len(s) }
IsPermutation(x, y) == Len(x) = Len(y) /\ ToSet(x) = ToSet(y) /\ \A e \in ToSet(x) : Count(x, e) = Count(y, e)
(* r enumerates input in ascending order, nothing skipped, nothing repeated *)
SortedEnumOK(input, r) == LexSorted(r) /\ IsPermutation(input, r)
(* from_strings documents "Remove duplicates": ascending, each distinct input string once *)
SortedDistinctOK(input, r) == StrictlyLexSorted(r) /\ ToSet(r) = ToSet(input)
(* range(lo, hi) of a sorted vector v: "Start of the range (inclusive)", "End (exclusive)":       *)
(* the elements lo <= x < hi in order, duplicates included                                         *)
RECURSIVE SelectRange(_, _, _, _)
SelectRange(v, lo, hi, i) ==
    IF i > Len(v) THEN <<>>
    ELSE (IF Cmp(v[i], lo) >= 0 /\ Cmp(v[i], hi) < 0 THEN << v[i] >> ELSE <<>>) \o SelectRange(v, lo, hi, i + 1)
RangeOK(v, lo, hi, r) == r = SelectRange(v, lo, hi, 1)

(* ------------------------------------------------------------------ second round of entry points *)
(* FastStr conversions and constructors for one string s (event fs_conv).  x.raw: the bytes of     *)
(* from_raw_parts(ptr, len); x.gbu: get_byte_unchecked(i) for every i; x.valid / x.str: as_str();   *)
(* x.unchecked: as_str_unchecked() (only called when as_str() is Some); x.owned / x.cow:            *)
(* into_string() / to_cow_str() (lossy for ill-formed input: only constrained for well-formed);     *)
(* x.eqs: the answers of the PartialEq<str / &str / String / &[u8]> and From / AsRef twins, all of   *)
(* which compare s with an equal copy (TRUE expected) and with a different string (FALSE expected)  *)
FsConvOK(x) ==
    LET s == x.s IN
    /\ x.raw = s /\ x.len = Len(s) /\ x.empty = (Len(s) = 0)
    /\ x.gbu = s
    /\ x.valid = IsUtf8(s)
    /\ x.valid => (x.str = s /\ x.unchecked = s /\ x.owned = s /\ x.cow = s)
    /\ \A i \in 1..Len(x.eqs) : x.eqs[i].r = x.eqs[i].want
(* FastStr::split(d): "Split the string by a delimiter".  The fields between the delimiter bytes;   *)
(* the API does not say whether a trailing empty field (or the single empty field of the empty       *)
(* string) is delivered, so both readings are accepted - a wrong field never is.                     *)
DropLastEmptyField(f) == IF Len(f) > 0 /\ f[Len(f)] = <<>> THEN SubSeq(f, 1, Len(f) - 1) ELSE f
FsSplitOK(s, d, r) == r = Split(s, <<d>>) \/ r = DropLastEmptyField(Split(s, <<d>>))

(* sse42_multi_search(h, n): "Searches for any of the specified characters and returns all           *)
(* positions": the positions of the bytes of h that occur in n, ascending; ch[i] is the byte found    *)
(* there (or, as the field comment says, its index in n)                                              *)
MultiSearchOK(c) ==
    LET want == { p \in 0..(Len(c.h) - 1) : \E k \in 1..Len(c.n) : c.n[k] = c.h[p + 1] } IN
    /\ \A i \in 1..(Len(c.pos) - 1) : c.pos[i] < c.pos[i + 1]
    /\ { c.pos[i] : i \in 1..Len(c.pos) } = want
    /\ Len(c.ch) = Len(c.pos)
    /\ \A i \in 1..Len(c.pos) : \/ c.ch[i] = c.h[c.pos[i] + 1]
                                \/ (c.ch[i] + 1 \in 1..Len(c.n) /\ c.n[c.ch[i] + 1] = c.h[c.pos[i] + 1])

(* lexicographic_iterator::utils over a sorted sequence v *)
PrefixCount(v, p) == Cardinality({ i \in 1..Len(v) : StartsWith(v[i], p) })
(* common prefix of all strings, cut back to a character boundary (the function works on chars) *)
RECURSIVE MinCpl(_, _)
MinCpl(v, i) == IF i > Len(v) THEN Len(v[1]) ELSE MinI(CommonPrefixLen(v[1], v[i]), MinCpl(v, i + 1))
RECURSIVE BackToBoundary(_, _)
BackToBoundary(s, k) == IF k = 0 \/ k = Len(s) \/ ~IsCont(s[k + 1]) THEN k ELSE BackToBoundary(s, k - 1)
CommonPrefixOfAll(v) == IF Len(v) = 0 THEN <<>> ELSE SubSeq(v[1], 1, BackToBoundary(v[1], MinCpl(v, 1)))

(* binary search over a sorted view v: Ok(i) must point at an element equal to the needle (any copy), *)
(* Err(i) at the insertion point; Err on an unsorted vector is a refusal                                *)
BSearchCaseOK(v, c) ==
    IF c.found THEN c.i \in 0..(Len(v) - 1) /\ v[c.i + 1] = c.t
    ELSE /\ c.i \in 0..Len(v)
         /\ \A k \in 1..Len(v) : (k <= c.i => Cmp(v[k], c.t) < 0) /\ (k > c.i => Cmp(v[k], c.t) > 0)
(* orders offered by SortableStrVec besides the lexicographic one *)
DescSorted(r) == \A i \in 1..(Len(r) - 1) : Cmp(r[i], r[i + 1]) >= 0
LenSorted(r) == \A i \in 1..(Len(r) - 1) : Len(r[i]) <= Len(r[i + 1])

(* byte class tables (256 answers each) *)
CharClassOK(e) ==
    /\ Len(e.w) = 256 /\ Len(e.s) = 256 /\ Len(e.p) = 256 /\ Len(e.u8) = 256
    /\ \A c \in 0..255 : /\ e.w[c + 1] = IsWordChar(c)
                          /\ e.s[c + 1] = IsWhitespaceByte(c)
                          /\ (c # 95 => e.p[c + 1] = IsPunctByte(c))
                          /\ e.u8[c + 1] = LeadByteLen(c)

(* line_processor::utils over the default configuration: x.filt filter_by_length(min, max),         *)
(* x.uniq extract_unique_lines (any order), x.an analyze_text counters, x.wf count_word_frequencies  *)
(* (lower-cased white-space separated tokens with their counts, any order; ASCII texts only)          *)
RECURSIVE SelectLen(_, _, _, _)
SelectLen(ls, lo, hi, i) ==
    IF i > Len(ls) THEN <<>>
    ELSE (IF Len(ls[i]) >= lo /\ Len(ls[i]) <= hi THEN << ls[i] >> ELSE <<>>) \o SelectLen(ls, lo, hi, i + 1)
RECURSIVE TokensFrom(_, _, _)
TokensFrom(ln, start, p) ==          \* maximal runs of non-space bytes
    IF p > Len(ln) THEN (IF start < p THEN << SubSeq(ln, start, p - 1) >> ELSE <<>>)
    ELSE IF IsSpace(ln[p]) THEN (IF start < p THEN << SubSeq(ln, start, p - 1) >> ELSE <<>>) \o TokensFrom(ln, p + 1, p + 1)
    ELSE TokensFrom(ln, start, p + 1)
Tokens(ln) == TokensFrom(ln, 1, 1)
RECURSIVE AllTokens(_, _)
AllTokens(ls, i) == IF i > Len(ls) THEN <<>> ELSE Tokens(ToLower(ls[i])) \o AllTokens(ls, i + 1)
RECURSIVE SumLens(_, _)
SumLens(ls, i) == IF i > Len(ls) THEN 0 ELSE Len(ls[i]) + SumLens(ls, i + 1)
RECURSIVE SumChars(_, _)
SumChars(ls, i) == IF i > Len(ls) THEN 0 ELSE CharCount(ls[i]) + SumChars(ls, i + 1)
LineUtilsOK(e) ==
    LET ls == Lines(e.text, FALSE, FALSE, FALSE)
        toks == AllTokens(ls, 1)
    IN /\ \A i \in 1..Len(e.filt) : ~e.filt[i].ok \/ e.filt[i].r = SelectLen(ls, e.filt[i].min, e.filt[i].max, 1)
       /\ ~e.uniq.ok \/ (ToSet(e.uniq.r) = ToSet(ls) /\ Len(e.uniq.r) = Cardinality(ToSet(ls)))
       /\ ~e.an.ok \/ /\ e.an.lines = Len(ls)
                       /\ e.an.bytes = SumLens(ls, 1)
                       /\ e.an.chars = SumChars(ls, 1)
                       /\ e.an.empty = Cardinality({ i \in 1..Len(ls) : Trim(ls[i]) = <<>> })
                       /\ e.an.maxlen = (IF Len(ls) = 0 THEN 0 ELSE CHOOSE m \in { Len(ls[i]) : i \in 1..Len(ls) } :
                                                                       \A i \in 1..Len(ls) : Len(ls[i]) <= m)
                       /\ e.an.words = Len(toks)
       /\ ~e.wf.ok \/ /\ { e.wf.r[i][1] : i \in 1..Len(e.wf.r) } = ToSet(toks)
                       /\ Len(e.wf.r) = Cardinality(ToSet(toks))
                       /\ \A i \in 1..Len(e.wf.r) : e.wf.r[i][2] = Count(toks, e.wf.r[i][1])

(* unicode.rs over one byte string c.s: validate_utf8_and_count_chars (c.ok, c.n), the code points   *)
(* delivered by Utf8ToUtf32Iterator forwards (c.fwd, byte_position after each step c.fpos) and then    *)
(* backwards from the end (c.bwd, c.bpos), extract_codepoints (c.cps) and the counters of analyze      *)
Utf8CaseOK(c) ==
    LET s == c.s  d == Decode(s)  st == CharStarts(s) IN
    /\ c.ok = IsUtf8(s)
    /\ c.ok => c.n = Len(d)
    /\ c.iter = IsUtf8(s)                                          \* Utf8ToUtf32Iterator::new refuses ill-formed input
    /\ c.iter => /\ c.fwd = d
                 /\ c.fpos = [i \in 1..Len(d) |-> IF i < Len(d) THEN st[i + 1] ELSE Len(s)]
                 /\ c.bwd = Reverse(d)
                 /\ c.bpos = Reverse(st)
                 /\ c.cps = d
                 /\ c.an.chars = Len(d) /\ c.an.bytes = Len(s)
                 /\ c.an.ascii = Cardinality({ i \in 1..Len(d) : d[i] <= 127 })
                 /\ c.an.latin1 = Cardinality({ i \in 1..Len(d) : d[i] \in 128..255 })
                 /\ c.an.ext = Cardinality({ i \in 1..Len(d) : d[i] \in 256..6143 })
                 /\ c.an.other = Cardinality({ i \in 1..Len(d) : d[i] > 6143 })
=============================================================================
