----------------------------- MODULE MC_WSMech -----------------------------
EXTENDS WorkStealingMech
CONSTANTS NW, NT
MCWorkers == 1..NW
MCTasks == 1..NT
MCPrio == [t \in 1..NT |-> t % 2]
MCStealable == [t \in 1..NT |-> t /= 2]
=============================================================================
