SPECIFICATION Spec
CONSTANTS
  P = 3
  Tagged = FALSE
  BumpHook = FALSE
  NB = 5
  InitFree <- MCInitFree
  Threads <- MCThreads
  Prog <- MCProg
INVARIANT Emit
CHECK_DEADLOCK FALSE
