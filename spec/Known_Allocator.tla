--------------------------- MODULE Known_Allocator ---------------------------
(* Named deviation actions for the recorded known findings of property C07        *)
(* (see /verif/known_findings.json).  A deviation is enabled only for the listed   *)
(* subject family and only under its semantic trigger.  Findings that corrupt      *)
(* memory are not modelled inside random runs: their trigger region is left out    *)
(* of the driver for that subject while the finding reproduces, and the deviation  *)
(* is enabled only in the finding's own witness run (reset field wit), which is    *)
(* executed in a child process on every check and judged here.                     *)
(* A deviation that admits an unusable block does not record it in `live`: the     *)
(* contract invariants (NoOverlap, SizesOk) keep holding on every state.           *)
EXTENDS Allocator, TLC

KnownIds == {"C07-KF5", "C07-KF11", "C07-KF13", "C07-KF14"}

Same == UNCHANGED <<live, pend>>
IsAllocOk(e) == e.op = "alloc" /\ e.ok
Witness(subj, fam, id) == subj.fam = fam /\ subj.wit = id

(* the new block starts below a live block and runs into it: a block recycled (or carved)   *)
(* shorter than what is handed out                                                            *)
TailInto(lo, hi) == \E b \in DOMAIN live : lo < live[b].lo /\ live[b].lo < hi
(* every requirement of AllocOk except alignment *)
AllocOkMisaligned(e) ==
    /\ FreshId(e.b) /\ LongEnough(e.req, e.len) /\ WellFormed(e.lo, e.hi, e.len)
    /\ InRegion(e.lo, e.hi, e.reg) /\ WithinCapacity(e.len, e.cap) /\ Disjoint(e.lo, e.hi)
    /\ live' = With(e.b, Blk(e.lo, e.hi, e.req, e.len, e.align))
    /\ pend' = FALSE

(* C07-KF1: LockFreeMemoryPool::allocate_new_block carves the aligned request while the fast  *)
(* bins are per size class: a block freed under 136 bytes is handed out again for 144 bytes.  *)
G1(e, subj) == Witness(subj, "lockfree", "C07-KF1") /\ IsAllocOk(e) /\ e.mis = 0 /\ e.len >= e.req /\ TailInto(e.lo, e.hi)
(* C07-KF2: next_offset.fetch_add advances on refused requests and wraps (u32): after enough *)
(* refusals the pool hands out memory that is in use.                                         *)
G2(e, subj) == Witness(subj, "lockfree", "C07-KF2") /\ IsAllocOk(e) /\ e.len >= e.req /\ OverlapsLive(e.lo, e.hi)
(* C07-KF3: ThreadLocalMemoryPool: HotArea::try_allocate carves the 8-aligned request, the    *)
(* free lists are per size class: a 17-byte block (24 carved) is handed out again for 32.     *)
G3(e, subj) == Witness(subj, "tlpool", "C07-KF3") /\ IsAllocOk(e) /\ e.mis = 0 /\ e.len >= e.req /\ TailInto(e.lo, e.hi)
(* C07-KF4: ThreadLocalMemoryPool replaces (and frees) an exhausted hot area while blocks     *)
(* carved from it are live: reading them faults or finds foreign bytes.                       *)
G4(e, subj) == /\ Witness(subj, "tlpool", "C07-KF4")
               /\ \/ e.op = "crash" /\ e.sig \in {6, 7, 11}
                  \/ e.op = "touch" /\ \E i \in 1..Len(e.r) : e.r[i][2] = FALSE
(* C07-KF5: a request above arena_size/4 without a hot area re-enters the thread-local cache  *)
(* (allocate_from_global calls ThreadLocalMemoryPool::allocate again): RefCell panic.          *)
G5(e, subj) == Witness(subj, "tlpool", "C07-KF5") /\ e.op = "panic" /\ e.in = "alloc" /\ e.msg = "RefCell already borrowed"
(* C07-KF6: SecureChunk::new always uses an 8-byte layout behind a 40-byte header: the         *)
(* configured alignment (16, 32, 64) is not honoured.                                          *)
G6(e, subj) == subj.fam = "secure" /\ IsAllocOk(e) /\ e.align > 8 /\ e.mis # 0
(* (C07-KF7, a panic of every release with local_cache_size = 0, was repaired in /repo by c4d48a0.) *)
(* C07-KF8: SecureMemoryPool::clear wipes active_allocations while allocations are             *)
(* outstanding: their release is then counted as a double free and the chunk is leaked.        *)
G8(e, subj) == Witness(subj, "secure", "C07-KF8") /\ e.op = "free" /\ e.after_clear /\ ~e.ok /\ e.b \in DOMAIN live
(* C07-KF9: BumpAllocator::alloc_bytes aligns the offset, not the address; the buffer itself   *)
(* is only 8-aligned by its layout.                                                            *)
G9(e, subj) == subj.fam \in {"bump", "arena"} /\ IsAllocOk(e) /\ e.align > 8 /\ e.mis # 0
(* C07-KF10: aligned_offset + size overflows in alloc_bytes: a request of nearly usize::MAX    *)
(* succeeds and moves the bump pointer backwards.                                              *)
G10(e, subj) == Witness(subj, "bump", "C07-KF10") /\ IsAllocOk(e) /\ (e.huge \/ OverlapsLive(e.lo, e.hi))
(* C07-KF11: five-level ThreadLocalPool: offsets into the thread-local arena and offsets of    *)
(* the global pool share one MemOffset space.                                                  *)
G11(e, subj) == Witness(subj, "fl_tlocal", "C07-KF11") /\ IsAllocOk(e) /\ e.req > 32768 /\ OverlapsLive(e.lo, e.hi)
(* C07-KF12: PooledBuffer::new(size) beyond the largest chunk: the slice is longer than the    *)
(* chunk the pool owns.                                                                        *)
G12(e, subj) == Witness(subj, "pooledbuf", "C07-KF12") /\ IsAllocOk(e) /\ ~InRegion(e.lo, e.hi, e.reg)
(* C07-KF13 / KF14: a second free of the same block is accepted (LockFreeMemoryPool validates  *)
(* only the pointer range; MemoryPool::deallocate validates nothing).                          *)
G13(e, subj) == Witness(subj, "lockfree", "C07-KF13") /\ e.op = "dfree" /\ e.ok /\ e.b \notin DOMAIN live
G14(e, subj) == Witness(subj, "mempool", "C07-KF14") /\ e.op = "dfree" /\ e.ok /\ e.b \notin DOMAIN live

(* guard (state predicate) and action of each deviation.  In KF mode a deviation whose guard  *)
(* holds REPLACES the contract action for that event.                                          *)
DevApplies(id, e, subj) ==
    \/ id = "C07-KF1" /\ G1(e, subj)
    \/ id = "C07-KF2" /\ G2(e, subj)
    \/ id = "C07-KF3" /\ G3(e, subj)
    \/ id = "C07-KF4" /\ G4(e, subj)
    \/ id = "C07-KF5" /\ G5(e, subj)
    \/ id = "C07-KF6" /\ G6(e, subj)
    \/ id = "C07-KF8" /\ G8(e, subj)
    \/ id = "C07-KF9" /\ G9(e, subj)
    \/ id = "C07-KF10" /\ G10(e, subj)
    \/ id = "C07-KF11" /\ G11(e, subj)
    \/ id = "C07-KF12" /\ G12(e, subj)
    \/ id = "C07-KF13" /\ G13(e, subj)
    \/ id = "C07-KF14" /\ G14(e, subj)

KnownDeviation(id, e, subj) ==
    \/ id = "C07-KF1" /\ G1(e, subj) /\ Same
    \/ id = "C07-KF2" /\ G2(e, subj) /\ Same
    \/ id = "C07-KF3" /\ G3(e, subj) /\ Same
    \/ id = "C07-KF4" /\ G4(e, subj) /\ Same
    \/ id = "C07-KF5" /\ G5(e, subj) /\ Same
    \/ id = "C07-KF6" /\ G6(e, subj) /\ AllocOkMisaligned(e)
    \/ id = "C07-KF8" /\ G8(e, subj) /\ live' = Without({e.b}) /\ UNCHANGED pend
    \/ id = "C07-KF9" /\ G9(e, subj) /\ AllocOkMisaligned(e)
    \/ id = "C07-KF10" /\ G10(e, subj) /\ Same
    \/ id = "C07-KF11" /\ G11(e, subj) /\ Same
    \/ id = "C07-KF12" /\ G12(e, subj) /\ Same
    \/ id = "C07-KF13" /\ G13(e, subj) /\ Same
    \/ id = "C07-KF14" /\ G14(e, subj) /\ Same
=============================================================================
