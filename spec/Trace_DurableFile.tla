------------------------- MODULE Trace_DurableFile -------------------------
(* Trace specification of property C19: replays the recorded reopen outcomes of    *)
(* fault images of real zipora files through the contract of DurableFile.tla.      *)
(* One run = one write history on one subject:                                     *)
(*   reset{subject,fam,variant,framing}                                            *)
(*   history{syncpoints:[{len,h,sync,valid}...]}   logical content after every op  *)
(*   ( image{kind,k,j,len,upto,f,raw}  reopen{outcome,content,extent}              *)
(*   | resume{k,open,mode,c0,ids0,new_ids,len0,len1,added,old0,old1,live,again}   *)
(*   | regen{api,cap,truncated,pos,writes,open,got}                                *)
(*   | script{reader,size,base,seed,steps:[{a,n,ok,val,pos,rem}]} )*               *)
(* outcome = ok | err | signal | timeout | panic; only ok / err have an action.    *)
EXTENDS DurableFile, TraceIO, Known_DurableFile

VARIABLES l, subj, kf

vars == <<sp, img, l, subj, kf>>

TraceInit == DInit /\ l = 1 /\ subj = [subject |-> "none"] /\ kf = {}

Points(e) == [i \in 1..Len(e.syncpoints) |->
                [c |-> [len |-> e.syncpoints[i].len, h |-> e.syncpoints[i].h],
                 sync |-> e.syncpoints[i].sync, valid |-> e.syncpoints[i].valid]]

Step(e) ==
    \/ e.op = "history" /\ History(Points(e))
    \/ e.op = "image"   /\ Image(e)
    \/ e.op = "reopen"  /\ subj.framing = "header" /\ Reopen(e.outcome, e.content, e.extent)
    \/ e.op = "reopen"  /\ subj.framing = "raw"    /\ RawReopen(e.outcome, e.content)
    \/ e.op = "resume"  /\ Resume(e)
    \/ e.op = "regen"   /\ Regen(e)
    \/ e.op = "script"  /\ Script(e)

TraceNext ==
    /\ l <= Len(Rec)
    /\ l' = l + 1
    /\ LET e == Rec[l] IN
       IF e.op = "reset"
       THEN sp' = <<>> /\ img' = NoImg /\ subj' = e /\ kf' = kf
       ELSE /\ subj' = subj
            /\ IF UseKF /\ \E id \in KnownIds : DevApplies(id, e, subj)
               THEN \E id \in KnownIds : KnownDeviation(id, e, subj) /\ kf' = kf \cup {id}
               ELSE Step(e) /\ kf' = kf

TraceSpec == TraceInit /\ [][TraceNext]_vars

(* reported only on a path that consumed the whole trace *)
Done == l = Len(Rec) + 1 => PrintT(<<"KFSET", kf>>)
=============================================================================
