----------------------------- MODULE OffsetStack -----------------------------
(* Mechanism-level model of the intrusive lock-free free lists of zipora's pools:  *)
(*   Tagged = TRUE   memory/lockfree_pool.rs fast bins: 64-bit head = offset +       *)
(*                   generation counter, compared as a whole by the CAS               *)
(*   Tagged = FALSE  memory/five_level_pool.rs LockFreePool and                       *)
(*                   memory/fixed_capacity_pool.rs: 32-bit head = offset only         *)
(* The `next` link of a free block lives in the first word of the block itself; an    *)
(* owner overwrites it (the harness fills every block it owns; the first word then    *)
(* reads as the list terminator).  One action per code segment between two hook       *)
(* sites (named os.x, fl.x, fc.x).  Threads run fixed programs of "A" (allocate) and "F"  *)
(* (free the oldest block held).                                                      *)
EXTENDS Naturals, Sequences, FiniteSets, TLC

CONSTANTS Threads, Prog, NB, InitFree, Tagged, BumpHook

TAIL == 0
Blocks == 1..NB

VARIABLES head, gen, mem, bump, pc, ip, h, hg, nx, cur, held, sched
vars == <<head, gen, mem, bump, pc, ip, h, hg, nx, cur, held, sched>>
view == <<head, gen, mem, bump, pc, ip, h, hg, nx, cur, held>>

(* initial free list: InitFree[1] is the head *)
InitLink(b) == IF \E i \in 1..Len(InitFree) : InitFree[i] = b
               THEN LET i == CHOOSE i \in 1..Len(InitFree) : InitFree[i] = b
                    IN IF i < Len(InitFree) THEN InitFree[i + 1] ELSE TAIL
               ELSE TAIL
Init == /\ head = (IF InitFree = <<>> THEN TAIL ELSE InitFree[1]) /\ gen = 0
        /\ mem = [b \in Blocks |-> InitLink(b)]
        /\ bump = Len(InitFree) + 1
        /\ pc = [t \in Threads |-> "api"] /\ ip = [t \in Threads |-> 1]
        /\ h = [t \in Threads |-> 0] /\ hg = [t \in Threads |-> 0] /\ nx = [t \in Threads |-> 0]
        /\ cur = [t \in Threads |-> 0]
        /\ held = [t \in Threads |-> <<>>]
        /\ sched = <<>>

Op(t) == IF ip[t] <= Len(Prog[t]) THEN Prog[t][ip[t]] ELSE "end"
Step(t) == sched' = Append(sched, t)
Ret(t) == pc' = [pc EXCEPT ![t] = "api"] /\ ip' = [ip EXCEPT ![t] = @ + 1]
CasOk(t) == head = h[t] /\ (Tagged => gen = hg[t])

(* ---- allocate ---- *)
\* load the head; empty list -> bump allocation
LoadForPop(t) ==
    /\ h' = [h EXCEPT ![t] = head] /\ hg' = [hg EXCEPT ![t] = gen]
    /\ IF head = TAIL
       THEN IF bump <= NB
            THEN /\ bump' = bump + 1 /\ cur' = [cur EXCEPT ![t] = bump]
                 /\ IF BumpHook THEN pc' = [pc EXCEPT ![t] = "bump"] /\ UNCHANGED <<ip, held, mem>>
                    ELSE /\ held' = [held EXCEPT ![t] = Append(@, bump)] /\ mem' = [mem EXCEPT ![bump] = TAIL] /\ Ret(t)
            ELSE \* out of memory: refused
                 /\ UNCHANGED <<bump, cur, held, mem>> /\ Ret(t)
       ELSE pc' = [pc EXCEPT ![t] = "pop.loaded"] /\ UNCHANGED <<bump, cur, ip, held, mem>>
A_Start(t) == /\ pc[t] = "api" /\ Op(t) = "A" /\ LoadForPop(t)
              /\ UNCHANGED <<head, gen, nx>> /\ Step(t)
A_BumpRet(t) == /\ pc[t] = "bump"
                /\ held' = [held EXCEPT ![t] = Append(@, cur[t])] /\ mem' = [mem EXCEPT ![cur[t]] = TAIL]
                /\ Ret(t) /\ UNCHANGED <<head, gen, bump, h, hg, nx, cur>> /\ Step(t)
\* read the next link out of the block the loaded head points to - whatever is there NOW
A_Next(t) == /\ pc[t] = "pop.loaded"
             /\ nx' = [nx EXCEPT ![t] = mem[h[t]]] /\ pc' = [pc EXCEPT ![t] = "pop.next"]
             /\ UNCHANGED <<head, gen, mem, bump, ip, h, hg, cur, held>> /\ Step(t)
A_Cas(t) == /\ pc[t] = "pop.next"
            /\ IF CasOk(t)
               THEN /\ head' = nx[t] /\ gen' = gen + 1 /\ cur' = [cur EXCEPT ![t] = h[t]]
                    /\ pc' = [pc EXCEPT ![t] = "pop.cas"] /\ UNCHANGED <<bump, ip, h, hg, held, mem>>
               ELSE /\ LoadForPop(t) /\ UNCHANGED <<head, gen>>
            /\ UNCHANGED nx /\ Step(t)
\* the caller now owns the block and fills it: its first word reads as TAIL
A_Ret(t) == /\ pc[t] = "pop.cas"
            /\ held' = [held EXCEPT ![t] = Append(@, cur[t])] /\ mem' = [mem EXCEPT ![cur[t]] = TAIL]
            /\ Ret(t) /\ UNCHANGED <<head, gen, bump, h, hg, nx, cur>> /\ Step(t)

(* ---- free ---- *)
F_Start(t) == /\ pc[t] = "api" /\ Op(t) = "F"
              /\ IF held[t] = <<>>
                 THEN Ret(t) /\ UNCHANGED <<held, cur, h, hg, mem>>
                 ELSE /\ cur' = [cur EXCEPT ![t] = Head(held[t])] /\ held' = [held EXCEPT ![t] = Tail(@)]
                      /\ h' = [h EXCEPT ![t] = head] /\ hg' = [hg EXCEPT ![t] = gen]
                      /\ mem' = [mem EXCEPT ![Head(held[t])] = head]
                      /\ pc' = [pc EXCEPT ![t] = "push.linked"] /\ UNCHANGED ip
              /\ UNCHANGED <<head, gen, bump, nx>> /\ Step(t)
F_Cas(t) == /\ pc[t] = "push.linked"
            /\ IF CasOk(t)
               THEN /\ head' = cur[t] /\ gen' = gen + 1 /\ pc' = [pc EXCEPT ![t] = "push.cas"]
                    /\ UNCHANGED <<h, hg, mem>>
               ELSE /\ h' = [h EXCEPT ![t] = head] /\ hg' = [hg EXCEPT ![t] = gen]
                    /\ mem' = [mem EXCEPT ![cur[t]] = head] /\ UNCHANGED <<head, gen, pc>>
            /\ UNCHANGED <<bump, ip, nx, cur, held>> /\ Step(t)
F_Ret(t) == /\ pc[t] = "push.cas" /\ Ret(t)
            /\ UNCHANGED <<head, gen, mem, bump, h, hg, nx, cur, held>> /\ Step(t)

Next == \E t \in Threads : A_Start(t) \/ A_BumpRet(t) \/ A_Next(t) \/ A_Cas(t) \/ A_Ret(t)
                           \/ F_Start(t) \/ F_Cas(t) \/ F_Ret(t)
Spec == Init /\ [][Next]_vars

(* ---- the contract's properties ---- *)
Range(q) == { q[i] : i \in 1..Len(q) }
HeldBy(t) == Range(held[t])
(* no block is owned twice (by two threads, or twice by one) *)
ExclusiveOwnership ==
    /\ \A t \in Threads : Len(held[t]) = Cardinality(HeldBy(t))
    /\ \A t, u \in Threads : t /= u => HeldBy(t) \cap HeldBy(u) = {}
(* the chain from head, bounded walk *)
RECURSIVE Walk(_, _)
Walk(b, n) == IF b = TAIL \/ n = 0 THEN <<>> ELSE <<b>> \o Walk(mem[b], n - 1)
Chain == Walk(head, NB + 1)
InFlight == { cur[t] : t \in { u \in Threads : pc[u] \in {"pop.cas", "bump", "push.linked", "push.cas"} } }
ListWellFormed ==
    /\ Len(Chain) <= NB                                         \* no cycle
    /\ Len(Chain) = Cardinality(Range(Chain))
    /\ \A t \in Threads : Range(Chain) \cap HeldBy(t) = {}      \* no link to an owned block
Quiet == \A t \in Threads : pc[t] = "api"
(* at quiescence every block handed out by the bump pointer is owned or on the list *)
NoLoss == Quiet => (1..(bump - 1)) = Range(Chain) \cup UNION { HeldBy(t) : t \in Threads }
Done == \A t \in Threads : pc[t] = "api" /\ ip[t] > Len(Prog[t])
=============================================================================
