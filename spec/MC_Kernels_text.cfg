SPECIFICATION Spec
CONSTANTS
  Alphabet = {65, 81, 47, 45, 61, 102, 48, 103}
  MaxLen = 5
INVARIANT TextLaws
CHECK_DEADLOCK FALSE
