----------------------------- MODULE Trace_Wire -----------------------------
(* Trace specification of property C13: replays a recorded execution of the real   *)
(* zipora serialisers / readers / writers through the actions of Wire.tla, one     *)
(* event = one action.  Events are fully logged, so every step is deterministic.   *)
EXTENDS Wire, TraceIO, Known_Wire

VARIABLES l, subj, kf

vars == <<stream, total, cur, off, view, vc, sent, wp, l, subj, kf>>

TraceInit == WireInit /\ l = 1 /\ subj = [subject |-> "none"] /\ kf = {}

Unordered(e) == Has(e, "unordered") /\ e.unordered

Step(e) ==
    \/ e.op = "write"         /\ Write(e.v, e.n, e.at)
    \/ e.op = "write_through" /\ WriteThrough(e.v, e.ok, e.n, e.enc_len, e.sink_len, e.encp, e.sink, e.at)
    \/ e.op = "write_refused" /\ WriteRefused
    \/ e.op = "read"          /\ Read(e.v, e.consumed, e.at, Unordered(e))
    \/ e.op = "read_val"      /\ ReadVal(e.v, e.at, Unordered(e))
    \/ e.op = "read_refused"  /\ ReadRefused
    \/ e.op = "encoded_len"   /\ EncodedLen(e.v, e.r)
    \/ e.op = "fits_in"       /\ FitsIn(e.v, e.k, e.r)
    \/ e.op = "ver_pred"      /\ VersionPred(e.kind, e.a, e.b, e.mx, e.r)
    \/ e.op = "vlen"          /\ VLenIs(e.r)
    \/ e.op = "at_end"        /\ AtEnd(e.r)
    \/ e.op = "seekw"         /\ SeekW(e.whence, e.o, e.r)
    \/ e.op = "sink_pos"      /\ SinkPos(e.r)
    \/ e.op = "sink_remaining" /\ SinkRemaining(e.r, e.cap)
    \/ e.op = "total"         /\ Total(e.r)
    \/ e.op = "batch_eq"      /\ BatchEqualsScalar(e.batch, e.scalar)
    \/ e.op = "read_field"    /\ ReadField(e.v, e.present, e.consumed, e.at, e.wv, e.fv, e.rv, e.mx)
    \/ e.op = "open"          /\ Open(e.src, e.ranges)
    \/ e.op = "readn"         /\ ReadN(e.k, e.got)
    \/ e.op = "read_exact"    /\ ReadExact(e.k, e.got)
    \/ e.op = "readn_refused" /\ ReadNRefused(IF Has(e, "need") THEN e.need ELSE -1)
    \/ e.op = "peek"          /\ Peek(e.k, e.got)
    \/ e.op = "skip"          /\ Skip(e.k)
    \/ e.op = "seek"          /\ SeekTo(e.whence, e.o, e.r)
    \/ e.op = "pos"           /\ Pos(e.r)
    \/ e.op = "remaining"     /\ Remaining(e.r)
    \/ e.op = "extend"        /\ Extend(e.data)
    \/ e.op = "maintain"      /\ Maintain
    \/ e.op = "accept"        /\ Accept(e.data, e.r, e.cap)
    \/ e.op = "sink"          /\ Sink(e.got, e.ob, e.oa)

TraceNext ==
    /\ l <= Len(Rec)
    /\ l' = l + 1
    /\ LET e == Rec[l] IN
       IF e.op = "reset"
       THEN /\ stream' = <<>> /\ total' = 0 /\ cur' = 1 /\ off' = 0
            /\ view' = EmptyView /\ vc' = 0 /\ sent' = <<>> /\ wp' = 0
            /\ subj' = e /\ kf' = kf
       ELSE /\ subj' = subj
            /\ IF UseKF /\ \E id \in KnownIds : DevApplies(id, e, subj)
               THEN \E id \in KnownIds : KnownDeviation(id, e, subj) /\ kf' = kf \cup {id}
               ELSE Step(e) /\ kf' = kf

TraceSpec == TraceInit /\ [][TraceNext]_vars

(* reported only on a path that consumed the whole trace *)
Done == l = Len(Rec) + 1 => PrintT(<<"KFSET", kf>>)
=============================================================================
