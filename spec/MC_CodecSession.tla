--------------------------- MODULE MC_CodecSession ---------------------------
(* Bounded model of the session protocol CodecSession.tla: 2 codec variants,      *)
(* 3 payload / training digests (two of equal length), at most MaxBlobs blobs.    *)
(* Every interleaving of train / encode / decode, every result the contract       *)
(* accepts.  Checked: the contract accepts EXACTLY ONE answer for a matching      *)
(* decode (success with the stored payload) and is silent about every other       *)
(* decode; refusals change nothing; a blob's record never changes; retraining on  *)
(* other data makes the old blobs non-matching, retraining on the same data makes *)
(* them matching again.                                                           *)
EXTENDS CodecSession, TLC

CONSTANTS Codecs, MaxBlobs

D == { [len |-> 1, h |-> <<0, 7>>], [len |-> 1, h |-> <<0, 9>>], [len |-> 2, h |-> <<3, 1>>] }
Blobs == 1..MaxBlobs
Lens == { d.len : d \in D } \cup {0}

Fresh == Cardinality(DOMAIN enc) + 1

DoTrain == \E c \in Codecs, d \in D : Train(c, d)
DoTrainRefused == \E c \in Codecs, d \in D : TrainRefused(c, d)
DoEncode == \E c \in Codecs, x \in D : Fresh \in Blobs /\ Encode(c, x, Fresh)
DoEncodeRefused == \E c \in Codecs, x \in D : EncodeRefused(c, x)
DoDecode == \E c \in Codecs, b \in Blobs, n \in Lens :
               \E r \in AcceptedDecodeResults(c, b, n, D) : Decode(c, b, n, r[1], r[2])

(* batches of one or two pairs, blob ids fresh *)
Item(x, eok, b, n, dok, y) == [x |-> x, eok |-> eok, b |-> b, n |-> n, dok |-> dok, y |-> y]
DoRoundtrips ==
    \E c \in Codecs, x1 \in D, x2 \in D, y1 \in D, y2 \in D, e2 \in BOOLEAN, d1 \in BOOLEAN :
        /\ Fresh + 1 \in Blobs
        /\ Roundtrips(c, << Item(x1, TRUE, Fresh, x1.len, d1, y1), Item(x2, e2, Fresh + 1, x2.len, TRUE, y2) >>)

Next == DoTrain \/ DoTrainRefused \/ DoEncode \/ DoEncodeRefused \/ DoDecode \/ DoRoundtrips
Spec == CSInit /\ [][Next]_csvars

TypeInv == TypeOK(Codecs, D, Blobs)

(* THE property as a law of the contract: for a matching decode exactly one answer *)
ExactlyOneAnswer ==
    \A c \in Codecs, b \in Blobs, n \in Lens :
        Matching(c, b, n) => AcceptedDecodeResults(c, b, n, D) = { <<TRUE, enc[b].x>> }
(* ... and nothing is demanded of any other decode (the property does not speak about it) *)
SilentOtherwise ==
    \A c \in Codecs, b \in Blobs, n \in Lens :
        ~Matching(c, b, n) => AcceptedDecodeResults(c, b, n, D) = BOOLEAN \X D
(* a wrong payload, a wrong length or an error is never accepted for a matching decode *)
WrongNeverAccepted ==
    \A c \in Codecs, b \in Blobs, n \in Lens : Matching(c, b, n) =>
        /\ \A y \in D : ~ENABLED Decode(c, b, n, FALSE, y)
        /\ \A y \in D \ {enc[b].x} : ~ENABLED Decode(c, b, n, TRUE, y)
(* a batch is accepted exactly when the sequence of its Encode / Decode steps is: the first pair must   *)
(* come back unchanged, the second one too unless its encode was refused                               *)
BatchIsSequence ==
    \A c \in Codecs, x1 \in D, x2 \in D, y1 \in D, y2 \in D, e2 \in BOOLEAN, d1 \in BOOLEAN :
        (Fresh + 1 \in Blobs) =>
          ((ENABLED Roundtrips(c, << Item(x1, TRUE, Fresh, x1.len, d1, y1), Item(x2, e2, Fresh + 1, x2.len, TRUE, y2) >>))
            <=> (d1 /\ y1 = x1 /\ (e2 => y2 = x2)))
(* blob ids are dense and a blob's record never changes *)
BlobsDense == DOMAIN enc = 1..Cardinality(DOMAIN enc)
BlobsImmutable == [][\A b \in DOMAIN enc : b \in DOMAIN enc' /\ enc'[b] = enc[b]]_csvars
(* a blob is matching exactly while its codec's model is the one it was produced under *)
MatchingIffSameModel ==
    \A b \in DOMAIN enc : Matching(enc[b].c, b, enc[b].x.len) <=> (ModelOf(enc[b].c) = enc[b].m)
(* retraining on other data un-matches, a different codec's training does not interfere *)
TrainOnlyTouchesOneCodec == [][\A c \in Codecs : (ModelOf(c)' # ModelOf(c)) => Cardinality({k \in Codecs : ModelOf(k)' # ModelOf(k)}) = 1]_csvars
=============================================================================
