SPECIFICATION Spec
CONSTANTS
  Keys = {"k1","k2","k3","k4"}
  Vals = {"v1","v2"}
  Caps = {1,2,3}
  L = 3
CONSTRAINT Bound
INVARIANT Emit
CHECK_DEADLOCK FALSE
