SPECIFICATION Spec
CONSTANTS
  Alphabet = {97, 195, 169, 226, 130, 240, 159, 128}
  MaxLen = 4
INVARIANT Utf8Coherent
CHECK_DEADLOCK FALSE
