SPECIFICATION Spec
CONSTANTS
  Vals = {"a","b","c"}
  MaxLen = 4
INVARIANT TypeInv GetExact Get2Exact HugeRefused ReadBackExact NothingWithoutContainer BlockLaw
PROPERTY GetAfterPush SetChangesOne RefusalKeeps BuildIsInput
CHECK_DEADLOCK FALSE
