SPECIFICATION Spec
CONSTANTS
  Vals = {"a","b","c"}
  MaxLen = 4
INVARIANT TypeInv GetExact Get2Exact HugeRefused ReadBackExact NothingWithoutContainer BlockLaw BackExact MaintainExact ResizeExact
PROPERTY GetAfterPush SetChangesOne RefusalKeeps BuildIsInput ClearEmpties SwapTakesOther
CHECK_DEADLOCK FALSE
