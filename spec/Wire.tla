-------------------------------- MODULE Wire --------------------------------
(* Contract of every serialiser / deserialiser pair and of every reader / writer   *)
(* back end of zipora::io (property C13).                                           *)
(*                                                                                  *)
(* Part 1 - records.  State: `stream`, the list of records written so far, each    *)
(* [v, n] = the value (OPAQUE: a sequence of strings - decimal numbers, digests -; *)
(* the wire format itself is not part of the property and is not pinned) and the    *)
(* number of bytes the encoder produced for it; `total` = bytes written so far;     *)
(* `cur` = index of the next record to read, `off` = the byte offset where it       *)
(* starts.  A decoder started at `off` must return the value written there AND      *)
(* report consumed = n; the cursor then advances by exactly n, so concatenated      *)
(* encodings read back in order.  Decoding a validly written record must not fail.  *)
(*                                                                                  *)
(* Part 2 - views.  A reader back end (range reader, buffered reader, zero-copy     *)
(* reader, mmap reader ...) is a VIEW OF ONE BYTE SEQUENCE: for arbitrary read      *)
(* sizes it must return exactly the bytes of the inner stream restricted to its     *)
(* range, in order, nothing lost, nothing repeated, no end-of-stream before the     *)
(* end.  A writer back end must deliver to its sink exactly the bytes it accepted.  *)
(*                                                                                  *)
(* Every action takes the arguments AND the result the implementation returned      *)
(* and is enabled exactly for the results the property allows.                      *)
EXTENDS Naturals, Integers, Sequences, FiniteSets

VARIABLES stream, total, cur, off,      \* part 1
          view, vc, sent, wp            \* part 2 (sent = content of the sink, wp = write position)

wireVars == <<stream, total, cur, off>>
viewVars == <<view, vc, sent, wp>>

Range_(s) == { s[i] : i \in 1..Len(s) }

(* equality of opaque values; collections without an order (hash map / hash set)   *)
(* are compared as sets of entries (entries are single strings, keys are distinct)  *)
ValEq(a, b, unordered) ==
    IF unordered THEN Len(a) = Len(b) /\ Range_(a) = Range_(b) ELSE a = b

EmptyView == [kind |-> "arr", arr |-> <<>>]

WireInit == /\ stream = <<>> /\ total = 0 /\ cur = 1 /\ off = 0
            /\ view = EmptyView /\ vc = 0 /\ sent = <<>> /\ wp = 0

(* ------------------------------------------------------------------ part 1 *)

(* the encoder appended n bytes for value v at the end of the stream (at = the    *)
(* length of the stream before the call, as observed by the driver)               *)
Write(v, n, at) ==
    /\ at = total
    /\ n >= 0
    /\ stream' = Append(stream, [v |-> v, n |-> n])
    /\ total' = total + n
    /\ UNCHANGED <<cur, off, viewVars>>

(* a write through a sink that may accept fewer bytes than offered (short writes, a   *)
(* full fixed-capacity target, Ok(0), Interrupted).  enc = the encoding the same      *)
(* encoder produces into a growable buffer (encLen bytes; encPrefix = its first       *)
(* sinkLen bytes), sink = the bytes that reached the sink during the call, n = the    *)
(* byte count the writer itself claims for the call.  The sink holds exactly a prefix *)
(* of the encoding; Ok => all of it, in order, and n = its length; Err => nothing     *)
(* beyond what the sink accepted is claimed, and no record is appended.               *)
WriteThrough(v, ok, n, encLen, sinkLen, encPrefix, sink, at) ==
    /\ at = total
    /\ 0 <= sinkLen /\ sinkLen <= encLen
    /\ encPrefix = sink
    /\ ok => (sinkLen = encLen /\ n = encLen)
    /\ ~ok => n <= sinkLen
    /\ stream' = IF ok THEN Append(stream, [v |-> v, n |-> encLen]) ELSE stream
    /\ total' = total + sinkLen
    /\ UNCHANGED <<cur, off, viewVars>>

(* the encoder refused (Err): nothing was appended *)
WriteRefused == UNCHANGED <<wireVars, viewVars>>

HasNext == cur <= Len(stream)

Advance == /\ cur' = cur + 1
           /\ off' = off + stream[cur].n
           /\ UNCHANGED <<stream, total, viewVars>>

(* a decoder that reports the number of bytes it consumed *)
Read(v, consumed, at, unordered) ==
    /\ HasNext
    /\ at = off
    /\ ValEq(stream[cur].v, v, unordered)
    /\ consumed = stream[cur].n
    /\ Advance

(* a decoder that returns the value only (whole-buffer / sequence APIs) *)
ReadVal(v, at, unordered) ==
    /\ HasNext
    /\ at = off
    /\ ValEq(stream[cur].v, v, unordered)
    /\ Advance

(* Decoding something that was validly written must not fail: a refusal is         *)
(* accepted only when nothing was written at the cursor.                            *)
ReadRefused == ~HasNext /\ UNCHANGED <<wireVars, viewVars>>

(* a length-prediction API must equal the bytes actually produced (asked right      *)
(* after the value was written)                                                     *)
EncodedLen(v, r) ==
    /\ Len(stream) > 0
    /\ stream[Len(stream)].v = v
    /\ r = stream[Len(stream)].n
    /\ UNCHANGED <<wireVars, viewVars>>

(* the byte image the writer produced is as long as the sum of the record sizes      *)
Total(r) == r = total /\ UNCHANGED <<wireVars, viewVars>>

(* a size-class predicate ("fits in k bytes") must agree with the bytes produced     *)
FitsIn(v, k, r) ==
    /\ Len(stream) > 0
    /\ stream[Len(stream)].v = v
    /\ r = (stream[Len(stream)].n <= k)
    /\ UNCHANGED <<wireVars, viewVars>>

(* the accelerated / batch output is byte-identical to the scalar one; both are     *)
(* logged (byte arrays or digests [len, h])                                         *)
BatchEqualsScalar(batch, scalar) ==
    /\ batch = scalar
    /\ UNCHANGED <<wireVars, viewVars>>

(* versioned field: written by a manager at version wv for a field introduced in    *)
(* fv (and, for a ranged proxy, retired after mx = <<max>>; <<>> = no upper bound),   *)
(* read by a manager whose reading version is rv.  The field is on the wire iff      *)
(* fv <= wv <= mx; it is delivered iff it is on the wire and rv >= fv; otherwise     *)
(* the reader gets None.  In every case exactly the written bytes are consumed.      *)
VGe(a, b) == \/ a[1] > b[1]
             \/ a[1] = b[1] /\ a[2] > b[2]
             \/ a[1] = b[1] /\ a[2] = b[2] /\ a[3] >= b[3]
ReadField(v, present, consumed, at, wv, fv, rv, mx) ==
    /\ HasNext
    /\ at = off
    /\ consumed = stream[cur].n
    /\ present = (VGe(wv, fv) /\ VGe(rv, fv) /\ (Len(mx) = 1 => VGe(mx[1], wv)))
    /\ present => v = stream[cur].v
    /\ Advance

(* the version predicates the field mechanism is built from (a, b = versions, mx as  *)
(* above): "supports" a >= b; "compatible" same major and a >= b; "proxy" b <= a <= mx *)
VersionPred(kind, a, b, mx, r) ==
    /\ r = CASE kind = "supports"   -> VGe(a, b)
              [] kind = "compatible" -> (a[1] = b[1] /\ VGe(a, b))
              [] kind = "proxy"      -> (VGe(a, b) /\ (Len(mx) = 1 => VGe(mx[1], a)))
    /\ UNCHANGED <<wireVars, viewVars>>

(* ------------------------------------------------------------------ part 2 *)

(* the inner byte sequence: explicit (small streams) or a generated pattern        *)
(* (large streams): byte at absolute 0-based index i = (i*a + i div b) mod 256      *)
Pat(a, b, i) == ((i * a) + (i \div b)) % 256
SrcLen(src) == IF src.kind = "arr" THEN Len(src.arr) ELSE src.len
SrcAt(src, i) == IF src.kind = "arr" THEN src.arr[i + 1] ELSE Pat(src.a, src.b, i)

RECURSIVE ConcatRanges(_, _, _)
ConcatRanges(src, ranges, k) ==
    IF k > Len(ranges) THEN <<>>
    ELSE [i \in 1..(ranges[k][2] - ranges[k][1]) |-> SrcAt(src, ranges[k][1] + i - 1)]
         \o ConcatRanges(src, ranges, k + 1)

VLen == IF view.kind = "arr" THEN Len(view.arr) ELSE view.len
(* i-th byte of the view, 1-based *)
V(i) == IF view.kind = "arr" THEN view.arr[i] ELSE Pat(view.a, view.b, view.off + i - 1)
Slice(c, k) == [i \in 1..k |-> V(c + i)]

RangesOk(src, ranges) ==
    \A k \in 1..Len(ranges) : 0 <= ranges[k][1] /\ ranges[k][1] <= ranges[k][2] /\ ranges[k][2] <= SrcLen(src)

(* open a reader over `src` restricted to the half-open ranges [lo, hi) (one for a *)
(* range reader, several for a multi-range reader, [0, len) for a plain wrapper)    *)
Open(src, ranges) ==
    /\ RangesOk(src, ranges)
    /\ view' = IF src.kind = "arr" THEN [kind |-> "arr", arr |-> ConcatRanges(src, ranges, 1)]
               ELSE [kind |-> "pat", a |-> src.a, b |-> src.b,
                     off |-> ranges[1][1], len |-> ranges[1][2] - ranges[1][1]]
    /\ (src.kind = "pat" => Len(ranges) = 1)
    /\ vc' = 0 /\ sent' = <<>> /\ wp' = 0
    /\ UNCHANGED wireVars

(* read(buf) with |buf| = k returned the bytes `got`: a prefix of what is left,     *)
(* never more than asked, and empty only at the end of the range (or for k = 0)     *)
ReadN(k, got) ==
    LET g == Len(got) IN
    /\ g <= k
    /\ vc + g <= VLen
    /\ got = Slice(vc, g)
    /\ g = 0 => (k = 0 \/ vc = VLen)
    /\ vc' = vc + g
    /\ UNCHANGED <<view, sent, wp, wireVars>>

(* an exact read (read_exact / read_slice / read_bytes): all k bytes or a refusal   *)
ReadExact(k, got) == Len(got) = k /\ ReadN(k, got)

(* Err / None: nothing is consumed.  need >= 0: the operation is TOTAL on this back end *)
(* (slice / mmap / range readers: exact reads and skips inside the view cannot fail), so  *)
(* a refusal is accepted only if fewer than `need` bytes are left; need = -1: a buffering *)
(* reader may refuse (capacity, short inner reads, unsupported look-ahead).               *)
ReadNRefused(need) ==
    /\ need >= 0 => vc + need > VLen
    /\ UNCHANGED <<viewVars, wireVars>>

(* a look-ahead: a correct prefix of what is left; nothing is consumed *)
Peek(k, got) ==
    LET g == Len(got) IN
    /\ g <= k
    /\ vc + g <= VLen
    /\ got = Slice(vc, g)
    /\ UNCHANGED <<viewVars, wireVars>>

(* skip / advance / consume k bytes *)
Skip(k) == /\ vc + k <= VLen
           /\ vc' = vc + k
           /\ UNCHANGED <<view, sent, wp, wireVars>>

(* seek inside the range; the driver only asks for targets inside [0, VLen];        *)
(* r = the position the implementation reports (relative to the range start)        *)
SeekTarget(whence, o) == CASE whence = "start" -> o
                           [] whence = "cur"   -> vc + o
                           [] whence = "end"   -> VLen + o
SeekTo(whence, o, r) ==
    LET t == SeekTarget(whence, o) IN
    /\ 0 <= t /\ t <= VLen
    /\ r = t
    /\ vc' = t
    /\ UNCHANGED <<view, sent, wp, wireVars>>

(* observers *)
Pos(r) == r = vc /\ UNCHANGED <<viewVars, wireVars>>
Remaining(r) == r = VLen - vc /\ UNCHANGED <<viewVars, wireVars>>
VLenIs(r) == r = VLen /\ UNCHANGED <<viewVars, wireVars>>
AtEnd(r) == r = (vc = VLen) /\ UNCHANGED <<viewVars, wireVars>>

(* a FIFO byte buffer: bytes committed by the producer extend the view *)
Extend(data) ==
    /\ view.kind = "arr"
    /\ view' = [kind |-> "arr", arr |-> view.arr \o data]
    /\ UNCHANGED <<vc, sent, wp, wireVars>>
(* compaction / maintenance must not change what is readable *)
Maintain == UNCHANGED <<viewVars, wireVars>>

(* writer back ends: write(data) accepted r bytes (a prefix) at the write position   *)
(* wp (the end of the sink unless the writer was repositioned): they overwrite /      *)
(* extend the sink there; cap = capacity of the target range (-1 = unbounded)         *)
Overwrite(s, p, d) ==
    [i \in 1..(IF p + Len(d) > Len(s) THEN p + Len(d) ELSE Len(s)) |->
        IF i > p /\ i <= p + Len(d) THEN d[i - p] ELSE s[i]]
Accept(data, r, cap) ==
    /\ 0 <= r /\ r <= Len(data)
    /\ cap >= 0 => wp + r <= cap
    /\ sent' = Overwrite(sent, wp, SubSeq(data, 1, r))
    /\ wp' = wp + r
    /\ UNCHANGED <<view, vc, wireVars>>
(* reposition a seekable writer inside what was written so far; r = reported position *)
SeekW(whence, o, r) ==
    LET t == CASE whence = "start" -> o
               [] whence = "cur"   -> wp + o
               [] whence = "end"   -> Len(sent) + o IN
    /\ 0 <= t /\ t <= Len(sent)
    /\ r = t
    /\ wp' = t
    /\ UNCHANGED <<view, vc, sent, wireVars>>
(* observers of a writer: position and room left in a bounded target *)
SinkPos(r) == r = wp /\ UNCHANGED <<viewVars, wireVars>>
SinkRemaining(r, cap) == r = cap - wp /\ UNCHANGED <<viewVars, wireVars>>
(* after flush the sink holds exactly the accepted bytes (got = the sink, or the    *)
(* target window of the sink); what lies outside the window is untouched            *)
Sink(got, outsideBefore, outsideAfter) ==
    /\ got = sent
    /\ outsideBefore = outsideAfter
    /\ UNCHANGED <<viewVars, wireVars>>

(* ---- properties of the contract itself (checked by MC_Wire) ---- *)
WireTypeOK == /\ cur \in 1..(Len(stream) + 1)
              /\ off <= total
              /\ vc \in 0..VLen
              /\ wp \in 0..Len(sent)
=============================================================================
