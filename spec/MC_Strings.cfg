SPECIFICATION Spec
CONSTANTS
  Alphabet = {0, 97, 255}
  MaxLen = 3
INVARIANT CmpAgrees CmpTotalOrder CmpUnsigned PrefixCoherent FindCoherent SliceCoherent JoinCoherent SplitCoherent CaseCoherent
CHECK_DEADLOCK FALSE
