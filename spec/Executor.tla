------------------------------ MODULE Executor ------------------------------
(* Contract of task execution in zipora (property C18): WorkStealingQueue /       *)
(* WorkStealingExecutor (concurrency/work_stealing.rs).                            *)
(*                                                                                 *)
(* Every task accepted is in exactly one place: queued, running (taken out of the  *)
(* queues, possibly executing) or done.  It is taken at most once, runs at most    *)
(* once, and at quiescence nothing accepted is left queued.  WHICH queued task a    *)
(* pop/steal returns is not constrained (the logged id resolves the choice).        *)
EXTENDS Naturals, Sequences, FiniteSets

VARIABLES where   \* function task id -> "queued" | "running" | "done"

ExInit == where = [x \in {} |-> "none"]

Ids(s) == { i \in DOMAIN where : where[i] = s }
Place(i, s) == [x \in DOMAIN where \cup {i} |-> IF x = i THEN s ELSE where[x]]

(* the harness hands task i to submit / push_local (logged BEFORE the call: a worker may start the *)
(* task before the call returns).  The task counts as queued from now on.                          *)
Offer(i) == i \notin DOMAIN where /\ where' = Place(i, "queued")
(* the call returned.  Accepted: nothing changes.  Refused (queue full ...): the task was NOT      *)
(* accepted - it must not have been taken by anybody and is forgotten.                             *)
OfferResult(i, ok) ==
    /\ i \in DOMAIN where
    /\ IF ok THEN UNCHANGED where
       ELSE where[i] = "queued" /\ where' = [x \in DOMAIN where \ {i} |-> where[x]]

(* a pop / steal returned task i, or a worker started executing it: only a queued task, only once *)
Take(i) == i \in DOMAIN where /\ where[i] = "queued" /\ where' = Place(i, "running")
(* a pop / steal returned nothing: allowed at any time (try_lock may fail, steal skips a single task) *)
TakeNone == UNCHANGED where
(* balance() / internal moves between a worker's own queues: nothing is gained or lost *)
Shuffle == UNCHANGED where

Finish(i) == i \in DOMAIN where /\ where[i] = "running" /\ where' = Place(i, "done")

(* reported number of queued tasks (WorkStealingQueue::len, total_queued) when no call is in flight *)
QueuedIs(n) == n = Cardinality(Ids("queued")) /\ UNCHANGED where

(* the end of an executor run: the harness waited until every accepted task finished or no event had  *)
(* been logged for the grace period.  Nothing accepted may be left behind; the executor reports idle.  *)
Final(queued, idle, executed, pending) ==
    /\ Ids("queued") = {} /\ Ids("running") = {}
    /\ pending = 0
    /\ queued = 0 /\ idle
    /\ executed = Cardinality(Ids("done"))
    /\ UNCHANGED where
=============================================================================
