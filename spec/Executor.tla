------------------------------ MODULE Executor ------------------------------
(* Contract of task execution in zipora (property C18): WorkStealingQueue /       *)
(* WorkStealingExecutor (concurrency/work_stealing.rs).                            *)
(*                                                                                 *)
(* Every task accepted is in exactly one place: queued, running (taken out of the  *)
(* queues, possibly executing) or done.  It is taken at most once, runs at most    *)
(* once, and at quiescence nothing accepted is left queued.  WHICH queued task a    *)
(* pop/steal returns is not constrained (the logged id resolves the choice).        *)
EXTENDS Naturals, Sequences, FiniteSets

VARIABLES where   \* function task id -> "queued" | "running" | "done"

ExInit == where = [x \in {} |-> "none"]

Ids(s) == { i \in DOMAIN where : where[i] = s }
Place(i, s) == [x \in DOMAIN where \cup {i} |-> IF x = i THEN s ELSE where[x]]

(* the harness hands task i to submit / push_local (logged BEFORE the call: a worker may start the *)
(* task before the call returns).  The task counts as queued from now on.                          *)
Offer(i) == i \notin DOMAIN where /\ where' = Place(i, "queued")
(* the call returned.  Accepted: nothing changes.  Refused (queue full ...): the task was NOT      *)
(* accepted - it must not have been taken by anybody and is forgotten.                             *)
OfferResult(i, ok) ==
    /\ i \in DOMAIN where
    /\ IF ok THEN UNCHANGED where
       ELSE where[i] = "queued" /\ where' = [x \in DOMAIN where \ {i} |-> where[x]]

(* a pop / steal returned task i, or a worker started executing it: only a queued task, only once *)
Take(i) == i \in DOMAIN where /\ where[i] = "queued" /\ where' = Place(i, "running")
(* a pop / steal returned nothing: allowed at any time (try_lock may fail, steal skips a single task) *)
TakeNone == UNCHANGED where
(* balance() / internal moves between a worker's own queues: nothing is gained or lost *)
Shuffle == UNCHANGED where

Finish(i) == i \in DOMAIN where /\ where[i] = "running" /\ where' = Place(i, "done")
(* the body of task i panicked: it was taken and has run (once); it is over.  The tasks accepted *)
(* besides it are owed their execution all the same (Final).                                      *)
Abort(i) == i \in DOMAIN where /\ where[i] = "running" /\ where' = Place(i, "done")

(* reported number of queued tasks (WorkStealingQueue::len, total_queued) when no call is in flight *)
QueuedIs(n) == n = Cardinality(Ids("queued")) /\ UNCHANGED where

(* the end of an executor run: the harness waited until every accepted task finished or no event had  *)
(* been logged for the grace period.  Nothing accepted may be left behind; the executor reports idle.  *)
Final(queued, idle, executed, pending) ==
    /\ Ids("queued") = {} /\ Ids("running") = {}
    /\ pending = 0
    /\ queued = 0 /\ idle
    /\ executed = Cardinality(Ids("done"))
    /\ UNCHANGED where

(* ClosureTask builders: the task reports what with_priority / with_stealable /                    *)
(* with_estimated_duration were given (the scheduler reads exactly these three)                     *)
TaskAttrs(prio, stealable, dur, gotPrio, gotStealable, gotDur) ==
    /\ gotPrio = prio /\ gotStealable = stealable /\ gotDur = dur
    /\ UNCHANGED where

(* one bulk run as ONE event (thousands of tasks, counted by per-task execution counters): task i  *)
(* was offered to submit / submit_closure, accepted[i] is whether the call returned Ok, execs[i]    *)
(* how often its body ran until every accepted task had run or nothing had happened for the grace   *)
(* period.  Accepted: exactly once.  Refused (all queues full): never.  Then the executor is idle.  *)
Bulk(n, accepted, execs, queued, idle, executed) ==
    /\ Len(accepted) = n /\ Len(execs) = n
    /\ \A i \in 1..n : execs[i] = IF accepted[i] THEN 1 ELSE 0
    /\ queued = 0 /\ idle
    /\ executed = Cardinality({ i \in 1..n : accepted[i] })
    /\ UNCHANGED where

(* init_concurrency(config): a zero max_fibers / queue_size must be refused (documented); anything *)
(* else may be refused or accepted                                                                   *)
InitOk(maxFibers, queueSize, ok) ==
    /\ (maxFibers = 0 \/ queueSize = 0) => ~ok
    /\ UNCHANGED where
(* WorkStealingExecutor::global() after a successful init: there is an executor *)
GlobalIs(initialised, present) == (initialised => present) /\ UNCHANGED where
=============================================================================
