SPECIFICATION Spec
CONSTANTS
  NK = 4
  L = 0
CONSTRAINT Bound
INVARIANT Emit TableAgrees
CHECK_DEADLOCK FALSE
