----------------------------- MODULE MC_DequeGen -----------------------------
(* Behaviour generator (binding B2) for the queue contract: every history of L    *)
(* operations of MC_Deque from the empty queue, for each capacity in Caps, each    *)
(* step annotated with what the specification computed: success flag, value        *)
(* returned by pop_front, number popped by pop_bulk (rn), the values held by every *)
(* object after the step (st), the number of live elements (na).  cap = the fixed  *)
(* capacity the history was generated for (0 = growable).                          *)
EXTENDS MC_Deque, Json

CONSTANT L
VARIABLE hist

genvars == <<seqs, alive, ever, acct, fixedcap, nv, act, hist>>

ValsOf(s) == [i \in 1..Len(s) |-> s[i][1]]
StAfter == [o \in 1..3 |-> IF o \in DOMAIN seqs' THEN ValsOf(seqs'[o]) ELSE <<>>]
OptVal(r) == IF r = None THEN <<>> ELSE <<r[1][1]>>
Log(op, n, xv, ok, r, rn) ==
    hist' = Append(hist, [op |-> op, o |-> act, n |-> n, xv |-> xv, ok |-> ok, r |-> r, rn |-> rn, cap |-> fixedcap,
                          st |-> StAfter, na |-> Cardinality(alive')])

GenNext == LET o == act IN
    \/ DoPushBack(o) /\ Log("push_back", 0, <<nv>>, ~Full(o), <<>>, 0)
    \/ DoPopFront(o) /\ Log("pop_front", 0, <<>>, TRUE, OptVal(FrontOpt(S(o))), 0)
    \/ DoPushBulk(o) /\ Log("push_bulk", 0, <<nv, nv + 1>>, TRUE, <<>>, 0)
    \/ DoPopBulk(o) /\ Log("pop_bulk", 0, <<nv, nv + 1>>, TRUE, <<>>, Min2(2, Len(S(o))))
    \/ DoReserve(o) /\ Log("reserve", 4, <<>>, TRUE, <<>>, 0)
    \/ DoClear(o) /\ Log("clear", 0, <<>>, TRUE, <<>>, 0)
    \/ DoClone(o) /\ Log("clone", 0, <<>>, TRUE, <<>>, 0)

GenSpec == Init /\ hist = <<>> /\ [][GenNext]_genvars

GenBound == Len(hist) <= L
Emit == Len(hist) = L => PrintT(<<"REPLAY", ToJson(hist)>>)
=============================================================================
