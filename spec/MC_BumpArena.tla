---------------------------- MODULE MC_BumpArena ----------------------------
(* Bounded models of BumpArena.tla against the Allocator invariants.              *)
(*   MC_BumpArena.cfg         address rounding            -> holds                *)
(*   MC_BumpArena_offset.cfg  offset rounding on a base that is only 8-aligned     *)
(*                            (the pinned bump.rs)         -> AlignOk violated      *)
EXTENDS BumpArena
=============================================================================
