SPECIFICATION Spec
CONSTANTS
  Profile = "ident"
  Pinned = TRUE
  N = 4
  MAXH = 7
  Vals = {10, 20}
  Keys <- MCKeys
  H <- MCH
INVARIANT GetAgrees InsertReturnAgrees LenAgrees IterAgrees
CHECK_DEADLOCK FALSE
