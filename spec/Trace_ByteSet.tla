--------------------------- MODULE Trace_ByteSet ---------------------------
(* Trace specification: replays a recorded execution of a real zipora trie /      *)
(* automaton through the actions of ByteSet.tla, one event = one action.          *)
(* The reset event of a run carries the key universe U of the run; the batch      *)
(* probes refer to it by position.                                                *)
EXTENDS ByteSet, TraceIO, Known_ByteSet

VARIABLES l, subj, kf

vars == <<S, l, subj, kf>>

TraceInit == S = {} /\ l = 1 /\ subj = [subject |-> "none"] /\ kf = {}

Step(e) ==
    LET U == subj.universe IN
    \/ e.op = "insert"     /\ e.ok  /\ InsertSeen(e.k, e.after)
    \/ e.op = "insert"     /\ ~e.ok /\ InsertRefused(e.k) /\ e.after = (e.k \in S)
    \/ e.op = "remove"     /\ e.ok  /\ Remove(e.k, e.r)
    \/ e.op = "remove"     /\ ~e.ok /\ RemoveRefused(e.k)
    \/ e.op = "insert_all" /\ e.ok  /\ InsertAll(e.keys)
    \/ e.op = "build"      /\ e.ok  /\ Build(e.keys)
    \/ e.op \in {"insert_all", "build"} /\ ~e.ok /\ UNCHANGED S
    \/ e.op = "contains"   /\ Contains(e.k, e.r)
    \/ e.op = "len"        /\ Len_(e.r)
    \/ e.op = "keys"       /\ Keys(e.r)
    \/ e.op = "keys_with_prefix" /\ KeysWithPrefix(e.p, e.r)
    \/ e.op = "accepts"    /\ Accepts(e.k, e.r)
    \/ e.op = "lookup"     /\ Lookup(e.k, e.r)
    \/ e.op = "longest_prefix" /\ LongestPrefix(e.q, e.r)
    \/ e.op = "probe"      /\ ProbeSet(U, e.len, e.contains, e.absent) /\ TwinsOK(e.len_twins, e.is_empty)
    \/ e.op = "probe_ids"  /\ ProbeIds(e.ids)
    \/ e.op = "clear"      /\ Clear
    \/ e.op = "maintenance" /\ Maintenance
    \/ e.op = "probe_keys" /\ ProbeKeys(e.keys, e.prefix)
    \/ e.op = "probe_fsa"  /\ ProbeFsa(U, e.accepts, e.lookup, e.absent, e.longest)

TraceNext ==
    /\ l <= Len(Rec)
    /\ l' = l + 1
    /\ LET e == Rec[l] IN
       IF e.op = "reset"
       THEN S' = {} /\ subj' = e /\ kf' = kf
       ELSE /\ subj' = subj
            /\ IF UseKF /\ \E id \in KnownIds : DevApplies(id, e, subj)
               THEN \E id \in KnownIds : KnownDeviation(id, e, subj) /\ kf' = kf \cup {id}
               ELSE Step(e) /\ kf' = kf

TraceSpec == TraceInit /\ [][TraceNext]_vars

(* reported only on a path that consumed the whole trace *)
Done == l = Len(Rec) + 1 => PrintT(<<"KFSET", kf>>)
=============================================================================
