SPECIFICATION Spec
CONSTANTS
  Keys = {"k1","k2","k3","k4"}
  Vals = {"v1","v2","v3"}
INVARIANT TypeInv LenBound
PROPERTY InsertThenGet OnlyOneKeyChanges
CHECK_DEADLOCK FALSE
