SPECIFICATION Spec
CONSTANTS
  MaxN = 2
INVARIANT TypeInv SortedViewUnique
PROPERTY PushInvalidates SortKeepsOrder CloneIndependent
CHECK_DEADLOCK FALSE
