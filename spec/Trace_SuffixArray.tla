------------------------- MODULE Trace_SuffixArray -------------------------
(* Trace specification: replays the recorded answers of the real zipora suffix-  *)
(* array code through the actions of SuffixArray.tla, one (batch) event = one    *)
(* action.  A run = one subject (reset event: subject, fam, algo) x many cases;  *)
(* each case starts with a text event, kept in the state variable T.             *)
(*                                                                               *)
(*  text   {text:[bytes]}                  the text handed to the subject          *)
(*  sa     {ok, sa:[...]}                  construction: Ok(array) / Err           *)
(*  ranks  {r:[[x],...,[]]}                suffix_at_rank(0..=n)                   *)
(*  text_len {n}                                                                   *)
(*  lcp    {lcp:[...]}                     LcpArray::as_slice                      *)
(*  lcp_at {r:[[x],...,[]]}                lcp_at(0..=n)      lcp_absent {}        *)
(*  bwt    {bwt:[bytes]}                   EnhancedSuffixArray::bwt                *)
(*  search {api, pats:[[bytes]], res:[[a,b]]}   api = "search": (start, count);    *)
(*                                         otherwise the half-open range (lo, hi)  *)
(*  find   {pats, res:[[positions]]}       count {pats, res:[n]}                   *)
(*  match  {pats, res:[[lo,hi,depth]]}     dictionary sa_match_continuation        *)
(*  built  {ok, n}   find_ranked {pats, res:[[positions in suffix order]]}  (dict)  *)
(*  text_proj {text:digest}  sa_proj {n, len, perm, violations}   large case       *)
(*  panic  {in, msg}                       no action: rejected                     *)
EXTENDS SuffixArray, TraceIO, Known_SuffixArray

VARIABLES l, subj, kf

vars == <<T, sa, have, l, subj, kf>>

TraceInit == SAInit /\ l = 1 /\ subj = [subject |-> "none"] /\ kf = {}

AsRanges(e) == IF e.api = "search"
               THEN [k \in 1..Len(e.res) |-> <<e.res[k][1], e.res[k][1] + e.res[k][2]>>]
               ELSE e.res

Step(e) ==
    \/ e.op = "text"     /\ SetText(e.text)
    \/ e.op = "sa"       /\ e.ok  /\ Built(e.sa)
    \/ e.op = "sa"       /\ ~e.ok /\ BuildRefused
    \/ e.op = "ranks"    /\ RanksOk(e.r)
    \/ e.op = "text_len" /\ TextLen(e.n)
    \/ e.op = "lcp"      /\ Lcp(e.lcp)
    \/ e.op = "lcp_at"   /\ LcpAt(e.r)
    \/ e.op = "lcp_absent" /\ LcpAbsent
    \/ e.op = "bwt"      /\ Bwt(e.bwt)
    \/ e.op = "search"   /\ Searches(e.pats, AsRanges(e))
    \/ e.op = "find"     /\ Finds(e.pats, e.res)
    \/ e.op = "count"    /\ Counts(e.pats, e.res)
    \/ e.op = "match"    /\ Matches(e.pats, e.res)
    \/ e.op = "find_ranked" /\ RankedFinds(e.pats, e.res)
    \/ e.op = "built"    /\ DictBuilt(e.ok, IF e.ok THEN e.n ELSE 0)
    \/ e.op = "text_proj" /\ SetTextProjected
    \/ e.op = "sa_proj"  /\ BuiltProjected(e.n, e.len, e.perm, e.violations)

TraceNext ==
    /\ l <= Len(Rec)
    /\ l' = l + 1
    /\ LET e == Rec[l] IN
       IF e.op = "reset"
       THEN T' = <<>> /\ sa' = <<>> /\ have' = FALSE /\ subj' = e /\ kf' = kf
       ELSE /\ subj' = subj
            /\ IF UseKF /\ \E id \in KnownIds : DevApplies(id, e, subj)
               THEN \E id \in KnownIds : KnownDeviation(id, e, subj) /\ kf' = kf \cup {id}
               ELSE Step(e) /\ kf' = kf

TraceSpec == TraceInit /\ [][TraceNext]_vars

(* reported only on a path that consumed the whole trace *)
Done == l = Len(Rec) + 1 => PrintT(<<"KFSET", kf>>)
=============================================================================
