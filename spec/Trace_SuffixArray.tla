------------------------- MODULE Trace_SuffixArray -------------------------
(* Trace specification: replays the recorded answers of the real zipora suffix-  *)
(* array code through the actions of SuffixArray.tla, one (batch) event = one    *)
(* action.  A run = one subject (reset event: subject, fam, algo) x many cases;  *)
(* each case starts with a text event, kept in the state variable T.             *)
(*                                                                               *)
(*  text   {text:[bytes]}                  the text handed to the subject          *)
(*  sa     {ok, sa:[...]}                  construction: Ok(array) / Err           *)
(*  ranks  {r:[..., -1], n}                suffix_at_rank(0..=n) (None = -1), text_len *)
(*  lcp    {lcp:[...], at:[..., -1]}       LcpArray::as_slice, lcp_at(0..=n)        *)
(*  lcp_at {at:[..., -1]}                  lcp_at(0..=n) only    lcp_absent {}      *)
(*  bwt    {bwt:[bytes]}                   EnhancedSuffixArray::bwt                *)
(*  search {pats:[[bytes]], search?, range?, find?, count?, match?, ranked?}       *)
(*         the answers of every search API of the subject for the same patterns:   *)
(*         search = (start, count), range = [lo, hi), find = sorted positions,     *)
(*         count, match = (lo, hi, depth) of the dictionary matcher, ranked =      *)
(*         positions in suffix order (find_all_matches)                            *)
(*         count, match = (lo, hi, depth) of sa_match_continuation, da = the same  *)
(*         from da_match_max_length, mcount = match_count, minl / maxl = window    *)
(*  longest {inputs, pos, res:[[len, dict_pos] | []], minl}   find_longest_match   *)
(*  eqr    {chs, items:[{p, lo, hi, res:[[a,b]]}]}   sa_equal_range(lo, hi, |p|, ch) *)
(*  built  {ok, n, dtext}                  dictionary constructed (its text) / refused *)
(*  text_proj {text:digest}  sa_proj {n, len, perm, violations, distinct}  large case *)
(*  dict_proj {n, len, items:[{plen, occ, npos, all_occ, distinct, viol, m, da}]}  large dictionary case *)
(*  panic  {in, msg, head}                 no action: rejected                     *)
EXTENDS SuffixArray, TraceIO, Known_SuffixArray

VARIABLES l, subj, kf

vars == <<T, sa, have, l, subj, kf>>

TraceInit == SAInit /\ l = 1 /\ subj = [subject |-> "none"] /\ kf = {}

Step(e) ==
    \/ e.op = "text"     /\ SetText(e.text)
    \/ e.op = "sa"       /\ e.ok  /\ Built(e.sa)
    \/ e.op = "sa"       /\ ~e.ok /\ BuildRefused
    \/ e.op = "ranks"    /\ RanksOk(e.r, e.n)
    \/ e.op \in {"lcp", "lcp_at"} /\ Holds(LcpEventAns(e)) /\ Same
    \/ e.op = "lcp_absent" /\ LcpAbsent
    \/ e.op = "bwt"      /\ Bwt(e.bwt)
    \/ e.op = "search"   /\ Holds(SearchEventAns(e)) /\ Same
    \/ e.op = "longest"  /\ Longest(e.inputs, e.pos, e.res, e.minl)
    \/ e.op = "eqr"      /\ EqRanges(e.chs, e.items)
    \/ e.op = "built"    /\ DictBuilt(e.ok, IF e.ok THEN e.n ELSE 0, IF e.ok THEN e.dtext ELSE <<>>)
    \/ e.op = "text_proj" /\ SetTextProjected
    \/ e.op = "sa_proj"  /\ BuiltProjected(e.n, e.len, e.perm, e.violations)
    \/ e.op = "dict_proj" /\ DictProjected(e.n, e.len, e.items)
    \/ e.op = "built_proj" /\ ~e.ok /\ BuildRefused

TraceNext ==
    /\ l <= Len(Rec)
    /\ l' = l + 1
    /\ LET e == Rec[l] IN
       IF e.op = "reset"
       THEN T' = <<>> /\ sa' = <<>> /\ have' = FALSE /\ subj' = e /\ kf' = kf
       ELSE /\ subj' = subj
            /\ IF UseKF /\ \E id \in KnownIds : DevApplies(id, e, subj)
               THEN \E id \in KnownIds : KnownDeviation(id, e, subj) /\ kf' = kf \cup {id}
               ELSE Step(e) /\ kf' = kf

TraceSpec == TraceInit /\ [][TraceNext]_vars

(* reported only on a path that consumed the whole trace *)
Done == l = Len(Rec) + 1 => PrintT(<<"KFSET", kf>>)
=============================================================================
