SPECIFICATION Spec
CONSTANTS
  Codecs = {"c1", "c2"}
  MaxBlobs = 2
INVARIANT TypeInv ExactlyOneAnswer SilentOtherwise WrongNeverAccepted BlobsDense MatchingIffSameModel BatchIsSequence
PROPERTY BlobsImmutable TrainOnlyTouchesOneCodec
CHECK_DEADLOCK FALSE
