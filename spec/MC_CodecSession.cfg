SPECIFICATION Spec
CONSTANTS
  Codecs = {"c1", "c2"}
  MaxBlobs = 2
INVARIANT TypeInv ExactlyOneAnswer SilentOtherwise WrongNeverAccepted BlobsDense MatchingIffSameModel
PROPERTY BlobsImmutable TrainOnlyTouchesOneCodec BatchIsSequence
CHECK_DEADLOCK FALSE
