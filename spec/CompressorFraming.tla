------------------------- MODULE CompressorFraming -------------------------
(* Contract of the compressor layer of zipora (property C02).                       *)
(*                                                                                  *)
(* Subject: one compressor object s (an algorithm, its configuration, its training *)
(* data).  Payloads and frames are opaque: the conformance harness projects them to *)
(* (len, digest); identity of byte strings is decided here, on those pairs          *)
(* (collision probability 2^-60 per comparison).                                    *)
(*                                                                                  *)
(*   Compress(id, x, ok, frame, note)                                               *)
(*                                 s turns payload x into a self-describing frame   *)
(*                                 (ok) or refuses (~ok; allowed - the property     *)
(*                                 talks about frames that exist).  WHICH algorithm *)
(*                                 s chose (tag byte, current_algorithm, match      *)
(*                                 kinds) is not constrained: it is coverage,       *)
(*                                 remembered with the frame as `note`.             *)
(*   Decompress(id, frame, ok, y)  for a frame produced by a successful Compress of *)
(*                                 this compressor in its current configuration,    *)
(*                                 decompression MUST succeed and y = x - whatever  *)
(*                                 was chosen, raw fallback included, whatever the  *)
(*                                 training data was.                               *)
(*   Switch(ok)                    the caller reconfigures s (set_algorithm /       *)
(*                                 set_mode).  A frame of an earlier configuration  *)
(*                                 may be refused afterwards (the property does not *)
(*                                 promise more), but a frame never decompresses    *)
(*                                 to other data: a wrong answer is never accepted. *)
(*   Train(ok)                     learning from samples does not invalidate frames *)
(*                                                                                  *)
(* frames: id -> [x, f, ep, note]: payload, frame, configuration epoch and the       *)
(* logged choice of every frame that exists.                                        *)
EXTENDS Naturals, Sequences, FiniteSets, TLC

VARIABLES frames, epoch, created

fvars == <<frames, epoch, created>>

NoFrames == [i \in {} |-> 0]

FramingInit == frames = NoFrames /\ epoch = 0 /\ created = FALSE

(* construction may be refused (training data unusable, feature not compiled in) *)
Create(ok) == /\ ~created
              /\ created' = ok
              /\ UNCHANGED <<frames, epoch>>

Compress(id, x, ok, frame, note) ==
    /\ created
    /\ id \notin DOMAIN frames
    /\ frames' = IF ok THEN frames @@ (id :> [x |-> x, f |-> frame, ep |-> epoch, note |-> note]) ELSE frames
    /\ UNCHANGED <<epoch, created>>

(* the answer a decompression of frame id is allowed to give *)
DecompressAllowed(id, ok, y) ==
    IF frames[id].ep = epoch
    THEN ok /\ y = frames[id].x            \* must succeed, must be the payload
    ELSE ok => y = frames[id].x            \* stale configuration: refusal allowed, wrong data never

Decompress(id, frame, ok, y) ==
    /\ created
    /\ id \in DOMAIN frames
    /\ frame = frames[id].f                \* the frame fed back is the frame compress returned
    /\ DecompressAllowed(id, ok, y)
    /\ UNCHANGED fvars

Switch(ok) == /\ created
              /\ epoch' = IF ok THEN epoch + 1 ELSE epoch
              /\ UNCHANGED <<frames, created>>

Train(ok) == created /\ UNCHANGED fvars

(* reports that carry coverage only *)
Info == UNCHANGED fvars

(* ---- properties of the contract itself (MC_CompressorFraming) ---- *)
TypeOK == /\ epoch \in Nat /\ created \in BOOLEAN
          /\ \A i \in DOMAIN frames : frames[i].ep <= epoch
(* a frame, once it exists, keeps its payload: nothing in the contract rewrites it *)
FramesStable == [][\A i \in DOMAIN frames : i \in DOMAIN frames' /\ frames'[i] = frames[i]]_fvars
=============================================================================
