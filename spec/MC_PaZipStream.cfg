SPECIFICATION LawSpec
CONSTANTS
  LoopBits = 8
INVARIANT BitsTableOK
INVARIANT CodecLaw
CHECK_DEADLOCK FALSE
