SPECIFICATION Spec
CONSTANTS
  Keys = {"k1","k2","k3","k4"}
  Vals = {"v1","v2"}
  MaxCap = 3
  MaxClock = 5
CONSTRAINT Bound
INVARIANT TypeInv CapacityInv CallbackExactlyOnce NeverCallbackForRetrievable OneShardPerKey OrderIsRecency VictimIsOldest
PROPERTY EvictOnlyWhenFull GetReturnsLastPut Stutters
CHECK_DEADLOCK FALSE
