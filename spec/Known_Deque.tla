---------------------------- MODULE Known_Deque ----------------------------
(* Event binding of the queue contract (shared by the trace specification and the  *)
(* deviations) and the named deviation actions for the recorded known findings of   *)
(* property C10 on the queue subjects (see /verif/known_findings.json).             *)
EXTENDS Deque

(* the state change an event claims.  The clones a call makes are logged in creation order  *)
(* (born): push_bulk and clone must place exactly these, in this order.                      *)
TransQ(e) ==
    LET D == e.dropped
        B == Elems(e.born) IN
    \/ e.op = "push_back" /\ e.ok  /\ PushBack(e.o, e.x, D, B)
    \/ e.op = "push_back" /\ ~e.ok /\ PushBackRefused(e.o, e.x, D, B)
    \/ e.op = "pop_front" /\ PopFront(e.o, e.r, D, B)
    \/ e.op = "push_bulk" /\ e.ok  /\ PushBulk(e.o, e.xs, e.r, seqs[e.o] \o (IF acct THEN e.born ELSE e.xs), D, B)
    \/ e.op = "push_bulk" /\ ~e.ok /\ PushBulkRefused(e.o, D, B)
    \/ e.op = "pop_bulk"  /\ PopBulk(e.o, e.fill, e.out, e.r, D, B)
    \/ e.op = "reserve"   /\ ReserveQ(e.o, D, B)
    \/ e.op = "clear"     /\ ClearQ(e.o, D, B)
    \/ e.op = "clone"     /\ CloneQ(e.o, e.o2, IF acct THEN e.born ELSE seqs[e.o], D, B)
    \/ e.op = "drop"      /\ DropQ(e.o, D, B)

(* what the object shows after the call must be the new abstract state *)
PostQ(e) ==
    \/ e.op = "drop"
    \/ e.op = "clone" /\ ObsDeque(seqs'[e.o2], e.post) /\ ObsDeque(seqs'[e.o], e.src)
    \/ e.op \notin {"drop", "clone"} /\ ObsDeque(seqs'[e.o], e.post)

KnownIds == {}

(* C10-KF2: AutoGrowCircularQueue tells a completely full ring (len = capacity, reachable     *)
(* through push_bulk, which fills up to the capacity while push_back keeps one slot free)      *)
(* from an empty one by `head <= tail`: with head = tail it treats the full ring as one empty  *)
(* contiguous region.  Consequences while the ring is full: the Debug formatter shows no       *)
(* element, clone() returns an empty queue, clear() and the destructor run no element          *)
(* destructor (all elements leak).  Trigger: the subject is AutoGrowCircularQueue and the      *)
(* ring is full before the call (len = capacity reported before the call) or after it.         *)
FullBefore(e) == e.op # "reset" /\ e.o \in DOMAIN seqs /\ Len(seqs[e.o]) = e.cap0 /\ e.cap0 > 0
FullAfter(p) == p.len = p.cap /\ p.len > 0
G2(e, subj) ==
    /\ subj.fam = "autogrow"
    /\ \/ e.op \in {"clear", "drop"} /\ FullBefore(e) /\ e.dropped = <<>>
       \/ e.op = "clone" /\ FullBefore(e) /\ e.born = <<>>
       \/ e.op \in {"push_back", "pop_front", "push_bulk", "pop_bulk", "reserve"} /\ FullAfter(e.post) /\ e.post.c = <<>>
(* the full ring shows nothing through Debug; everything else it shows is still checked *)
ObsFull(s, p) == ObsEnds(s, p) /\ p.c = <<>>
KF2(e, subj) ==
    /\ G2(e, subj)
    /\ \/ e.op \in {"push_back", "pop_front", "push_bulk", "pop_bulk", "reserve"} /\ TransQ(e) /\ ObsFull(seqs'[e.o], e.post)
       (* clear / drop of a full ring: every element is leaked - taken out of the owned set *)
       \/ e.op = "clear" /\ ClearQ(e.o, seqs[e.o], {}) /\ ObsDeque(seqs'[e.o], e.post)
       \/ e.op = "drop" /\ DropQ(e.o, seqs[e.o], {})
       (* clone of a full ring: an empty queue; the source keeps its elements but shows none *)
       \/ e.op = "clone" /\ e.o2 \notin DOMAIN seqs /\ Flow(With(e.o2, <<>>), {}, {}, {}, e.dropped) /\ UNCHANGED fixedcap
                         /\ ObsDeque(seqs'[e.o2], e.post) /\ ObsFull(seqs'[e.o], e.src)

(* C10-KF3: the Debug formatter of FixedCircularQueue walks head..tail when head <= tail; a    *)
(* full queue has head = tail, so it prints an empty list.  Only the formatter is wrong:        *)
(* len / front / back / pop_front / clear of the full queue are checked as usual.               *)
G3(e, subj) ==
    /\ subj.fam = "fixedq"
    /\ e.op \in {"push_back", "pop_front", "clear"} /\ FullAfter(e.post) /\ e.post.c = <<>>
KF3(e, subj) == G3(e, subj) /\ TransQ(e) /\ ObsFull(seqs'[e.o], e.post)

DevApplies(id, e, subj) ==
    \/ id = "C10-KF2" /\ G2(e, subj)
    \/ id = "C10-KF3" /\ G3(e, subj)
KnownDeviation(id, e, subj) ==
    \/ id = "C10-KF2" /\ KF2(e, subj)
    \/ id = "C10-KF3" /\ KF3(e, subj)
=============================================================================
