--------------------------- MODULE Trace_Executor ---------------------------
(* Trace specification for C18: recorded runs of the real WorkStealingQueue,      *)
(* WorkStealingExecutor, FiberPool and Pipeline judged by Executor.tla and        *)
(* ParallelMap.tla.                                                               *)
EXTENDS Executor, ParallelMap, TraceIO, Known_Executor

VARIABLES l, subj, kf

vars == <<where, l, subj, kf>>

TraceInit == ExInit /\ l = 1 /\ subj = [subject |-> "none"] /\ kf = {}

Step(e) ==
    \/ e.op = "offer"        /\ Offer(e.id)
    \/ e.op = "offer_result" /\ OfferResult(e.id, e.ok)
    \/ e.op = "take"         /\ Take(e.id)
    \/ e.op = "take_none"    /\ TakeNone
    \/ e.op = "shuffle"      /\ Shuffle
    \/ e.op = "exec_end"     /\ Finish(e.id)
    \/ e.op = "exec_panic"   /\ Abort(e.id)
    \/ e.op = "task_attrs"   /\ TaskAttrs(e.prio, e.stealable, e.dur_ms, e.got_prio, e.got_stealable, e.got_dur_ms)
    \/ e.op = "bulk"         /\ Bulk(e.n, e.accepted, e.execs, e.queued, e.idle, e.executed)
    \/ e.op = "init"         /\ InitOk(e.max_fibers, e.queue_size, e.ok)
    \/ e.op = "global"       /\ GlobalIs(e.initialised, e.present)
    \/ e.op = "queued"       /\ QueuedIs(e.n)
    \/ e.op = "final"        /\ Final(e.queued, e.idle, e.executed, e.pending)
    \/ e.op = "note"         /\ UNCHANGED where
    \/ e.op = "pmap"         /\ MapOk(e.in, e.fail, e.ok, e.out) /\ UNCHANGED where
    \/ e.op = "pforeach"     /\ ForEachOk(e.in, e.fail, e.ok, e.seen_sorted) /\ UNCHANGED where
    \/ e.op = "preduce"      /\ ReduceOk(e.in, e.ok, e.out) /\ UNCHANGED where
    \/ e.op = "pbatch"       /\ BatchOk(e.in, e.fail, e.handles, e.out) /\ UNCHANGED where

TraceNext ==
    /\ l <= Len(Rec)
    /\ l' = l + 1
    /\ LET e == Rec[l] IN
       IF e.op = "reset"
       THEN where' = [x \in {} |-> "none"] /\ subj' = e /\ kf' = kf
       ELSE /\ subj' = subj
            /\ IF UseKF /\ \E id \in KnownIds : DevApplies(id, e, subj)
               THEN \E id \in KnownIds : KnownDeviation(id, e, subj) /\ kf' = kf \cup {id}
               ELSE Step(e) /\ kf' = kf

TraceSpec == TraceInit /\ [][TraceNext]_vars
Done == l = Len(Rec) + 1 => PrintT(<<"KFSET", kf>>)
=============================================================================
