SPECIFICATION Spec
CONSTANTS
  ND = 3
  BSZ = 2
  MaxSyncs = 2
  Reader = "lencheck"
  Protocol = "inplace"
  Faults = "truncate"
INVARIANT TypeOK Conforms DescriptorsSound PrefixComplete PrefixInSubset TruncComplete
CHECK_DEADLOCK FALSE
