SPECIFICATION Spec
CONSTANTS
  NW = 1
  NT = 3
  Cap = 4
  PollOwnSteal = FALSE
  Workers <- MCWorkers
  Tasks <- MCTasks
  Prio <- MCPrio
  Stealable <- MCStealable
INVARIANT Conservation
PROPERTY EventuallyDone
CHECK_DEADLOCK FALSE
