------------------------------ MODULE BlobStore ------------------------------
(* Contract of every blob store of zipora (property C03): "blob stores return     *)
(* exactly what was stored, under stable ids".                                    *)
(*                                                                               *)
(* State                                                                         *)
(*   live    id -> digest of the record stored under that id and not removed.     *)
(*           A digest is [len |-> n, h |-> <<h1, h0>>] (zv::digest): the harness  *)
(*           only projects payloads; equality of payloads is decided here.       *)
(*   issued  every id ever handed out (by put, put_batch or a builder).           *)
(*   keyof   id -> key, for records stored through put_with_key (keyed stores).   *)
(*   bykey   key -> id of the latest put_with_key under that key.                 *)
(*                                                                               *)
(* Every public operation is one action whose parameters are the arguments AND    *)
(* the result the implementation returned; the action is enabled exactly for the  *)
(* results the property allows.  Options are sequences of length 0/1.             *)
(*                                                                               *)
(* Refusal rule (DESIGN section 6): put / put_batch / remove / build / load /     *)
(* size may be refused (Err) provided the state is left unchanged -- read-only    *)
(* stores refuse every put and remove.  get of a LIVE id must succeed and return  *)
(* exactly the stored record; no read operation may return a wrong answer.        *)
(* An id may be any value that is not the id of another live record: re-issuing   *)
(* the id of a REMOVED record is not forbidden by the property (it is counted).   *)
EXTENDS Naturals, Sequences, FiniteSets

VARIABLES live, issued, keyof, bykey

bsvars == <<live, issued, keyof, bykey>>

Empty == [x \in {} |-> 0]
Live == DOMAIN live
IsLive(id) == id \in DOMAIN live

Ext(f, k, v) == [x \in DOMAIN f \cup {k} |-> IF x = k THEN v ELSE f[x]]
Drop(f, k) == [x \in DOMAIN f \ {k} |-> f[x]]
RangeOf(s) == { s[i] : i \in 1..Len(s) }
(* position of id in the sequence of distinct ids *)
PosOf(ids, id) == CHOOSE i \in 1..Len(ids) : ids[i] = id
Distinct(s) == \A i, j \in 1..Len(s) : i /= j => s[i] /= s[j]

IsPrefix(p, k) == Len(p) <= Len(k) /\ \A i \in 1..Len(p) : p[i] = k[i]

(* the key index without the entries that point at the given (re-issued) ids *)
Unkey(ids) == [k \in { k \in DOMAIN bykey : bykey[k] \notin ids } |-> bykey[k]]

BSInit == live = Empty /\ issued = {} /\ keyof = Empty /\ bykey = Empty

NoKeys == UNCHANGED <<keyof, bykey>>
Same == UNCHANGED bsvars

(* ------------------------------------------------------------------ mutators *)

(* put(d) -> Ok(id): the id is not held by another live record *)
Put(d, id) == /\ id \notin Live
              /\ live' = Ext(live, id, d)
              /\ issued' = issued \cup {id}
              /\ keyof' = Drop(keyof, id)
              /\ bykey' = Unkey({id})
(* put(d) -> Err: refused, nothing changes *)
PutRefused(d) == Same

(* put_batch(ds) -> Ok(ids): one fresh, distinct id per record, in order *)
PutBatch(ds, ids) ==
    /\ Len(ids) = Len(ds)
    /\ Distinct(ids)
    /\ RangeOf(ids) \cap Live = {}
    /\ live' = [x \in Live \cup RangeOf(ids) |-> IF x \in RangeOf(ids) THEN ds[PosOf(ids, x)] ELSE live[x]]
    /\ issued' = issued \cup RangeOf(ids)
    /\ keyof' = [x \in DOMAIN keyof \ RangeOf(ids) |-> keyof[x]]
    /\ bykey' = Unkey(RangeOf(ids))
PutBatchRefused(ds) == Same

(* remove(id) -> Ok: the record is gone (removing an absent id successfully is a no-op) *)
Remove(id) == /\ live' = Drop(live, id)
              /\ UNCHANGED <<issued, keyof, bykey>>
(* remove(id) -> Err: refused (read-only store, unknown id): nothing changes *)
RemoveRefused(id) == Same

(* remove_batch(ids) -> Ok(n) = the sequence of single removes, "n = number of blobs actually    *)
(* removed" (trait doc): each single remove may be refused (refusal rule; ids that are absent    *)
(* are skipped), so some set R of n of the listed live records is gone and nothing else changes. *)
(* n = 0 leaves the store unchanged; n = all listed live records removes them all; the logged    *)
(* answers that follow resolve R in between.                                                      *)
RemoveBatchMax(ids) == Cardinality(RangeOf(ids) \cap Live)
RemoveBatchOkN(ids, n) == n \in 0..RemoveBatchMax(ids)
RemoveBatch(ids, n) == /\ \E R \in SUBSET (RangeOf(ids) \cap Live) :
                             /\ Cardinality(R) = n
                             /\ live' = [x \in Live \ R |-> live[x]]
                       /\ UNCHANGED <<issued, keyof, bykey>>
(* remove_batch(ids) -> Err: the trait documents no partial effect: refused, nothing changes    *)
RemoveBatchRefused(ids) == Same

(* clear(): every record is gone *)
Clear == live' = Empty /\ UNCHANGED <<issued, keyof, bykey>>

(* a bulk builder / build_from(records): record i is stored under id i (0-based) *)
BuildFrom(ds) == /\ live' = [i \in 0..(Len(ds) - 1) |-> ds[i + 1]]
                 /\ issued' = 0..(Len(ds) - 1)
                 /\ keyof' = Empty /\ bykey' = Empty
BuildRefused(ds) == Same
(* a store built from an explicit id -> record map (MemoryBlobStore::from_data): record i under ids[i] *)
BuildAt(ids, ds) == /\ Len(ids) = Len(ds) /\ Distinct(ids)
                    /\ live' = [x \in RangeOf(ids) |-> ds[PosOf(ids, x)]]
                    /\ issued' = RangeOf(ids)
                    /\ keyof' = Empty /\ bykey' = Empty
(* a keyed bulk build (builder add(key, data) ... finish, build_from_key_value_pairs, build_from_<strings>): *)
(* entry i is stored under id i with key ks[i]; a key given several times reads as its LAST entry          *)
LastPos(ks, k) == CHOOSE i \in 1..Len(ks) : ks[i] = k /\ \A j \in (i + 1)..Len(ks) : ks[j] /= k
BuildKeyed(ks, ds) == /\ Len(ks) = Len(ds)
                      /\ live' = [i \in 0..(Len(ds) - 1) |-> ds[i + 1]]
                      /\ issued' = 0..(Len(ds) - 1)
                      /\ keyof' = [i \in 0..(Len(ds) - 1) |-> ks[i + 1]]
                      /\ bykey' = [k \in RangeOf(ks) |-> LastPos(ks, k) - 1]

(* save to bytes -> load (or close -> reopen): the loaded store answers identically *)
SaveLoad == Same

(* keyed extension (NestLoudsTrieBlobStore): put_with_key(k, d) -> Ok(id) *)
PutWithKey(k, d, id) == /\ id \notin Live
                        /\ live' = Ext(live, id, d)
                        /\ issued' = issued \cup {id}
                        /\ keyof' = Ext(keyof, id, k)
                        /\ bykey' = [x \in DOMAIN Unkey({id}) \cup {k} |-> IF x = k THEN id ELSE bykey[x]]

(* put_batch_with_keys(<<k, d>> ...) -> Ok(ids) = the sequence of put_with_key calls *)
PutBatchWithKeys(ks, ds, ids) ==
    /\ Len(ids) = Len(ds) /\ Len(ks) = Len(ds)
    /\ Distinct(ids)
    /\ RangeOf(ids) \cap Live = {}
    /\ live' = [x \in Live \cup RangeOf(ids) |-> IF x \in RangeOf(ids) THEN ds[PosOf(ids, x)] ELSE live[x]]
    /\ issued' = issued \cup RangeOf(ids)
    /\ keyof' = [x \in DOMAIN keyof \cup RangeOf(ids) |-> IF x \in RangeOf(ids) THEN ks[PosOf(ids, x)] ELSE keyof[x]]
    /\ bykey' = [k \in DOMAIN Unkey(RangeOf(ids)) \cup RangeOf(ks) |-> IF k \in RangeOf(ks) THEN ids[LastPos(ks, k)] ELSE bykey[k]]

(* a maintenance call (reserve, shrink_to_fit, optimize, flush, prefetch, cache on/off, write strategy, *)
(* finalize, offset cache ...) whatever it returns must not change what the store holds                *)
Maintenance == Same

(* ----------------------------------------------------------------- observers *)
(* state predicates: the answers the property allows in the current state       *)

(* get(id): live => Ok(exactly the stored record); absent => Err *)
GetOk(id, ok, d) == IF IsLive(id) THEN ok /\ d = live[id] ELSE ~ok
ContainsOk(id, r) == r = IsLive(id)
(* size(id): Ok(Some(len)) iff live, Ok(None) iff absent; Err is a refusal *)
SizeOk(id, ok, r) == ok => r = (IF IsLive(id) THEN <<live[id].len>> ELSE <<>>)
LenOk(r) == r = Cardinality(Live)

(* get_by_key(k): the record most recently stored under k, while it is live.  When that record *)
(* has been removed the property does not say which answer is right: an error, or an older      *)
(* live record stored under the same key, are both accepted.  A key never stored is an error.   *)
GetByKeyOk(k, ok, d) ==
    IF k \notin DOMAIN bykey THEN ~ok
    ELSE IF IsLive(bykey[k]) THEN ok /\ d = live[bykey[k]]
    ELSE ok => \E i \in Live \cap DOMAIN keyof : keyof[i] = k /\ d = live[i]
ContainsKeyOk(k, r) ==
    IF k \notin DOMAIN bykey THEN ~r
    ELSE IsLive(bykey[k]) => r
(* get_by_prefix(p) -> Ok(sequence of <<key, record>>): exactly the keys with that prefix whose *)
(* latest record is live, each once, with that record                                          *)
PrefixSet(p) == { k \in DOMAIN bykey : IsPrefix(p, k) /\ IsLive(bykey[k]) }
GetByPrefixOk(p, ok, r) ==
    ok => /\ Len(r) = Cardinality(PrefixSet(p))
          /\ { r[i].k : i \in 1..Len(r) } = PrefixSet(p)
          /\ \A i \in 1..Len(r) : r[i].k \in PrefixSet(p) => r[i].d = live[bykey[r[i].k]]

(* get_batch(ids) -> Ok(r): r[i] = [some, d] = Some(exactly the stored record) iff ids[i] is     *)
(* live, None iff absent (removed / never issued), in the order asked.  Err is acceptable only  *)
(* when some id of the batch is absent (a batch of live ids must be readable, like get).       *)
GetBatchOk(ids, ok, r) ==
    IF ok THEN /\ Len(r) = Len(ids)
               /\ \A i \in 1..Len(ids) : IF IsLive(ids[i]) THEN r[i].some /\ r[i].d = live[ids[i]]
                                          ELSE ~r[i].some
    ELSE \E i \in 1..Len(ids) : ~IsLive(ids[i])
(* iter_ids() -> the live ids, each exactly once, nothing else *)
IterIdsOk(r) == Len(r) = Cardinality(Live) /\ RangeOf(r) = Live

(* iter_blobs() / iter_blobs_vec() -> <<id, record>> pairs: every live record exactly once with  *)
(* exactly its bytes; r[i] = [ok, id, d]; a failing item or a failing call is a failed read of a   *)
(* live record and is not accepted                                                               *)
IterBlobsOk(ok, r) == /\ ok
                      /\ Len(r) = Cardinality(Live)
                      /\ { r[i].id : i \in 1..Len(r) } = Live
                      /\ \A i \in 1..Len(r) : r[i].ok /\ (r[i].id \in Live => r[i].d = live[r[i].id])
(* keys() / keys_with_prefix(p): exactly the keys (with that prefix) whose latest record is live *)
KeysOk(p, ok, r) == ok => Len(r) = Cardinality(PrefixSet(p)) /\ RangeOf(r) = PrefixSet(p)
(* MixedLenBlobStore shape observers: fixed_len() f, fixed_count(), variable_count(), is_fixed_length(id) *)
MixedShapeOk(f, nf, nv, ids, isf) ==
    /\ nf = Cardinality({ id \in Live : live[id].len = f })
    /\ nv = Cardinality(Live) - nf
    /\ Len(isf) = Len(ids)
    /\ \A i \in 1..Len(ids) : isf[i] = (IsLive(ids[i]) /\ live[ids[i]].len = f)

Get(id, ok, d) == GetOk(id, ok, d) /\ Same
IterBlobs(ok, r) == IterBlobsOk(ok, r) /\ Same
ListKeys(p, ok, r) == KeysOk(p, ok, r) /\ Same
MixedShape(f, nf, nv, ids, isf) == MixedShapeOk(f, nf, nv, ids, isf) /\ Same
GetBatch(ids, ok, r) == GetBatchOk(ids, ok, r) /\ Same
IterIds(r) == IterIdsOk(r) /\ Same
Contains(id, r) == ContainsOk(id, r) /\ Same
Size(id, ok, r) == SizeOk(id, ok, r) /\ Same
Len_(r) == LenOk(r) /\ Same
GetByKey(k, ok, d) == GetByKeyOk(k, ok, d) /\ Same
ContainsKey(k, r) == ContainsKeyOk(k, r) /\ Same
GetByPrefix(p, ok, r) == GetByPrefixOk(p, ok, r) /\ Same

(* probe: the observable projection over a list of ids, logged as ONE event:                 *)
(* g[i] = [ok, d] answer of get(ids[i]); c[i] = contains(ids[i]); s[i] = [ok, r] of size;     *)
(* n = len()                                                                                  *)
Probe(ids, g, c, s, n) ==
    /\ Len(g) = Len(ids) /\ Len(c) = Len(ids) /\ Len(s) = Len(ids)
    /\ \A i \in 1..Len(ids) : /\ GetOk(ids[i], g[i].ok, g[i].d)
                              /\ ContainsOk(ids[i], c[i])
                              /\ SizeOk(ids[i], s[i].ok, s[i].r)
    /\ LenOk(n)
    /\ Same

(* ---------------------------------------------------------------- properties *)
(* of the contract itself; checked by MC_BlobStore on every reachable state      *)
TypeOK(Ids, Recs) == /\ Live \subseteq issued
                     /\ issued \subseteq Ids
                     /\ \A id \in Live : live[id] \in Recs
                     /\ DOMAIN keyof \subseteq issued
                     /\ \A k \in DOMAIN bykey : bykey[k] \in issued
=============================================================================
