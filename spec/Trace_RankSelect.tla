-------------------------- MODULE Trace_RankSelect --------------------------
(* Trace specification: replays the recorded answers of a real zipora rank/select *)
(* structure through the actions of RankSelect.tla, one batch event = one action. *)
(*                                                                                *)
(* reset  {len, w16:[...]}   the bit vector, bit i = bit (i mod 16) of w16[i div 16]; *)
(*                           expanded ONCE into vec (bits, prefix sums, positions)    *)
(* rank   {which, api, all, at, r}       all = TRUE: r answers every p in 0..len      *)
(* select {which, api, all, at, r, why}  one call per k; -1 = Err/None; why = class of *)
(*                                       the refusal messages                         *)
(* select_batch {which, api, at, ok, r}  one call for all k of at                     *)
(* get {api, all, at, r}  counts {len, ones, zeros}  popcounts {api, r}                        *)
(* wrank {api, w, r}  wselect {which, api, w, r}   questions on one 64-bit word       *)
(* wselect_batch {api, w, at, ok, r}  one call for several ones of one word           *)
(* bulk entry points are asked ascending, descending, shuffled, duplicated, far-apart,  *)
(* same-block and empty lists (api = name<order>): rank {all = FALSE, at, r} and        *)
(* select_batch judge every element against the single-position answer, in order        *)
(* cnt {what, api, r}  wrange {api, w, s, l, r}  wedge {api, w, tz, lz}              *)
(* mut {m, api, ..., len, ones}  one BitVector mutator (history machine), len and     *)
(*                               count_ones observed after the call                   *)
(* build {ok}   panic {in, msg}  (no action: a panic is rejected)                     *)
EXTENDS RankSelect, TraceIO, Known_RankSelect

VARIABLES l, subj, kf

vars == <<vec, l, subj, kf>>

Pow2 == <<1, 2, 4, 8, 16, 32, 64, 128, 256, 512, 1024, 2048, 4096, 8192, 16384, 32768>>
Expand(w16, n) == [i \in 1..n |-> (w16[((i - 1) \div 16) + 1] \div Pow2[((i - 1) % 16) + 1]) % 2]

(* one BitVector mutator call (or a batch of equal calls) of the history machine *)
Mut(e) ==
    \/ e.m = "new"         /\ BvNew(<<>>)
    \/ e.m = "with_size"   /\ BvNew(Rep(e.x, e.n))
    \/ e.m = "from_raw"    /\ BvNew(Expand(e.w16, e.n))
    \/ e.m = "push"        /\ BvPush(Expand(e.w16, e.k))
    \/ e.m = "pop"         /\ BvPop(e.k, e.r)
    \/ e.m = "set"         /\ BvSet(e.i, e.x, e.ok)
    \/ e.m = "insert"      /\ BvInsert(e.i, e.x, e.ok)
    \/ e.m = "ensure_set1" /\ BvEnsureSet1(e.i, e.ok)
    \/ e.m = "resize"      /\ BvResize(e.n, e.x, e.ok)
    \/ e.m = "clear"       /\ BvClear
    \/ e.m = "set_range"   /\ BvSetRange(e.s, e.e, e.x, e.ok)
    \/ e.m = "bitwise"     /\ BvBitwise(e.f, Expand(e.ow16, e.olen), e.s, e.e, e.ok)
    \/ e.m = "noop"        /\ BvNoop

TraceInit == vec = Mk(<<>>) /\ l = 1 /\ subj = [subject |-> "none"] /\ kf = {}

Step(e) ==
    \/ e.op = "rank"   /\ e.all  /\ RankAll(e.which, e.r)
    \/ e.op = "rank"   /\ ~e.all /\ RankAt(e.which, e.at, e.r)
    \/ e.op = "select" /\ e.all  /\ SelectAll(e.which, e.r)
    \/ e.op = "select" /\ ~e.all /\ SelectAt(e.which, e.at, e.r)
    \/ e.op = "select" /\ SelectNotOffered(e.which, e.r, e.why)
    \/ e.op = "select_batch" /\ SelectBatch(e.which, e.at, e.ok, e.r)
    \/ e.op = "get"    /\ e.all  /\ GetAll(e.r)
    \/ e.op = "get"    /\ ~e.all /\ GetAt(e.at, e.r)
    \/ e.op = "counts" /\ Counts(e.len, e.ones, e.zeros)
    \/ e.op = "wrank"  /\ WordRank(e.w, e.r)
    \/ e.op = "wselect" /\ WordSelect(e.which, e.w, e.r)
    \/ e.op = "wselect_batch" /\ WordSelectBatch(e.w, e.at, e.ok, e.r)
    \/ e.op = "popcounts" /\ Popcounts(e.r)
    \/ e.op = "cnt"    /\ CountTwin(e.what, e.r)
    \/ e.op = "wrange" /\ WordRanges(e.w, e.s, e.l, e.r)
    \/ e.op = "wedge"  /\ WordEdges(e.w, e.tz, e.lz)
    \/ e.op = "mut"    /\ Mut(e) /\ Observed(e.len, e.ones)
    \/ e.op = "build"  /\ ~e.ok /\ BuildRefused
    \/ e.op = "build"  /\ e.ok  /\ Built

TraceNext ==
    /\ l <= Len(Rec)
    /\ l' = l + 1
    /\ LET e == Rec[l] IN
       IF e.op = "reset"
       THEN vec' = Mk(Expand(e.w16, e.len)) /\ subj' = e /\ kf' = kf
       ELSE /\ subj' = subj
            /\ IF UseKF /\ \E id \in KnownIds : DevApplies(id, e, subj)
               THEN \E id \in KnownIds : KnownDeviation(id, e, subj) /\ kf' = kf \cup {id}
               ELSE Step(e) /\ kf' = kf

TraceSpec == TraceInit /\ [][TraceNext]_vars

(* reported only on a path that consumed the whole trace *)
Done == l = Len(Rec) + 1 => PrintT(<<"KFSET", kf>>)
=============================================================================
