SPECIFICATION Spec
CONSTANTS
  MaxLen = 6
  MaxPat = 3
  Sigma = {97, 98}
INVARIANT TypeOK UniqueSA IndexDefsAgree OrderLaws SearchCoherent LcpBwtCoherent ContractSharp
INVARIANT AcceptedIsTheSA ReadActionsEnabled
CHECK_DEADLOCK FALSE
