SPECIFICATION FNSpec
CONSTANTS
  TOT = 16
  MaxSyms = 5
  MaxCount = 6
  Variant = "reserve"
INVARIANT FNTypeOK Conservation DonePresentHasSlot DoneSumIsTotal DoneNoPhantom
CHECK_DEADLOCK FALSE
