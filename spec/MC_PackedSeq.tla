---------------------------- MODULE MC_PackedSeq ----------------------------
(* Bounded model of the PackedSeq contract: build / push / set over Vals, at most  *)
(* MaxLen elements.  Checks on every reachable state that the contract accepts      *)
(* exactly one answer for every read (the stored element inside, a refusal          *)
(* outside), and the laws a user relies on (get after push, set changes one         *)
(* element, length grows by one).                                                   *)
EXTENDS PackedSeq, TLC

CONSTANTS Vals, MaxLen

Idx == 0..(MaxLen + 2)
Huge == {<<65535, 65535, 65535, 65535>>, <<0, 1, 0, 0>>, <<0, 0, 16384, 0>>, <<32768, 0, 0, 0>>}
SeqsUpTo(n) == UNION { [1..k -> Vals] : k \in 0..n }
OptV == {None} \cup { Some(v) : v \in Vals }
OptV2 == {None} \cup { Some(<<v, w>>) : v \in Vals, w \in Vals }

Next ==
    \/ \E xs \in SeqsUpTo(MaxLen) : Build(xs, TRUE)
    \/ Build(<<>>, FALSE)
    \/ Len(seq) < MaxLen /\ \E x \in Vals : Push(x, TRUE)
    \/ \E x \in Vals : Push(x, FALSE)
    \/ \E i \in Idx, x \in Vals : Set(Limbs(i), x, i < Len(seq))
    \/ \E i \in Idx, x \in Vals : Set(Limbs(i), x, FALSE)
    \/ Finish(TRUE) \/ Finish(FALSE)
    \/ Clear(0)
    \/ \E out \in SeqsUpTo(MaxLen) : Resize(Len(out), out)
    \/ \E xs \in SeqsUpTo(MaxLen) : Swap(xs, xs)

Spec == PSInit /\ [][Next]_pvars

TypeInv == TypeOK(Vals)

(* the contract accepts exactly the right answer, delivered the right way *)
GetExact ==
    built => \A i \in Idx, r \in OptV, how \in Hows, pk \in BOOLEAN :
        ENABLED Get(Limbs(i), r, how, pk) <=>
            IF i < Len(seq) THEN r = Some(seq[i + 1]) /\ how = "value"
            ELSE r = None /\ how \in Refusals /\ (how = "panic" => pk)
Get2Exact ==
    built => \A i \in Idx, r \in OptV2, how \in Hows :
        ENABLED Get2(Limbs(i), r, how, FALSE) <=>
            IF i + 1 < Len(seq) THEN r = Some(<<seq[i + 1], seq[i + 2]>>) /\ how = "value"
            ELSE r = None /\ how \in {"none", "err"}
(* indices beyond 2^30, 2^32, 2^63, 2^64-1: never a value *)
HugeRefused ==
    built => \A h \in Huge, r \in OptV, how \in Hows :
        /\ ENABLED Get(h, r, how, TRUE) => r = None /\ how # "value"
        /\ \A r2 \in OptV2 : ENABLED Get2(h, r2, how, TRUE) => r2 = None /\ how # "value"
        /\ (ENABLED FastGet(h, 1, r, how) /\ (h[1] > 0 \/ h[2] >= 256)) => r = None
(* the complete read-back is accepted only when it is the content *)
ReadBackExact ==
    built => \A out \in SeqsUpTo(MaxLen), n \in 0..MaxLen :
        ENABLED ReadBack(out, n) <=> (out = seq /\ n = Len(seq))
NothingWithoutContainer ==
    ~built => /\ ~ENABLED ReadBack(<<>>, 0)
              /\ ~ENABLED Get(Limbs(0), None, "none", TRUE)
              /\ ~ENABLED LenIs(0)
(* back / is_empty / content-preserving calls accept exactly the content *)
BackExact ==
    built => \A r \in OptV, how \in Hows, pk \in BOOLEAN :
        ENABLED Back(r, how, pk) <=>
            IF Len(seq) > 0 THEN r = Some(seq[Len(seq)]) /\ how = "value"
            ELSE r = None /\ how \in Refusals /\ (how = "panic" => pk)
MaintainExact ==
    built => /\ \A out \in SeqsUpTo(MaxLen) : ENABLED Maintain(out) <=> out = seq
             /\ \A n \in 0..MaxLen, b \in BOOLEAN : ENABLED LenEmpty(n, b) <=> (n = Len(seq) /\ b = (seq = <<>>))
             /\ \A n \in 0..MaxLen : ENABLED Clear(n) <=> n = 0
(* resize accepts exactly the read-backs that keep the common prefix *)
ResizeExact ==
    built => \A out \in SeqsUpTo(MaxLen), n \in 0..MaxLen :
        ENABLED Resize(n, out) <=>
            (Len(out) = n /\ \A i \in 1..MaxLen : (i <= n /\ i <= Len(seq)) => out[i] = seq[i])
(* get_block: whole blocks and the partial last block *)
BlockLaw ==
    built => \A bs \in 1..2, b \in 0..MaxLen :
        LET blk == [j \in 1..bs |-> IF b * bs + j <= Len(seq) THEN seq[b * bs + j] ELSE "pad"] IN
        /\ ENABLED GetBlock(Limbs(b), bs, TRUE, blk) <=> b * bs < Len(seq)
        /\ ENABLED GetBlock(Limbs(b), bs, FALSE, <<>>) <=> b * bs >= Len(seq)

(* laws, as action properties: whenever a step IS a successful push / set ... *)
GetAfterPush == [][\A x \in Vals : Push(x, TRUE) =>
                      /\ ReadOf(seq', Limbs(Len(seq))) = Some(x)
                      /\ \A i \in 0..(Len(seq) - 1) : ReadOf(seq', Limbs(i)) = Read(Limbs(i))
                      /\ ReadOf(seq', Limbs(Len(seq) + 1)) = None
                      /\ Len(seq) >= 1 => Read2Of(seq', Limbs(Len(seq) - 1)) = Some(<<seq[Len(seq)], x>>)
                      /\ Read2Of(seq', Limbs(Len(seq))) = None]_pvars
SetChangesOne == [][\A i \in Idx, x \in Vals : Set(Limbs(i), x, TRUE) =>
                      /\ i < Len(seq) /\ Len(seq') = Len(seq)
                      /\ ReadOf(seq', Limbs(i)) = Some(x)
                      /\ \A j \in Idx \ {i} : ReadOf(seq', Limbs(j)) = Read(Limbs(j))]_pvars
RefusalKeeps == [][\A i \in Idx, x \in Vals : (Push(x, FALSE) \/ Set(Limbs(i), x, FALSE)) => UNCHANGED pvars]_pvars
ClearEmpties == [][Clear(0) => seq' = <<>> /\ built']_pvars
SwapTakesOther == [][\A xs \in SeqsUpTo(MaxLen) : Swap(xs, xs) => seq' = xs /\ built']_pvars
BuildIsInput == [][\A xs \in SeqsUpTo(MaxLen) : Build(xs, TRUE) =>
                      \A i \in Idx : ReadOf(seq', Limbs(i)) = (IF i < Len(xs) THEN Some(xs[i + 1]) ELSE None)]_pvars
=============================================================================
