SPECIFICATION SpecX
CONSTANTS
  Keys = {"k1","k2","k3"}
  Vals = {"v1","v2"}
INVARIANT TypeInv LenBound BatchIsSequence RetainOnlyRemoves ValuesOfEnumeration
CHECK_DEADLOCK FALSE
