SPECIFICATION Spec
CONSTANTS
  P = 13
  Fixed = TRUE
  OneWriterMode = TRUE
  Threads <- MCThreads
  Prog <- MCProg
VIEW view
INVARIANT OneWriter MinNotAboveLive CountsMatch
CHECK_DEADLOCK FALSE
