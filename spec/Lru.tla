-------------------------------- MODULE Lru --------------------------------
(* Contract of the LRU maps of zipora (property C17): LruMap, ConcurrentLruMap,  *)
(* and of FsaCache seen as a bounded id-keyed store.                             *)
(*                                                                               *)
(* One LRU cache is a record  [order, val, cap]:                                 *)
(*    order  sequence of keys, most recently used first, no duplicates           *)
(*    val    function  key -> value  with DOMAIN val = the keys of order         *)
(*    cap    configured capacity (>= 1)                                          *)
(* The operations are pure operators on such records (LGet, LPut, ...) returning *)
(* the new record, the result the caller must see and the eviction-callback log  *)
(* of that call.  A sharded map is a function  shard -> record  (variable lru);  *)
(* a plain LruMap is the case of one shard.  Every action takes the shard index  *)
(* together with the arguments AND the results the implementation returned; it   *)
(* is enabled exactly for the results the property allows.                        *)
(*                                                                               *)
(* Refusal rule: put may fail (Err) provided nothing changes and no callback is  *)
(* made; a wrong answer is never accepted.                                        *)
EXTENDS Naturals, Sequences, FiniteSets, Opt

\* ---------------------------------------------------------------- one LRU cache
SeqRange(s) == { s[i] : i \in 1..Len(s) }
NoDup(s) == \A i, j \in 1..Len(s) : i /= j => s[i] /= s[j]
Without(s, k) == SelectSeq(s, LAMBDA x : x /= k)
EmptyFn == [x \in {} |-> 0]

LNew(c) == [order |-> <<>>, val |-> EmptyFn, cap |-> c]
LKeys(s) == SeqRange(s.order)
LHas(s, k) == k \in DOMAIN s.val
LLookup(s, k) == IF LHas(s, k) THEN Some(s.val[k]) ELSE None
LWellFormed(s) == /\ NoDup(s.order)
                  /\ LKeys(s) = DOMAIN s.val
                  /\ Len(s.order) <= s.cap
LSet(s, k, v) == [x \in DOMAIN s.val \cup {k} |-> IF x = k THEN v ELSE s.val[x]]
LDrop(s, k) == [order |-> Without(s.order, k),
                val |-> [x \in DOMAIN s.val \ {k} |-> s.val[x]],
                cap |-> s.cap]
LTouch(s, k) == [s EXCEPT !.order = <<k>> \o Without(s.order, k)]
LFull(s) == Len(s.order) >= s.cap
LVictim(s) == s.order[Len(s.order)]          \* least recently used = last

(* get(k): hit => the value, k becomes most recent; miss => None, nothing changes *)
LGet(s, k) == [st |-> IF LHas(s, k) THEN LTouch(s, k) ELSE s, r |-> LLookup(s, k), ev |-> <<>>]

(* put(k,v): existing => value replaced, k most recent, returns the old value, no callback;     *)
(* new, room left => inserted in front; new, full => the LAST key of order is evicted and the   *)
(* callback log of this call is exactly << <<victim, value of victim>> >>.                      *)
LPut(s, k, v) ==
    IF LHas(s, k)
    THEN [st |-> [LTouch(s, k) EXCEPT !.val = LSet(s, k, v)], r |-> Some(s.val[k]), ev |-> <<>>]
    ELSE IF ~LFull(s)
    THEN [st |-> [order |-> <<k>> \o s.order, val |-> LSet(s, k, v), cap |-> s.cap], r |-> None, ev |-> <<>>]
    ELSE LET w == LVictim(s)
             d == LDrop(s, w)
         IN [st |-> [order |-> <<k>> \o d.order, val |-> LSet(d, k, v), cap |-> s.cap],
             r |-> None, ev |-> << <<w, s.val[w]>> >>]

LRemove(s, k) == [st |-> IF LHas(s, k) THEN LDrop(s, k) ELSE s, r |-> LLookup(s, k), ev |-> <<>>]
LClear(s) == LNew(s.cap)

\* ---------------------------------------------------------------- the (sharded) map
VARIABLES
    lru,    \* shard index (1..N) -> LRU record
    loc,    \* key -> shard: where a key has been observed to live (hash sharding: fixed per key)
    last    \* ghost: what the latest call did  [kind, shard, before, cb]

Shards == DOMAIN lru
NoCall == [kind |-> "none", shard |-> 1, before |-> LNew(1), cb |-> <<>>]

LruInit(n, c) == /\ lru = [s \in 1..n |-> LNew(c)]
                 /\ loc = EmptyFn
                 /\ last = NoCall

(* a key lives in one shard: an operation on k in shard s is consistent with what is known *)
LocOK(s, k) == s \in Shards /\ (k \in DOMAIN loc => loc[k] = s)
Learn(s, k) == IF Cardinality(Shards) = 1 THEN loc    \* one shard: nothing to learn
              ELSE [x \in DOMAIN loc \cup {k} |-> IF x = k THEN s ELSE loc[x]]
Ghost(kind, s, cb) == last' = [kind |-> kind, shard |-> s, before |-> lru[s], cb |-> cb]

(* the operations applied to shard s, whatever is known about the key's location *)
GetAt(s, k, r) ==
    /\ s \in Shards
    /\ r = LGet(lru[s], k).r
    /\ lru' = [lru EXCEPT ![s] = LGet(lru[s], k).st]
    /\ loc' = Learn(s, k)
    /\ Ghost("get", s, <<>>)

PutAt(s, k, v, r, ev) ==
    /\ s \in Shards
    /\ r = LPut(lru[s], k, v).r
    /\ ev = LPut(lru[s], k, v).ev
    /\ lru' = [lru EXCEPT ![s] = LPut(lru[s], k, v).st]
    /\ loc' = Learn(s, k)
    /\ Ghost("put", s, ev)

RemoveAt(s, k, r, ev) ==
    /\ s \in Shards
    /\ r = LRemove(lru[s], k).r
    /\ \/ ev = <<>>
       \/ LHas(lru[s], k) /\ ev = << <<k, lru[s].val[k]>> >>
    /\ lru' = [lru EXCEPT ![s] = LRemove(lru[s], k).st]
    /\ loc' = loc
    /\ Ghost("remove", s, ev)

ContainsAt(s, k, r) ==
    /\ s \in Shards
    /\ r = LHas(lru[s], k)
    /\ UNCHANGED <<lru, loc, last>>

(* ---- the contract actions: a key lives in ONE shard ---- *)
Get(s, k, r) == LocOK(s, k) /\ GetAt(s, k, r)

(* put(k,v) -> Ok(r) with callback log ev *)
Put(s, k, v, r, ev) == LocOK(s, k) /\ PutAt(s, k, v, r, ev)

(* put(k,v) -> Err: refused; nothing changes, no callback was made *)
PutRefused(k, v, ev) ==
    /\ ev = <<>>
    /\ UNCHANGED <<lru, loc, last>>

(* remove(k) -> r.  The property is silent about a callback on remove: none, or the removed entry *)
Remove(s, k, r, ev) == LocOK(s, k) /\ RemoveAt(s, k, r, ev)

(* contains_key(k): no recency change *)
Contains(s, k, r) == LocOK(s, k) /\ ContainsAt(s, k, r)

(* an operation on a key that was never seen in any shard: it is in none *)
AbsentEverywhere(k) == \A s \in Shards : ~LHas(lru[s], k)

SumLen == LET RECURSIVE Sum(_)
              Sum(S) == IF S = {} THEN 0 ELSE LET x == CHOOSE y \in S : TRUE IN Len(lru[x].order) + Sum(S \ {x})
          IN Sum(Shards)
Len_(r) == r = SumLen /\ UNCHANGED <<lru, loc, last>>

(* other ways to look at the same map: none changes content or recency *)
AllKeys == UNION { LKeys(lru[s]) : s \in Shards }
IsEmpty_(r) == r = (SumLen = 0) /\ UNCHANGED <<lru, loc, last>>
(* keys(): every stored key exactly once *)
Keys_(r) == NoDup(r) /\ SeqRange(r) = AllKeys /\ UNCHANGED <<lru, loc, last>>
(* for_each_shard(f): f ran once per shard; it reported whether the shard contains k and the shard's len. *)
(* hits = number of shards that contain k; lens = the reported lengths in any order                        *)
ForEachShard(k, hits, lens) ==
    /\ hits = Cardinality({ s \in Shards : LHas(lru[s], k) })
    /\ Len(lens) = Cardinality(Shards)
    /\ \A n \in SeqRange(lens) \cup { Len(lru[s].order) : s \in Shards } :
          Cardinality({ i \in 1..Len(lens) : lens[i] = n }) = Cardinality({ s \in Shards : Len(lru[s].order) = n })
    /\ UNCHANGED <<lru, loc, last>>
(* rebalance() and other maintenance: nothing observable changes *)
Maintenance == UNCHANGED <<lru, loc, last>>

(* clear(): everything gone.  Callbacks: none required; any made must be for entries that were there *)
AllEntries == UNION { { <<k, lru[s].val[k]>> : k \in LKeys(lru[s]) } : s \in Shards }
Clear(ev) ==
    /\ NoDup(ev) /\ SeqRange(ev) \subseteq AllEntries
    /\ lru' = [s \in Shards |-> LClear(lru[s])]
    /\ loc' = loc
    /\ last' = [NoCall EXCEPT !.kind = "clear"]

\* ---------------------------------------------------------------- properties (C17)
(* at most the configured number of entries, per shard; the representation is a map *)
CapacityInv == \A s \in Shards : LWellFormed(lru[s])

(* entries that left the shard during the latest call *)
LeftBy == { <<k, last.before.val[k]>> : k \in LKeys(last.before) \ LKeys(lru[last.shard]) }

(* the callback is invoked exactly once, with key and value, for each entry evicted to make room *)
CallbackExactlyOnce ==
    last.kind = "put" => /\ NoDup(last.cb)
                         /\ SeqRange(last.cb) = LeftBy
                         /\ Len(last.cb) = Cardinality(LeftBy)

(* ... and never for an entry that is still retrievable *)
NeverCallbackForRetrievable ==
    last.kind \in {"put", "get", "remove"} =>
        \A i \in 1..Len(last.cb) : ~LHas(lru[last.shard], last.cb[i][1])

(* a key lives in at most one shard *)
OneShardPerKey == \A s, t \in Shards : s /= t => LKeys(lru[s]) \cap LKeys(lru[t]) = {}

\* ---------------------------------------------------------------- bounded id-keyed store (FsaCache)
(* st: id -> stored record.  cache_state returns an id that is not the id of a live entry left    *)
(* in the store; any set of older entries may be evicted by that call (the policy is not LRU);   *)
(* the number of live entries never exceeds max.  get_state returns what was stored, or None      *)
(* for an id that is not live.                                                                    *)
BCacheState(st, max, rec, id, live) ==
    \* live = the ids that answer get_state after the call, as observed
    /\ id \in live
    /\ live \ {id} \subseteq DOMAIN st
    /\ Cardinality(live) <= max
BAfter(st, rec, id, live) == [i \in live |-> IF i = id THEN rec ELSE st[i]]
BGet(st, id, r) == r = (IF id \in DOMAIN st THEN Some(st[id]) ELSE None)
(* zero-path data attached to a live state: zp: id -> path bytes.  It dies with the state (removal,   *)
(* eviction, clear) and is never inherited by a later state that is given the same id.                *)
RECURSIVE Concat(_)
Concat(ss) == IF ss = <<>> THEN <<>> ELSE ss[1] \o Concat(Tail(ss))
ZpKeep(zp, live) == [i \in DOMAIN zp \cap live |-> zp[i]]
ZpSet(zp, id, path) == [i \in DOMAIN zp \cup {id} |-> IF i = id THEN path ELSE zp[i]]
=============================================================================
