------------------------------ MODULE LazyInit ------------------------------
(* Mechanism-level model of the lazy creation of a pool's backing memory on first use:           *)
(*   memory/fixed_capacity_pool.rs  FixedCapacityMemoryPool::ensure_memory_allocated             *)
(*   (eager_allocation = false): unlocked check of `memory`, init_mutex, re-check of the          *)
(*   `initialized` flag under the mutex, allocate_backing_memory_internal (store the region,      *)
(*   then build the free list of all blocks), unlock.                                             *)
(* Recheck = TRUE is the pinned code; Recheck = FALSE drops the re-check under the mutex (every   *)
(* thread that passed the unlocked check before the first initialiser published the region        *)
(* initialises again): TLC finds the second region, the lost blocks and the capacity handed out   *)
(* twice.  One action per code segment between two (proposed) schedule points fc.init.x; the pop  *)
(* of a block is one step here (its interleavings are the subject of OffsetStack.tla).            *)
(* A block is <<region, index>>.                                                                  *)
EXTENDS Naturals, Sequences, FiniteSets, TLC

CONSTANTS Threads, NB, Recheck

VARIABLES memory,      \* region the pool's base pointer designates, 0 = None
          regions,     \* number of regions allocated so far
          initialized, \* the flag guarded by init_mutex
          lock,        \* holder of init_mutex, 0 = free
          free,        \* the free list: sequence of blocks
          pc, held, sched
vars == <<memory, regions, initialized, lock, free, pc, held, sched>>
view == <<memory, regions, initialized, lock, free, pc, held>>

Init == /\ memory = 0 /\ regions = 0 /\ initialized = FALSE /\ lock = 0 /\ free = <<>>
        /\ pc = [t \in Threads |-> "start"] /\ held = [t \in Threads |-> {}] /\ sched = <<>>

Step(t) == sched' = Append(sched, t)
Goto(t, l) == pc' = [pc EXCEPT ![t] = l]

\* unlocked fast check (site fc.init.check when it fails)
Check(t) == /\ pc[t] = "start"
            /\ IF memory /= 0 THEN Goto(t, "pop") ELSE Goto(t, "lock")
            /\ UNCHANGED <<memory, regions, initialized, lock, free, held>> /\ Step(t)
\* init_mutex.lock(): enabled only while the mutex is free (site fc.init.locked)
Lock(t) == /\ pc[t] = "lock" /\ lock = 0
           /\ lock' = t
           /\ IF Recheck /\ initialized THEN Goto(t, "unlock") ELSE Goto(t, "region")
           /\ UNCHANGED <<memory, regions, initialized, free, held>> /\ Step(t)
\* allocate the region and publish the base pointer (site fc.init.region)
Region(t) == /\ pc[t] = "region"
             /\ regions' = regions + 1 /\ memory' = regions + 1
             /\ Goto(t, "lists")
             /\ UNCHANGED <<initialized, lock, free, held>> /\ Step(t)
\* build the free list of every block of the region, set the flag
Lists(t) == /\ pc[t] = "lists"
            /\ free' = [i \in 1..NB |-> <<memory, i>>]
            /\ initialized' = TRUE
            /\ Goto(t, "unlock")
            /\ UNCHANGED <<memory, regions, lock, held>> /\ Step(t)
Unlock(t) == /\ pc[t] = "unlock"
             /\ lock' = 0 /\ Goto(t, "pop")
             /\ UNCHANGED <<memory, regions, initialized, free, held>> /\ Step(t)
\* allocate_from_free_list: pop (an empty list is a refusal: the region is published before its list is built)
Pop(t) == /\ pc[t] = "pop"
          /\ IF free = <<>> THEN UNCHANGED <<free, held>>
             ELSE free' = Tail(free) /\ held' = [held EXCEPT ![t] = @ \cup {Head(free)}]
          /\ Goto(t, "done")
          /\ UNCHANGED <<memory, regions, initialized, lock>> /\ Step(t)

Next == \E t \in Threads : Check(t) \/ Lock(t) \/ Region(t) \/ Lists(t) \/ Unlock(t) \/ Pop(t)
Spec == Init /\ [][Next]_vars

(* ---- the contract's properties ---- *)
InitOnce == regions <= 1
Range(q) == { q[i] : i \in 1..Len(q) }
Out == UNION { held[t] : t \in Threads }
(* no block is lost: every block of every region is owned or on the list, once the lists exist *)
Quiet == \A t \in Threads : pc[t] \in {"start", "done"}
NoLoss == Quiet => \A r \in 1..regions : \A i \in 1..NB : <<r, i>> \in Out \cup Range(free)
(* a pool of NB blocks never has more than NB blocks out or available *)
Capacity == Cardinality(Out) + Len(free) <= NB
Exclusive == \A t, u \in Threads : t /= u => held[t] \cap held[u] = {}
Done == \A t \in Threads : pc[t] = "done"
=============================================================================
