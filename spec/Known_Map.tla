----------------------------- MODULE Known_Map -----------------------------
(* Named deviation actions for the recorded known findings of property C06       *)
(* (see /verif/known_findings.json).  A deviation is enabled only for the listed *)
(* subject and only under its semantic trigger; the trace specification records  *)
(* the ids taken on an accepted path in the variable kf.                         *)
EXTENDS Map, TLC

KnownIds == {"C06-KF1", "C06-KF2"}

Has3(e) == "via" \in DOMAIN e
StubVariants == {"small_inline_4", "small_inline_16", "cache_optimized", "string_optimized"}

(* C06-KF1: the SmallInline / CacheOptimized / StringOptimized storage strategies of    *)
(* ZiporaHashMap are unimplemented stubs: insert returns Ok(None) and stores nothing.    *)
G1(e, subj) == /\ subj.fam = "zhm" /\ subj.variant \in StubVariants
               /\ e.op = "insert" /\ e.ok /\ e.r = None
KF1(e, subj) == G1(e, subj) /\ UNCHANGED m

(* C06-KF2: SmallMap::iter() panics with an explicit "not yet implemented" message once   *)
(* the map has been promoted to its large representation (clone() and == iterate too).    *)
(* Read-only: nothing changes.                                                            *)
(* g.big: the map has held more than 8 entries since its last clear (ghost of the trace spec) *)
G2(e, subj, g) == /\ subj.fam = "small" /\ g.big
               /\ e.op = "panic" /\ e.in \in {"iter", "probe", "clone"}
               /\ e.msg = "Iterator not yet implemented for large maps with ZiporaHashMap"
KF2(e, subj, g) == G2(e, subj, g) /\ UNCHANGED m

(* C06-KF3 (patch C06-20): SmallMap<u8,V>::get_fast(&0) answers Some(uninitialised slot) when  *)
(* the inline map holds 5..7 keys and key 0 is not among them (zero padding of the SIMD lanes). *)
G3(e, subj) == /\ subj.fam = "small" /\ subj.variant = "u8_fast"
               /\ e.op = "get" /\ Has3(e) /\ e.via = "get_fast"
               /\ e.k = 0 /\ 0 \notin DOMAIN m /\ Cardinality(DOMAIN m) \in 5..7
               /\ e.r /= None
KF3(e, subj) == G3(e, subj) /\ UNCHANGED m

(* C06-KF4 (patch C06-21): EasyHashMap::retain shows the predicate a copy of every value: what *)
(* the predicate writes through its &mut V is lost.  Which entries are kept is as specified.    *)
G4(e, subj) == /\ subj.fam = "easy"
               /\ e.op = "retain" /\ e.mut
KF4(e, subj) == /\ G4(e, subj)
                /\ IsEnumeration(e.seen)
                /\ RetainCore(LAMBDA k, v : CASE e.pk = "kmod" -> (k % e.a) /= e.b [] e.pk = "vlt" -> v < e.a
                                              [] e.pk = "all" -> TRUE [] e.pk = "none" -> FALSE,
                              LAMBDA v : v)

(* C06-KF5 (patch C06-22): ZiporaHashMap::clone() returns an empty map of the same configuration. *)
G5(e, subj) == /\ subj.fam = "zhm" /\ subj.variant \in {"default_clone", "with_capacity_100_clone"}
               /\ e.op = "clone"
KF5(e, subj) == G5(e, subj) /\ m' = Empty

(* C06-KF6 (patch C06-23): HashStrMap::insert_fast_str stores a key that is not valid UTF-8 under *)
(* its lossy conversion, get_by_fast_str answers None for such a key although it was inserted.     *)
(* Keys k with k % 3 = 2 of this subject are the byte strings that are not valid UTF-8.            *)
G6(e, subj) == /\ subj.fam = "hashstr" /\ subj.variant = "faststr_bytes"
               /\ e.op = "get" /\ Has3(e) /\ e.via = "get_by_fast_str"
               /\ e.k % 3 = 2 /\ e.k \in DOMAIN m /\ e.r = None
KF6(e, subj) == G6(e, subj) /\ UNCHANGED m

(* guard (state predicate) and action of each deviation.  In KF mode a deviation whose   *)
(* guard holds REPLACES the contract action for that event.                               *)
DevApplies(id, e, subj, g) ==
    \/ id = "C06-KF1" /\ G1(e, subj)
    \/ id = "C06-KF2" /\ G2(e, subj, g)
    \/ id = "C06-KF3" /\ G3(e, subj)
    \/ id = "C06-KF4" /\ G4(e, subj)
    \/ id = "C06-KF5" /\ G5(e, subj)
    \/ id = "C06-KF6" /\ G6(e, subj)
KnownDeviation(id, e, subj, g) ==
    \/ id = "C06-KF1" /\ KF1(e, subj)
    \/ id = "C06-KF2" /\ KF2(e, subj, g)
    \/ id = "C06-KF3" /\ KF3(e, subj)
    \/ id = "C06-KF4" /\ KF4(e, subj)
    \/ id = "C06-KF5" /\ KF5(e, subj)
    \/ id = "C06-KF6" /\ KF6(e, subj)
=============================================================================
