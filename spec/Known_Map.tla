----------------------------- MODULE Known_Map -----------------------------
(* Named deviation actions for the recorded known findings of property C06       *)
(* (see /verif/known_findings.json).  A deviation is enabled only for the listed *)
(* subject and only under its semantic trigger; the trace specification records  *)
(* the ids taken on an accepted path in the variable kf.                         *)
EXTENDS Map, TLC

KnownIds == {"C06-KF1", "C06-KF2"}

StubVariants == {"small_inline_4", "small_inline_16", "cache_optimized", "string_optimized"}

(* C06-KF1: the SmallInline / CacheOptimized / StringOptimized storage strategies of    *)
(* ZiporaHashMap are unimplemented stubs: insert returns Ok(None) and stores nothing.    *)
G1(e, subj) == /\ subj.fam = "zhm" /\ subj.variant \in StubVariants
               /\ e.op = "insert" /\ e.ok /\ e.r = None
KF1(e, subj) == G1(e, subj) /\ UNCHANGED m

(* C06-KF2: SmallMap::iter() panics with an explicit "not yet implemented" message once   *)
(* the map has been promoted to its large representation.  Read-only: nothing changes.    *)
G2(e, subj) == /\ subj.fam = "small"
               /\ e.op = "panic" /\ e.in \in {"iter", "probe"}
               /\ e.msg = "Iterator not yet implemented for large maps with ZiporaHashMap"
KF2(e, subj) == G2(e, subj) /\ UNCHANGED m

(* guard (state predicate) and action of each deviation.  In KF mode a deviation whose   *)
(* guard holds REPLACES the contract action for that event.                               *)
DevApplies(id, e, subj) ==
    \/ id = "C06-KF1" /\ G1(e, subj)
    \/ id = "C06-KF2" /\ G2(e, subj)
KnownDeviation(id, e, subj) ==
    \/ id = "C06-KF1" /\ KF1(e, subj)
    \/ id = "C06-KF2" /\ KF2(e, subj)
=============================================================================
