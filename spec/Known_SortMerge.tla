-------------------------- MODULE Known_SortMerge --------------------------
(* Named deviation actions for the recorded known findings of property C11        *)
(* (see /verif/known_findings.json).  Filled in below.                            *)
EXTENDS SetOps, TLC

KnownIds == {}
DevApplies(id, e, subj) == FALSE
KnownDeviation(id, e, subj) == FALSE
=============================================================================
