-------------------------- MODULE Known_SortMerge --------------------------
(* Named deviation actions for the recorded known findings of property C11        *)
(* (see /verif/known_findings.json).  A deviation is enabled only for the listed  *)
(* subject (family / configuration fields of the reset event), the listed          *)
(* operation and its semantic trigger, and only when the strict contract does NOT  *)
(* accept the event (a repaired tree never takes a deviation).  The action         *)
(* describes the recorded wrong behaviour as exactly as it can be stated from the  *)
(* logged input; any other wrong answer stays a VIOLATION.  The contract has no    *)
(* state, so the actions are plain predicates on the event.                        *)
EXTENDS SetOps, TLC

KnownIds == {"C11-KF4", "C11-KF9"}

(* ---------------------------------------------------------------------------------------- *)
(* C11-KF1  RadixSort::sort_u32 / Algorithm::execute: inputs of at most                       *)
(* use_counting_sort_threshold elements go to counting_sort_u32, which allocates max+1         *)
(* counters: 2 GiB for a value of 2^28, 32 GiB for u32::MAX - the process aborts (allocation   *)
(* failure under the 6 GiB address-space limit of the harness child).  Trigger: some element   *)
(* >= 2^28 (hi28 is the same projection for inputs too long to be logged).                     *)
G1(e, subj) ==
    /\ subj.fam = "radix" /\ subj.elem = "u32" /\ subj.cthr > 0
    /\ e.op = "crash" /\ e.in = "sort" /\ ~e.timeout /\ e.sig = 6
    /\ e.len >= 1 /\ e.len <= subj.cthr
    /\ IF Len(e.input) > 0
       THEN \E i \in 1..Len(e.input) : IF e.kt = "limbs" THEN e.input[i][3] >= 4096 ELSE e.input[i] >= 268435456
       ELSE e.hi28
KF1(e, subj) == G1(e, subj)

(* ---------------------------------------------------------------------------------------- *)
(* C11-KF2  KeyValueRadixSort::sort_by_key looks the value up by the FIRST position of the     *)
(* key: every pair with a duplicated key comes back with the value of the first one.           *)
HasDupKeys(in) == \E i, j \in 1..Len(in) : i # j /\ in[i][1] = in[j][1]
FirstValue(in, k) == in[CHOOSE i \in 1..Len(in) : in[i][1] = k /\ \A j \in 1..(i - 1) : in[j][1] # k][2]
G2(e, subj) ==
    /\ subj.fam = "kv"
    /\ \/ /\ e.op = "sort_kv" /\ e.ok /\ HasDupKeys(e.in)
          /\ ~ SortKvOK(e.kt, e.ord, e.ok, e.stable, e.in, e.out)
       \/ /\ e.op = "sort_big" /\ e.what = "pairs" /\ e.ok /\ e.dups
          /\ ~ BigOK(e.ok, e.len_in, e.len_out, e.bag_in, e.bag_out, e.inv)
KF2(e, subj) ==
    /\ G2(e, subj)
    /\ \/ /\ e.op = "sort_kv"
          /\ IsSortedPermutation(e.kt, "asc", Keys(e.in), Keys(e.out))
          /\ \A i \in 1..Len(e.out) : e.out[i][2] = FirstValue(e.in, e.out[i][1])
       \/ /\ e.op = "sort_big"
          /\ e.len_out = e.len_in /\ e.inv = 0

(* ---------------------------------------------------------------------------------------- *)
(* C11-KF3  AdvancedRadixSort, LSD strategy with use_simd on AVX2+BMI2 hosts: the digit        *)
(* counting of inputs of >= 16 elements truncates every key to its low 32 bits                 *)
(* (count_digits_avx2_bmi2), the distribution uses the full key: with a key >= 2^32 the         *)
(* bucket offsets are wrong: the distribution indexes past the buffer (panic) or, when the     *)
(* offsets stay inside it, overwrites elements and returns Ok.                                 *)
G3(e, subj) ==
    /\ subj.fam = "adv" /\ subj.simd /\ subj.strategy \in {"lsd", "auto"}
    /\ \/ /\ e.op = "panic" /\ e.in = "sort" /\ e.kind = "oob"
          /\ e.hi32 /\ e.len >= 16
       \/ /\ e.op = "sort" /\ e.ok /\ e.hi32 /\ Len(e.in) >= 16
          /\ ~ SortOK(e.kt, e.ord, e.ok, e.in, e.out)
       \/ /\ e.op = "sort_big" /\ e.ok /\ e.hi32
          /\ ~ BigOK(e.ok, e.len_in, e.len_out, e.bag_in, e.bag_out, e.inv)
(* when the wrong offsets stay inside the buffer there is no panic: elements are overwritten  *)
(* (lost / duplicated) or left unsorted, and Ok is returned; all that can be said is that the  *)
(* length is kept and no value is invented                                                     *)
KF3(e, subj) ==
    /\ G3(e, subj)
    /\ \/ e.op = "panic"
       \/ e.op = "sort" /\ Len(e.out) = Len(e.in) /\ Elems(e.out) \subseteq Elems(e.in)
       \/ e.op = "sort_big" /\ e.len_out = e.len_in

(* ---------------------------------------------------------------------------------------- *)
(* C11-KF4  AdvancedRadixSort<RadixString> (AdvancedStringRadixSort), LSD strategy (forced, or  *)
(* chosen by the adaptive selection for more than insertion_sort_threshold elements): the LSD    *)
(* passes sort by extract_key() = the first 8 bytes, zero padded; strings that agree there (a    *)
(* common 8-byte prefix, or differing only in trailing zero bytes) keep their input order (the   *)
(* passes are stable).  The comparison sorts and the MSD strategy were repaired (C11-4).         *)
K8(s) == [ i \in 1..8 |-> IF i <= Len(s) THEN s[i] ELSE 0 ]
Key8Leq(a, b) == K8(a) = K8(b) \/ BLess(K8(a), K8(b))
Key8Collision(in) == \E i, j \in 1..Len(in) : in[i] # in[j] /\ K8(in[i]) = K8(in[j])
LsdReached(subj, n) == subj.strategy = "lsd" \/ (subj.strategy = "auto" /\ n > subj.ithr)
SameK8(s, k) == SelectSeq(s, LAMBDA x : K8(x) = k)
G4(e, subj) ==
    /\ subj.fam = "adv" /\ subj.elem = "bytes"
    /\ \/ /\ e.op = "sort" /\ e.ok /\ e.kt = "bytes" /\ LsdReached(subj, Len(e.in)) /\ Key8Collision(e.in)
          /\ ~ SortOK(e.kt, e.ord, e.ok, e.in, e.out)
       \/ /\ e.op = "sort_big" /\ e.ok /\ LsdReached(subj, e.len_in) /\ e.embdup
          /\ ~ BigOK(e.ok, e.len_in, e.len_out, e.bag_in, e.bag_out, e.inv)
KF4(e, subj) ==
    /\ G4(e, subj)
    /\ \/ /\ e.op = "sort"
          /\ IsPermutation(e.in, e.out)
          /\ \A i \in 1..(Len(e.out) - 1) : Key8Leq(e.out[i], e.out[i + 1])
          /\ \A k \in { K8(x) : x \in Elems(e.in) } : SameK8(e.in, k) = SameK8(e.out, k)
       \/ /\ e.op = "sort_big"
          /\ e.len_out = e.len_in /\ e.bag_out = e.bag_in

(* ---------------------------------------------------------------------------------------- *)
(* C11-KF5  CacheObliviousSort::funnel_sort_recursive passes floor(sqrt(k)) down as the fan-    *)
(* out of the sub-problems; once it reaches 1 a sub-problem larger than small_threshold calls   *)
(* itself on the same slice forever (stack overflow, the process aborts).  The trigger replays  *)
(* the subdivision arithmetic of the code on the logged length and configuration.               *)
ISqrt(q) == CHOOSE s \in 0..130 : s * s <= q /\ (s + 1) * (s + 1) > q
FunnelWidth(subj, n) == Min2(Max2(ISqrt(Min2(subj.l2 \div subj.l2_line, 16384)), 2), Min2(n, 64))
RECURSIVE Diverges(_, _, _)
Diverges(n, k, thr) ==
    IF n <= thr THEN FALSE
    ELSE IF k <= 1 THEN TRUE
    ELSE LET cs == n \div k
             last == n - (k - 1) * cs
             sk == ISqrt(k)
         IN (cs > 0 /\ Diverges(cs, sk, thr)) \/ Diverges(last, sk, thr)
TakesFunnel(subj, n) ==
    IF subj.entry = "cache_oblivious_sort" THEN TRUE
    ELSE IF n * 8 <= subj.l1 THEN FALSE
    ELSE IF n * 8 <= subj.l3 THEN TRUE
    ELSE n * subj.esize > subj.l2
G5(e, subj) ==
    /\ subj.fam = "co"
    /\ e.op = "crash" /\ e.in = "sort" /\ ~e.timeout
    /\ TakesFunnel(subj, e.len)
    /\ Diverges(e.len, FunnelWidth(subj, e.len), subj.small_threshold)
KF5(e, subj) == G5(e, subj)

(* ---------------------------------------------------------------------------------------- *)
(* C11-KF6  SetOperations::intersection, general variant (bit mask optimisation off, or more   *)
(* ways than bit_mask_threshold): an element is emitted when its TOTAL number of occurrences    *)
(* equals the number of ways, whichever ways they come from - wrong as soon as a way holds an   *)
(* element twice.                                                                               *)
GeneralPath(subj, ways) == (~ subj.bit_mask) \/ ways > subj.bit_mask_threshold
RunHasDup(runs) == \E w \in 1..Len(runs) : \E i \in 1..(Len(runs[w]) - 1) : runs[w][i] = runs[w][i + 1]
GeneralInter(kt, runs) ==
    LET f == Flatten(runs) IN SelectSeq(Unique(KMerge(kt, runs)), LAMBDA x : Count(f, x) = Len(runs))
G6(e, subj) ==
    /\ subj.fam = "ksets"
    /\ e.op = "ksetop" /\ e.name = "k_inter" /\ e.ok
    /\ GeneralPath(subj, Len(e.runs)) /\ RunHasDup(e.runs)
    /\ ~ KSetOpOK(e.name, e.kt, e.ok, e.runs, e.out, e.m, e.r)
KF6(e, subj) == G6(e, subj) /\ e.out = GeneralInter(e.kt, e.runs)

(* ---------------------------------------------------------------------------------------- *)
(* C11-KF7  SetOperations::intersection, bit mask variant with bit_mask_threshold > 32 and      *)
(* more than 32 ways: the mask is a u32 and `1u32 << idx` wraps for idx >= 32, so way idx       *)
(* stands in for way idx mod 32: an element is emitted when every residue class mod 32 has a    *)
(* way heading it.                                                                              *)
RECURSIVE KBitInterFrom(_, _, _)
KBitInterFrom(kt, runs, p) ==
    LET live == Live(runs, p) IN
    IF live = {} THEN <<>>
    ELSE LET w0 == CHOOSE w \in live : \A u \in live : KLeq(kt, HeadOf(runs, p, w), HeadOf(runs, p, u))
             m == HeadOf(runs, p, w0)
             at == { w \in live : HeadOf(runs, p, w) = m }
             rest == KBitInterFrom(kt, runs, [ w \in 1..Len(runs) |-> IF w \in at THEN p[w] + 1 ELSE p[w] ])
         IN IF { (w - 1) % 32 : w \in at } = 0..31 THEN <<m>> \o rest ELSE rest
G7(e, subj) ==
    /\ subj.fam = "ksets" /\ subj.bit_mask
    /\ e.op = "ksetop" /\ e.name = "k_inter" /\ e.ok
    /\ Len(e.runs) > 32 /\ Len(e.runs) <= subj.bit_mask_threshold
    /\ ~ KSetOpOK(e.name, e.kt, e.ok, e.runs, e.out, e.m, e.r)
KF7(e, subj) == G7(e, subj) /\ e.out = KBitInterFrom(e.kt, e.runs, Start(e.runs))

(* ---------------------------------------------------------------------------------------- *)
(* C11-KF8  ReplaceSelectSort with memory_buffer_size smaller than one element: the heap        *)
(* capacity is 0, no run is written and sort() returns Ok(empty) for a non-empty input.         *)
G8(e, subj) ==
    /\ subj.fam = "rss" /\ subj.buf_items = 0
    /\ e.op = "sort" /\ e.ok /\ Len(e.in) > 0 /\ e.out = <<>>
KF8(e, subj) == G8(e, subj)

(* ---------------------------------------------------------------------------------------- *)
(* C11-KF9  ReplaceSelectSort::with_comparator: run generation pops its heap in T's natural     *)
(* order (RunElement::cmp ignores the comparator) while run breaks and the final merge use the  *)
(* comparator: with a comparator that is not the natural order, a buffer of >= 2 elements and   *)
(* more input than the buffer holds, the runs are not sorted by the comparator and the merged   *)
(* result is an unsorted permutation of the input.                                              *)
G9(e, subj) ==
    /\ subj.fam = "rss" /\ subj.cmp = "reversed" /\ subj.buf_items >= 2
    /\ e.op = "sort" /\ e.ok /\ Len(e.in) > subj.buf_items
    /\ ~ SortOK(e.kt, e.ord, e.ok, e.in, e.out)
KF9(e, subj) == G9(e, subj) /\ IsPermutation(e.in, e.out)

(* guard (predicate) and action of each deviation.  In KF mode a deviation whose guard holds *)
(* REPLACES the contract action for that event.                                              *)
DevApplies(id, e, subj) ==
    \/ id = "C11-KF1" /\ G1(e, subj)
    \/ id = "C11-KF2" /\ G2(e, subj)
    \/ id = "C11-KF3" /\ G3(e, subj)
    \/ id = "C11-KF4" /\ G4(e, subj)
    \/ id = "C11-KF5" /\ G5(e, subj)
    \/ id = "C11-KF6" /\ G6(e, subj)
    \/ id = "C11-KF7" /\ G7(e, subj)
    \/ id = "C11-KF8" /\ G8(e, subj)
    \/ id = "C11-KF9" /\ G9(e, subj)
KnownDeviation(id, e, subj) ==
    \/ id = "C11-KF1" /\ KF1(e, subj)
    \/ id = "C11-KF2" /\ KF2(e, subj)
    \/ id = "C11-KF3" /\ KF3(e, subj)
    \/ id = "C11-KF4" /\ KF4(e, subj)
    \/ id = "C11-KF5" /\ KF5(e, subj)
    \/ id = "C11-KF6" /\ KF6(e, subj)
    \/ id = "C11-KF7" /\ KF7(e, subj)
    \/ id = "C11-KF8" /\ KF8(e, subj)
    \/ id = "C11-KF9" /\ KF9(e, subj)
=============================================================================
