------------------------- MODULE Trace_KernelsNeg -------------------------
(* Binding self-test of the Kernels contract, many corruptions in one TLC run:   *)
(* the file TRACE holds events that were accepted by Trace_Kernels and then had  *)
(* ONE result field corrupted each.  The contract is stateless, so every event   *)
(* is judged on its own: each of them must be REJECTED by EventOK.  The accepted *)
(* ones (if any) are printed; the orchestration turns that into a tool error.    *)
EXTENDS Kernels, TraceIO

VARIABLE l

NegInit == l = 0
NegSpec == NegInit /\ [][UNCHANGED l]_l

AcceptedIdx == { i \in 1..Len(Rec) : Rec[i].op # "reset" /\ EventOK(Rec[i]) }
AllRejected ==
    IF AcceptedIdx = {} THEN PrintT(<<"NEG_OK", Len(Rec)>>)
    ELSE PrintT(<<"NEG_ACCEPTED", AcceptedIdx>>) /\ FALSE
=============================================================================
