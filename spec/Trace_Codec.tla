---------------------------- MODULE Trace_Codec ----------------------------
(* Trace specification: replays a recorded session of a real zipora entropy       *)
(* codec through the actions of CodecSession.tla, one event = one action, and     *)
(* evaluates the mechanism invariants of FreqNorm.tla / PrefixCode.tla on the      *)
(* real tables the harness read out of the coder after training.                  *)
EXTENDS Known_Codec, TraceIO

VARIABLES l, subj, kf,
          mech   \* what TLC derived from the real tables / events of the current run (deviation guards use it):
                 \*   slots:   the symbols that own slots in the last frequency table of the coder
                 \*   starved: the symbols of that table that are present in its counts but own 0 slots
                 \*   oneslot: the symbols of that table that own exactly one slot
                 \*   px:      blob id -> byte values occurring in the payload (logged for the FSE family)
                 \*   maxlen:  longest code of the code tables seen, tables: number of tables judged

vars == <<model, enc, l, subj, kf, mech>>

NoMech == [slots |-> {}, starved |-> {}, oneslot |-> {}, px |-> EmptyFn, maxlen |-> 0, tables |-> 0]

TraceInit == CSInit /\ l = 1 /\ subj = [subject |-> "none", fam |-> "none", variant |-> "none", mode |-> "none", klass |-> "none", streams |-> 0]
                    /\ kf = {} /\ mech = NoMech

Max2(a, b) == IF a > b THEN a ELSE b

(* a normalised frequency table of a real rANS / FSE coder: every present symbol owns a slot, *)
(* the slot ranges are cumulative and fit the table (an under-full table is not an error)    *)
TableStep(e) ==
    /\ FN!TableOK(e.freq, e.norm, e.total)
    /\ FN!StartsCumulative(e.start, e.norm)
    /\ UNCHANGED csvars
    /\ mech' = [mech EXCEPT !.slots = SlotSyms(e), !.starved = {}, !.oneslot = OneSlotSyms(e), !.tables = @ + 1]

(* the result of the public normaliser EntropyNormalizer::normalize_frequencies_entropy_preserving *)
(* called directly with a table size of the caller's choice                                       *)
NormStep(e) ==
    /\ FN!TableOK(e.freq, e.norm, e.total)
    /\ UNCHANGED csvars
    /\ mech' = [mech EXCEPT !.tables = @ + 1]

(* the code table of a real Huffman tree (ctx = -1: the order-0 / baseline tree) *)
CodesStep(e) ==
    /\ PC!CodesOK(e.sym, e.codes, Range(e.must))
    /\ e.maxlen = PC!MaxLen(e.codes)
    /\ UNCHANGED csvars
    /\ mech' = [mech EXCEPT !.maxlen = Max2(@, PC!MaxLen(e.codes)), !.tables = @ + 1]

(* encode(c, x) -> Ok: the contract action; the payload's byte values are remembered when logged *)
EncodeStep(e) ==
    /\ Encode(e.c, e.x, e.b)
    /\ mech' = IF Has(e, "xs") THEN [mech EXCEPT !.px = Upd(@, e.b, Range(e.xs))] ELSE mech

Step(e) ==
    \/ e.op = "train"  /\ e.ok  /\ Train(e.c, e.d) /\ mech' = NoMech
    \/ e.op = "train"  /\ ~e.ok /\ TrainRefused(e.c, e.d) /\ mech' = mech
    \/ e.op = "table"  /\ TableStep(e)
    \/ e.op = "norm"   /\ NormStep(e)
    \/ e.op = "codes"  /\ CodesStep(e)
    \/ e.op = "encode" /\ e.ok  /\ EncodeStep(e)
    \/ e.op = "encode" /\ ~e.ok /\ EncodeRefused(e.c, e.x) /\ mech' = mech
    \/ e.op = "decode" /\ Decode(e.c, e.b, e.n, e.ok, e.y) /\ mech' = mech
    \/ e.op = "roundtrips" /\ Roundtrips(e.c, e.items) /\ mech' = mech
    \/ e.op = "symsteps" /\ StepLaw(e.items) /\ mech' = mech
    (* a panic inside train / encode is a refusal ("whenever encoding succeeds"): nothing was     *)
    (* produced, nothing changes.  A panic inside decode, a crash or a timeout has no action.     *)
    \/ e.op = "panic" /\ e.in \in {"train", "encode"} /\ UNCHANGED csvars /\ mech' = mech

TraceNext ==
    /\ l <= Len(Rec)
    /\ l' = l + 1
    /\ LET e == Rec[l] IN
       IF e.op = "reset"
       THEN model' = EmptyFn /\ enc' = EmptyFn /\ subj' = e /\ kf' = kf /\ mech' = NoMech
       ELSE /\ subj' = subj
            /\ IF UseKF /\ \E id \in KnownIds : DevApplies(id, e, subj, mech)
               THEN LET id == CHOOSE x \in KnownIds : DevApplies(x, e, subj, mech) IN
                    KnownDeviation(id, e, subj, mech, mech') /\ kf' = kf \cup {id}
               ELSE Step(e) /\ kf' = kf

TraceSpec == TraceInit /\ [][TraceNext]_vars

(* reported only on a path that consumed the whole trace *)
Done == l = Len(Rec) + 1 => PrintT(<<"KFSET", kf>>)
=============================================================================
