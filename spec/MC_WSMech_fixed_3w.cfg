SPECIFICATION Spec
CONSTANTS
  NW = 3
  NT = 4
  Cap = 1
  PollOwnSteal = TRUE
  Workers <- MCWorkers
  Tasks <- MCTasks
  Prio <- MCPrio
  Stealable <- MCStealable
INVARIANT Conservation
PROPERTY EventuallyDone
CHECK_DEADLOCK FALSE
