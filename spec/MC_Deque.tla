------------------------------ MODULE MC_Deque ------------------------------
(* Bounded model of the queue contract Deque.tla: every operation with the       *)
(* canonical drop list of a correct implementation.  Cap = 0: growable queue;    *)
(* Cap > 0: fixed-capacity queue (the push that would exceed it is refused and   *)
(* changes nothing).  A clone becomes the object the following operations act on *)
(* (clone-then-diverge); the older objects must stay as they are.                *)
EXTENDS Deque

CONSTANTS Caps,     \* the capacities explored (a set; 0 = growable)
          MaxLenQ,  \* growable queues: no generated operation makes a queue longer than this
          MaxId, Ops
VARIABLES nv, act

mcvars == <<seqs, alive, ever, acct, fixedcap, nv, act>>

S(o) == seqs[o]
Fresh(k) == <<nv + k, nv + k>>
Room(o, k) == IF fixedcap > 0 THEN TRUE ELSE Len(S(o)) + k <= MaxLenQ
FrontOpt(s) == IF s = <<>> THEN None ELSE Some(s[1])

DoPushBack(o) ==
    /\ "push_back" \in Ops /\ Room(o, 1)
    /\ IF Full(o) THEN PushBackRefused(o, Fresh(0), <<Fresh(0)>>, {}) ELSE PushBack(o, Fresh(0), <<>>, {})
    /\ nv' = nv + 1 /\ act' = act
DoPopFront(o) == "pop_front" \in Ops /\ PopFront(o, FrontOpt(S(o)), <<>>, {}) /\ nv' = nv /\ act' = act
CloneTail2 == <<<<nv, nv + 2>>, <<nv + 1, nv + 3>>>>
DoPushBulk(o) ==
    /\ "push_bulk" \in Ops /\ Room(o, 2) /\ (fixedcap > 0 => Len(S(o)) + 2 <= fixedcap)
    /\ PushBulk(o, <<Fresh(0), Fresh(1)>>, 2, S(o) \o CloneTail2, <<>>, Elems(CloneTail2))
    /\ nv' = nv + 4 /\ act' = act
(* pop_bulk into a buffer of two filler elements *)
PopBulkOut(o) == [i \in 1..2 |-> IF i <= Min2(2, Len(S(o))) THEN S(o)[i] ELSE Fresh(i - 1)]
DoPopBulk(o) ==
    /\ "pop_bulk" \in Ops
    /\ PopBulk(o, <<Fresh(0), Fresh(1)>>, PopBulkOut(o), Min2(2, Len(S(o))),
               SubSeq(<<Fresh(0), Fresh(1)>>, 1, Min2(2, Len(S(o)))), {})
    /\ nv' = nv + 2 /\ act' = act
DoReserve(o) == "reserve" \in Ops /\ ReserveQ(o, <<>>, {}) /\ nv' = nv /\ act' = act
DoClear(o) == "clear" \in Ops /\ ClearQ(o, S(o), {}) /\ nv' = nv /\ act' = act
CloneOf(s) == [i \in 1..Len(s) |-> <<s[i][1], nv + i - 1>>]
DoClone(o) ==
    /\ "clone" \in Ops /\ act < 3
    /\ CloneQ(o, act + 1, CloneOf(S(o)), <<>>, Elems(CloneOf(S(o))))
    /\ nv' = nv + Len(S(o)) /\ act' = act + 1

Next == LET o == act IN
    DoPushBack(o) \/ DoPopFront(o) \/ DoPushBulk(o) \/ DoPopBulk(o) \/ DoReserve(o) \/ DoClear(o) \/ DoClone(o)

Init == \E c \in Caps : DequeInit(TRUE, c) /\ nv = 1 /\ act = 1
Spec == Init /\ [][Next]_mcvars
Bound == nv <= MaxId

(* ---- what TLC checks ---- *)
TypeInv == /\ DOMAIN seqs = 1..act
           /\ \A e \in ever : e[2] < nv
(* FIFO: what leaves the front is the oldest element; nothing overtakes *)
Fifo == [][\A o \in DOMAIN seqs \cap DOMAIN seqs' :
             \A a, b \in Elems(seqs[o]) \cap Elems(seqs'[o]) :
                 (\E i, j \in 1..Len(seqs[o]) : i < j /\ seqs[o][i] = a /\ seqs[o][j] = b)
                 => (\E i, j \in 1..Len(seqs'[o]) : i < j /\ seqs'[o][i] = a /\ seqs'[o][j] = b)]_mcvars
NoResurrection == [][(ever \ alive) \subseteq (ever' \ alive')]_mcvars
OneObjectPerCall == [][Cardinality({ o \in DOMAIN seqs \cap DOMAIN seqs' : seqs[o] # seqs'[o] }) <= 1]_mcvars
=============================================================================
