SPECIFICATION Spec
CONSTANTS
  Profile = "collide"
  Pinned = FALSE
  N = 4
  MAXH = 7
  Vals = {10, 20}
  Keys <- MCKeys
  H <- MCH
INVARIANT GetAgrees InsertReturnAgrees LenAgrees IterAgrees
CHECK_DEADLOCK FALSE
