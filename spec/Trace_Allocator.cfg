SPECIFICATION TraceSpec
INVARIANT Done NoOverlap SizesOk
POSTCONDITION Accepted
CHECK_DEADLOCK FALSE
