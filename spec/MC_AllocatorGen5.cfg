SPECIFICATION Spec
CONSTANTS
  Sizes = {"c1m","c1","c1p","c2m","c2","c2p","min","max","maxp"}
  L = 5
  MaxLive = 4
CONSTRAINT Bound
INVARIANT Emit Inv
CHECK_DEADLOCK FALSE
