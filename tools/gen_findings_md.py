#!/usr/bin/env python3
"""Rewrites the block between <!-- FINDINGS:BEGIN --> and <!-- FINDINGS:END --> of DESIGN.md from
known_findings.json and seeded/*/meta.json."""
import glob, json, os, re
V = os.path.dirname(os.path.dirname(os.path.abspath(__file__)))
d = json.load(open(os.path.join(V, "known_findings.json")))["findings"]
def esc(s): return (s or "").replace("|", "\\|").replace("\n", " ")
out = []
fixed = [f for f in d if f.get("status") == "fixed"]
known = [f for f in d if f.get("status") != "fixed"]
out.append("#### Genuine defects repaired by `fix:` commits in /repo (%d)\n" % len(fixed))
out.append("| id | property | commit | what failed |\n|---|---|---|---|")
for f in sorted(fixed, key=lambda f: (f["property"], f["id"])):
    out.append("| %s | %s | `%s` | %s |" % (f["id"], f["property"], f.get("commit", ""), esc(f.get("what", ""))[:260]))
out.append("\n#### Known findings (recorded, not repaired: repair not small) (%d)\n" % len(known))
out.append("| id | property | subject | what fails | why not fixed |\n|---|---|---|---|---|")
for f in sorted(known, key=lambda f: (f["property"], f["id"])):
    out.append("| %s | %s | %s | %s | %s |" % (f["id"], f["property"], esc(str(f.get("subject", "")))[:60], esc(f.get("what", ""))[:300], esc(f.get("why_not_fixed", ""))[:160]))
seeds = sorted(glob.glob(os.path.join(V, "seeded", "*", "meta.json")))
out.append("\n#### Seeded changes (written by fresh sub-agents that saw only the property text) (%d)\n" % len(seeds))
out.append("| seeded change | property | what it needs to manifest | detected by |\n|---|---|---|---|")
for p in seeds:
    m = json.load(open(p))
    out.append("| `seeded/%s` | %s | %s | %s |" % (os.path.basename(os.path.dirname(p)), m.get("property", ""), esc(m.get("needs", ""))[:300], esc(m.get("detected_by", "NOT YET RUN"))[:300]))
block = "\n".join(out)
p = os.path.join(V, "DESIGN.md")
s = open(p).read()
s = re.sub(r"<!-- FINDINGS:BEGIN -->.*<!-- FINDINGS:END -->", "<!-- FINDINGS:BEGIN -->\n" + block.replace("\\", "\\\\") + "\n<!-- FINDINGS:END -->", s, flags=re.S)
open(p, "w").write(s)
print("findings: %d fixed, %d known, %d seeded" % (len(fixed), len(known), len(seeds)))
