#!/usr/bin/env python3
"""apply_fix.py <patch> <property> <kf-ids,comma> "<commit subject (without 'fix: ')>"
Applies an agent-proposed patch to /repo as one 'fix:' commit (body = the patch's own explanation)
and marks the listed known findings as fixed in known_findings.json."""
import json, re, subprocess, sys
patch, prop, kfs, subject = sys.argv[1:5]
text = open(patch).read()
head = text[:text.index("\n--- ")] if "\n--- " in text else text[:text.index("\ndiff --git")]
if "diff --git" in head:
    head = head[:head.index("diff --git")]
body = "\n".join(l.lstrip("# ").rstrip() for l in head.strip().splitlines())
r = subprocess.run(["patch", "-p1", "-i", patch], cwd="/repo", capture_output=True, text=True)
print(r.stdout.strip())
if r.returncode != 0:
    print(r.stderr); sys.exit(1)
subprocess.run("find /repo/src -name '*.orig' -delete -o -name '*.rej' -delete", shell=True)
subprocess.check_call(["git", "-C", "/repo", "add", "-A", "src"])
subprocess.check_call(["git", "-C", "/repo", "commit", "-q", "-m", "fix: " + subject + "\n\n" + body])
h = subprocess.check_output(["git", "-C", "/repo", "log", "-1", "--format=%h"], text=True).strip()
p = "/verif/known_findings.json"
d = json.load(open(p))
for f in d["findings"]:
    if f["id"] in kfs.split(","):
        f["status"] = "fixed"
        f["commit"] = h
        f["fixed"] = "fixed: property=%s %s %s" % (prop, h, f.get("what", subject))
json.dump(d, open(p, "w"), indent=1)
print("committed", h)
