#!/bin/bash
# mutant_pipeline.sh "<PID> <name>" ... : for each seeded change (worktree /tmp/mut-<PID>, change applied, _mutant/ filled):
# confirm it (confirm_mutant.sh), then run the property's quick check against the worktree (ZV_REPO) and store the
# verdict lines in /verif/seeded/<name>/detection.log
for x in "$@"; do
  set -- $x; PID=$1; NAME=$2
  [ -f /tmp/mut-$PID/_mutant/confirm.log ] && grep -q "^done" /tmp/mut-$PID/_mutant/confirm.log || /verif/tools/confirm_mutant.sh /tmp/mut-$PID $NAME > /dev/null 2>&1
  cd /verif
  ( echo "== ZV_REPO=/tmp/mut-$PID ./check $PID --tier quick"; ZV_REPO=/tmp/mut-$PID ./check $PID --tier quick 2>&1 | grep -E "^VIOLATION|violation:|TOOL ERROR|KNOWN-FINDING" | cut -c1-400 | head -12; echo "exit=${PIPESTATUS[0]}" ) > /verif/seeded/$NAME/detection.log 2>&1
  cp /tmp/mut-$PID/_mutant/confirm.log /verif/seeded/$NAME/confirm.log 2>/dev/null
done
echo pipeline-done
