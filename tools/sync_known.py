#!/usr/bin/env python3
"""sync_known.py [Known_X.tla ...]: remove the ids of findings whose status is 'fixed' in known_findings.json
from the `KnownIds == {...}` set of the given spec/Known_*.tla files (default: all that define a literal set).
A fixed finding suppresses nothing: its deviation action stays in the file as documentation but is disabled,
so a regression is rejected in KF mode too and reported as a VIOLATION."""
import glob, json, os, re, sys
V = os.path.dirname(os.path.dirname(os.path.abspath(__file__)))
fixed = {f["id"] for f in json.load(open(os.path.join(V, "known_findings.json")))["findings"] if f.get("status") == "fixed"}
files = [os.path.join(V, "spec", a) for a in sys.argv[1:]] or glob.glob(os.path.join(V, "spec", "Known_*.tla"))
for p in files:
    s = open(p).read()
    m = re.search(r"KnownIds == \{([^}]*)\}", s)
    if not m:
        continue
    ids = re.findall(r'"([^"]+)"', m.group(1))
    keep = [i for i in ids if i not in fixed]
    if keep == ids:
        continue
    new = "KnownIds == {" + ", ".join('"%s"' % i for i in keep) + "}"
    s = s[:m.start()] + new + s[m.end():]
    open(p, "w").write(s)
    print(os.path.basename(p), "disabled:", [i for i in ids if i in fixed])
