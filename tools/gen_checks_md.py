#!/usr/bin/env python3
"""Regenerate the table of DESIGN.md §0.6 (between <!-- CHECKS:BEGIN/END -->) from tools/props/*.py and evidence/*.json.
The 'bindings' column is kept from the existing row (hand-written); everything else is measured."""
import glob, json, os, re
V = "/verif"
d = open(V + "/DESIGN.md").read()
b, e = d.index("<!-- CHECKS:BEGIN -->"), d.index("<!-- CHECKS:END -->")
old = d[b:e]
bind = {}
for line in old.splitlines():
    m = re.match(r"\| (C\d\d) \| (.*?) \| (.*?) \|", line)
    if m:
        bind[m.group(1)] = m.group(3)
rows = ["<!-- CHECKS:BEGIN -->",
        "| id | TLA+ modules model-checked / generating / validating traces | bindings used | subjects | what the last quick run covered (evidence/<id>.json) | quick wall |",
        "|---|---|---|---|---|---|"]
for i in range(1, 21):
    p = "C%02d" % i
    src = "".join(open(f).read() for f in glob.glob(V + "/tools/props/%s*.py" % p))
    mc = sorted(set(re.findall(r'tlc_mc\("(\w+)"', src)))
    gen = sorted(set(re.findall(r'tlc_generate\("(\w+)"', src)))
    tr = sorted(set(re.findall(r'Trace_\w+', src)))
    mods = ", ".join(x[3:] for x in mc)
    if gen:
        mods += "; generators: " + ", ".join(x[3:] for x in gen)
    mods += "; trace specs: " + ", ".join(x[6:] for x in tr)
    try:
        ev = json.load(open(V + "/evidence/%s.json" % p)); c = ev["coverage"]
    except Exception:
        ev, c = {}, {}
    s = c.get("subjects")
    ns = len(s) if isinstance(s, (dict, list)) else (s if s else "")
    st = c.get("selftests"); nst = len(st) if isinstance(st, list) else (st or 0)
    cov = "%s events / evaluations, %s runs validated by TLC, %s states in the bounded models, %s binding self-tests rejected" % (
        c.get("evaluations", "?"), c.get("traces_validated_against_impl", "?"), c.get("states", "?"), nst)
    wall = "%s s (%s)" % (ev.get("wall_s", "?"), ev.get("tier", "?"))
    rows.append("| %s | %s | %s | %s | %s | %s |" % (p, mods, bind.get(p, ""), ns, cov, wall))
open(V + "/DESIGN.md", "w").write(d[:b] + "\n".join(rows) + "\n" + d[e:])
print("checks table regenerated")
