"""Orchestration library of the zipora /verif machinery (python3, stdlib only).

A property check (tools/props/Cxx.py) is a function run(ctx) that strings together
  * TLC model checking of the TLA+ specifications          (ctx.tlc_mc)
  * TLC behaviour / schedule / fault generation            (ctx.tlc_generate)
  * the Rust conformance harness against /repo             (ctx.harness)
  * TLC trace validation of what the real code did         (ctx.validate)
  * the binding self-test                                  (ctx.selftest_corrupt)
and ends in ctx.finish(), which matches rejections against known_findings.json, prints
KNOWN-FINDING / VIOLATION lines, writes evidence/<id>.json and sets the exit code:
0 held, 1 violation, 2 tool error.
"""
import concurrent.futures as cf
import hashlib
import json
import os
import re
import shutil
import subprocess
import sys
import time

VERIF = os.path.dirname(os.path.dirname(os.path.abspath(__file__)))
SPEC = os.path.join(VERIF, "spec")
HARNESS = os.path.join(VERIF, "harness")
WORK = os.path.join(VERIF, "work")
TARGET = os.path.join(WORK, "target")
REPO = "/repo"
JVM_LIB = "-DTLA-Library=" + os.path.join(SPEC, "lib")

# Testing a seeded change without touching /repo: ZV_REPO=<scratch worktree of infinilabs/zipora>.
# The harness crate is copied to work/alt-<tag>/harness with its path dependency pointing at that
# tree and its own target directory; evidence and replay files of such a run stay under work/.
ALT = None
if os.environ.get("ZV_REPO") and os.path.realpath(os.environ["ZV_REPO"]) != "/repo":
    REPO = os.path.realpath(os.environ["ZV_REPO"])
    ALT = hashlib.sha1(REPO.encode()).hexdigest()[:8]
    _alt = os.path.join(WORK, "alt-" + ALT)
    _h = os.path.join(_alt, "harness")
    os.makedirs(_h, exist_ok=True)
    subprocess.run(["rsync", "-a", "--delete", "--exclude", "target", "--exclude", ".cargo", os.path.join(HARNESS, "") , _h + "/"], check=True)
    _ct = open(os.path.join(HARNESS, "Cargo.toml")).read().replace('path = "/repo"', 'path = "%s"' % REPO)
    open(os.path.join(_h, "Cargo.toml"), "w").write(_ct)
    os.makedirs(os.path.join(_h, ".cargo"), exist_ok=True)
    _cc = open(os.path.join(HARNESS, ".cargo", "config.toml")).read().replace('target-dir = "../work/target"', 'target-dir = "%s"' % os.path.join(_alt, "target"))
    open(os.path.join(_h, ".cargo", "config.toml"), "w").write(_cc)
    HARNESS = _h
    TARGET = os.path.join(_alt, "target")
    WORK = os.path.join(_alt, "work")
    os.makedirs(WORK, exist_ok=True)


class ToolError(Exception):
    pass


def log(msg):
    print("[check] " + msg, file=sys.stderr, flush=True)


def sh(cmd, cwd=None, env=None, timeout=None, capture=True):
    e = dict(os.environ)
    if env:
        e.update(env)
    try:
        p = subprocess.run(cmd, cwd=cwd, env=e, timeout=timeout, shell=isinstance(cmd, str),
                           stdout=subprocess.PIPE if capture else None,
                           stderr=subprocess.STDOUT if capture else None, text=True, errors="replace")
        return p.returncode, (p.stdout or "")
    except subprocess.TimeoutExpired as ex:
        out = ex.stdout or ""
        if isinstance(out, bytes):
            out = out.decode(errors="replace")
        return 124, out


# ----------------------------------------------------------------------------- TLC

def parse_tlc(out):
    r = {"ok": False, "states_generated": 0, "distinct": 0, "depth": 0, "violated": None,
         "deadlock": False, "error": None, "coverage": {}}
    m = re.search(r"(\d+) states generated, (\d+) distinct states found", out)
    if m:
        r["states_generated"] = int(m.group(1))
        r["distinct"] = int(m.group(2))
    m = re.search(r"depth of the complete state graph search is (\d+)", out)
    if m:
        r["depth"] = int(m.group(1))
    m = re.search(r"Invariant (\S+) is violated", out)
    if m:
        r["violated"] = m.group(1)
    m = re.search(r"Temporal propert(?:y (\S+) was|ies were) violated", out)
    if m:
        r["violated"] = r["violated"] or (m.group(1) or "temporal")
    m = re.search(r"Action property (\S+) is violated", out)
    if m:
        r["violated"] = m.group(1)
    if "Deadlock reached" in out:
        r["deadlock"] = True
    if "Model checking completed. No error has been found." in out:
        r["ok"] = True
    m = re.search(r"^Error: (.*)$", out, re.M)
    if m and not r["ok"]:
        r["error"] = m.group(1)[:300]
    # per-action coverage:  <Action line .. of module M>: distinct:generated
    for m in re.finditer(r"^<(\w+) line \d+, col \d+ to line \d+, col \d+ of module (\w+)(?: \([^)]*\))?>: (\d+):(\d+)", out, re.M):
        key = m.group(2) + "." + m.group(1)
        r["coverage"][key] = r["coverage"].get(key, 0) + int(m.group(4))
    return r


def tlc(module, cfg=None, env=None, workers=4, timeout=600, extra=None, jvm=None, metadir=None, simulate=None, cwd=None):
    """run TLC on spec/<module>.tla; returns (parsed, raw output)"""
    cwd = cwd or SPEC
    cfg = cfg or (module + ".cfg")
    metadir = metadir or os.path.join(WORK, "tlc", "%s-%d-%d-%s" % (module, os.getpid(), int(time.time() * 1000) % 1000000, os.urandom(4).hex()))
    os.makedirs(os.path.dirname(metadir), exist_ok=True)
    jopts = "-Xss1g " + JVM_LIB + " " + (jvm or "-Xmx4g")
    e = {"JAVA_TOOL_OPTIONS": jopts}
    if env:
        e.update(env)
    cmd = ["timeout", str(timeout), "tlc", "-workers", str(workers), "-metadir", metadir, "-cleanup",
           "-noGenerateSpecTE", "-config", cfg]
    if simulate:
        cmd += ["-simulate", simulate]
    if extra:
        cmd += extra
    cmd += [module + ".tla"]
    rc, out = sh(cmd, cwd=cwd, env=e, timeout=timeout + 30)
    shutil.rmtree(metadir, ignore_errors=True)
    r = parse_tlc(out)
    r["rc"] = rc
    if rc == 124:
        r["error"] = "timeout"
    return r, out


def printed(out, tag):
    """values printed by TLC with PrintT(<<tag, ...>>): returns list of the raw remainder strings"""
    res = []
    pat = re.compile(r'^<<"' + re.escape(tag) + r'"(?:, (.*))?>>$')
    for line in out.splitlines():
        m = pat.match(line.strip())
        if m:
            res.append(m.group(1) or "")
    return res


def tla_string_unescape(s):
    """a TLA+ string literal as printed by TLC ("...") -> python str"""
    s = s.strip()
    if s.startswith('"') and s.endswith('"'):
        s = s[1:-1]
    return s.replace('\\"', '"').replace("\\\\", "\\")


# ----------------------------------------------------------------------------- trace files

def read_ndjson(path):
    with open(path) as f:
        return [json.loads(l) for l in f if l.strip()]


def write_ndjson(path, events):
    with open(path, "w") as f:
        for e in events:
            f.write(json.dumps(e, separators=(",", ":")) + "\n")


def split_runs(events):
    runs, cur = [], []
    for e in events:
        if e.get("op") == "reset" and cur:
            runs.append(cur)
            cur = []
        cur.append(e)
    if cur:
        runs.append(cur)
    return runs


def validate_one(trace_module, path, timeout=240, jvm="-Xmx2g", cfg=None, kf=False):
    """validate one NDJSON file; returns dict(accepted, rejected_at, event, kf:[ids], lines, err).
    kf=False: the strict contract.  kf=True: the named deviation actions of Known_<X>.tla are
    enabled (consulted only for runs the strict contract rejected)."""
    r, out = tlc(trace_module, cfg=cfg, env={"TRACE": path, "KF": "1" if kf else "0"}, workers=1, timeout=timeout,
                 jvm=jvm + " -Dtlc2.tool.queue.IStateQueue=StateDeque")
    res = {"file": path, "accepted": False, "rejected_at": None, "event": None, "kf": [], "err": None,
           "states": r["distinct"]}
    acc = printed(out, "ACCEPTED")
    if acc:
        res["accepted"] = True
        res["lines"] = int(acc[0])
    rej = printed(out, "REJECTED_AT")
    if rej:
        res["rejected_at"] = int(rej[0])
        ev = printed(out, "REJECTED_EVENT")
        if ev:
            try:
                res["event"] = json.loads(tla_string_unescape(ev[0]))
            except Exception:
                res["event"] = ev[0]
    for k in printed(out, "KFSET"):
        for kid in re.findall(r'"([^"]+)"', k):
            if (kid, None) not in res["kf"]:
                res["kf"].append((kid, None))
    if not acc and not rej:
        res["err"] = (r.get("error") or "TLC gave no verdict") + "\n" + out[-1500:]
    return res


# ----------------------------------------------------------------------------- context

class Ctx:
    def __init__(self, pid, level, tier, seed, design_ref=""):
        self.pid = pid
        self.level = level
        self.tier = tier
        self.seed = seed
        self.t0 = time.time()
        self.work = os.path.join(WORK, pid)
        shutil.rmtree(self.work, ignore_errors=True)
        os.makedirs(self.work, exist_ok=True)
        self.replays = os.path.join(VERIF, "replays", pid) if ALT is None else os.path.join(WORK, "replays", pid)
        if ALT is not None:
            self.is_replay = True   # evidence of an alternative-tree run is not the registered evidence
        os.makedirs(self.replays, exist_ok=True)
        self.violations = []      # dicts: replay, what
        self.kf_hit = {}          # id -> count
        self.cov = {"evaluations": 0, "distinct_nontrivial": 0, "states": 0, "transitions": 0,
                    "traces_validated_against_impl": 0, "samples": [], "rule": "", "exhaustive": False,
                    "models": [], "unexercised_actions": [], "events_validated": 0, "selftests": []}
        self.assumptions = []
        self.tool_errors = []
        self.known = load_known().get(pid, [])
        self.jobs = int(os.environ.get("VERIF_JOBS", "12"))
        self._distinct = set()

    @property
    def thorough(self):
        return self.tier == "thorough"

    # ---- harness
    def build(self, binname):
        t = time.time()
        lock = os.path.join(HARNESS, "Cargo.lock")
        if not os.path.exists(lock):
            shutil.copy(os.path.join(REPO, "Cargo.lock"), lock)
        rc, out = sh(["cargo", "build", "--release", "--offline", "--bin", binname], cwd=HARNESS, timeout=1800)
        if rc != 0:
            # a change to /repo that no longer compiles is not a property verdict
            raise ToolError("harness build failed:\n" + out[-3000:])
        log("built %s in %.1fs" % (binname, time.time() - t))
        return os.path.join(TARGET, "release", binname)

    def harness(self, binname, mode, outdir, extra=None, timeout=1200, subject=None, allow_fail=False):
        exe = os.path.join(TARGET, "release", binname)
        out = os.path.join(self.work, outdir)
        shutil.rmtree(out, ignore_errors=True)
        os.makedirs(out, exist_ok=True)
        cmd = [exe, "--mode", mode, "--seed", str(self.seed), "--tier", self.tier, "--out", out]
        if subject:
            cmd += ["--subject", subject]
        for k, v in (extra or {}).items():
            cmd += ["--" + k, str(v)]
        t = time.time()
        rc, o = sh(cmd, cwd=VERIF, timeout=timeout)
        log("harness %s %s: rc=%d %.1fs" % (binname, mode, rc, time.time() - t))
        if rc != 0 and not allow_fail:
            raise ToolError("harness %s --mode %s failed rc=%d\n%s" % (binname, mode, rc, o[-3000:]))
        summ = {}
        sp = os.path.join(out, "summary.json")
        if os.path.exists(sp):
            summ = json.load(open(sp))
        summ["_rc"] = rc
        summ["_out"] = out
        summ["_cmd"] = cmd
        summ["_stdout"] = o[-4000:]
        return summ

    # ---- TLC model checking
    def tlc_mc(self, module, cfg=None, expect="ok", workers=8, timeout=900, note="", required_actions=(), jvm=None):
        """exhaustive TLC run of a bounded model.  expect: 'ok' or the name of an invariant/property
        that is *expected* to be violated (a mechanism model of a recorded defect)."""
        t = time.time()
        r, out = tlc(module, cfg=cfg, workers=workers, timeout=timeout, extra=["-coverage", "1"], jvm=jvm)
        dt = time.time() - t
        entry = {"module": module, "cfg": cfg or module + ".cfg", "distinct_states": r["distinct"],
                 "states_generated": r["states_generated"], "depth": r["depth"], "wall_s": round(dt, 1),
                 "verdict": "ok" if r["ok"] else ("violated:" + str(r["violated"]) if r["violated"] else "error"),
                 "expected": expect, "note": note}
        self.cov["models"].append(entry)
        self.cov["states"] += r["distinct"]
        self.cov["transitions"] += r["states_generated"]
        log("TLC %s/%s: %s, %d distinct, %.1fs" % (module, entry["cfg"], entry["verdict"], r["distinct"], dt))
        if expect == "ok":
            if not r["ok"]:
                raise ToolError("TLC model %s did not pass: %s\n%s" % (module, entry["verdict"], out[-3000:]))
        else:
            if r["violated"] not in expect.split("|"):
                raise ToolError("TLC model %s: expected violation of %s, got %s\n%s" % (module, expect, entry["verdict"], out[-3000:]))
        never = [a for a, n in r["coverage"].items() if n == 0]
        for a in required_actions:
            hits = [n for k, n in r["coverage"].items() if k.endswith("." + a)]
            if not hits or sum(hits) == 0:
                raise ToolError("vacuity: required action %s never taken in %s" % (a, module))
        entry["actions_never_taken"] = never
        return r, out

    def tlc_generate(self, module, cfg=None, tag="REPLAY", outfile=None, workers=8, timeout=900, simulate=None, env=None, jvm=None):
        """run TLC as a generator: collects the JSON payloads printed as <<tag, ToJson(..)>>"""
        t = time.time()
        r, out = tlc(module, cfg=cfg, workers=workers, timeout=timeout, simulate=simulate, env=env, jvm=jvm)
        items = []
        for s in printed(out, tag):
            items.append(tla_string_unescape(s))
        dt = time.time() - t
        if r["rc"] not in (0,) and not items:
            raise ToolError("TLC generator %s failed: %s\n%s" % (module, r.get("error"), out[-2000:]))
        outfile = outfile or os.path.join(self.work, module + "." + tag.lower() + ".ndjson")
        with open(outfile, "w") as f:
            for s in items:
                f.write(s + "\n")
        self.cov["models"].append({"module": module, "cfg": cfg or module + ".cfg", "role": "generator",
                                   "distinct_states": r["distinct"], "states_generated": r["states_generated"],
                                   "generated": len(items), "wall_s": round(dt, 1)})
        self.cov["states"] += r["distinct"]
        self.cov["transitions"] += r["states_generated"]
        log("TLC generator %s: %d items, %d distinct states, %.1fs" % (module, len(items), r["distinct"], dt))
        return outfile, len(items)

    # ---- trace validation
    def validate(self, trace_module, files, what="", max_reject_per_file=6, timeout=240, cfg=None, jvm="-Xmx2g"):
        """validate trace files in parallel against the strict contract.  When a run is rejected, all runs
        of the same subject are cut out of the file and validated again with the named deviation actions
        of the known findings enabled (KF mode); the remainder of the file is validated strictly again, so
        one rejection never leaves the rest unexamined.  A run rejected in KF mode too is a violation."""
        t = time.time()
        files = list(files)
        total_runs = 0
        total_events = 0

        def locate(evs, line):
            runs = split_runs(evs)
            pos = 0
            for i, run in enumerate(runs):
                if pos < line <= pos + len(run):
                    return runs, i, line - pos
                pos += len(run)
            return runs, None, None

        def kf_pass(path, tag):
            """validate a single-subject file in KF mode; returns list of result dicts (violations carry run_events)"""
            out = []
            cur = path
            for attempt in range(3):
                r = validate_one(trace_module, cur, timeout=timeout, cfg=cfg, jvm=jvm, kf=True)
                r["origin"] = path
                r["mode"] = "kf"
                out.append(r)
                if r["accepted"] or r["err"] or r["rejected_at"] is None:
                    break
                evs = read_ndjson(cur)
                runs, idx, k = locate(evs, r["rejected_at"])
                if idx is None:
                    break
                r["run_events"] = runs[idx]
                r["line_in_run"] = k
                rest = [e for i, run in enumerate(runs) if i != idx for e in run]
                if not rest:
                    break
                cur = "%s.kfrest%d" % (path, attempt)
                write_ndjson(cur, rest)
            return out

        def work(path):
            res = []
            cur = path
            # every iteration removes one subject from the file, so the loop ends after at most
            # (#subjects + 1) strict passes; nothing is ever left unexamined
            try:
                nsubj = len({e.get("subject") for e in read_ndjson(path) if e.get("op") == "reset"})
            except Exception:
                nsubj = max_reject_per_file
            for attempt in range(max(max_reject_per_file, nsubj) + 1):
                r = validate_one(trace_module, cur, timeout=timeout, cfg=cfg, jvm=jvm)
                r["origin"] = path
                r["mode"] = "strict"
                if r["accepted"] or r["err"] or r["rejected_at"] is None:
                    res.append(r)
                    break
                evs = read_ndjson(cur)
                runs, idx, k = locate(evs, r["rejected_at"])
                if idx is None:
                    r["err"] = "cannot locate rejected line %s" % r["rejected_at"]
                    res.append(r)
                    break
                subj = runs[idx][0].get("subject")
                same = [e for run in runs if run[0].get("subject") == subj for e in run]
                rest = [e for run in runs if run[0].get("subject") != subj for e in run]
                # events of the strictly accepted prefix still count as validated
                r["strict_prefix"] = max(0, r["rejected_at"] - 1)
                r["superseded"] = True
                res.append(r)
                p_same = "%s.subj%d" % (path, attempt)
                write_ndjson(p_same, same)
                kfres = kf_pass(p_same, subj)
                fixed_ids = {k["id"] for k in self.known if k.get("status") == "fixed"}
                for x in kfres:
                    hit_fixed = [kid for kid, _ in x["kf"] if kid in fixed_ids]
                    if x["accepted"] and hit_fixed:
                        # a finding recorded as FIXED explains this run again: the defect is back.
                        # A fixed entry suppresses nothing -> report the strict rejection.
                        x["accepted"] = False
                        x["rejected_at"] = r["rejected_at"]
                        x["event"] = r["event"]
                        x["run_events"] = runs[idx]
                        x["line_in_run"] = k
                        x["regressed"] = hit_fixed
                        x["kf"] = [(kid, ln) for kid, ln in x["kf"] if kid not in fixed_ids]
                res.extend(kfres)
                if not rest:
                    break
                cur = "%s.rest%d" % (path, attempt)
                write_ndjson(cur, rest)
            return res

        results = []
        with cf.ThreadPoolExecutor(max_workers=self.jobs) as ex:
            for res in ex.map(work, files):
                results.extend(res)
        n_rej = 0
        for r in results:
            if r["err"]:
                self.tool_errors.append("trace validation of %s: %s" % (r["file"], r["err"][:800]))
                continue
            if r.get("superseded"):
                continue
            for kid, line in r["kf"]:
                self.kf_hit[kid] = self.kf_hit.get(kid, 0) + 1
            if r["accepted"]:
                self.cov["events_validated"] += r.get("lines", 0)
            else:
                n_rej += 1
                self.cov["events_validated"] += max(0, (r["rejected_at"] or 1) - 1)
                self._record_rejection(trace_module, r, what)
        for p in files:
            try:
                evs = read_ndjson(p)
                total_events += len(evs)
                total_runs += sum(1 for e in evs if e.get("op") == "reset")
            except Exception:
                pass
        self.cov["traces_validated_against_impl"] += total_runs
        log("validated %d files (%d runs, %d events) with %s: %d rejections, %.1fs" %
            (len(files), total_runs, total_events, trace_module, n_rej, time.time() - t))
        return results

    def _record_rejection(self, trace_module, r, what):
        run = r.get("run_events") or []
        head = run[0] if run else {}
        n = len(self.violations) + 1
        name = "%s-%s-%03d.json" % (self.tier, hashlib.sha1(json.dumps([head, r.get("event")], sort_keys=True).encode()).hexdigest()[:10], n)
        path = os.path.join(self.replays, name)
        k = r.get("line_in_run") or len(run)
        rep = {"property": self.pid, "kind": "rejected_trace", "trace_spec": trace_module, "what": what,
               "subject": head.get("subject"), "reset": head, "rejected_line_in_run": k,
               "rejected_event": r.get("event"), "seed": self.seed, "tier": self.tier,
               "events": run[:k], "how_to_replay": "./check %s --replay %s" % (self.pid, path)}
        if r.get("regressed"):
            rep["regression_of_fixed_findings"] = r["regressed"]
        json.dump(rep, open(path, "w"), indent=1)
        self.violations.append({"replay": path, "subject": head.get("subject"), "event": r.get("event"),
                                "what": what})

    def add_violation(self, what, replay_obj, subject=None):
        n = len(self.violations) + 1
        name = "%s-%s-%03d.json" % (self.tier, hashlib.sha1(json.dumps(replay_obj, sort_keys=True, default=str).encode()).hexdigest()[:10], n)
        path = os.path.join(self.replays, name)
        replay_obj = dict(replay_obj)
        replay_obj.setdefault("property", self.pid)
        replay_obj.setdefault("what", what)
        json.dump(replay_obj, open(path, "w"), indent=1, default=str)
        self.violations.append({"replay": path, "subject": subject, "what": what, "event": None})

    # ---- binding self-test
    def selftest_corrupt(self, trace_module, path, mutate, what, cfg=None):
        """take the first run of a validated trace file, corrupt one field, expect REJECTION."""
        evs = read_ndjson(path)
        runs = split_runs(evs)
        for run in runs:
            mutated = mutate([dict(e) for e in run])
            if mutated is None:
                continue
            p = os.path.join(self.work, "selftest-%d.ndjson" % len(self.cov["selftests"]))
            write_ndjson(p, mutated)
            r = validate_one(trace_module, p, cfg=cfg)
            ok = (not r["accepted"]) and r["rejected_at"] is not None
            self.cov["selftests"].append({"what": what, "rejected_as_expected": ok, "at": r["rejected_at"]})
            if not ok:
                raise ToolError("binding self-test failed: corrupted trace (%s) was not rejected: %s" % (what, r))
            log("self-test ok: %s (rejected at line %s)" % (what, r["rejected_at"]))
            return True
        raise ToolError("binding self-test: no run suitable for corruption (%s)" % what)

    # ---- evidence helpers
    def count_case(self, key):
        self._distinct.add(key)

    def sample(self, obj, limit=6):
        if len(self.cov["samples"]) < limit:
            self.cov["samples"].append(obj)

    def sample_from_trace(self, path, max_events=12):
        try:
            evs = read_ndjson(path)
            self.sample({"trace_file": os.path.relpath(path, VERIF), "first_events": evs[:max_events]})
        except Exception:
            pass

    # ---- finish
    def finish(self):
        # match violations against known findings
        printed_kf = set()
        real = []
        for v in self.violations:
            kf = match_known(self.known, v)
            if kf:
                printed_kf.add(kf["id"])
                self.kf_hit[kf["id"]] = self.kf_hit.get(kf["id"], 0) + 1
            else:
                real.append(v)
        known_by_id = {k["id"]: k for k in self.known}
        for kid in sorted(self.kf_hit):
            k = known_by_id.get(kid)
            if k is None:
                # a deviation id TLC reported that the findings file does not list: that is a bug of the machinery
                self.tool_errors.append("deviation %s taken but not listed in known_findings.json" % kid)
                continue
            if k.get("status") == "fixed":
                # a fixed entry suppresses nothing
                real.append({"replay": k.get("witness", ""), "what": "fixed finding %s reproduced again" % kid, "subject": k.get("subject")})
                continue
            print("KNOWN-FINDING: property=%s %s [%s] (seen %d×)" % (self.pid, k["what"], kid, self.kf_hit[kid]))
        for v in real:
            print("VIOLATION property=%s replay=%s" % (self.pid, v["replay"]))
            log("  violation: subject=%s event=%s %s" % (v.get("subject"), json.dumps(v.get("event"))[:300], v.get("what", "")))
        self.cov["distinct_nontrivial"] = max(self.cov["distinct_nontrivial"], len(self._distinct))
        self.cov["known_findings_seen"] = sorted(self.kf_hit)
        ev = {"property_id": self.pid, "tier": self.tier, "seed": self.seed, "level": self.level,
              "coverage": self.cov, "assumptions": self.assumptions, "wall_s": round(time.time() - self.t0, 1),
              "violations": len(real)}
        if self.tool_errors:
            ev["coverage"]["tool_errors"] = self.tool_errors[:10]
        os.makedirs(os.path.join(VERIF, "evidence"), exist_ok=True)
        # a --replay invocation must not overwrite the evidence of the last full run
        evpath = os.path.join(self.work, "replay-evidence.json") if getattr(self, "is_replay", False) else os.path.join(VERIF, "evidence", self.pid + ".json")
        json.dump(ev, open(evpath, "w"), indent=1, default=str)
        if real:
            return 1
        if self.tool_errors:
            for t in self.tool_errors[:10]:
                log("TOOL ERROR: " + t)
            return 2
        return 0


# ----------------------------------------------------------------------------- known findings

def load_known():
    p = os.path.join(VERIF, "known_findings.json")
    if not os.path.exists(p):
        return {}
    d = json.load(open(p))
    res = {}
    for k in d.get("findings", []):
        res.setdefault(k["property"], []).append(k)
    return res


def match_known(known, v):
    """a rejection matches a known finding only through an explicit matcher of that finding:
    subject (exact or prefix*) AND operation AND optional extra field equalities of the rejected event."""
    ev = v.get("event") if isinstance(v.get("event"), dict) else {}
    for k in known:
        if k.get("status") == "fixed":
            continue
        m = k.get("match")
        if not m:
            continue
        subj = v.get("subject") or ""
        ms = m.get("subject", "")
        if ms.endswith("*"):
            if not subj.startswith(ms[:-1]):
                continue
        elif ms != subj:
            continue
        if "op" in m and ev.get("op") != m["op"]:
            continue
        if "in" in m and ev.get("in") != m["in"]:
            continue
        ok = True
        for f, val in m.get("fields", {}).items():
            if ev.get(f) != val:
                ok = False
        if ok:
            return k
    return None
