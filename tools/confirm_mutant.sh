#!/bin/bash
# confirm_mutant.sh <worktree> <name> : confirm a seeded change (patch already applied in the worktree;
# _mutant/{patch.diff,demo.rs,meta.json} present): full test suite passes with the change, the demo
# fails with it and passes without it.  Writes <worktree>/_mutant/confirm.log and copies to /verif/seeded/<name>/.
W=$1; N=$2
export CARGO_TARGET_DIR=$W/target CARGO_NET_OFFLINE=true
cd $W || exit 2
L=$W/_mutant/confirm.log; : > $L
echo "== git diff --stat (change applied)" >> $L; git diff --stat -- src >> $L
echo "== full suite with the change: cargo nextest run --workspace --no-fail-fast --offline" >> $L
cargo nextest run --workspace --no-fail-fast --offline --test-threads 6 > $W/_mutant/suite.log 2>&1
grep -E "^\s+(FAIL|SIGSEGV|SIGABRT|TIMEOUT)" $W/_mutant/suite.log | sort -u | head -20 >> $L
grep -E "Summary|tests run" $W/_mutant/suite.log | tail -2 >> $L
cp _mutant/demo.rs tests/zz_mutant_demo.rs
echo "== demo WITH the change (expected: fails)" >> $L
cargo test --offline --test zz_mutant_demo > $W/_mutant/demo_with.log 2>&1; echo "exit=$?" >> $L; grep -E "^test result|panicked" $W/_mutant/demo_with.log | head -5 >> $L
git apply -R _mutant/patch.diff || { echo "cannot revert" >> $L; exit 2; }
echo "== demo WITHOUT the change (expected: passes)" >> $L
cargo test --offline --test zz_mutant_demo > $W/_mutant/demo_without.log 2>&1; echo "exit=$?" >> $L; grep -E "^test result" $W/_mutant/demo_without.log | head -5 >> $L
git apply _mutant/patch.diff
rm -f tests/zz_mutant_demo.rs
mkdir -p /verif/seeded/$N
cp _mutant/patch.diff _mutant/demo.rs _mutant/meta.json _mutant/confirm.log /verif/seeded/$N/
echo done >> $L
