#!/usr/bin/env python3
"""Regenerates /verif/MANIFEST.json from the table below.  A property is claimed when
tools/props/<id>.py exists and the table marks it ready; everything else is listed under
not_applicable with the reason."""
import json
import os
import subprocess

V = os.path.dirname(os.path.dirname(os.path.abspath(__file__)))

# id -> (level, technique, level text, level note, design ref)
P = {
 "C01": ("exploration", "TLA+ CodecSession contract + FreqNorm/PrefixCode mechanism invariants evaluated by TLC over recorded sessions of every codec variant (trace validation)",
         "Session contract (train/encode/decode with digest identity) in TLA+, evaluated by TLC over traces of real codec sessions across variants x input families; table invariants (normalisation, Kraft) evaluated by TLC on the real tables.",
         "bounded input families; payload equality via (len, 60-bit digest) projected by the harness; TLC is the judge", "DESIGN.md §8 C01"),
 "C02": ("exploration", "TLA+ CompressorFraming contract; TLC validates recorded compress/decompress sessions of every compressor front end",
         "Round-trip contract evaluated by TLC over recorded sessions for every Algorithm / profile / mode / PA-Zip preset.",
         "bounded input families; digests", "DESIGN.md §8 C02"),
 "C03": ("model_checking", "TLA+ BlobStore contract: TLC enumerates all short histories (expected results attached) replayed into every store; TLC trace validation of random histories",
         "Exhaustive abstract history space of the BlobStore contract bound to every store type; every recorded event judged by TLC.",
         "histories bounded by L; payload equality via digest", "DESIGN.md §8 C03"),
 "C04": ("exploration", "TLA+ RankSelect definition evaluated by TLC on batch events carrying the answers of every implementation for every position",
         "Definitional oracle in TLA+; exhaustive over positions for every vector explored.",
         "vectors bounded; TLC evaluates the definition", "DESIGN.md §8 C04"),
 "C05": ("model_checking", "TLA+ ByteSet contract: TLC-generated histories over prefix-structured keys replayed into every trie strategy; TLC trace validation",
         "Exhaustive abstract history space of the ByteSet contract bound to every trie strategy and wrapper; every observation judged by TLC.",
         "histories bounded by L over 7 structured keys + random histories", "DESIGN.md §8 C05"),
 "C06": ("model_checking", "TLA+ Map contract (Map.tla): TLC enumerates every mutating history of length L with expected results, replayed into ~50 map subjects (type x config x hash profile); TLC trace validation (Trace_Map.tla) of seeded random histories",
         "The Map contract is model-checked for small constants; its complete history space up to length L (65 536 histories quick, 1 048 576 thorough) is executed on every map type/preset/hash profile and compared with TLC-computed results; every random-history event is judged by TLC against the contract.",
         "bounded: 3 keys x 2 values x L for the exhaustive part, seeded random otherwise; the harness projects keys to ids; TLC is the only judge", "DESIGN.md §8 C06"),
 "C07": ("model_checking", "TLA+ Allocator contract (live ranges disjoint, aligned, contents intact): TLC-generated alloc/free histories over size classes replayed into every pool; TLC trace validation with order-compressed addresses",
         "Contract model-checked; histories over class-boundary sizes bound to every pool; TLC judges disjointness/alignment/intactness on recorded addresses.",
         "addresses coordinate-compressed by the harness (order preserving); memory content observation by the harness", "DESIGN.md §8 C07"),
 "C08": ("model_checking", "TLA+ mechanism specs of the lock-free free lists (OffsetStack tagged/untagged, TreiberBoxed): TLC explores all interleavings; TLC-derived schedules replayed on real threads under a cooperative scheduler (hooks), recorded runs judged by the Allocator contract",
         "All interleavings of 2-3 threads on the mechanism models; schedule replay binds them to the real pools; ownership/well-formedness judged by TLC.",
         "sequentially consistent interleavings only; hooks at atomic operations", "DESIGN.md §8 C08"),
 "C09": ("exploration", "TLA+ PackedSeq contract evaluated by TLC on build/read-back batch events of every packed integer container",
         "Sequence-equality contract judged by TLC over input families x types x constructors.",
         "bounded input families", "DESIGN.md §8 C09"),
 "C10": ("model_checking", "TLA+ Seq/Deque contracts with drop accounting: TLC-generated histories replayed into every vector/queue type; TLC trace validation",
         "Exhaustive short histories over capacities forcing growth/wrap; every step's full content and drop list judged by TLC.",
         "histories bounded by L", "DESIGN.md §8 C10"),
 "C11": ("exploration", "TLA+ SortMerge/SetOps definitions evaluated by TLC on recorded inputs/outputs of every sort/merge/set-operation entry point",
         "Definitional oracle in TLA+.", "bounded inputs; large inputs via projections (inversion count, multiset digest)", "DESIGN.md §8 C11"),
 "C12": ("exploration", "TLA+ SuffixArray definitions evaluated by TLC on arrays produced by every construction algorithm for all small texts",
         "Definitional oracle in TLA+; exhaustive small-scope texts.", "bounded texts", "DESIGN.md §8 C12"),
 "C13": ("exploration", "TLA+ Wire contract (write appends n bytes; read returns the value and consumes n) evaluated by TLC on recorded encode/decode streams",
         "Stream contract judged by TLC per strategy/back end.", "bounded value families", "DESIGN.md §8 C13"),
 "C14": ("exploration", "TLA+ Kernels definitions (compare, find, UTF-8, CRC32C, Base64, bit ops) computed by TLC; vectors generated from the spec, results of the accelerated paths judged by TLC",
         "Specification oracle written in TLA+.", "host CPU tier (AVX-512) plus maskable tiers", "DESIGN.md §8 C14"),
 "C15": ("fault_enumeration", "TLA+ Parser fault model: TLC enumerates mutation descriptors per valid encoding; harness applies them in resource-limited child processes; TLC judges outcomes (ok|err only)",
         "Fault model enumerated exhaustively per encoding.", "child-process containment; RLIMIT_AS; wall-clock limit", "DESIGN.md §8 C15"),
 "C16": ("model_checking", "TLA+ Tokens contract + VersionManagerMech/TokenCacheMech mechanism specs: TLC explores all interleavings; schedules replayed on real threads under the cooperative scheduler (hooks); recorded runs judged by the contract",
         "All interleavings of 2-3 threads on the mechanism model; schedule replay binds to the real VersionManager.", "SC interleavings; hooks", "DESIGN.md §8 C16"),
 "C17": ("model_checking", "TLA+ Lru / PageCache contracts: TLC-generated histories replayed into LruMap/ConcurrentLruMap/page caches; TLC trace validation",
         "Exhaustive short histories with eviction on nearly every step.", "bounded", "DESIGN.md §8 C17"),
 "C18": ("model_checking", "TLA+ Executor contract + WorkStealingMech (liveness under weak fairness); queue behaviours replayed on the real WorkStealingQueue; executor runs recorded via hooks and judged by TLC",
         "Liveness and exactly-once checked by TLC on the mechanism; bound by replay and trace validation.", "timing assumption for 'never starts'", "DESIGN.md §8 C18"),
 "C19": ("fault_enumeration", "TLA+ DurableFile crash model: TLC enumerates crash images (truncations, block rollbacks, header/data mixtures) of files the real code wrote; reopen outcomes judged by TLC",
         "Crash model enumerated per recorded write history.", "block-prefix crash model; child processes", "DESIGN.md §8 C19"),
 "C20": ("exploration", "TLA+ Strings/NumericCmp/LexIter definitions evaluated by TLC on recorded comparison matrices and iterator walks",
         "Specification oracle in TLA+.", "bounded string pools", "DESIGN.md §8 C20"),
}

READY_FILE = os.path.join(V, "tools", "ready.json")


def main():
    ready = json.load(open(READY_FILE)) if os.path.exists(READY_FILE) else {}
    hooks_commits = []
    try:
        out = subprocess.run(["git", "-C", "/repo", "log", "--format=%h %s"], capture_output=True, text=True).stdout
        hooks_commits = [l.split()[0] for l in out.splitlines() if "verif hooks" in l]
    except Exception:
        pass
    checks, na = [], []
    for pid in sorted(P):
        level, tech, text, note, ref = P[pid]
        if pid in ready and os.path.exists(os.path.join(V, "tools", "props", pid + ".py")):
            r = ready[pid]
            checks.append({
                "property_id": pid,
                "quick_cmd": "./check %s --tier quick" % pid,
                "thorough_cmd": "./check %s --tier thorough" % pid,
                "evidence_file": "/verif/evidence/%s.json" % pid,
                "replay_cmd_template": "./check %s --replay {path}" % pid,
                "engine": "tla-tlc-trace",
                "level_claimed": {"category": r.get("level", level), "text": r.get("text", text), "design_ref": ref},
                "level_note": r.get("note", note),
                "technique": r.get("technique", tech),
            })
        else:
            na.append({"property_id": pid, "reason": "no registered check yet: the TLA+ contract and harness for this property are not built in this revision (planned: %s)" % ref})
    m = {
        "version": 1,
        "setup_cmd": "./setup.sh",
        "hooks": {
            "guard": "zipora_verif",
            "enable": "RUSTFLAGS '--cfg zipora_verif --check-cfg cfg(zipora_verif)' set by /verif/harness/.cargo/config.toml (the harness crate has a path dependency on /repo)",
            "baseline_off_cmd": "cd /repo && cargo test --workspace --no-fail-fast --offline",
            "source_commits": hooks_commits,
            "add_only": True,
        },
        "engines": [{
            "name": "tla-tlc-trace",
            "path": "/verif/check",
            "serves_properties": [c["property_id"] for c in checks],
            "kind_free_text": "explicit TLA+ specifications (spec/*.tla) checked with TLC; bound to the code by TLC trace validation of recorded executions (Trace_*.tla), replay of TLC-generated behaviours/schedules/faults into the real code (harness/), and known-finding deviation actions (Known_*.tla)",
        }],
        "checks": checks,
        "not_applicable": na,
        "notes": "See DESIGN.md.  ./check <id> --tier quick|thorough; VERIF_SEED seeds every random choice; exit 0 held / 1 VIOLATION / 2 tool error.",
    }
    json.dump(m, open(os.path.join(V, "MANIFEST.json"), "w"), indent=1)
    print("MANIFEST.json: %d checks, %d not claimed" % (len(checks), len(na)))


if __name__ == "__main__":
    main()
