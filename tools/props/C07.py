"""C07 — live allocations from any pool never overlap and keep their contents.

spec/Allocator.tla is the contract (live ranges, capacity, alignment, region, free / double free /
foreign free, contents).  spec/SizeClassPool.tla is the mechanism of the size-class pools, model
checked against the contract's invariants (carving the class size holds; carving the request size
and the wrapping offset counter violate NoOverlap - both are what the pinned tree does).
MC_AllocatorGen generates every alloc/free history of length L over the abstract sizes
{c-1,c,c+1} x two adjacent classes + {min,max,max+1} (B2).  harness bin c07 runs ~75 subjects
(pool x config preset), each in a child process; Trace_Allocator validates every recorded run.

Known findings: the witness of every recorded finding is executed first (own child process) and
judged by TLC; a finding that reproduces prints its KNOWN-FINDING line and its trigger region is
left out of the random driver for that subject; one that no longer reproduces is driven in full.
"""
import glob
import itertools
import json
import os

import vlib

LEVEL = "model_checking"
BIN = "c07"
TRACE = "Trace_Allocator"

# vlib.tlc names its metadir <module>-<pid>-<milliseconds>: two validations of small trace files started by the
# thread pool within the same millisecond share (and clean up) one directory.  Give every TLC call its own.
_tlc = vlib.tlc
_seq = itertools.count()


def _tlc_unique(module, *a, **kw):
    if not kw.get("metadir"):
        kw["metadir"] = os.path.join(vlib.WORK, "tlc", "%s-%d-u%d" % (module, os.getpid(), next(_seq)))
    return _tlc(module, *a, **kw)


vlib.tlc = _tlc_unique


# ---------------------------------------------------------------- binding self-tests

def corrupt_overlap(run):
    """move the address ranks of a block onto those of another block that is still live"""
    live = {}
    for e in run:
        if e.get("op") == "alloc" and e.get("ok"):
            for b, (lo, hi) in live.items():
                if hi > lo and e["len"] > 0:
                    e["lo"], e["hi"] = lo, hi
                    return run
            live[e["b"]] = (e["lo"], e["hi"])
        elif e.get("op") == "free":
            live.pop(e.get("b"), None)
        elif e.get("op") == "release":
            for b in e.get("bs", []):
                live.pop(b, None)
    return None


def corrupt_intact(run):
    """flip one `intact` flag of a touch event"""
    for e in run:
        if e.get("op") == "touch" and e.get("r"):
            e["r"][0][1] = False
            return run
    return None


def corrupt_free(run):
    """a free of a live block reported as failed"""
    for e in run:
        if e.get("op") == "free" and e.get("ok") is True:
            e["ok"] = False
            return run
    return None


def corrupt_short(run):
    """a block shorter than requested"""
    for e in run:
        if e.get("op") == "alloc" and e.get("ok") and e.get("req", 0) > 1:
            e["len"] = e["req"] - 1
            return run
    return None


def corrupt_capacity(run):
    """a success beyond the stated capacity"""
    for e in run:
        if e.get("op") == "alloc" and e.get("ok") and e.get("cap"):
            e["cap"] = [max(0, e["len"] - 1)]
            return run
    return None


def corrupt_span(run):
    """a block outside the single arena the pool owns: extent of the issued blocks larger than the capacity"""
    for e in run:
        if e.get("op") == "alloc" and e.get("ok") and e.get("cap") and e.get("span"):
            e["span"] = [e["cap"][0] + 1]
            return run
    return None


def _first_run_fam(path):
    try:
        with open(path) as f:
            return json.loads(f.readline()).get("fam")
    except Exception:
        return None


def _gen_cfg(ctx):
    return "MC_AllocatorGen5.cfg" if ctx.thorough else "MC_AllocatorGen.cfg"


def _witnesses(ctx, outdir="wit"):
    """run the witnesses of the recorded findings; TLC's verdict decides what still reproduces"""
    before = dict(ctx.kf_hit)
    sw = ctx.harness(BIN, "witness", outdir, timeout=300)
    wfiles = sorted(glob.glob(os.path.join(sw["_out"], "*.ndjson")))
    ctx.validate(TRACE, wfiles, what="witness of a recorded finding")
    reproduced = sorted(k for k in ctx.kf_hit if ctx.kf_hit[k] > before.get(k, 0))
    return sw, wfiles, reproduced


def run(ctx):
    ctx.build(BIN)
    # --- mechanism model against the contract invariants
    ctx.tlc_mc("MC_SizeClassPool", cfg="MC_SizeClassPool.cfg", required_actions=("Alloc",),
               note="size-class mechanism carving the class size: NoOverlap, SizesOk, InArena, refinement of the contract")
    ctx.tlc_mc("MC_SizeClassPool", cfg="MC_SizeClassPool_request.cfg", expect="NoOverlap",
               note="carving the request size (lockfree_pool.rs allocate_new_block, threadlocal_pool.rs HotArea): overlap after recycling under a neighbouring size")
    ctx.tlc_mc("MC_SizeClassPool", cfg="MC_SizeClassPool_wrap.cfg", expect="NoOverlap",
               note="offset counter advancing on refusals and wrapping (lockfree_pool.rs next_offset.fetch_add as u32)")
    ctx.tlc_mc("MC_BumpArena", cfg="MC_BumpArena.cfg", required_actions=("Alloc", "ScopeEnd"),
               note="bump pointer rounding the address, scopes and reset: NoOverlap, SizesOk, InBuffer, AlignOk")
    ctx.tlc_mc("MC_BumpArena", cfg="MC_BumpArena_offset.cfg", expect="AlignOk",
               note="rounding the offset on a base that is only 8-aligned (bump.rs alloc_bytes): misaligned blocks")
    # --- B2: all histories of length L
    beh, nbeh = ctx.tlc_generate("MC_AllocatorGen", cfg=_gen_cfg(ctx), timeout=1500, jvm="-Xmx8g")
    if nbeh == 0:
        raise vlib.ToolError("MC_AllocatorGen produced no behaviours")
    # --- witnesses of the recorded findings (each in its own child), judged by TLC
    sw, wfiles, reproduced = _witnesses(ctx)
    excl = ",".join(reproduced)
    vlib.log("findings reproduced by their witness: %s" % (excl or "none"))
    # --- B2 executions and B1 random histories, trigger regions of reproduced findings left out
    s2 = ctx.harness(BIN, "replay", "b2", extra={"in": beh, "exclude": excl or "none", "sample": 400 if ctx.thorough else 250,
                                                  "max_mismatch": 60}, timeout=3000)
    s1 = ctx.harness(BIN, "drive", "b1", extra={"exclude": excl or "none"}, timeout=3000)
    b1files = sorted(glob.glob(os.path.join(s1["_out"], "*.ndjson")))
    b2files = sorted(glob.glob(os.path.join(s2["_out"], "*.ndjson")))
    ctx.validate(TRACE, b1files + b2files, what="allocate/free history")
    # --- binding self-tests
    clean = [f for f in b1files if _first_run_fam(f) in ("fixedcap", "mempool", "lockfree", "fl_nolock", "mmap")] or b1files
    touching = [f for f in b1files if _first_run_fam(f) in ("fixedcap", "mempool", "lockfree", "mmap")] or b1files
    capped = [f for f in b1files if _first_run_fam(f) in ("fixedcap", "lockfree", "fl_nolock")] or b1files
    ctx.selftest_corrupt(TRACE, clean[0], corrupt_overlap, "address ranks of a block moved onto a live block (overlap)")
    ctx.selftest_corrupt(TRACE, touching[0], corrupt_intact, "an `intact` flag of a touch event flipped")
    ctx.selftest_corrupt(TRACE, clean[0], corrupt_free, "a free of a live block reported as failed")
    ctx.selftest_corrupt(TRACE, clean[0], corrupt_short, "a block shorter than requested")
    ctx.selftest_corrupt(TRACE, capped[0], corrupt_capacity, "a success beyond the stated capacity")
    spanned = [f for f in b1files if _first_run_fam(f) in ("fixedcap", "lockfree", "bump")] or b1files
    ctx.selftest_corrupt(TRACE, spanned[0], corrupt_span, "blocks of a single-arena pool further apart than its capacity")
    # --- concurrent users of the same pools: "any two allocations that are live at the same time occupy disjoint
    # byte ranges ... freeing returns the block for reuse without disturbing any other live block" also when the
    # two owners are different threads.  The pools' behaviour under concurrent callers is specified in
    # PoolOwnership.tla (the contract of property C08); its random-schedule and free-running drivers (harness bin
    # c08) are run here as well, without the subjects that carry C08's own known findings, and judged by TLC
    # (Trace_PoolConc).  A rejection is a violation of the overlap / reuse clauses of C07.
    ctx.build("c08")
    conc_subjects = ("fcp,fcp_lazy,fcp_tiny,fcp_small,fcp_medium,fcp_rt,fcp_sec,fcp_secraw,fcp_seclazy,lfp,lfp_def,lfp_hp,lfp_zero,"
                     "fl5,fl5_h3,fl5_perf,fl5_mem,fl5_rt,mx5,mx5_h2,sec0,sec1,sec2,sec8,sec_small,sec_nz,sec_cfg,basic,basic_small")
    sc1 = ctx.harness("c08", "rsched", "conc_rsched", subject=conc_subjects, timeout=1500, allow_fail=True)
    sc2 = ctx.harness("c08", "stress", "conc_stress", subject=conc_subjects, timeout=2400, allow_fail=True)
    cfiles = sorted(glob.glob(os.path.join(sc1["_out"], "*.ndjson"))) + sorted(glob.glob(os.path.join(sc2["_out"], "*.ndjson")))
    if not cfiles:
        raise vlib.ToolError("concurrent-users step produced no trace")
    ev_before = ctx.cov.get("events_validated", 0)
    ctx.validate("Trace_PoolConc", cfiles, what="concurrent users of one pool (overlap / reuse clauses)")
    ctx.cov["concurrent_runs"] = sc1.get("runs", 0) + sc2.get("runs", 0)
    ctx.cov["concurrent_events"] = ctx.cov.get("events_validated", 0) - ev_before
    # --- evidence
    cov = ctx.cov
    cov["b1_events"] = s1.get("events", 0)
    cov["b1_runs"] = s1.get("runs", 0)
    cov["b2_behaviours"] = nbeh
    cov["b2_events"] = s2.get("events", 0)
    cov["b2_runs_validated"] = s2.get("runs", 0)
    cov["witness_runs"] = sw.get("runs", 0)
    cov["findings_reproduced"] = reproduced
    cov["children_crashed"] = s1.get("crashes", 0) + s2.get("crashes", 0)
    # a child that ran out of time gives no verdict: its unfinished run is dropped by the harness, never judged
    cov["children_timed_out"] = s1.get("children_timed_out", 0) + s2.get("children_timed_out", 0)
    cov["subjects"] = {}
    vacuous, refusals, b2_exec = [], 0, 0
    for name, d in sorted(s1.get("subjects", {}).items()):
        b = s2.get("subjects", {}).get(name, {})
        cov["subjects"][name] = {"b1": {k: d.get(k) for k in ("runs", "alloc_ok", "refused", "frees", "touched", "panics", "events", "constructed")},
                                 "b2": {k: b.get(k) for k in ("histories", "skipped", "stride", "sized", "written", "mismatching", "alloc_ok", "refused", "panics")}}
        refusals += d.get("refused", 0) + b.get("refused", 0)
        b2_exec += b.get("histories", 0)
        if d.get("alloc_ok", 0) + b.get("alloc_ok", 0) == 0:
            vacuous.append(name)
    cov["b2_executions"] = b2_exec
    # vacuity: the actions the property is about were exercised by the real code at all
    tot = {k: sum((d.get(k) or 0) for d in s1.get("subjects", {}).values()) for k in ("alloc_ok", "frees", "touched")}
    for k, v in tot.items():
        if v == 0:
            raise vlib.ToolError("vacuity: no subject ever performed '%s'" % k)
    cov["refusals"] = refusals
    cov["vacuous_subjects"] = vacuous
    cov["evaluations"] = cov["events_validated"] + b2_exec
    cov["distinct_nontrivial"] = cov["traces_validated_against_impl"]
    cov["exhaustive"] = False
    cov["rule"] = ("distinct = recorded runs validated by TLC against Allocator.tla: (subject, seed-derived random history) of B1, "
                   "(subject, TLC-generated history, concretisation) of B2 that were sampled or differed in the equality pre-filter, and the "
                   "witness runs; every counted run contains at least one allocation attempt, subjects on which no allocation ever succeeded are "
                   "listed as vacuous.  B2: every alloc/free history of length %s over 9 abstract sizes (class-1, class, class+1 of two adjacent "
                   "classes, min, max, max+1), <= 4 live blocks, generated by TLC (MC_AllocatorGen); each is executed on every subject (fixed-chunk "
                   "pools: once per shape; subjects with expensive blocks: every stride-th history in the quick tier, see subjects.*.b2), the "
                   "abstract sizes mapped to the pool's own size-class table; TLC validates a seeded sample of 1/%s of the executions per subject "
                   "plus every execution that differed from the values TLC computed (free must succeed, set of live blocks).  B1: seeded random "
                   "histories (mixed / churn around neighbouring classes / exhaustion), sizes around every class boundary of the pool's table."
                   % ("5" if ctx.thorough else "4", "400" if ctx.thorough else "250"))
    if b1files:
        ctx.sample_from_trace(b1files[0], 10)
    if b2files:
        ctx.sample_from_trace(b2files[0], 9)
    if wfiles:
        ctx.sample_from_trace(wfiles[0], 8)
    ctx.assumptions += [
        "TLC evaluates Allocator.tla over the recorded events; the harness only projects: block ids, sizes, address mod alignment, order-compressed "
        "addresses (ranks of all interval end points of a run), the capacity / region the pool states, and the `intact` flag obtained by re-reading the "
        "block-specific pattern it wrote",
        "blocks above 16 KiB are written / re-read at their first and last 4 KiB and every 509th byte in between",
        "SecureMemoryPool and the guard-only pools report nothing on release: the result of a free is the change of the pool's own error counters (secure) or assumed ok (guards whose Drop swallows errors)",
        "the five-level pools expose no accessor to the memory behind a MemOffset: overlap, alignment, region and capacity are checked on offsets, contents are not",
        "pools whose arena base is private (LockFreeMemoryPool, FixedCapacityMemoryPool, BumpAllocator) are checked against the stated capacity, not against an address region",
        "B1/B2 are sequential histories; concurrent users are covered by the random-schedule and stress drivers of C08 (PoolOwnership.tla) run on 29 pool configurations, the exhaustive TLC-generated schedules stay in C08; bounded: B2 histories of length L, seeded random B1",
        "HugePageAllocator: the machine has no hugepages, every request is refused (vacuous subject)",
    ]


def replay(ctx, path):
    rep0 = json.load(open(path))
    if rep0.get("trace_spec") == "Trace_PoolConc":
        # a run of the concurrent-users step: re-executed by the C08 driver, judged by the same trace spec
        from props import C08
        return C08.replay(ctx, path)
    """re-execute the subject of a replay file against the current tree and validate again"""
    rep = json.load(open(path))
    ctx.build(BIN)
    subj = rep.get("subject")
    reset = rep.get("reset", {})
    ctx.tier = rep.get("tier", ctx.tier)
    ctx.seed = rep.get("seed", ctx.seed)
    mode = reset.get("mode", "b1")
    sw, wfiles, reproduced = _witnesses(ctx, "rp-wit")
    excl = ",".join(reproduced) or "none"
    if mode in ("wit", "witness"):
        s = sw
        files = wfiles
    elif mode in ("b2", "replay"):
        beh, _ = ctx.tlc_generate("MC_AllocatorGen", cfg=_gen_cfg(ctx), timeout=1500, jvm="-Xmx8g")
        s = ctx.harness(BIN, "replay", "rp", extra={"in": beh, "exclude": excl, "sample": 1, "max_mismatch": 100000}, subject=subj, timeout=3000)
        files = sorted(glob.glob(os.path.join(s["_out"], "*.ndjson")))
        ctx.validate(TRACE, files, what="replay of " + os.path.basename(path))
    else:
        s = ctx.harness(BIN, "drive", "rp", extra={"exclude": excl}, subject=subj, timeout=3000)
        files = sorted(glob.glob(os.path.join(s["_out"], "*.ndjson")))
        ctx.validate(TRACE, files, what="replay of " + os.path.basename(path))
    ctx.cov["evaluations"] = s.get("events", 0)
    ctx.cov["distinct_nontrivial"] = s.get("runs", 0)
    ctx.cov["rule"] = "replay of one subject"
    ctx.sample({"replayed": path})
