"""C09 — compressed integer vectors return every stored value unchanged.

spec/PackedSeq.tla is the contract (state: the sequence of stored values, opaque decimal strings);
MC_PackedSeq checks exhaustively (3 values, <= 4 elements) that the contract accepts exactly one answer
per read and the push/set laws; MC_PackedSeqGen generates every push/set history of length L (B2) with
the content after every step computed by TLC; harness bin c09 builds every subject (IntVec<8 types> x 3
constructors, UintVector, UintVecMin0, ZipIntVec, SortedUintVec x 5 configs x 5 block sizes) from the
input families (length class x value profile), logs input + complete read-back + out-of-range probes;
Trace_PackedSeq validates every event.
"""
import glob
import json
import os

import vlib

LEVEL = "exploration"
BIN = "c09"
TRACE = "Trace_PackedSeq"


def corrupt_readback_element(run):
    """one element of a complete read-back changed"""
    for e in run:
        if e.get("op") == "readback" and e.get("n", 0) >= 3 and len(e.get("out", [])) >= 3:
            k = len(e["out"]) // 2
            e["out"] = list(e["out"])
            e["out"][k] = e["out"][k] + "1"
            return run
    return None


def corrupt_oob_into_value(run):
    """an out-of-range probe (refused by the code) turned into a value"""
    n = None
    for e in run:
        if e.get("op") == "readback":
            n = e.get("n")
        if e.get("op") == "probes" and n:
            g = [dict(p) for p in e["g"]]
            for p in g:
                if p.get("k") == "get" and p.get("how") in ("none", "err") and p.get("r") == []:
                    p["how"] = "value"
                    p["r"] = ["0"]
                    e["g"] = g
                    return run
    return None


def corrupt_len(run):
    for e in run:
        if e.get("op") == "len" and e.get("n", 0) >= 1:
            e["n"] = e["n"] + 1
            return run
    return None


def _corrupt_field(op, field, what=None):
    """corruptor: first event `op` (optionally with e['what'] == what) whose list field has an element to change"""
    def f(run):
        for e in run:
            if e.get("op") == op and (what is None or e.get("what") == what) and isinstance(e.get(field), list) and e[field]:
                v = list(e[field])
                k = len(v) // 2
                v[k] = (v[k] + "7") if isinstance(v[k], str) else v[k]
                e[field] = v
                return run
        return None
    return f


def corrupt_back(run):
    for e in run:
        if e.get("op") == "back" and e.get("how") == "value":
            e["r"] = [e["r"][0] + "1"]
            return run
    return None


def corrupt_back_empty(run):
    """back() on an empty vector (refused by the code) turned into a value"""
    for e in run:
        if e.get("op") == "back" and e.get("how") != "value":
            e["r"] = ["0"]
            e["how"] = "value"
            return run
    return None


def corrupt_clear(run):
    for e in run:
        if e.get("op") == "clear":
            e["n"] = 1
            return run
    return None


def corrupt_is_empty(run):
    for e in run:
        if e.get("op") == "len" and "empty" in e:
            e["empty"] = not e["empty"]
            return run
    return None


def corrupt_resize_prefix(run):
    for e in run:
        if e.get("op") == "resize" and e.get("n", 0) >= 2 and len(e.get("out", [])) >= 2:
            out = list(e["out"])
            out[0] = out[0] + "3"
            e["out"] = out
            return run
    return None


def corrupt_block(run):
    n = 0
    for e in run:
        if e.get("op") == "readback":
            n = e.get("n", 0)
        # (only elements inside the vector are specified: the padding of the last block is not)
        if e.get("op") == "readblocks" and n >= 3 and len(e.get("out", [])) >= 3:
            out = list(e["out"])
            out[1] = out[1] + "1"
            e["out"] = out
            return run
    return None


def corrupt_get2(run):
    for e in run:
        if e.get("op") == "readback2" and len(e.get("out", [])) >= 2:
            out = [list(x) for x in e["out"]]
            out[-1][1] = out[-1][1] + "1"
            e["out"] = out
            return run
    return None


def _short(e, k=8):
    e = dict(e)
    for f in ("xs", "out", "g"):
        if isinstance(e.get(f), list) and len(e[f]) > k:
            e[f] = e[f][:k] + ["... %d in all" % len(e[f])]
    if isinstance(e.get("d"), dict) and "urk" in e["d"]:
        d = dict(e["d"])
        d["urk"] = "(%d ranks)" % len(d["urk"])
        e["d"] = d
    return e


def _sample_runs(ctx, path, want=2, min_n=60):
    try:
        evs = vlib.read_ndjson(path)
    except Exception:
        return
    got = 0
    for run in vlib.split_runs(evs):
        n = (run[0].get("d") or {}).get("n", 0)
        if n >= min_n and run[0].get("profile") in ("full", "outliers", "gap") and any(e.get("op") == "readback" for e in run):
            ctx.sample({"trace_file": os.path.relpath(path, vlib.VERIF), "run": [_short(e) for e in run[:6]]}, limit=8)
            got += 1
            if got >= want:
                return


def run(ctx):
    ctx.build(BIN)
    # --- the contract itself, exhaustively for small constants
    ctx.tlc_mc("MC_PackedSeq", note="PackedSeq contract: exactly one accepted answer per read, push/set/build laws; 3 values, <= 4 elements")
    # --- B2: all push/set histories of length L, content after every step computed by TLC
    gen_cfg = "MC_PackedSeqGen6.cfg" if ctx.thorough else "MC_PackedSeqGen.cfg"
    beh, nbeh = ctx.tlc_generate("MC_PackedSeqGen", cfg=gen_cfg, timeout=1200, jvm="-Xmx6g")
    if nbeh == 0:
        raise vlib.ToolError("MC_PackedSeqGen produced no behaviours")
    s2 = ctx.harness(BIN, "replay", "b2", extra={"in": beh, "sample": 400 if ctx.thorough else 40, "max_mismatch": 30})
    # --- B1: input families (length class x value profile) per subject
    s1 = ctx.harness(BIN, "drive", "b1", timeout=3000 if ctx.thorough else 900)
    if s1.get("crashed_groups"):
        vlib.log("crashed subject groups: %s" % s1["crashed_groups"])
    b1files = sorted(glob.glob(os.path.join(s1["_out"], "*.ndjson")))
    b2files = sorted(glob.glob(os.path.join(s2["_out"], "*.ndjson")))
    # largest first: the wall time of the parallel validation is bounded by the largest file
    files = sorted(b1files + b2files, key=lambda p: -os.path.getsize(p))
    ctx.validate(TRACE, files, what="packed integer container: build, complete read-back, out-of-range probes",
                 timeout=1500 if ctx.thorough else 600, jvm="-Xmx3g -XX:ParallelGCThreads=2")
    # --- binding self-tests on a subject without findings: corrupted results must be rejected
    clean = [p for p in b1files if "ps-uintvec-" in os.path.basename(p)] or b1files
    ctx.selftest_corrupt(TRACE, clean[0], corrupt_readback_element, "one element of a complete read-back changed")
    ctx.selftest_corrupt(TRACE, clean[0], corrupt_oob_into_value, "an out-of-range probe (refused by the code) turned into a value")
    ctx.selftest_corrupt(TRACE, clean[0], corrupt_len, "len() result changed by +1")
    # one corruption per event kind of the further entry points (back, resize, clear, clone / shrink_to_fit /
    # inner view, swap, is_empty) and of the other batch reads (get2, get_block)
    zi = [p for p in b1files if "ps-zipint-" in os.path.basename(p)][:1] or b1files[:1]
    so = [p for p in b1files if "ps-sorted_default-" in os.path.basename(p)][:1] or b1files[:1]
    clean = [p for p in b1files if "ps-uintvec-" in os.path.basename(p)][:1] or b1files[:1]
    for mut, what in [
        (corrupt_back, "back(): returned value changed"),
        (corrupt_back_empty, "back() on an empty vector (refused by the code) turned into a value"),
        (corrupt_resize_prefix, "resize(): an element of the preserved prefix changed"),
        (corrupt_clear, "clear(): length afterwards reported as 1"),
        (corrupt_is_empty, "is_empty() flipped"),
        (_corrupt_field("maintain", "out", "clone"), "clone(): one element of the clone's read-back changed"),
        (_corrupt_field("maintain", "out", "shrink_to_fit"), "shrink_to_fit(): one element of the read-back afterwards changed"),
        (_corrupt_field("maintain", "out", "inner+min_val"), "inner() + min_val() view: one element changed"),
        (_corrupt_field("swap", "out"), "swap(): one element of the read-back after the swap changed"),
        (corrupt_get2, "get2 read-back: second component of the last pair changed"),
    ]:
        ctx.selftest_corrupt(TRACE, zi[0], mut, what)
    ctx.selftest_corrupt(TRACE, so[0], corrupt_block, "get_block read-back: one element changed")
    # --- evidence
    cov = ctx.cov
    cov["evaluations"] = s1.get("events", 0) + s2.get("events", 0) + s2.get("executions", 0)
    cov["b1_events"] = s1.get("events", 0)
    cov["b1_runs"] = s1.get("runs", 0)
    cov["b2_behaviours"] = nbeh
    cov["b2_executions"] = s2.get("executions", 0)
    cov["b2_events"] = s2.get("events", 0)
    cov["subjects"] = {}
    nontrivial = 0
    vacuous = []
    refused = 0
    for name, d in sorted(s1.get("subjects", {}).items()):
        b = s2.get("subjects", {}).get(name, {})
        cov["subjects"][name] = {"b1": d, "b2": b}
        nontrivial += d.get("runs_nontrivial", 0) + b.get("behaviours", 0)
        refused += d.get("build_refused", 0)
        if d.get("runs_nontrivial", 0) == 0 and b.get("behaviours", 0) == 0:
            vacuous.append(name)
    cov["distinct_nontrivial"] = nontrivial
    cov["vacuous_subjects"] = vacuous
    cov["builds_refused_with_error"] = refused
    cov["crashed_groups"] = s1.get("crashed_groups", [])
    cov["exhaustive"] = False
    cov["rule"] = ("B1: one case = (subject, value domain, value profile, length) with a non-empty input whose construction "
                   "succeeded, so that the complete read-back (every element through get, and get2 / fast_get / get_block where "
                   "offered) plus >= 13 out-of-range probes were judged by TLC against PackedSeq.tla; subjects = container type x "
                   "element type x constructor / configuration x block size; profiles = %d value profiles x lengths "
                   "0,1,2,63,64,65,127,128,129,255,256,257,1000 (+10000,10001 rotating; thorough: all and 70000), plus the width sweeps "
                   "(for every bit width 1..64 the container can choose: w<k> range of exactly k bits with the top bit set, dw<k> sorted with "
                   "k-bit deltas, bs<k> block bases of k bits, lengths 67/99/131 and 1029..1174; SortedUintVec: every sample_width 16..64 x "
                   "offset widths 8..32 x use_simd x block size), construction-route twins (new+set, resize_with_*+set, risk_set_data, "
                   "with_capacity, extend, with_pool) and the further entry points (back, resize, shrink_to_fit, clone, inner view, swap, clear); cases are distinct by "
                   "construction (different subject or different generated input); empty inputs and refused builds are not counted.  "
                   "B2: (subject, concretisation, history) for every history of %s successful push/set operations over 3 abstract values "
                   "generated by TLC from MC_PackedSeqGen, content after every step compared for equality with the TLC-computed one; "
                   "mismatching and sampled histories judged by TLC." % (18, "6" if ctx.thorough else "5"))
    for p in (clean[:1] + [q for q in b1files if "intvec_i64" in q][:1] + [q for q in b1files if "sorted_default" in q][:1]):
        _sample_runs(ctx, p, want=1)
    if b2files:
        evs = vlib.read_ndjson(b2files[0])
        ctx.sample({"trace_file": os.path.relpath(b2files[0], vlib.VERIF), "first_events": [_short(e) for e in evs[:8]]}, limit=8)
    ctx.assumptions += [
        "TLC evaluates PackedSeq.tla over the recorded events; the harness only generates inputs, calls through and projects (decimal strings, index limbs, input descriptors)",
        "UintVecMin0::build_from_* returns (vector of value - min, min): the adapter reads element i as min + get(i) (wrapping in the element type), as the API documents",
        "the static fast_get sees only the padded byte buffer: judged inside the vector and for indices >= 2^40 only",
        "bounded: seeded input families (VERIF_SEED) and push/set histories of length <= L; no claim for inputs outside them",
        "out-of-range get / get2 / set of UintVecMin0 and ZipIntVec are documented panics and accepted as refusals; for all other subjects only None / Err is accepted",
    ]


def replay(ctx, path):
    """re-execute the subject of a replay file against the current tree and validate again"""
    rep = json.load(open(path))
    ctx.build(BIN)
    subj = rep.get("subject")
    reset = rep.get("reset", {})
    ctx.tier = rep.get("tier", ctx.tier)
    ctx.seed = rep.get("seed", ctx.seed)
    if reset.get("mode") == "b2":
        gen_cfg = "MC_PackedSeqGen6.cfg" if ctx.tier == "thorough" else "MC_PackedSeqGen.cfg"
        beh, _ = ctx.tlc_generate("MC_PackedSeqGen", cfg=gen_cfg, timeout=1200, jvm="-Xmx6g")
        s = ctx.harness(BIN, "replay", "rp", extra={"in": beh, "sample": 1, "max_mismatch": 100000}, subject=subj)
    else:
        s = ctx.harness(BIN, "drive", "rp", subject=subj, timeout=3000)
    files = sorted(glob.glob(os.path.join(s["_out"], "*.ndjson")))
    ctx.validate(TRACE, files, what="replay of " + os.path.basename(path), timeout=1500, jvm="-Xmx3g -XX:ParallelGCThreads=2")
    ctx.cov["evaluations"] = s.get("events", 0)
    ctx.cov["distinct_nontrivial"] = s.get("runs", 0)
    ctx.cov["rule"] = "replay of one subject"
    ctx.sample({"replayed": path})
